(* Par_Proof.v — property C15: the generic theorems about Par_Model.

   run_frame        what an iteration does depends only on the shared keys of its footprint and on the
                    private keys it does not re-initialise (frame / locality);
   private_reinit   (P = False) the shared effect of a body is the same from any private state, on any
                    thread;
   bernstein        disjoint shared footprints + private re-initialisation: every reachable
                    configuration is race-free and every complete schedule of every assignment ends
                    in the same shared memory (given in closed form: key x holds what its owning
                    iteration, run alone from the initial memory, leaves there) and logs, per
                    iteration, the same blocks in the same order;
   bernstein_sequential  in particular the same as iterations 0..n-1 in order on one thread;
   proj_perm        equal per-iteration logs => the two logs are permutations of each other.

   All proofs by induction on programs / schedules; nothing bounded. *)
From Coq Require Import List Arith Bool Lia Permutation.
Import ListNotations.
From TK Require Import Par_Model Par_Spec.

Section ParProof.
  Variable K : Type.
  Variable K_eqb : K -> K -> bool.
  Hypothesis K_eqb_spec : forall x y, K_eqb x y = true <-> x = y.
  Variable V : Type.
  Variable C : Type.
  Notation prog := (prog K V C).
  Notation state := (state K V C).
  Notation queues := (queues K V C).
  Notation run := (run K_eqb).
  Notation tstep := (tstep K_eqb).
  Notation sched_step := (sched_step K_eqb).
  Notation run_sched := (run_sched K_eqb).
  Notation seq_run := (seq_run K_eqb).
  Notation upd := (upd K_eqb).
  Notation updp := (updp K_eqb).
  Notation ids := (map (@fst nat prog)).

  (* ------------------------------------------------------------------ small facts *)
  Lemma K_eqb_refl : forall x, K_eqb x x = true.
  Proof. intros x. apply K_eqb_spec. reflexivity. Qed.

  Lemma K_eqb_neq : forall x y, x <> y -> K_eqb x y = false.
  Proof.
    intros x y Hn. destruct (K_eqb x y) eqn:E; [|reflexivity].
    apply K_eqb_spec in E. contradiction.
  Qed.

  Lemma upd_same : forall (m : K -> V) x v, upd m x v x = v.
  Proof. intros. unfold Par_Model.upd. rewrite K_eqb_refl. reflexivity. Qed.

  Lemma upd_other : forall (m : K -> V) x v y, x <> y -> upd m x v y = m y.
  Proof. intros. unfold Par_Model.upd. rewrite K_eqb_neq by assumption. reflexivity. Qed.

  Lemma proj_cons : forall i j (c : C) l,
    proj i ((j, c) :: l) = if Nat.eqb j i then c :: proj i l else proj i l.
  Proof. intros. unfold proj. cbn. destruct (Nat.eqb j i); reflexivity. Qed.

  Lemma proj_nil : forall i, proj i (@nil (nat * C)) = [].
  Proof. reflexivity. Qed.

  Lemma reinit_mono : forall (p : prog) (P Q : K -> Prop),
    (forall x, P x -> Q x) -> reinit P p -> reinit Q p.
  Proof.
    induction p as [|l k IH|l v k IH|c k IH]; intros P Q HPQ H; cbn in *.
    - exact I.
    - destruct l as [x|x].
      + intros v. eapply IH; [exact HPQ|apply H].
      + destruct H as [Hx H]. split; [apply HPQ; exact Hx|].
        intros v. eapply IH; [exact HPQ|apply H].
    - destruct l as [x|x].
      + eapply IH; [exact HPQ|exact H].
      + eapply IH; [|exact H]. intros y [Hy|Hy]; [left; exact Hy|right; apply HPQ; exact Hy].
    - eapply IH; [exact HPQ|exact H].
  Qed.

  Lemma reinit_top : forall (p : prog) (P : K -> Prop), (forall x, P x) -> reinit P p.
  Proof.
    induction p as [|l k IH|l v k IH|c k IH]; intros P HP; cbn.
    - exact I.
    - destruct l as [x|x].
      + intros v. apply IH. exact HP.
      + split; [apply HP|]. intros v. apply IH. exact HP.
    - destruct l as [x|x]; apply IH; [exact HP|]. intros y. right. apply HP.
    - apply IH. exact HP.
  Qed.

  Lemma tstep_none : forall t i (p : prog) st, tstep t i p st = None -> p = Ret.
  Proof. intros t i p st H. destruct p; cbn in H; try discriminate. reflexivity. Qed.

  Lemma run_step : forall t i (p p' : prog) st st',
    tstep t i p st = Some (p', st') -> run t i p st = run t i p' st'.
  Proof.
    intros t i p p' st st' H. destruct p; cbn in H; try discriminate;
      injection H as <- <-; reflexivity.
  Qed.

  Lemma within_step : forall (R W : K -> Prop) t i (p p' : prog) st st',
    tstep t i p st = Some (p', st') -> within R W p -> within R W p'.
  Proof.
    intros R W t i p p' st st' H Hw. destruct p as [|l k|l v k|c k]; cbn in H; try discriminate;
      injection H as <- <-; cbn in Hw.
    - destruct l; [apply Hw|apply Hw].
    - destruct l; [apply Hw|exact Hw].
    - exact Hw.
  Qed.

  (* what one action can change *)
  Lemma step_effect : forall (R W : K -> Prop) t i (p p' : prog) st st',
    tstep t i p st = Some (p', st') -> within R W p ->
    (forall u, u <> t -> pr st' u = pr st u) /\
    (forall x, ~ W x -> sh st' x = sh st x) /\
    (forall j, j <> i -> proj j (clog st') = proj j (clog st)) /\
    (forall j c, In (j, c) (clog st') -> In (j, c) (clog st) \/ j = i).
  Proof.
    intros R W t i p p' st st' H Hw. destruct p as [|l k|l v k|c k]; cbn in H; try discriminate;
      injection H as <- <-.
    - repeat split; auto.
    - destruct l as [x|x]; cbn in *.
      + destruct Hw as [HWx _]. repeat split; auto.
        intros y Hy. apply upd_other. intros ->. contradiction.
      + repeat split; auto.
        intros u Hu. unfold Par_Model.updp.
        destruct (Nat.eqb t u) eqn:E; [apply Nat.eqb_eq in E; subst; contradiction|reflexivity].
    - unfold crit. cbn [sh pr clog]. repeat split; auto.
      + intros j Hj. rewrite proj_cons.
        destruct (Nat.eqb i j) eqn:E; [apply Nat.eqb_eq in E; subst; contradiction|reflexivity].
      + intros j c' [Heq|Hin]; [right; congruence|left; exact Hin].
  Qed.

  (* ------------------------------------------------------------------ frame lemma *)
  Lemma run_frame : forall (p : prog) (P R W : K -> Prop) t t' i (st st' : state),
    within R W p -> reinit P p ->
    (forall x, R x \/ W x -> sh st x = sh st' x) ->
    (forall x, P x -> pr st t x = pr st' t' x) ->
    proj i (clog st) = proj i (clog st') ->
    (forall x, R x \/ W x -> sh (run t i p st) x = sh (run t' i p st') x) /\
    proj i (clog (run t i p st)) = proj i (clog (run t' i p st')).
  Proof.
    induction p as [|l k IH|l v k IH|c k IH]; intros P R W t t' i st st' Hw Hr Hs Hp Hl; cbn.
    - split; assumption.
    - destruct l as [x|x]; cbn in *.
      + destruct Hw as [Hx Hw]. rewrite (Hs x Hx). eapply IH; eauto.
      + destruct Hr as [Hx Hr]. rewrite (Hp x Hx). eapply IH; eauto.
    - destruct l as [x|x]; cbn in *.
      + destruct Hw as [Hx Hw]. eapply IH; eauto; cbn.
        intros y Hy. unfold Par_Model.upd. destruct (K_eqb x y); [reflexivity|apply Hs; exact Hy].
      + eapply IH; eauto; cbn.
        intros y Hy. unfold Par_Model.updp. rewrite !Nat.eqb_refl. unfold Par_Model.upd.
        destruct (K_eqb x y) eqn:E; [reflexivity|].
        destruct Hy as [->|Hy]; [rewrite K_eqb_refl in E; discriminate|apply Hp; exact Hy].
    - cbn in Hw, Hr. eapply IH; [exact Hw|exact Hr|exact Hs|exact Hp|].
      unfold crit. cbn [clog]. rewrite !proj_cons.
      destruct (Nat.eqb i i); [f_equal; exact Hl|exact Hl].
  Qed.

  (* the shared effect of a re-initialising body does not depend on the thread nor on the private
     state it starts with *)
  Theorem private_reinit : forall (p : prog) (R W : K -> Prop) t t' i m (p1 p2 : nat -> K -> V) lg,
    within R W p -> reinit (fun _ => False) p ->
    (forall x, R x \/ W x ->
       sh (run t i p (mkState m p1 lg)) x = sh (run t' i p (mkState m p2 lg)) x) /\
    proj i (clog (run t i p (mkState m p1 lg))) = proj i (clog (run t' i p (mkState m p2 lg))).
  Proof.
    intros p R W t t' i m p1 p2 lg Hw Hr.
    apply (run_frame p (fun _ => False) R W t t' i (mkState m p1 lg) (mkState m p2 lg) Hw Hr).
    - intros; reflexivity.
    - intros x [].
    - reflexivity.
  Qed.

  (* a body leaves every shared key outside its write footprint alone *)
  Lemma run_outside : forall (p : prog) (R W : K -> Prop) t i (st : state),
    within R W p -> forall x, ~ W x -> sh (run t i p st) x = sh st x.
  Proof.
    induction p as [|l k IH|l v k IH|c k IH]; intros R W t i st Hw x Hx; cbn.
    - reflexivity.
    - destruct l as [y|y]; cbn in Hw; [destruct Hw as [_ Hw]|]; eapply IH; eauto.
    - destruct l as [y|y]; cbn in Hw.
      + destruct Hw as [Hy Hw]. rewrite (IH R W t i _ Hw x Hx). cbn.
        apply upd_other. intros ->. contradiction.
      + rewrite (IH R W t i _ Hw x Hx). reflexivity.
    - cbn in Hw. rewrite (IH R W t i _ Hw x Hx). reflexivity.
  Qed.

  (* ------------------------------------------------------------------ the parallel loop *)
  Variable n : nat.
  Variable body : nat -> prog.
  Variables R W : nat -> K -> Prop.
  Hypothesis Hdisj : fp_disjoint n R W.
  Hypothesis Hwithin : forall i, i < n -> within (R i) (W i) (body i).
  Hypothesis Hreinit : forall i, i < n -> reinit (fun _ => False) (body i).
  Variable m0 : K -> V.
  Variable pref : nat -> K -> V.

  Definition st_ref : state := mkState m0 pref [].
  (* what iteration i, run alone on thread 0 from the initial memory, leaves at x / logs *)
  Definition Final (i : nat) (x : K) : V := sh (run 0 i (body i) st_ref) x.
  Definition isolog (i : nat) : list C := proj i (clog (run 0 i (body i) st_ref)).

  (* wave 3: the invariant is relative to the set `cov` of iterations some thread has been given (all of them for a
     valid assignment; a proper subset when the team runs only part of the iteration space) *)
  Section Partial.
  Variable cov : nat -> Prop.

  Record Inv (qs : queues) (st : state) : Prop := {
    inv_nodup : forall t, NoDup (ids (qs t));
    inv_uniq : forall t u i, In i (ids (qs t)) -> In i (ids (qs u)) -> t = u;
    inv_lt : forall t i, In i (ids (qs t)) -> i < n;
    inv_cov : forall t i, In i (ids (qs t)) -> cov i;
    inv_tail : forall t i p r, qs t = (i, p) :: r -> forall j q, In (j, q) r -> q = body j;
    inv_hw : forall t i p r, qs t = (i, p) :: r -> within (R i) (W i) p;
    inv_head : forall t i p r, qs t = (i, p) :: r ->
       (forall x, W i x -> sh (run t i p st) x = Final i x) /\
       proj i (clog (run t i p st)) = isolog i;
    inv_fin : forall i, i < n -> cov i -> (forall t, ~ In i (ids (qs t))) ->
       (forall x, W i x -> sh st x = Final i x) /\ proj i (clog st) = isolog i;
    inv_ulog : forall t i p r j, qs t = (i, p) :: r -> In j (ids r) -> proj j (clog st) = [];
    inv_m0 : forall x,
       (forall j, j < n -> W j x -> ~ cov j \/ exists t i p r, qs t = (i, p) :: r /\ In j (ids r)) ->
       sh st x = m0 x;
    inv_tags : forall j c, In (j, c) (clog st) -> j < n
  }.

  Lemma setq_same : forall (qs : queues) t q, setq qs t q t = q.
  Proof. intros. unfold setq. rewrite Nat.eqb_refl. reflexivity. Qed.

  Lemma setq_other : forall (qs : queues) t q u, u <> t -> setq qs t q u = qs u.
  Proof.
    intros. unfold setq. destruct (Nat.eqb t u) eqn:E; [|reflexivity].
    apply Nat.eqb_eq in E. subst. contradiction.
  Qed.

  Lemma in_ids : forall (l : list (nat * prog)) j q, In (j, q) l -> In j (ids l).
  Proof. intros l j q H. apply in_map_iff. exists (j, q). split; [reflexivity|exact H]. Qed.

  (* --- a thread finishes its current iteration and takes the next one *)
  Lemma Inv_pop : forall qs st t i r,
    Inv qs st -> qs t = (i, Ret) :: r -> Inv (setq qs t r) st.
  Proof.
    intros qs st t i r HI Hq.
    assert (Hids : forall u j, In j (ids (setq qs t r u)) -> In j (ids (qs u))).
    { intros u j Hj. destruct (Nat.eq_dec u t) as [->|Hne].
      - rewrite setq_same in Hj. rewrite Hq. cbn. right. exact Hj.
      - rewrite setq_other in Hj by exact Hne. exact Hj. }
    assert (Hnd : NoDup (i :: ids r)).
    { generalize (inv_nodup _ _ HI t). rewrite Hq. cbn. auto. }
    assert (Hnotin : ~ In i (ids r)) by (inversion Hnd; assumption).
    assert (Hunst : forall j, (exists u i0 p0 r0, setq qs t r u = (i0, p0) :: r0 /\ In j (ids r0)) ->
                          exists u i0 p0 r0, qs u = (i0, p0) :: r0 /\ In j (ids r0)).
    { intros j (u & i0 & p0 & r0 & Hu & Hj). destruct (Nat.eq_dec u t) as [->|Hne].
      - rewrite setq_same in Hu. exists t, i, Ret, r. split; [exact Hq|].
        rewrite Hu. cbn. right. exact Hj.
      - rewrite setq_other in Hu by exact Hne. exists u, i0, p0, r0. split; assumption. }
    constructor.
    - intros u. destruct (Nat.eq_dec u t) as [->|Hne].
      + rewrite setq_same. inversion Hnd; assumption.
      + rewrite setq_other by exact Hne. apply (inv_nodup _ _ HI).
    - intros a b j Ha Hb. apply (inv_uniq _ _ HI a b j); apply Hids; assumption.
    - intros a j Ha. apply (inv_lt _ _ HI a j). apply Hids. exact Ha.
    - intros a j Ha. apply (inv_cov _ _ HI a j). apply Hids. exact Ha.
    - intros a i1 p1 r1 Ha j q Hin. destruct (Nat.eq_dec a t) as [->|Hne].
      + rewrite setq_same in Ha. apply (inv_tail _ _ HI t i Ret r Hq j q).
        rewrite Ha. right. exact Hin.
      + rewrite setq_other in Ha by exact Hne. apply (inv_tail _ _ HI a i1 p1 r1 Ha j q Hin).
    - intros a i1 p1 r1 Ha. destruct (Nat.eq_dec a t) as [->|Hne].
      + rewrite setq_same in Ha.
        assert (p1 = body i1) as ->.
        { apply (inv_tail _ _ HI t i Ret r Hq i1 p1). rewrite Ha. left. reflexivity. }
        apply Hwithin. apply (inv_lt _ _ HI t i1). rewrite Hq, Ha. cbn. right. left. reflexivity.
      + rewrite setq_other in Ha by exact Hne. apply (inv_hw _ _ HI a i1 p1 r1 Ha).
    - intros a i1 p1 r1 Ha. destruct (Nat.eq_dec a t) as [->|Hne].
      + rewrite setq_same in Ha.
        assert (Hin1 : In i1 (ids r)) by (rewrite Ha; cbn; left; reflexivity).
        assert (p1 = body i1) as ->.
        { apply (inv_tail _ _ HI t i Ret r Hq i1 p1). rewrite Ha. left. reflexivity. }
        assert (Hlt1 : i1 < n).
        { apply (inv_lt _ _ HI t i1). rewrite Hq. cbn. right. exact Hin1. }
        unfold Final, isolog.
        assert (Hfr := run_frame (body i1) (fun _ => False) (R i1) (W i1) t 0 i1 st st_ref
                         (Hwithin i1 Hlt1) (Hreinit i1 Hlt1)).
        destruct Hfr as [Hf1 Hf2].
        * intros x Hx. cbn. apply (inv_m0 _ _ HI x). intros j Hj HWj.
          destruct (Nat.eq_dec j i1) as [->|Hne].
          -- right. exists t, i, Ret, r. split; [exact Hq|exact Hin1].
          -- exfalso. exact (Hdisj j i1 x Hj Hlt1 Hne HWj Hx).
        * intros x [].
        * cbn. rewrite (inv_ulog _ _ HI t i Ret r i1 Hq Hin1). reflexivity.
        * split; [|exact Hf2]. intros x Hx. apply Hf1. right. exact Hx.
      + rewrite setq_other in Ha by exact Hne. apply (inv_head _ _ HI a i1 p1 r1 Ha).
    - intros j Hj Hcj Hnq. destruct (Nat.eq_dec j i) as [->|Hne].
      + exact (inv_head _ _ HI t i Ret r Hq).
      + apply (inv_fin _ _ HI j Hj Hcj). intros u Hin. destruct (Nat.eq_dec u t) as [->|Hut].
        * rewrite Hq in Hin. cbn in Hin. destruct Hin as [Heq|Hin]; [congruence|].
          apply (Hnq t). rewrite setq_same. exact Hin.
        * apply (Hnq u). rewrite setq_other by exact Hut. exact Hin.
    - intros a i1 p1 r1 j Ha Hj. destruct (Nat.eq_dec a t) as [->|Hne].
      + rewrite setq_same in Ha. apply (inv_ulog _ _ HI t i Ret r j Hq).
        rewrite Ha. cbn. right. exact Hj.
      + rewrite setq_other in Ha by exact Hne. apply (inv_ulog _ _ HI a i1 p1 r1 j Ha Hj).
    - intros x Hx. apply (inv_m0 _ _ HI x). intros j Hj HWj.
      destruct (Hx j Hj HWj) as [Hn|He]; [left; exact Hn|right; apply Hunst; exact He].
    - apply (inv_tags _ _ HI).
  Qed.

  (* --- a thread executes one action of its current iteration *)
  Lemma Inv_act : forall qs st t i p r p' st',
    Inv qs st -> qs t = (i, p) :: r -> tstep t i p st = Some (p', st') ->
    Inv (setq qs t ((i, p') :: r)) st'.
  Proof.
    intros qs st t i p r p' st' HI Hq Hs.
    assert (Hids : forall u, ids (setq qs t ((i, p') :: r) u) = ids (qs u)).
    { intros u. destruct (Nat.eq_dec u t) as [->|Hne].
      - rewrite setq_same, Hq. reflexivity.
      - rewrite setq_other by exact Hne. reflexivity. }
    assert (Hw : within (R i) (W i) p) by exact (inv_hw _ _ HI t i p r Hq).
    destruct (step_effect (R i) (W i) t i p p' st st' Hs Hw) as (Epr & Esh & Elog & Etag).
    assert (Hi_in : In i (ids (qs t))) by (rewrite Hq; cbn; left; reflexivity).
    assert (Hilt : i < n) by exact (inv_lt _ _ HI t i Hi_in).
    assert (Hnd : NoDup (i :: ids r)).
    { generalize (inv_nodup _ _ HI t). rewrite Hq. cbn. auto. }
    assert (Hnotin : ~ In i (ids r)) by (inversion Hnd; assumption).
    assert (Hother : forall u j, u <> t -> In j (ids (qs u)) -> j <> i).
    { intros u j Hut Hj ->. apply Hut. exact (inv_uniq _ _ HI u t i Hj Hi_in). }
    assert (Htails : forall u i0 p0 r0, setq qs t ((i, p') :: r) u = (i0, p0) :: r0 ->
                       exists p1, qs u = (i0, p1) :: r0).
    { intros u i0 p0 r0 Hu. destruct (Nat.eq_dec u t) as [->|Hne].
      - rewrite setq_same in Hu. injection Hu as <- <- <-. exists p. exact Hq.
      - rewrite setq_other in Hu by exact Hne. exists p0. exact Hu. }
    constructor.
    - intros u. rewrite Hids. apply (inv_nodup _ _ HI).
    - intros a b j. rewrite !Hids. apply (inv_uniq _ _ HI).
    - intros a j. rewrite Hids. apply (inv_lt _ _ HI).
    - intros a j. rewrite Hids. apply (inv_cov _ _ HI).
    - intros a i1 p1 r1 Ha j q Hin. destruct (Htails a i1 p1 r1 Ha) as [p2 Hq2].
      exact (inv_tail _ _ HI a i1 p2 r1 Hq2 j q Hin).
    - intros a i1 p1 r1 Ha. destruct (Nat.eq_dec a t) as [->|Hne].
      + rewrite setq_same in Ha. injection Ha as <- <- <-.
        exact (within_step _ _ _ _ _ _ _ _ Hs Hw).
      + rewrite setq_other in Ha by exact Hne. exact (inv_hw _ _ HI a i1 p1 r1 Ha).
    - intros a i1 p1 r1 Ha. destruct (Nat.eq_dec a t) as [->|Hne].
      + rewrite setq_same in Ha. injection Ha as <- <- <-.
        rewrite <- (run_step _ _ _ _ _ _ Hs). exact (inv_head _ _ HI t i p r Hq).
      + rewrite setq_other in Ha by exact Hne.
        assert (Hi1 : In i1 (ids (qs a))) by (rewrite Ha; cbn; left; reflexivity).
        assert (Hne1 : i1 <> i) by exact (Hother a i1 Hne Hi1).
        assert (Hlt1 : i1 < n) by exact (inv_lt _ _ HI a i1 Hi1).
        assert (Hw1 : within (R i1) (W i1) p1) by exact (inv_hw _ _ HI a i1 p1 r1 Ha).
        destruct (run_frame p1 (fun _ => True) (R i1) (W i1) a a i1 st' st Hw1
                    (reinit_top p1 _ (fun _ => I))) as [Hf1 Hf2].
        * intros x Hx. apply Esh. intros HWi.
          exact (Hdisj i i1 x Hilt Hlt1 (fun e => Hne1 (eq_sym e)) HWi Hx).
        * intros x _. rewrite (Epr a Hne). reflexivity.
        * apply Elog. exact Hne1.
        * destruct (inv_head _ _ HI a i1 p1 r1 Ha) as [Hh1 Hh2]. split.
          -- intros x Hx. rewrite (Hf1 x (or_intror Hx)). apply Hh1. exact Hx.
          -- rewrite Hf2. exact Hh2.
    - intros j Hj Hcj Hnq.
      assert (Hnq' : forall u, ~ In j (ids (qs u))) by (intros u; rewrite <- Hids; apply Hnq).
      assert (Hji : j <> i) by (intros ->; exact (Hnq' t Hi_in)).
      destruct (inv_fin _ _ HI j Hj Hcj Hnq') as [Hf1 Hf2]. split.
      + intros x Hx. rewrite Esh; [apply Hf1; exact Hx|].
        intros HWi. exact (Hdisj j i x Hj Hilt Hji Hx (or_intror HWi)).
      + rewrite Elog by exact Hji. exact Hf2.
    - intros a i1 p1 r1 j Ha Hj. destruct (Htails a i1 p1 r1 Ha) as [p2 Hq2].
      assert (Hji : j <> i).
      { destruct (Nat.eq_dec a t) as [->|Hne].
        - rewrite Hq in Hq2. injection Hq2 as <- <- <-. intros ->. contradiction.
        - apply (Hother a j Hne). rewrite Hq2. cbn. right. exact Hj. }
      rewrite Elog by exact Hji. exact (inv_ulog _ _ HI a i1 p2 r1 j Hq2 Hj).
    - intros x Hx. rewrite Esh.
      + apply (inv_m0 _ _ HI x). intros j Hj HWj.
        destruct (Hx j Hj HWj) as [Hn|(u & i0 & p0 & r0 & Hu & Hin)]; [left; exact Hn|].
        destruct (Htails u i0 p0 r0 Hu) as [p1 Hq1]. right. exists u, i0, p1, r0. split; assumption.
      + intros HWi. destruct (Hx i Hilt HWi) as [Hn|(u & i0 & p0 & r0 & Hu & Hin)];
          [exact (Hn (inv_cov _ _ HI t i Hi_in))|].
        destruct (Htails u i0 p0 r0 Hu) as [p1 Hq1].
        destruct (Nat.eq_dec u t) as [->|Hne].
        * rewrite Hq in Hq1. injection Hq1 as <- <- <-. contradiction.
        * apply (Hother u i Hne); [|reflexivity]. rewrite Hq1. cbn. right. exact Hin.
    - intros j c Hin. destruct (Etag j c Hin) as [Hold| ->]; [exact (inv_tags _ _ HI j c Hold)|exact Hilt].
  Qed.

  Lemma Inv_step : forall t qs st, Inv qs st ->
    Inv (fst (sched_step t (qs, st))) (snd (sched_step t (qs, st))).
  Proof.
    intros t qs st HI. unfold Par_Model.sched_step.
    destruct (qs t) as [|[i p] r] eqn:Hq; [exact HI|].
    destruct (tstep t i p st) as [[p' st']|] eqn:Hs; cbn.
    - eapply Inv_act; eauto.
    - apply tstep_none in Hs. subst p. eapply Inv_pop; eauto.
  Qed.

  Lemma Inv_sched : forall sch qs st, Inv qs st ->
    Inv (fst (run_sched sch (qs, st))) (snd (run_sched sch (qs, st))).
  Proof.
    induction sch as [|t sch IH]; intros qs st HI; [exact HI|].
    unfold Par_Model.run_sched. cbn [fold_left].
    destruct (sched_step t (qs, st)) as [qs1 st1] eqn:E.
    apply IH. generalize (Inv_step t qs st HI). rewrite E. auto.
  Qed.

  Lemma ids_init : forall asg t, ids (init_queues body asg t) = asg t.
  Proof.
    intros. unfold init_queues. rewrite map_map. cbn. apply map_id.
  Qed.

  Lemma Inv_init : forall asg p0, partial_asg n asg ->
    (forall t i, In i (asg t) -> cov i) -> (forall i, i < n -> cov i -> exists t, In i (asg t)) ->
    Inv (init_queues body asg) (mkState m0 p0 []).
  Proof.
    intros asg p0 (Hnd & Hun & Hlt) Hcin Hall.
    assert (Hb : forall t j q, In (j, q) (init_queues body asg t) -> q = body j).
    { intros t j q Hin. unfold init_queues in Hin. apply in_map_iff in Hin.
      destruct Hin as (j' & Heq & _). injection Heq as <- <-. reflexivity. }
    constructor.
    - intros t. rewrite ids_init. apply Hnd.
    - intros t u i. rewrite !ids_init. apply Hun.
    - intros t i. rewrite ids_init. apply Hlt.
    - intros t i. rewrite ids_init. apply Hcin.
    - intros t i p r Hq j q Hin. apply (Hb t j q). rewrite Hq. right. exact Hin.
    - intros t i p r Hq.
      assert (p = body i) as -> by (apply (Hb t i p); rewrite Hq; left; reflexivity).
      apply Hwithin. apply (Hlt t). rewrite <- ids_init, Hq. cbn. left. reflexivity.
    - intros t i p r Hq.
      assert (p = body i) as -> by (apply (Hb t i p); rewrite Hq; left; reflexivity).
      assert (Hi : i < n) by (apply (Hlt t); rewrite <- ids_init, Hq; cbn; left; reflexivity).
      unfold Final, isolog.
      destruct (run_frame (body i) (fun _ => False) (R i) (W i) t 0 i (mkState m0 p0 []) st_ref
                  (Hwithin i Hi) (Hreinit i Hi)) as [Hf1 Hf2];
        [intros x _; reflexivity|intros x []|reflexivity|].
      split; [|exact Hf2]. intros x Hx. apply Hf1. right. exact Hx.
    - intros i Hi Hci Hnq. exfalso. destruct (Hall i Hi Hci) as [t Ht]. apply (Hnq t).
      rewrite ids_init. exact Ht.
    - reflexivity.
    - reflexivity.
    - intros j c [].
  Qed.

  (* ------------------------------------------------------------------ race freedom *)
  Lemma Inv_no_race : forall qs st, Inv qs st -> ~ race qs.
  Proof.
    intros qs st HI (t & u & i & p & r & j & q & s & x & wt & wu & Htu & Hqt & Hqu & Hnp & Hnq & Hw).
    assert (Hi : In i (ids (qs t))) by (rewrite Hqt; cbn; left; reflexivity).
    assert (Hj : In j (ids (qs u))) by (rewrite Hqu; cbn; left; reflexivity).
    assert (Hij : i <> j) by (intros ->; apply Htu; exact (inv_uniq _ _ HI t u j Hi Hj)).
    assert (Hil := inv_lt _ _ HI t i Hi). assert (Hjl := inv_lt _ _ HI u j Hj).
    assert (Hwp := inv_hw _ _ HI t i p r Hqt). assert (Hwq := inv_hw _ _ HI u j q s Hqu).
    assert (Ap : (R i x \/ W i x) /\ (wt = true -> W i x)).
    { destruct p as [|l k|l v k|c k]; cbn in Hnp; try discriminate; injection Hnp as Hwt Hl; subst wt l; cbn in Hwp.
      - split; [apply Hwp|discriminate].
      - split; [right; apply Hwp|intros _; apply Hwp]. }
    assert (Aq : (R j x \/ W j x) /\ (wu = true -> W j x)).
    { destruct q as [|l k|l v k|c k]; cbn in Hnq; try discriminate; injection Hnq as Hwt Hl; subst wu l; cbn in Hwq.
      - split; [apply Hwq|discriminate].
      - split; [right; apply Hwq|intros _; apply Hwq]. }
    destruct Ap as [Ap1 Ap2]. destruct Aq as [Aq1 Aq2]. destruct Hw as [Hw|Hw].
    - exact (Hdisj i j x Hil Hjl Hij (Ap2 Hw) Aq1).
    - exact (Hdisj j i x Hjl Hil (fun e => Hij (eq_sym e)) (Aq2 Hw) Ap1).
  Qed.

  End Partial.

  (* ------------------------------------------------------------------ main theorem *)
  (* wave 3: for an assignment that gives every iteration to AT MOST one thread (the team that runs the region
     executes only part of the iteration space): still no race; when done, the footprint of every iteration
     that WAS given to a thread holds what that iteration leaves there, and every key whose only writers are
     iterations nobody was given still holds its INITIAL value — "the rows of the missing threads are never
     written" *)
  Theorem bernstein_partial : forall asg p0 sch qs st,
    partial_asg n asg ->
    run_sched sch (init_queues body asg, mkState m0 p0 []) = (qs, st) ->
    ~ race qs /\
    (done qs ->
       (forall i x, i < n -> covered asg i -> W i x -> sh st x = Final i x) /\
       (forall x, (forall i, i < n -> W i x -> ~ covered asg i) -> sh st x = m0 x) /\
       (forall i, i < n -> covered asg i -> proj i (clog st) = isolog i) /\
       (forall j c, In (j, c) (clog st) -> j < n)).
  Proof.
    intros asg p0 sch qs st Hasg Hrun.
    assert (HI : Inv (covered asg) qs st).
    { generalize (Inv_sched (covered asg) sch _ _
                    (Inv_init (covered asg) asg p0 Hasg (fun t i H => ex_intro _ t H) (fun i _ H => H))).
      rewrite Hrun. auto. }
    split; [exact (Inv_no_race _ _ _ HI)|].
    intros Hdone.
    assert (Hnq : forall i t, ~ In i (ids (qs t))) by (intros i t; rewrite (Hdone t); intros []).
    repeat split.
    - intros i x Hi Hc Hx. exact (proj1 (inv_fin _ _ _ HI i Hi Hc (Hnq i)) x Hx).
    - intros x Hx. apply (inv_m0 _ _ _ HI x). intros j Hj HWj. left. exact (Hx j Hj HWj).
    - intros i Hi Hc. exact (proj2 (inv_fin _ _ _ HI i Hi Hc (Hnq i))).
    - exact (inv_tags _ _ _ HI).
  Qed.

  Lemma valid_partial : forall asg, valid_asg n asg ->
    partial_asg n asg /\ forall i, i < n -> covered asg i.
  Proof. intros asg (A & B & C0 & D). split; [repeat split; assumption|exact D]. Qed.

  Theorem bernstein : forall asg p0 sch qs st,
    valid_asg n asg ->
    run_sched sch (init_queues body asg, mkState m0 p0 []) = (qs, st) ->
    ~ race qs /\
    (done qs ->
       (forall i x, i < n -> W i x -> sh st x = Final i x) /\
       (forall x, (forall i, i < n -> ~ W i x) -> sh st x = m0 x) /\
       (forall i, i < n -> proj i (clog st) = isolog i) /\
       (forall j c, In (j, c) (clog st) -> j < n)).
  Proof.
    intros asg p0 sch qs st Hasg Hrun.
    destruct (valid_partial asg Hasg) as [Hp Hc].
    destruct (bernstein_partial asg p0 sch qs st Hp Hrun) as [Hnr Hd].
    split; [exact Hnr|]. intros Hdone. destruct (Hd Hdone) as (A & B & C0 & D).
    repeat split.
    - intros i x Hi Hx. exact (A i x Hi (Hc i Hi) Hx).
    - intros x Hx. apply B. intros i Hi HWi _. exact (Hx i Hi HWi).
    - intros i Hi. exact (C0 i Hi (Hc i Hi)).
    - exact D.
  Qed.

  (* ------------------------------------------------------------------ the sequential run is a schedule *)
  Lemma run_is_sched : forall (p : prog) t i r (qs : queues) st,
    qs t = (i, p) :: r ->
    exists sch qs', run_sched sch (qs, st) = (qs', run t i p st) /\
                    qs' t = r /\ forall u, u <> t -> qs' u = qs u.
  Proof.
    induction p as [|l k IH|l v k IH|c k IH]; intros t i r qs st Hq.
    - exists [t], (setq qs t r). unfold Par_Model.run_sched. cbn. rewrite Hq. cbn.
      split; [reflexivity|]. split; [apply setq_same|]. intros u Hu. apply setq_other. exact Hu.
    - destruct (IH (rd t l st) t i r (setq qs t ((i, k (rd t l st)) :: r)) st (setq_same _ _ _))
        as (sch & qs' & Hr & Ht & Ho).
      exists (t :: sch), qs'. unfold Par_Model.run_sched in *. cbn [fold_left].
      unfold Par_Model.sched_step at 2. rewrite Hq. cbn. split; [exact Hr|]. split; [exact Ht|].
      intros u Hu. rewrite (Ho u Hu). apply setq_other. exact Hu.
    - destruct (IH t i r (setq qs t ((i, k) :: r)) (wr K_eqb t l v st) (setq_same _ _ _))
        as (sch & qs' & Hr & Ht & Ho).
      exists (t :: sch), qs'. unfold Par_Model.run_sched in *. cbn [fold_left].
      unfold Par_Model.sched_step at 2. rewrite Hq. cbn. split; [exact Hr|]. split; [exact Ht|].
      intros u Hu. rewrite (Ho u Hu). apply setq_other. exact Hu.
    - destruct (IH t i r (setq qs t ((i, k) :: r)) (crit i c st) (setq_same _ _ _))
        as (sch & qs' & Hr & Ht & Ho).
      exists (t :: sch), qs'. unfold Par_Model.run_sched in *. cbn [fold_left].
      unfold Par_Model.sched_step at 2. rewrite Hq. cbn. split; [exact Hr|]. split; [exact Ht|].
      intros u Hu. rewrite (Ho u Hu). apply setq_other. exact Hu.
  Qed.

  Lemma run_sched_app : forall a b (cf : queues * state),
    run_sched (a ++ b) cf = run_sched b (run_sched a cf).
  Proof. intros. unfold Par_Model.run_sched. apply fold_left_app. Qed.

  Lemma seq_is_sched : forall l (qs : queues) st,
    qs 0 = map (fun i => (i, body i)) l -> (forall u, u <> 0 -> qs u = []) ->
    exists sch qs', run_sched sch (qs, st) = (qs', seq_run body l st) /\ forall u, qs' u = [].
  Proof.
    induction l as [|i l IH]; intros qs st H0 Ho.
    - exists [], qs. split; [reflexivity|]. intros u. destruct (Nat.eq_dec u 0) as [->|Hu]; auto.
    - cbn in H0. destruct (run_is_sched (body i) 0 i _ qs st H0) as (s1 & q1 & Hr1 & Ht1 & Ho1).
      destruct (IH q1 (run 0 i (body i) st) Ht1) as (s2 & q2 & Hr2 & Hd2).
      { intros u Hu. rewrite (Ho1 u Hu). apply Ho. exact Hu. }
      exists (s1 ++ s2), q2. rewrite run_sched_app, Hr1. split; [exact Hr2|exact Hd2].
  Qed.

  Definition asg_seq : nat -> list nat := fun t => if Nat.eqb t 0 then seq 0 n else [].

  Lemma asg_seq_valid : valid_asg n asg_seq.
  Proof.
    unfold asg_seq. repeat split.
    - intros t. destruct (Nat.eqb t 0); [apply seq_NoDup|constructor].
    - intros t u i Ht Hu. destruct (Nat.eqb t 0) eqn:Et; [|destruct Ht].
      destruct (Nat.eqb u 0) eqn:Eu; [|destruct Hu].
      apply Nat.eqb_eq in Et, Eu. congruence.
    - intros t i Hi. destruct (Nat.eqb t 0); [|destruct Hi]. apply in_seq in Hi. lia.
    - intros i Hi. exists 0. cbn. apply in_seq. lia.
  Qed.

  (* ownership of a key is decidable for the footprints used (arithmetic predicates) *)
  Hypothesis W_dec : forall i x, W i x \/ ~ W i x.

  Lemma owner_cases : forall x k, (exists i, i < k /\ W i x) \/ (forall i, i < k -> ~ W i x).
  Proof.
    intros x. induction k as [|k IH].
    - right. intros i Hi. lia.
    - destruct IH as [(i & Hi & Hx)|IH]; [left; exists i; split; [lia|exact Hx]|].
      destruct (W_dec k x) as [Hk|Hk]; [left; exists k; split; [lia|exact Hk]|].
      right. intros i Hi. destruct (Nat.eq_dec i k) as [->|Hne]; [exact Hk|apply IH; lia].
  Qed.

  (* every complete schedule of every assignment computes what the single thread computes *)
  Theorem bernstein_sequential : forall asg p0 p0' sch qs st,
    valid_asg n asg ->
    run_sched sch (init_queues body asg, mkState m0 p0 []) = (qs, st) -> done qs ->
    let sq := seq_run body (seq 0 n) (mkState m0 p0' []) in
    (forall x, sh st x = sh sq x) /\ (forall i, proj i (clog st) = proj i (clog sq)).
  Proof.
    intros asg p0 p0' sch qs st Hasg Hrun Hdone sq.
    destruct (seq_is_sched (seq 0 n) (init_queues body asg_seq) (mkState m0 p0' []))
      as (s2 & q2 & Hr2 & Hd2).
    { reflexivity. }
    { intros u Hu. unfold init_queues, asg_seq.
      destruct (Nat.eqb u 0) eqn:E; [apply Nat.eqb_eq in E; contradiction|reflexivity]. }
    fold sq in Hr2.
    destruct (bernstein asg p0 sch qs st Hasg Hrun) as (_ & B1).
    destruct (B1 Hdone) as (A1 & A2 & A3 & A4).
    destruct (bernstein asg_seq p0' s2 q2 sq asg_seq_valid Hr2) as (_ & B2).
    destruct (B2 Hd2) as (S1 & S2 & S3 & S4).
    split.
    - intros x.
      assert (Hown : forall i, i < n -> W i x -> sh st x = sh sq x).
      { intros i Hi Hx. rewrite (A1 i x Hi Hx), (S1 i x Hi Hx). reflexivity. }
      assert (Hfree : (forall i, i < n -> ~ W i x) -> sh st x = sh sq x).
      { intros Hx. rewrite (A2 x Hx), (S2 x Hx). reflexivity. }
      destruct (owner_cases x n) as [(i & Hi & Hx)|Hx]; [exact (Hown i Hi Hx)|exact (Hfree Hx)].
    - intros i. destruct (Nat.lt_ge_cases i n) as [Hi|Hi].
      + rewrite (A3 i Hi), (S3 i Hi). reflexivity.
      + assert (Hempty : forall l : list (nat * C), (forall j c, In (j, c) l -> j < n) -> proj i l = []).
        { induction l as [|[j c] l IHl]; intros Hl; [reflexivity|]. rewrite proj_cons.
          destruct (Nat.eqb j i) eqn:E.
          - apply Nat.eqb_eq in E. subst j. specialize (Hl i c (or_introl eq_refl)). lia.
          - apply IHl. intros j' c' Hin. apply (Hl j' c'). right. exact Hin. }
        rewrite (Hempty _ A4), (Hempty _ S4). reflexivity.
  Qed.
End ParProof.

(* ---------------------------------------------------------------------- logs as multisets *)
Section ProjPerm.
  Variable C : Type.

  Lemma proj_cons' : forall i j (c : C) l,
    proj i ((j, c) :: l) = if Nat.eqb j i then c :: proj i l else proj i l.
  Proof. intros. unfold proj. cbn. destruct (Nat.eqb j i); reflexivity. Qed.

  Lemma proj_app : forall i (a b : list (nat * C)), proj i (a ++ b) = proj i a ++ proj i b.
  Proof. intros. unfold proj. rewrite filter_app, map_app. reflexivity. Qed.

  Lemma proj_split : forall (l : list (nat * C)) j c rest, proj j l = c :: rest ->
    exists a b, l = a ++ (j, c) :: b /\ proj j a = [] /\ proj j b = rest.
  Proof.
    induction l as [|[k d] l IH]; intros j c rest H; [discriminate|].
    rewrite proj_cons' in H. destruct (Nat.eqb k j) eqn:E.
    - apply Nat.eqb_eq in E. subst k. injection H as -> Hr.
      exists [], l. repeat split; auto.
    - destruct (IH j c rest H) as (a & b & -> & Ha & Hb).
      exists ((k, d) :: a), b. repeat split; auto. rewrite proj_cons', E. exact Ha.
  Qed.

  (* two logs with the same blocks per iteration (in the same order) are permutations of each other *)
  Theorem proj_perm : forall (l1 l2 : list (nat * C)),
    (forall i, proj i l1 = proj i l2) -> Permutation l1 l2.
  Proof.
    induction l1 as [|[j c] l1 IH]; intros l2 H.
    - destruct l2 as [|[k d] l2]; [constructor|].
      specialize (H k). rewrite proj_cons', Nat.eqb_refl in H. discriminate.
    - assert (Hj := H j). rewrite proj_cons', Nat.eqb_refl in Hj. symmetry in Hj.
      destruct (proj_split l2 j c _ Hj) as (a & b & -> & Ha & Hb).
      apply Permutation_cons_app. apply IH. intros i.
      specialize (H i). rewrite proj_cons', proj_app, proj_cons' in H. rewrite proj_app.
      destruct (Nat.eqb j i) eqn:E.
      + apply Nat.eqb_eq in E. subst i. rewrite Ha in *. cbn in *. congruence.
      + exact H.
  Qed.
End ProjPerm.

(* ---------------------------------------------------------------------- critical sections that commute
   The generic form of "Crit bodies commute up to an equivalence ~": interpret each logged block c as a
   state transformer  apply c  on an accumulator; if the transformers respect ~ and commute up to ~, then
   any two orders of the same blocks end in ~-equal accumulators. *)
Section CritCommute.
  Variables A C : Type.
  Variable eqv : A -> A -> Prop.
  Variable apply : C -> A -> A.
  Hypothesis eqv_refl : forall a, eqv a a.
  Hypothesis eqv_trans : forall a b c, eqv a b -> eqv b c -> eqv a c.
  Hypothesis apply_proper : forall c a a', eqv a a' -> eqv (apply c a) (apply c a').
  Hypothesis apply_comm : forall c1 c2 a, eqv (apply c1 (apply c2 a)) (apply c2 (apply c1 a)).

  (* the log is newest first: fold_right applies the oldest block first *)
  Definition apply_all (l : list C) (a : A) : A := fold_right apply a l.

  Theorem crit_commute_perm : forall l l', Permutation l l' ->
    forall a, eqv (apply_all l a) (apply_all l' a).
  Proof.
    induction 1 as [|c l l' _ IH|c1 c2 l|l l' l'' _ IH1 _ IH2]; intros a; cbn.
    - apply eqv_refl.
    - apply apply_proper. apply IH.
    - apply apply_comm.
    - eapply eqv_trans; [apply IH1|apply IH2].
  Qed.

  (* two runs that log the same blocks per iteration end in ~-equal accumulators *)
  Theorem crit_commute_logs : forall (lg lg' : list (nat * C)),
    (forall i, proj i lg = proj i lg') ->
    forall a, eqv (apply_all (map snd lg) a) (apply_all (map snd lg') a).
  Proof.
    intros lg lg' H a. apply crit_commute_perm. apply Permutation_map. apply proj_perm. exact H.
  Qed.
End CritCommute.
