(* ====================================================================== *)
(*  Spe_Spec.v — what property C19 states about the index bookkeeping of   *)
(*  SPE, as Props against the mathematical objects (Permutation, NoDup,    *)
(*  In) and as boolean decision procedures run on the IMPLEMENTATION's own *)
(*  logs (shuffled array after every tapkee::random_shuffle, the (i, j)    *)
(*  of every distance callback of an iteration).                           *)
(* ====================================================================== *)
Require Import List Arith Lia Bool Permutation.
Import ListNotations.

(* ---- Props ----------------------------------------------------------- *)
Definition is_perm (N : nat) (l : list nat) : Prop := Permutation l (seq 0 N).

(* the 2*nu indices touched in one iteration are pairwise different
   (in particular i <> j in every pair, and no point is moved twice) *)
Definition pairs_disjoint (ps : list (nat * nat)) : Prop :=
  NoDup (map fst ps ++ map snd ps).

(* global strategy, one iteration: the shuffled array is a permutation of 0..N-1 and the updated
   pairs are (perm[j], perm[nu+j]), j < nu *)
Definition global_iter_ok (N nu : nat) (perm : list nat) (ps : list (nat * nat)) : Prop :=
  is_perm N perm /\ length ps = nu /\
  ps = combine (firstn nu perm) (firstn nu (skipn nu perm)) /\ pairs_disjoint ps.

(* local strategy, one iteration: the shuffled array is a permutation, the first members of the
   pairs are its first nu entries (pairwise different), every second member is one of the first k
   neighbours of its first member *)
Definition local_iter_ok (N nu k : nat) (neighbors : list (list nat)) (perm : list nat)
           (ps : list (nat * nat)) : Prop :=
  is_perm N perm /\ length ps = nu /\ map fst ps = firstn nu perm /\ NoDup (map fst ps) /\
  Forall (fun p => In (snd p) (firstn k (nth (fst p) neighbors []))) ps.

(* ---- boolean procedures --------------------------------------------- *)
Definition mem (x : nat) (l : list nat) : bool := existsb (Nat.eqb x) l.

Fixpoint nodup_b (l : list nat) : bool :=
  match l with
  | [] => true
  | x :: t => negb (mem x t) && nodup_b t
  end.

Definition is_perm_b (N : nat) (l : list nat) : bool :=
  Nat.eqb (length l) N && forallb (fun i => mem i l) (seq 0 N).

Definition pair_eqb (p q : nat * nat) : bool :=
  Nat.eqb (fst p) (fst q) && Nat.eqb (snd p) (snd q).

Fixpoint list_eqb {A} (eqb : A -> A -> bool) (l l' : list A) : bool :=
  match l, l' with
  | [], [] => true
  | a :: t, b :: t' => eqb a b && list_eqb eqb t t'
  | _, _ => false
  end.

Definition pairs_disjoint_b (ps : list (nat * nat)) : bool :=
  nodup_b (map fst ps ++ map snd ps).

Definition global_iter_ok_b (N nu : nat) (perm : list nat) (ps : list (nat * nat)) : bool :=
  is_perm_b N perm && Nat.eqb (length ps) nu &&
  list_eqb pair_eqb ps (combine (firstn nu perm) (firstn nu (skipn nu perm))) &&
  pairs_disjoint_b ps.

Definition local_iter_ok_b (N nu k : nat) (neighbors : list (list nat)) (perm : list nat)
           (ps : list (nat * nat)) : bool :=
  is_perm_b N perm && Nat.eqb (length ps) nu &&
  list_eqb Nat.eqb (map fst ps) (firstn nu perm) && nodup_b (map fst ps) &&
  forallb (fun p => mem (snd p) (firstn k (nth (fst p) neighbors []))) ps.

(* position (if any) of the first iteration whose log fails the test *)
Fixpoint first_bad {A} (ok : A -> bool) (l : list A) (pos : nat) : option nat :=
  match l with
  | [] => None
  | a :: t => if ok a then first_bad ok t (S pos) else Some pos
  end.

Definition spe_log_check (global : bool) (N nu k : nat) (neighbors : list (list nat))
           (log : list (list nat * list (nat * nat))) : option nat :=
  first_bad (fun sp => if global then global_iter_ok_b N nu (fst sp) (snd sp)
                       else local_iter_ok_b N nu k neighbors (fst sp) (snd sp)) log 0.

(* ====================================================================== *)
(*  The same statements in terms of the SAMPLE IDS of the range handed to  *)
(*  embed(): position i of [begin,end) designates sample `at_pos range i`  *)
(*  (= begin[i]); spe_embedding calls                                       *)
(*     callback.distance( *(begin + *ind1), *(begin + *ind2) )              *)
(*  so the distance callback of an iteration must receive exactly the ids  *)
(*  designated by the position pairs of that iteration.  The range may be  *)
(*  any list (a sub-range of the data, permuted, offset ids, repeats).     *)
(* ====================================================================== *)
Definition at_pos (range : list nat) (i : nat) : nat := nth i range 0.
Definition des_pair (range : list nat) (p : nat * nat) : nat * nat :=
  (at_pos range (fst p), at_pos range (snd p)).

Definition global_iter_des_ok (range : list nat) (N nu : nat) (perm : list nat)
           (idps : list (nat * nat)) : Prop :=
  exists ps, global_iter_ok N nu perm ps /\ idps = map (des_pair range) ps.

Definition local_iter_des_ok (range : list nat) (N nu k : nat) (neighbors : list (list nat))
           (perm : list nat) (idps : list (nat * nat)) : Prop :=
  exists ps, local_iter_ok N nu k neighbors perm ps /\ idps = map (des_pair range) ps.

Fixpoint forallb2 {A B} (f : A -> B -> bool) (l : list A) (l' : list B) : bool :=
  match l, l' with
  | [], [] => true
  | a :: t, b :: t' => f a b && forallb2 f t t'
  | _, _ => false
  end.

Definition global_iter_des_ok_b (range : list nat) (N nu : nat) (perm : list nat)
           (idps : list (nat * nat)) : bool :=
  let ps := combine (firstn nu perm) (firstn nu (skipn nu perm)) in
  global_iter_ok_b N nu perm ps && list_eqb pair_eqb idps (map (des_pair range) ps).

(* position a was paired with SOME of its first k neighbours nb, and the callback got (begin[a], begin[nb]) *)
Definition local_pair_des_b (range : list nat) (k : nat) (neighbors : list (list nat))
           (a : nat) (idp : nat * nat) : bool :=
  Nat.eqb (fst idp) (at_pos range a) &&
  existsb (fun nb => Nat.eqb (at_pos range nb) (snd idp)) (firstn k (nth a neighbors [])).

Definition local_iter_des_ok_b (range : list nat) (N nu k : nat) (neighbors : list (list nat))
           (perm : list nat) (idps : list (nat * nat)) : bool :=
  is_perm_b N perm && Nat.eqb (length idps) nu && Nat.eqb (length (firstn nu perm)) nu &&
  nodup_b (firstn nu perm) && forallb2 (local_pair_des_b range k neighbors) (firstn nu perm) idps.

(* log = per iteration (shuffled array of POSITIONS, the (id, id) arguments of the distance callback) *)
Definition spe_log_check_des (range : list nat) (global : bool) (N nu k : nat)
           (neighbors : list (list nat)) (log : list (list nat * list (nat * nat))) : option nat :=
  first_bad (fun sp => if global then global_iter_des_ok_b range N nu (fst sp) (snd sp)
                       else local_iter_des_ok_b range N nu k neighbors (fst sp) (snd sp)) log 0.
