(* ====================================================================== *)
(*  Spe_Spec.v — what property C19 states about the index bookkeeping of   *)
(*  SPE, as Props against the mathematical objects (Permutation, NoDup,    *)
(*  In) and as boolean decision procedures run on the IMPLEMENTATION's own *)
(*  logs (shuffled array after every tapkee::random_shuffle, the (i, j)    *)
(*  of every distance callback of an iteration).                           *)
(* ====================================================================== *)
Require Import List Arith Lia Bool Permutation.
Import ListNotations.

(* ---- Props ----------------------------------------------------------- *)
Definition is_perm (N : nat) (l : list nat) : Prop := Permutation l (seq 0 N).

(* the 2*nu indices touched in one iteration are pairwise different
   (in particular i <> j in every pair, and no point is moved twice) *)
Definition pairs_disjoint (ps : list (nat * nat)) : Prop :=
  NoDup (map fst ps ++ map snd ps).

(* global strategy, one iteration: the shuffled array is a permutation of 0..N-1 and the updated
   pairs are (perm[j], perm[nu+j]), j < nu *)
Definition global_iter_ok (N nu : nat) (perm : list nat) (ps : list (nat * nat)) : Prop :=
  is_perm N perm /\ length ps = nu /\
  ps = combine (firstn nu perm) (firstn nu (skipn nu perm)) /\ pairs_disjoint ps.

(* local strategy, one iteration: the shuffled array is a permutation, the first members of the
   pairs are its first nu entries (pairwise different), every second member is one of the first k
   neighbours of its first member *)
Definition local_iter_ok (N nu k : nat) (neighbors : list (list nat)) (perm : list nat)
           (ps : list (nat * nat)) : Prop :=
  is_perm N perm /\ length ps = nu /\ map fst ps = firstn nu perm /\ NoDup (map fst ps) /\
  Forall (fun p => In (snd p) (firstn k (nth (fst p) neighbors []))) ps.

(* ---- boolean procedures --------------------------------------------- *)
Definition mem (x : nat) (l : list nat) : bool := existsb (Nat.eqb x) l.

Fixpoint nodup_b (l : list nat) : bool :=
  match l with
  | [] => true
  | x :: t => negb (mem x t) && nodup_b t
  end.

Definition is_perm_b (N : nat) (l : list nat) : bool :=
  Nat.eqb (length l) N && forallb (fun i => mem i l) (seq 0 N).

Definition pair_eqb (p q : nat * nat) : bool :=
  Nat.eqb (fst p) (fst q) && Nat.eqb (snd p) (snd q).

Fixpoint list_eqb {A} (eqb : A -> A -> bool) (l l' : list A) : bool :=
  match l, l' with
  | [], [] => true
  | a :: t, b :: t' => eqb a b && list_eqb eqb t t'
  | _, _ => false
  end.

Definition pairs_disjoint_b (ps : list (nat * nat)) : bool :=
  nodup_b (map fst ps ++ map snd ps).

Definition global_iter_ok_b (N nu : nat) (perm : list nat) (ps : list (nat * nat)) : bool :=
  is_perm_b N perm && Nat.eqb (length ps) nu &&
  list_eqb pair_eqb ps (combine (firstn nu perm) (firstn nu (skipn nu perm))) &&
  pairs_disjoint_b ps.

Definition local_iter_ok_b (N nu k : nat) (neighbors : list (list nat)) (perm : list nat)
           (ps : list (nat * nat)) : bool :=
  is_perm_b N perm && Nat.eqb (length ps) nu &&
  list_eqb Nat.eqb (map fst ps) (firstn nu perm) && nodup_b (map fst ps) &&
  forallb (fun p => mem (snd p) (firstn k (nth (fst p) neighbors []))) ps.

(* position (if any) of the first iteration whose log fails the test *)
Fixpoint first_bad {A} (ok : A -> bool) (l : list A) (pos : nat) : option nat :=
  match l with
  | [] => None
  | a :: t => if ok a then first_bad ok t (S pos) else Some pos
  end.

Definition spe_log_check (global : bool) (N nu k : nat) (neighbors : list (list nat))
           (log : list (list nat * list (nat * nat))) : option nat :=
  first_bad (fun sp => if global then global_iter_ok_b N nu (fst sp) (snd sp)
                       else local_iter_ok_b N nu k neighbors (fst sp) (snd sp)) log 0.
