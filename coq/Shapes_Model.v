(* ====================================================================== *)
(*  Shapes_Model.v — property C01: executable model of (1) the OUTCOME of  *)
(*  a tapkee::embed request, (2) every container tapkee itself sizes and   *)
(*  every index expression it uses on it, routine by routine, and (3) the  *)
(*  data-dependent loops with explicit fuel.  NO PROOFS in this file.      *)
(*                                                                         *)
(*  Numbers: everything is `Z` (IndexType = int in the C++; differences    *)
(*  such as D - d may be negative and must stay negative).  Loop counters  *)
(*  are `Z` ranging over 0..n-1 via `forZ` (structural on Z.to_nat n).     *)
(*                                                                         *)
(*  res      Ok | OOB site idx size | OutOfFuel site | Throw exc           *)
(*           an out-of-range access is NEVER totalised away: the first     *)
(*           failing check is the result.                                  *)
(*  chk s i n        scalar access  c[i]  into a container of extent n     *)
(*  blk s a l n      block access   [a, a+l)  (Eigen rightCols/leftCols/   *)
(*                   segment/tail/topRows/bottomRows)                      *)
(*  nb_get s nb i j  neighbors[i][j]  (vector<vector<int>>, checked by     *)
(*                   _GLIBCXX_ASSERTIONS in the harness)                   *)
(*  Every site number is listed with file:line in the table at the end.    *)
(*                                                                         *)
(*  variant  which of the repairs F6 F7 F12 F21 the modelled source has;   *)
(*           `head` = /repo after F12+F21 (F7 is a known finding, stays),  *)
(*           `shipped`-style variants are kept for the _refuted theorems.  *)
(* ====================================================================== *)
From Coq Require Import ZArith List Bool QArith.
Import ListNotations.
Open Scope Z_scope.

(* ---------------------------------------------------------------- results *)
Inductive exc :=
| WrongParameter | WrongParameterType | MissedParameter | MultipleParameter
| UnsupportedMethod | NotEnoughMemory | Cancelled | EigendecompositionFailed | NoData.

Inductive res :=
| Ok
| OOB (site : nat) (idx size : Z)
| OutOfFuel (site : nat)
| Throw (e : exc).

(* sequencing stops at the first result that is not Ok; the continuation is a thunk so that the
   extracted (strict) OCaml code does not run the loops that follow a failed check *)
Definition seq (a : res) (b : unit -> res) : res := match a with Ok => b tt | _ => a end.
Notation "a ;; b" := (seq a (fun _ : unit => b)) (at level 61, right associativity).

Definition chk (site : nat) (i n : Z) : res :=
  if (0 <=? i) && (i <? n) then Ok else OOB site i n.

Definition blk (site : nat) (start len n : Z) : res :=
  if (0 <=? start) && (0 <=? len) && (start + len <=? n) then Ok else OOB site (start + len) n.

Definition guard (b : bool) (e : exc) : res := if b then Ok else Throw e.

Fixpoint for_from (i : nat) (n : nat) (f : nat -> res) : res :=
  match n with
  | O => Ok
  | S n' => f i ;; for_from (S i) n' f
  end.

(* for (IndexType i = 0; i < n; ++i) body(i) *)
Definition forZ (n : Z) (f : Z -> res) : res :=
  for_from 0 (Z.to_nat n) (fun i => f (Z.of_nat i)).

(* for (IndexType j = lo; j < hi; ++j) body(j) *)
Definition forZ_from (lo hi : Z) (f : Z -> res) : res :=
  forZ (hi - lo) (fun t => f (lo + t)).

(* ---------------------------------------------------------------- neighbour lists *)
Definition neighbors := list (list Z).

Definition nb_get (site : nat) (nb : neighbors) (i j : Z) (f : Z -> res) : res :=
  if i <? 0 then OOB site i (Z.of_nat (length nb)) else
  match nth_error nb (Z.to_nat i) with
  | None => OOB site i (Z.of_nat (length nb))
  | Some l =>
      if j <? 0 then OOB site j (Z.of_nat (length l)) else
      match nth_error l (Z.to_nat j) with
      | None => OOB site j (Z.of_nat (length l))
      | Some w => f w
      end
  end.

(* const IndexType k = neighbors[0].size(); *)
Definition k0 (nb : neighbors) : Z :=
  match nb with [] => 0 | l :: _ => Z.of_nat (length l) end.

Definition nb_front (site : nat) (nb : neighbors) : res :=
  match nb with [] => OOB site 0 0 | _ => Ok end.

(* for i < k: w = neighbors[idx][i]; begin[w] / D(w) / a triplet row w of an N x N matrix *)
Definition nb_row (site : nat) (nb : neighbors) (N idx k : Z) (f : Z -> Z -> res) : res :=
  forZ k (fun i => nb_get site nb idx i (fun w => chk (S site) w N ;; f i w)).

(* ---------------------------------------------------------------- neighbors.hpp *)
(* find_neighbors_bruteforce_impl for one query: N-1 distance records, nth_element at position k,
   the first k records are copied *)
Definition brute_force_query (N k : Z) : res :=
  blk 151 0 k (N - 1) ;;                                       (* nth_element(begin, begin + k, end) *)
  forZ k (fun j => chk 152 j (N - 1)).                         (* distances.begin() + j, j < k *)

(* find_neighbors_vptree_impl / covertree: k + 1 results are requested from a structure of N items *)
Definition tree_query (N k : Z) : res := blk 153 0 (k + 1) N.

(* find_neighbors: k = min(k, N - 1), then one query per sample *)
Definition find_neighbors_model (brute : bool) (N k : Z) : res :=
  let k' := if N - 1 <? k then N - 1 else k in
  forZ N (fun _ => if brute then brute_force_query N k' else tree_query N k').

(* ---------------------------------------------------------------- variants *)
Record variant := {
  v_f6 : bool;    (* HLLE column counter  ct += d - j            (false: ct += ct + d - j) *)
  v_f7 : bool;    (* eigenvalues().segment(skip, d)              (false: segment(skip, skip + d)) *)
  v_f12 : bool;   (* t-SNE: BH needs d = 2, evaluateError uses no_dims (false: map read as N x 2) *)
  v_f21 : bool    (* validate(): d <= D / d <= #landmarks / d <= num_neighbors *)
}.
Definition all_fixed := {| v_f6 := true; v_f7 := true; v_f12 := true; v_f21 := true |}.
Definition head := {| v_f6 := true; v_f7 := false; v_f12 := true; v_f21 := true |}.
Definition pre_round2 := {| v_f6 := true; v_f7 := false; v_f12 := false; v_f21 := false |}.
Definition shipped := {| v_f6 := false; v_f7 := false; v_f12 := false; v_f21 := false |}.

(* ---------------------------------------------------------------- eigensolver front-ends *)
(* eigendecomposition_impl_dense / generalized_eigendecomposition_impl_dense on an n x n problem *)
Definition eig_dense (f7 largest : bool) (n d skip : Z) : res :=
  if largest then
    blk 101 (n - d) d n ;;                 (* solver.eigenvectors().rightCols(d) *)
    blk 102 (n - d) d n                    (* solver.eigenvalues().tail(d) *)
  else
    blk 103 0 (d + skip) n ;;              (* .leftCols(d + skip) *)
    blk 104 ((d + skip) - d) d (d + skip) ;;   (* .rightCols(d) of that block *)
    blk 105 skip (if f7 then d else skip + d) n.   (* eigenvalues().segment(skip, skip + d) *)

(* number of eigenvalues handed back *)
Definition eig_dense_nvals (f7 largest : bool) (d skip : Z) : Z :=
  if largest then d else if f7 then d else skip + d.

(* eigendecomposition_impl_randomized: O is rows x (d+skip) *)
Definition eig_randomized (largest : bool) (rows d skip : Z) : res :=
  let c := d + skip in
  forZ c (fun i =>
    chk 111 i c ;;                                   (* Y.col(i) *)
    forZ i (fun j => chk 112 j c) ;;                 (* Y.col(j), j < i *)
    forZ_from i c (fun t => chk 113 t c)) ;;         (* for (k = i; k < cols) Y.col(k).setZero() *)
  if largest then blk 114 (c - d) d c                (* (Y * V).rightCols(d) *)
  else blk 115 0 (d + skip) c ;; blk 116 ((d + skip) - d) d (d + skip).

Definition eig_randomized_nvals (d skip : Z) : Z := d + skip.

(* eigendecomposition(method, strategy, eigen_strategy, m, d): n = m.rows() = m.cols()
   (randomized + SquaredLargest: rows of the L x N matrix) *)
Definition eig (v : variant) (dense largest : bool) (n d skip : Z) : res :=
  if dense then eig_dense (v_f7 v) largest n d skip else eig_randomized largest n d skip.
Definition eig_nvals (v : variant) (dense largest : bool) (d skip : Z) : Z :=
  if dense then eig_dense_nvals (v_f7 v) largest d skip else eig_randomized_nvals d skip.

(* for (i < d) embedding.first.col(i) *= sqrt(embedding.second(i)) *)
Definition scale_cols (cols nvals d : Z) : res :=
  forZ d (fun i => chk 121 i cols ;; chk 122 i nvals).

(* ---------------------------------------------------------------- locally_linear.hpp *)
(* gram(i, j), j >= i, from kernel(begin[nb[i]], begin[nb[j]]) *)
Definition local_gram (nb : neighbors) (N idx k : Z) : res :=
  forZ k (fun i => forZ_from i k (fun j =>
    nb_get 201 nb idx i (fun wi => chk 202 wi N) ;;
    nb_get 201 nb idx j (fun wj => chk 202 wj N) ;;
    chk 203 i k ;; chk 203 j k)).

(* triplets (nb[i], nb[j]) of an N x N sparse matrix, value from gram(i, j) *)
Definition local_triplets (nb : neighbors) (N idx k : Z) : res :=
  forZ k (fun i =>
    nb_get 204 nb idx i (fun wi => chk 205 wi N) ;;
    forZ k (fun j =>
      nb_get 204 nb idx j (fun wj => chk 205 wj N) ;; chk 206 i k ;; chk 206 j k)).

Definition linear_weight_matrix (nb : neighbors) (N : Z) : res :=
  nb_front 200 nb ;;
  let k := k0 nb in
  forZ N (fun idx =>
    chk 207 idx N ;;                                          (* begin[index_iter] *)
    nb_row 208 nb N idx k (fun i _ => chk 210 i k) ;;         (* dots[i] *)
    local_gram nb N idx k ;;
    forZ k (fun i => chk 211 i k) ;;                          (* weights[i], weights = solve(rhs) has k rows *)
    local_triplets nb N idx k).

Definition tangent_weight_matrix (nb : neighbors) (N d : Z) : res :=
  nb_front 220 nb ;;
  let k := k0 nb in
  chk 221 0 (d + 1) ;;                                        (* G.col(0), G is k x (d+1) *)
  forZ N (fun idx =>
    local_gram nb N idx k ;;
    blk 222 ((d + 1) - d) d (d + 1) ;;                        (* G.rightCols(d) *)
    blk 223 (k - d) d k ;;                                    (* solver.eigenvectors().rightCols(d), k x k *)
    forZ_from 1 (d + 1) (fun i =>                             (* F51: modified Gram-Schmidt, i = 1 .. G.cols() - 1 *)
      forZ i (fun j => chk 224 i (d + 1) ;; chk 225 j (d + 1)) ;;   (* G.col(i).dot(G.col(j)), G.col(i) -= r G.col(j) *)
      chk 224 i (d + 1)) ;;                                   (* G.col(i) /= G.col(i).norm() *)
    local_triplets nb N idx k).

(* HLLE: column written for the pair (j, j+p) *)
Fixpoint hlle_cols (f6 : bool) (d dp : Z) (ct : Z) (j : Z) (n : nat) : res :=
  match n with
  | O => Ok
  | S n' =>
      forZ (d - j) (fun p =>
        chk 231 (ct + p + 1 + d) (1 + d + dp) ;;              (* Yi.col(ct + p + 1 + d) *)
        chk 232 (j + 1) (1 + d + dp) ;;                       (* Yi.col(j + 1) *)
        chk 233 (j + p + 1) (1 + d + dp)) ;;                  (* Yi.col(j + p + 1) *)
      hlle_cols f6 d dp (if f6 then ct + (d - j) else ct + (ct + d - j)) (j + 1) n'
  end.

Definition hessian_weight_matrix (f6 : bool) (nb : neighbors) (N d : Z) : res :=
  nb_front 230 nb ;;
  let k := k0 nb in
  let dp := d * (d + 1) / 2 in
  let w := 1 + d + dp in                                      (* DenseMatrix Yi(k, 1 + d + dp) *)
  forZ N (fun idx =>
    local_gram nb N idx k ;;
    chk 234 0 w ;;                                            (* Yi.col(0) *)
    blk 235 1 d w ;;                                          (* Yi.block(0, 1, k, d) *)
    blk 236 (k - d) d k ;;                                    (* sae_solver.eigenvectors().rightCols(d) *)
    hlle_cols f6 d dp 0 0 (Z.to_nat d) ;;
    forZ w (fun i => chk 237 i w ;; forZ i (fun j => chk 237 j w)) ;;   (* Gram-Schmidt over Yi.cols() *)
    forZ dp (fun i => chk 238 (1 + d + i) w) ;;               (* Yi.col(1 + d + i) *)
    blk 239 (w - dp) dp w ;;                                  (* Yi.rightCols(dp) *)
    local_triplets nb N idx k).

(* ---------------------------------------------------------------- laplacian_eigenmaps.hpp *)
Definition compute_laplacian (nb : neighbors) (N : Z) : res :=
  nb_front 240 nb ;;
  let k := k0 nb in
  forZ N (fun idx =>
    chk 241 idx N ;;                                          (* D(iter - begin) *)
    nb_row 242 nb N idx k (fun _ w => chk 244 w N)) ;;        (* begin[nb[i]], D(nb[i]), triplets *)
  forZ N (fun i => chk 245 i N).                              (* D(i) *)

(* ---------------------------------------------------------------- routines/isomap.hpp *)
(* every vertex may be extracted once; its out-edges are scanned with n_neighbors = neighbors[0].size() *)
Definition dijkstra_rows (nb : neighbors) (N : Z) : res :=
  let k := k0 nb in
  forZ N (fun v => nb_row 251 nb N v k (fun _ w => chk 253 w N)).   (* s[w], f[w], shortest(k, w) *)

Definition shortest_distances (nb : neighbors) (N : Z) : res :=
  nb_front 250 nb ;; dijkstra_rows nb N.

Definition landmark_shortest_distances (nb : neighbors) (lm : list Z) (N : Z) : res :=
  nb_front 250 nb ;;
  let L := Z.of_nat (length lm) in
  forZ L (fun r =>
    match nth_error lm (Z.to_nat r) with
    | None => OOB 254 r L
    | Some l => chk 255 l N                                    (* shortest(k, landmarks[k]), f[landmarks[k]] *)
    end) ;;
  dijkstra_rows nb N.

(* ---------------------------------------------------------------- landmarks.hpp *)
(* landmarks.erase(begin + int(size * ratio), end) *)
Definition select_landmarks (N L : Z) : res := blk 261 L (N - L) N.

Definition lm_get (site : nat) (lm : list Z) (i : Z) (f : Z -> res) : res :=
  if i <? 0 then OOB site i (Z.of_nat (length lm)) else
  match nth_error lm (Z.to_nat i) with
  | None => OOB site i (Z.of_nat (length lm))
  | Some l => f l
  end.

(* triangulate: landmarks_embedding.first is L x cols, .second has nvals entries *)
Definition triangulate (lm : list Z) (N d cols nvals : Z) : res :=
  let L := Z.of_nat (length lm) in
  forZ L (fun i =>
    lm_get 262 lm i (fun l => chk 263 l N) ;;                 (* to_process[landmarks[i]], embedding.row(landmarks[i]) *)
    chk 264 i L) ;;                                           (* landmarks_embedding.first.row(i) *)
  forZ d (fun i => chk 265 i cols ;; chk 266 i nvals) ;;      (* first.col(i) /= second(i) *)
  forZ N (fun idx =>
    chk 267 idx N ;;
    forZ L (fun i => lm_get 268 lm i (fun l => chk 269 l N) ;; chk 270 i L)).

(* ---------------------------------------------------------------- pca.hpp / projection *)
(* project(P, mean, ...): P is D x cols; embedding is N x cols *)
Definition project (N D : Z) : res := forZ N (fun i => chk 281 i N).

(* ---------------------------------------------------------------- spe.hpp *)
Definition spe_clamp_step (N nupd : Z) : Z := if N / 2 <? nupd then N / 2 else nupd.

(* while (nupdates > N / 2) nupdates = N / 2; *)
Fixpoint spe_clamp (fuel : nat) (N nupd : Z) : option Z :=
  match fuel with
  | O => None
  | S f => if N / 2 <? nupd then spe_clamp f N (N / 2) else Some nupd
  end.

(* one iteration of the main loop; perm = the shuffled permutation of 0..N-1,
   rs = the values floor(uniform_random() * k) drawn for j = 0..nupd-1 *)
Definition spe_iteration (global : bool) (nb : neighbors) (perm rs : list Z) (N nupd : Z) : res :=
  let k := if global then 0 else k0 nb in
  let n := Z.of_nat (length perm) in
  (if global then Ok else
     forZ nupd (fun j =>
       lm_get 301 perm j (fun a =>                               (* neighbors[*ind1++] *)
         forZ k (fun kk => nb_get 302 nb a kk (fun _ => chk 303 (kk + j * k) (k * nupd)))) ) ;;
     forZ nupd (fun j =>
       lm_get 304 rs j (fun r => chk 305 (r + k * j) (k * nupd)) ;;   (* ind1Neighbors[r] *)
       chk 306 (nupd + j) n)) ;;                                  (* indices[nupdates + j] *)
  forZ nupd (fun j =>
    lm_get 307 perm j (fun a => chk 308 a N) ;;                  (* Y.col( *ind1 ) *)
    chk 309 (nupd + j) n ;;                                      (* *ind2 = indices[nupdates + j] *)
    chk 310 j nupd).                                             (* D[j], Rt[j], scale[j], Yd.col(j) *)

(* ---------------------------------------------------------------- t-SNE *)
(* the map Y is a buffer of N * no_dims doubles *)
Definition tsne_map (f12 exact : bool) (N no_dims : Z) : res :=
  let len := N * no_dims in
  if exact then
    (* evaluateError -> computeSquaredEuclideanDistance(Y, N, 2 | no_dims, DD): X[n * D + d] *)
    let D := if f12 then no_dims else 2 in
    forZ N (fun n => forZ D (fun dd => chk 321 (n * D + dd) len))
  else
    (* QuadTree(Y, N): inp_data[n * QT_NO_DIMS + d]; computeNonEdgeForces(n, theta, neg_f + n * D, ..):
       neg_f[d], d < QT_NO_DIMS; computeEdgeForces: pos_f[n * QT_NO_DIMS + d] *)
    forZ N (fun n => forZ 2 (fun dd =>
      chk 322 (n * 2 + dd) len ;;
      chk 323 (n * no_dims + dd) len ;;
      chk 324 (n * 2 + dd) len)).

(* Barnes-Hut input similarities: K = (int)(3 * perplexity) neighbours per point *)
Definition tsne_bh_rows (N K : Z) : res :=
  blk 325 0 (K + 1) N ;;                                        (* tree->search(obj_X[n], K + 1, ..) returns K+1 <= N items *)
  forZ N (fun n => forZ K (fun m =>
    chk 326 (m + 1) (K + 1) ;;                                  (* distances[m + 1], indices[m + 1] *)
    chk 327 (n * K + m) (N * K))).                              (* col_P[row_P[n] + m] *)

(* ---------------------------------------------------------------- manifold_sculpting.hpp *)
Definition manifold_sculpting (nb : neighbors) (N D d : Z) : res :=
  nb_front 340 nb ;;
  let k := k0 nb in
  forZ N (fun i => nb_row 341 nb N i k (fun _ w =>               (* distances / angles: neighbors[neighbors[i][j]][l] *)
    forZ k (fun l => nb_get 343 nb w l (fun w2 => chk 344 w2 N)))) ;;
  blk 345 d (D - d) D ;;                                         (* data.bottomRows(data.rows() - d) *)
  blk 346 0 d D ;;                                               (* data.topRows(d) *)
  forZ d (fun i => chk 347 i D) ;;                               (* data(i, index), i < d *)
  blk 348 0 d D.                                                 (* conservativeResize(d, NoChange) keeps rows 0..d-1 *)

(* ---------------------------------------------------------------- dense matrix fills (wave 2) *)
(* two extents that Eigen requires to be equal (operator-=, product, rankUpdate): a mismatch is an
   assertion failure in the TAPKEE_DEBUG build and an out-of-range read otherwise *)
Definition eqchk (site : nat) (a b : Z) : res := if a =? b then Ok else OOB site a b.

(* for (i = 0; i < n; ++i) for (j = i; j < n; ++j) { begin[i], begin[j]; M(i, j) = M(j, i) = .. }, M is n x n *)
Definition sym_fill (site : nat) (n : Z) : res :=
  forZ n (fun i => forZ_from i n (fun j => chk site i n ;; chk site j n)).

(* for i < r, j < c: M(i, j) of an r x c matrix; p(i), p(j) *)
Definition full_fill (site : nat) (r c : Z) : res :=
  forZ r (fun i => forZ c (fun j => chk site i r ;; chk site j c)).

(* utils/matrix.hpp centerMatrix(r x c): matrix.colwise() -= col_means with col_means of length c *)
Definition center_matrix (r c : Z) : res := eqchk 613 c r.

(* routines/diffusion_maps.hpp compute_diffusion_matrix: N x N matrix, p of length N, two normalisations *)
Definition diffusion_matrix (N : Z) : res :=
  sym_fill 601 N ;; full_fill 602 N N ;; full_fill 603 N N.

(* routines/multidimensional_scaling.hpp compute_distance_matrix, methods/multidimensional_scaling.hpp *)
Definition distance_matrix (N : Z) : res := sym_fill 611 N ;; center_matrix N N.

(* routines/pca.hpp compute_centered_kernel_matrix *)
Definition centered_kernel_matrix (N : Z) : res := sym_fill 612 N ;; center_matrix N N.

(* compute_distance_matrix(begin, end, landmarks, callback): L x L, begin[landmarks[i]] *)
Definition landmark_distance_matrix (lm : list Z) (N : Z) : res :=
  let L := Z.of_nat (length lm) in
  forZ L (fun i => forZ_from i L (fun j =>
    lm_get 614 lm i (fun a => chk 615 a N) ;; lm_get 614 lm j (fun b => chk 615 b N) ;;
    chk 616 i L ;; chk 616 j L)) ;;
  center_matrix L L.

(* routines/pca.hpp project(P, mean, ..): P is prow x pcols, mean has mlen entries, samples have D;
   embedding.row(iter - begin) = P^T * (x - mean) *)
Definition project_full (N D prow mlen : Z) : res :=
  eqchk 282 mlen D ;; eqchk 283 prow D ;; forZ N (fun i => chk 281 i N).

(* routines/random_projection.hpp gaussian_projection_matrix(a, b): a x b matrix filled entry by entry;
   methods/random_projection.hpp calls it with (current_dimension, target_dimension) *)
Definition gaussian_projection_matrix (a b : Z) : res := full_fill 631 a b.

(* routines/fa.hpp project: X is D x N (X.col(iter - begin) = x - mean), A is D x d,
   M = A^T invC X is d x N, SC is d x d, result X^T A is N x d *)
Definition factor_analysis (N D d mlen : Z) : res :=
  eqchk 641 mlen D ;; forZ N (fun i => chk 642 i N) ;;
  eqchk 643 D D ;;                 (* A * A^T + sig: D x D both *)
  eqchk 644 d d.                   (* Identity(d, d) - A^T invC A *)

(* ---------------------------------------------------------------- t-SNE work buffers (wave 2) *)
(* external/barnes_hut_sne/tsne.hpp run(): X is D x N column-major (X[n * D + d]); Y, dY, uY, gains hold
   N * no_dims doubles; exact mode: P, DD, Q hold N * N; Barnes-Hut mode: row_P (N + 1), col_P / val_P
   (N * K), cur_P (N - 1), and the K-NN answer without the query has K entries *)
Definition tsne_buffers (exact : bool) (N D nd K : Z) : res :=
  forZ N (fun n => forZ D (fun dd => chk 651 (n * D + dd) (N * D))) ;;                 (* zeroMean(X) *)
  (if exact then
     forZ N (fun n => forZ N (fun m => chk 652 (n * N + m) (N * N))) ;;                  (* P, DD, Q *)
     forZ N (fun n => forZ_from (n + 1) N (fun m =>
       chk 653 (n * N + m) (N * N) ;; chk 653 (m * N + n) (N * N)))                      (* P symmetrised *)
   else
     forZ N (fun n => chk 654 (n + 1) (N + 1)) ;;                                        (* row_P[n + 1] *)
     forZ K (fun m => chk 655 m (N - 1) ;; chk 656 m K)) ;;                              (* cur_P[m]; distances[m] *)
  forZ (N * nd) (fun i => chk 657 i (N * nd)) ;;                                         (* Y, dY, uY, gains *)
  forZ N (fun n => forZ nd (fun dd => chk 658 (n * nd + dd) (N * nd))).                  (* zeroMean(Y), dC *)

(* quadtree.hpp: per-node buffers index[QT_NODE_CAPACITY], count[QT_NODE_CAPACITY] (capacity 1),
   center_of_mass[QT_NO_DIMS], buff[QT_NO_DIMS]; `size` = entries in use before the insertion *)
Definition qt_capacity : Z := 1.
Definition qt_dims : Z := 2.
Definition quadtree_node_insert (size : Z) : res :=
  forZ qt_dims (fun dd => chk 661 dd qt_dims) ;;                                          (* center_of_mass[d] *)
  (if size <? qt_capacity then chk 662 size qt_capacity else Ok) ;;                      (* index[size], count[size] *)
  forZ size (fun n => chk 663 n qt_capacity).                                            (* index[n], count[n], n < size *)

(* ---------------------------------------------------------------- VP-tree construction (wave 2) *)
(* neighbors/vptree.hpp and barnes_hut_sne/vptree.hpp buildFromPoints(lower, upper) over `items` of n
   entries; draw lower upper = (int)(uniform_random() * (upper - lower - 1)) *)
Fixpoint vp_build (fuel : nat) (n lower upper : Z) (draw : Z -> Z -> Z) : res :=
  match fuel with
  | O => OutOfFuel 720
  | S f =>
      if upper =? lower then Ok else
      chk 721 lower n ;;                                                                   (* items[lower] *)
      if 1 <? upper - lower then
        let i := draw lower upper + lower in
        let median := (upper + lower) / 2 in
        chk 722 i n ;;                                                                     (* swap(items[lower], items[i]) *)
        blk 723 (lower + 1) (median - (lower + 1)) n ;;                                    (* nth_element first .. nth *)
        blk 724 median (upper - median) n ;;                                               (*             nth .. last *)
        chk 725 median n ;;                                                                (* items[median] *)
        vp_build f n (lower + 1) median draw ;; vp_build f n median upper draw
      else Ok
  end.

(* ---------------------------------------------------------------- cover tree (wave 2) *)
(* covertree.hpp k_nearest_neighbor: cover_sets has num_cover_sets slots and is indexed with the raw
   `scale` of every node that has children (push(cover_sets[chi->scale], ..)) and with 0 for the root.
   f28 = the repair `num_cover_sets = max(101, 1 + deepest scale)` (false: 101 whatever the tree) *)
Definition cover_sets_access (f28 : bool) (scales : list Z) : res :=
  let deepest := fold_right Z.max 0 scales in
  let ncs := if f28 then Z.max 101 (1 + deepest) else 101 in
  chk 701 0 ncs ;; fold_right (fun s r => chk 702 s ncs ;; r) Ok scales.

(* batch_insert along one chain of self-children: node scale = top_scale - max_scale, or max(100, ..) for
   the node that holds coincident points; next_scale = min(max_scale - 1, get_scale(max_dist)).
   g max_scale = get_scale(max_dist) of the points that are left (None: they all coincide, INT_MIN) *)
Fixpoint bi_chain (fuel : nat) (top max : Z) (g : Z -> option Z) : option (list Z) :=
  match fuel with
  | O => None
  | S f =>
      match g max with
      | None => Some [Z.max 100 (top - max)]
      | Some s => match bi_chain f top (Z.min (max - 1) s) g with
                  | None => None
                  | Some l => Some ((top - max) :: l)
                  end
      end
  end.

(* ---------------------------------------------------------------- requests *)
Inductive meth :=
| KLLE | NPE | KLTSA | LLTSA | HLLE | LA | LPP | DM | ISOMAP | LISOMAP
| MDS | LMDS | SPE | KPCA | PCA | RP | FA | TSNE | MS | PASSTHRU.

Record cfg := {
  c_m : meth;
  c_N : Z;            (* number of samples *)
  c_D : Z;            (* features.dimension() *)
  c_d : Z;            (* target_dimension *)
  c_k : Z;            (* num_neighbors (the keyword) *)
  c_dense : bool;     (* eigen_method = Dense (false: Randomized) *)
  c_scalars_ok : bool;  (* the method's scalar keywords satisfy their validate() predicates (C14) *)
  c_L : Z;            (* static_cast<IndexType>(N * landmark_ratio) *)
  c_exact : bool;     (* sne_theta == 0 *)
  c_K : Z;            (* (int)(3 * sne_perplexity) *)
  c_global : bool;    (* spe_global_strategy *)
  c_nupd : Z          (* spe_num_updates *)
}.

Definition uses_neighbors (c : cfg) : bool :=
  match c_m c with
  | KLLE | NPE | KLTSA | LLTSA | HLLE | LA | LPP | ISOMAP | LISOMAP | MS => true
  | SPE => negb (c_global c)
  | _ => false
  end.

(* the method's validate() *)
Definition validate (v : variant) (c : cfg) : bool :=
  c_scalars_ok c &&
  (if v_f21 v then
     match c_m c with
     | PCA | NPE | LPP | MS => (1 <=? c_d c) && (c_d c <=? c_D c)
     | LLTSA => (1 <=? c_d c) && (c_d c <=? c_D c) && (c_d c <=? c_k c)
     | KLTSA | HLLE => (1 <=? c_d c) && (c_d c <=? c_k c)
     | LMDS | LISOMAP => (1 <=? c_d c) && (c_d c <=? c_L c)
     | _ => true
     end
   else true) &&
  (if v_f12 v then
     match c_m c with
     | TSNE => c_exact c || (c_d c =? 2)
     | _ => true
     end
   else true).

(* find_neighbors_with: num_neighbors in [3, N) *)
Definition neighbors_stage (c : cfg) : res :=
  guard ((3 <=? c_k c) && (c_k c <? c_N c)) WrongParameter.

(* generalized_eigendecomposition(...) *)
Definition geig (v : variant) (c : cfg) (n skip : Z) : res :=
  if c_dense c then eig_dense (v_f7 v) false n (c_d c) skip
  else Throw UnsupportedMethod.

Definition lm_of (c : cfg) (perm : list Z) : list Z := firstn (Z.to_nat (c_L c)) perm.

(* the embed() body of each method; nb = the neighbour lists find_neighbors returned,
   perm = the shuffled identity permutation (landmark selection / SPE), rs = SPE draws *)
Definition embed_body (v : variant) (c : cfg) (nb : neighbors) (perm rs : list Z) : res :=
  let N := c_N c in let D := c_D c in let d := c_d c in let dn := c_dense c in
  match c_m c with
  | KLLE =>
      neighbors_stage c ;; linear_weight_matrix nb N ;; eig v dn false N d 1
  | KLTSA =>
      neighbors_stage c ;; tangent_weight_matrix nb N d ;; eig v dn false N d 1
  | HLLE =>
      neighbors_stage c ;; hessian_weight_matrix (v_f6 v) nb N d ;; eig v dn false N d 1
  | NPE =>
      neighbors_stage c ;; linear_weight_matrix nb N ;; geig v c D 0 ;; project N D
  | LLTSA =>
      neighbors_stage c ;; tangent_weight_matrix nb N d ;; geig v c D 0 ;; project N D
  | LA =>
      neighbors_stage c ;; compute_laplacian nb N ;; geig v c N 1
  | LPP =>
      neighbors_stage c ;; compute_laplacian nb N ;; geig v c D 0 ;; project N D
  | DM =>
      diffusion_matrix N ;;
      eig v dn true N (d + 1) 0 ;;
      blk 401 0 d (d + 1) ;;                                    (* first.leftCols(d) of d+1 columns *)
      scale_cols d (eig_nvals v dn true (d + 1) 0) d ;;
      chk 402 d (d + 1)                                         (* first.col(d) *)
  | ISOMAP =>
      neighbors_stage c ;; shortest_distances nb N ;;
      eig v dn true N d 0 ;; scale_cols d (eig_nvals v dn true d 0) d
  | MDS =>
      distance_matrix N ;; eig v dn true N d 0 ;; scale_cols d (eig_nvals v dn true d 0) d
  | KPCA =>
      centered_kernel_matrix N ;; eig v dn true N d 0 ;; scale_cols d (eig_nvals v dn true d 0) d
  | LISOMAP =>
      neighbors_stage c ;;
      select_landmarks N (c_L c) ;;
      landmark_shortest_distances nb (lm_of c perm) N ;;
      eig v dn true (c_L c) d 0 ;;                              (* dense: L x L; randomized: O has L rows *)
      scale_cols d (eig_nvals v dn true d 0) d
  | LMDS =>
      select_landmarks N (c_L c) ;;
      landmark_distance_matrix (lm_of c perm) N ;;
      eig v dn true (c_L c) d 0 ;;
      scale_cols d (eig_nvals v dn true d 0) d ;;
      triangulate (lm_of c perm) N d d (eig_nvals v dn true d 0)
  | PCA =>
      eig v dn true D d 0 ;; project_full N D D D              (* P = first: D x d; mean of length D *)
  | RP =>
      gaussian_projection_matrix D d ;; project_full N D D D   (* the matrix is D x d *)
  | FA => factor_analysis N D d D
  | PASSTHRU => project N D
  | SPE =>
      (if c_global c then Ok else neighbors_stage c) ;;
      match spe_clamp 2 N (c_nupd c) with
      | None => OutOfFuel 300
      | Some nu => spe_iteration (c_global c) nb perm rs N nu
      end
  | TSNE =>
      tsne_buffers (c_exact c) N D d (c_K c) ;;
      (if c_exact c then Ok else tsne_bh_rows N (c_K c)) ;;
      tsne_map (v_f12 v) (c_exact c) N d
  | MS =>
      neighbors_stage c ;; manifold_sculpting nb N D d
  end.

(* tapkee::embed: ImplementationBase constructor, validate(), embed() *)
Definition embed_model (v : variant) (c : cfg) (nb : neighbors) (perm rs : list Z) : res :=
  guard (negb (c_N c =? 0)) NoData ;;
  guard ((1 <=? c_d c) && (c_d c <? c_N c)) WrongParameter ;;
  guard (validate v c) WrongParameter ;;
  embed_body v c nb perm rs.

Inductive outcome :=
| OShape (rows cols : Z)
| OExc (e : exc)
| OCrash (site : nat) (idx size : Z)
| OHang (site : nat).

Definition out_cols (c : cfg) : Z := match c_m c with PASSTHRU => c_D c | _ => c_d c end.

Definition outcome_of (v : variant) (c : cfg) (nb : neighbors) (perm rs : list Z) : outcome :=
  match embed_model v c nb perm rs with
  | Ok => OShape (c_N c) (out_cols c)
  | Throw e => OExc e
  | OOB s i n => OCrash s i n
  | OutOfFuel s => OHang s
  end.

(* ---------------------------------------------------------------- termination models *)
(* find_neighbors: k = min(k, N-1); if (check_connectivity && !is_connected) recurse with 2k.
   conn k' = the k'-neighbour graph is (strongly) connected *)
Fixpoint kdouble (fuel : nat) (N k : Z) (conn : Z -> bool) : option Z :=
  match fuel with
  | O => None
  | S f =>
      let k' := if N - 1 <? k then N - 1 else k in
      if conn k' then Some k' else kdouble f N (2 * k') conn
  end.

(* ManifoldSculpting step 3a: while (average_neighbor_distance(data) < initial) topRows /= rate;
   avg n = the average after n rescalings (an oracle sequence); guard = the F20 repair *)
Fixpoint ms_rescale (fuel : nat) (guarded : bool) (varies : bool) (avg : nat -> Q) (c : Q) (n : nat) : option nat :=
  match fuel with
  | O => None
  | S f =>
      if (if guarded then varies else true) && negb (Qle_bool c (avg n))
      then ms_rescale f guarded varies avg c (S n)
      else Some n
  end.

(* adjust_point_at_index hill climbing on ONE coordinate; errors are doubles, None = NaN.
   ge_old a b = (a >= b) as the C++ evaluates it: false when either side is NaN.
   err pos = the error with the coordinate at position pos (in units of learning_rate). *)
Definition fge (a b : option Q) : bool :=
  match a, b with Some x, Some y => Qle_bool y x | _, _ => false end.
Definition flt (a b : option Q) : bool :=
  match a, b with Some x, Some y => negb (Qle_bool y x) | _, _ => false end.

Definition no_progress (repaired : bool) (new_e old_e : option Q) : bool :=
  if repaired then negb (flt new_e old_e) else fge new_e old_e.

(* returns the number of rounds of the `while (!finish)` loop *)
Fixpoint ms_adjust (fuel : nat) (repaired : bool) (err : Z -> option Q) (pos : Z) (rounds : nat) : option nat :=
  match fuel with
  | O => None
  | S f =>
      let old_e := err pos in
      let up := err (pos + 1) in
      if no_progress repaired up old_e then
        let dn := err (pos - 1) in
        if no_progress repaired dn old_e then Some (S rounds)          (* reverted, finish stays true *)
        else ms_adjust f repaired err (pos - 1) (S rounds)
      else ms_adjust f repaired err (pos + 1) (S rounds)
  end.


(* ---------------------------------------------------------------- loops with an explicit cap (wave 2) *)
(* first counter value n' >= n with p n' = true *)
Fixpoint count_until (fuel : nat) (p : nat -> bool) (n : nat) : option nat :=
  match fuel with
  | O => None
  | S f => if p n then Some n else count_until f p (S n)
  end.

(* tsne.hpp computeGaussianPerplexity: `while (!found && iter < 200) { ..; iter++; }`; found_at i = the
   tolerance test succeeds in pass i (any oracle: NaN entropies never succeed) *)
Definition perplexity_search (fuel : nat) (found_at : nat -> bool) : option nat :=
  count_until fuel (fun i => found_at i || (200 <=? i)%nat) 0.

(* fa.hpp: `while (iter < max_iter) { ++iter; ..; if (iter > 1 && fabs(newll - ll) < eps) break; }` *)
Definition fa_loop (fuel : nat) (max_iter : nat) (conv_at : nat -> bool) : option nat :=
  count_until fuel (fun i => (max_iter <=? i)%nat || ((1 <? i)%nat && conv_at i)) 0.

(* quadtree.hpp insert: a leaf that holds p subdivides when q arrives; after t halvings the cell has
   half-width w / 2^t, and p, q (at sup-distance delta > 0) can share a CLOSED cell only while
   delta <= 2 * (w / 2^t), i.e. delta * 2^t <= 2 w: the number of passes bounds the depth *)
Definition qt_depth (fuel : nat) (w delta : Q) : option nat :=
  count_until fuel (fun t => negb (Qle_bool (delta * (2 ^ (Z.of_nat t))) (2 * w))) 0.

(* a loop whose state changes through `step` until it returns None *)
Fixpoint iter_fuel {S : Type} (fuel : nat) (step : S -> option S) (s : S) (n : nat) : option (S * nat) :=
  match fuel with
  | O => None
  | Datatypes.S f => match step s with
                     | None => Some (s, n)
                     | Some s' => iter_fuel f step s' (Datatypes.S n)
                     end
  end.

(* covertree.hpp internal_batch_nearest_neighbor, case c: descend; current_scale++ until
   current_scale > max_scale; grow cs ms = max_scale after descending from scale cs *)
Definition ct_descend_step (grow : Z -> Z -> Z) (st : Z * Z) : option (Z * Z) :=
  let '(cs, ms) := st in if ms <? cs then None else Some (cs + 1, grow cs ms).

(* manifold_sculpting.hpp adjust_point_at_index, whole sweeps: one pass of `while (!finish)` over the d
   coordinates either improves the error (new state) or leaves finish = true; the state is the ordinal of
   the double old_error (finite non-negative doubles are order-isomorphic to an interval of Z) *)
Definition ms_sweep_step (improve : Z -> option Z) (e : Z) : option Z := improve e.

(* ---------------------------------------------------------------- site table
 101 eigendecomposition.hpp:72 / generalized_eigendecomposition.hpp:61  eigenvectors().rightCols(d)
 102 eigendecomposition.hpp:73 / generalized..:62   eigenvalues().tail(d)
 103,104 eigendecomposition.hpp:78 / generalized..:67   eigenvectors().leftCols(d+skip).rightCols(d)
 105 eigendecomposition.hpp:80 / generalized..:69   eigenvalues().segment(skip, skip+d)        (F7)
 111-116 eigendecomposition.hpp:95-137 randomized: Y.col(i), Y.col(j), Y.col(k), (Y*V).rightCols/leftCols
 121,122 methods/{isomap,multidimensional_scaling,kernel_pca,landmark_*,diffusion_map}.hpp  first.col(i), second(i), i < d
 200-211 locally_linear.hpp linear_weight_matrix: neighbors[0], begin[idx], neighbors[idx][i], dots[i], gram(i,j), weights[i], triplets
 220-225 locally_linear.hpp tangent_weight_matrix: G.col(0), G.rightCols(d), eigenvectors().rightCols(d) (k x k), Gram-Schmidt G.col(i) / G.col(j) (F51)
 230-239 locally_linear.hpp hessian_weight_matrix: Yi.col(ct+p+1+d) (F6), Yi.block, rightCols(d) (k x k), Yi.rightCols(dp)
 240-245 laplacian_eigenmaps.hpp compute_laplacian: D(idx), D(nb[i]), triplets
 250-255 routines/isomap.hpp: neighbors[min_item][i], s[w], f[w], shortest(k, w), landmarks[k]
 261-270 routines/landmarks.hpp: erase position, landmarks[i], embedding.row(landmarks[i]), first.row(i), first.col(i)/second(i), distances_to_landmarks(i)
 281 routines/pca.hpp project: embedding.row(iter - begin)
 300-310 routines/spe.hpp: clamp loop, neighbors[*ind1], ind1Neighbors[kk + j*k], ind1Neighbors[r], indices[nupdates + j], Y.col( *ind ), D[j]
 321 barnes_hut_sne/tsne.hpp:425,950 evaluateError -> computeSquaredEuclideanDistance(Y, N, 2, ..)   (F12)
 322 barnes_hut_sne/quadtree.hpp:119 inp_data[n*QT_NO_DIMS + d]                                   (F12)
 323 barnes_hut_sne/tsne.hpp:345 neg_f + n*D, quadtree.hpp computeNonEdgeForces neg_f[d]           (F12)
 324 barnes_hut_sne/quadtree.hpp:373-389 pos_f[n*QT_NO_DIMS + d]                                  (F12)
 325-327 barnes_hut_sne/tsne.hpp:657-721 search(K+1), distances[m+1], col_P[row_P[n]+m]
 340-348 routines/manifold_sculpting.hpp: neighbors[neighbors[i][j]][l], bottomRows(D-d), topRows(d), data(i, index), conservativeResize
 401,402 methods/diffusion_map.hpp: first.leftCols(d), first.col(d)
 601-603 routines/diffusion_maps.hpp:50-75 diffusion_matrix(i, j), (j, i), p(i), p(j)
 611,612 routines/multidimensional_scaling.hpp:57-64, routines/pca.hpp:83-89 distance / kernel matrix fill
 613 utils/matrix.hpp:18 matrix.colwise() -= col_means
 614-616 routines/multidimensional_scaling.hpp:30-37 begin[landmarks[i]], distance_matrix(i, j) (L x L)
 281-283 routines/pca.hpp:26-32 embedding.row(iter - begin), P^T * (x - mean)
 631 routines/random_projection.hpp:19-25 projection_matrix(i, j)
 641-644 routines/fa.hpp:26-59 X.col(iter - begin), A A^T + sig, Identity(d, d) - A^T invC A
 651-658 barnes_hut_sne/tsne.hpp: zeroMean X[n*D+d]; P/DD/Q[n*N+m]; row_P[n+1]; cur_P[m]; distances[m]; Y/dY/uY/gains[i]; dC[n*D+d]
 661-663 barnes_hut_sne/quadtree.hpp:204-237 center_of_mass[d], index[size], count[size], index[n]
 701,702 neighbors/covertree.hpp:646-659, 520-547 cover_sets[0], cover_sets[chi->scale]   (F28)
 720-725 neighbors/vptree.hpp:149-169, barnes_hut_sne/vptree.hpp:216-243 buildFromPoints
*)
