(* ====================================================================== *)
(*  Landmark_Proof_Ratio.v — Landmark Isomap (dense branch) factor         *)
(*  equations, and the landmark_ratio = 1 clause of C11 for both methods:  *)
(*  with every sample a landmark (any order) the landmark method's output  *)
(*  IS the non-landmark method's output for the un-permuted solver answer, *)
(*  and that answer meets the solver contract for the un-permuted matrix.  *)
(* ====================================================================== *)
Require Import Field Ring Arith Lia List Bool Permutation.
From TK Require Import Mat_Sums Mat_Core Landmark_Model Landmark_Spec
                       Landmark_Proof_Trace Landmark_Proof_Euclid Landmark_Proof_Main.
Import ListNotations.

(* position of a in lm (length lm when absent) *)
Fixpoint pos_of (lm : list nat) (a : nat) : nat :=
  match lm with
  | [] => 0
  | x :: r => if Nat.eqb x a then 0 else S (pos_of r a)
  end.

Lemma pos_of_In lm a : In a lm -> pos_of lm a < length lm /\ nth (pos_of lm a) lm 0 = a.
Proof.
  induction lm as [|x r IH]; intros H; [contradiction|]. cbn [pos_of length].
  destruct (Nat.eqb x a) eqn:E.
  - apply Nat.eqb_eq in E. split; [lia|exact E].
  - apply Nat.eqb_neq in E. destruct H as [H|H]; [contradiction|].
    destruct (IH H) as [H1 H2]. split; [lia|exact H2].
Qed.

Lemma pos_of_nth lm i : NoDup lm -> i < length lm -> pos_of lm (nth i lm 0) = i.
Proof.
  revert i. induction lm as [|x r IH]; intros i Hnd Hi; [cbn in Hi; lia|].
  inversion Hnd as [|y l' Hn Hr]; subst. destruct i as [|i]; cbn [nth pos_of].
  - rewrite Nat.eqb_refl. reflexivity.
  - cbn [length] in Hi. destruct (Nat.eqb x (nth i r 0)) eqn:E.
    + apply Nat.eqb_eq in E. exfalso. apply Hn. rewrite E. apply nth_In. lia.
    + f_equal. apply IH; [assumption|lia].
Qed.

Lemma perm_facts lm N :
  Permutation lm (seq 0 N) ->
  length lm = N /\ NoDup lm /\ Forall (fun l => l < N) lm /\
  (forall a, a < N -> pos_of lm a < N /\ lmk lm (pos_of lm a) = a) /\
  (forall i, i < N -> lmk lm i < N /\ pos_of lm (lmk lm i) = i).
Proof.
  intros HP.
  assert (Hlen : length lm = N) by (rewrite (Permutation_length HP); apply seq_length).
  assert (Hnd : NoDup lm) by (apply (Permutation_NoDup (Permutation_sym HP)); apply seq_NoDup).
  assert (Hlt : Forall (fun l => l < N) lm).
  { apply Forall_forall. intros x Hx. apply (Permutation_in _ HP) in Hx. apply in_seq in Hx. lia. }
  split; [assumption|]. split; [assumption|]. split; [assumption|]. split.
  - intros a Ha. assert (Hin : In a lm).
    { apply (Permutation_in _ (Permutation_sym HP)). apply in_seq. lia. }
    destruct (pos_of_In lm a Hin) as [H1 H2]. rewrite Hlen in H1. split; assumption.
  - intros i Hi. split.
    + rewrite Forall_forall in Hlt. apply Hlt. apply nth_In. lia.
    + apply pos_of_nth; [assumption|lia].
Qed.

Section Ratio.
  Context {F : Type} {Fo : FieldOps F} {Ff : IsField F}.
  Add Field LandmarkRatioField : (@Fth F Fo Ff).
  Local Open Scope nat_scope.
  Local Open Scope F_scope.

  (* ---------------- sums over a permutation ---------------- *)
  Fixpoint lsum (l : list nat) (f : nat -> F) : F :=
    match l with [] => 0 | x :: r => f x + lsum r f end.

  Lemma lsum_app l l' f : lsum (l ++ l') f = lsum l f + lsum l' f.
  Proof. induction l as [|x r IH]; cbn [app lsum]; [ring|]. rewrite IH. ring. Qed.

  Lemma sumn_lsum n f : sumn n f = lsum (seq 0 n) f.
  Proof.
    induction n as [|n IH]; [reflexivity|]. rewrite seq_S, lsum_app. cbn [sumn lsum Nat.add].
    rewrite IH. ring.
  Qed.

  Lemma lsum_perm l l' f : Permutation l l' -> lsum l f = lsum l' f.
  Proof.
    intros H. induction H; cbn [lsum].
    - reflexivity.
    - rewrite IHPermutation. reflexivity.
    - ring.
    - rewrite IHPermutation1. assumption.
  Qed.

  Lemma lsum_map (g : nat -> nat) l f : lsum (map g l) f = lsum l (fun i => f (g i)).
  Proof. induction l as [|x r IH]; cbn [map lsum]; [reflexivity|]. rewrite IH. reflexivity. Qed.

  Lemma sumn_perm lm N (f : nat -> F) :
    Permutation lm (seq 0 N) -> sumn N (fun i => f (lmk lm i)) = sumn N f.
  Proof.
    intros HP. assert (Hlen : length lm = N) by (rewrite (Permutation_length HP); apply seq_length).
    rewrite !sumn_lsum. rewrite <- (lsum_map (fun i => lmk lm i) (seq 0 N) f).
    assert (E : map (fun i => lmk lm i) (seq 0 N) = lm).
    { rewrite <- Hlen. exact (tab_nth_id lm 0%nat). }
    rewrite E. apply lsum_perm. exact HP.
  Qed.

  (* ---------------- Landmark Isomap, dense branch ---------------- *)
  Lemma lisomap_embed_inv N L d G W w q Y :
    lisomap_embed N L d G W w q = LOk Y ->
    d <= L /\
    Y = fun j c => sumn L (fun k => lisomap_matrix L N G k j * sel_vecs L d W k c) / q c.
  Proof.
    unfold lisomap_embed, select_largest. intros H.
    destruct (Nat.leb d L) eqn:E; [|discriminate]. apply Nat.leb_le in E.
    inversion H. split; [assumption|reflexivity].
  Qed.

  (* Y = B^T U diag(1/q);  with the solver contract for B B^T and q^4 = lam:
     Y^T Y = diag(q^2) (= diag(sqrt lam))  and  (B^T B) Y = Y diag(lam) *)
  Theorem lisomap_dense_formula_lemma N L d G W w q Y :
    lisomap_embed N L d G W w q = LOk Y ->
    let B := lisomap_matrix L N G in
    let U := sel_vecs L d W in let lam := sel_vals L d w in
    d <= L /\
    (forall j c, Y j c = sumn L (fun k => B k j * U k c) / q c) /\
    (lm_eig_contract L d (lisomap_sym N B) U lam ->
     (forall c, c < d -> q c * q c * (q c * q c) = lam c) ->
     (forall c, c < d -> q c <> 0) ->
     meq d d (mmul N (mtrans Y) Y) (mdiag (fun c => q c * q c)) /\
     meq N d (mmul N (mmul L (mtrans B) B) Y) (mmul d Y (mdiag lam))).
  Proof.
    intros H B U lam. destruct (lisomap_embed_inv _ _ _ _ _ _ _ _ H) as [Hd HY].
    split; [assumption|]. split; [intros j c; rewrite HY; reflexivity|].
    intros [Horth Heig] Hq4 Hq0.
    set (M := fun j c => sumn L (fun k => B k j * U k c)).
    assert (HYM : forall j c, Y j c = M j c / q c) by (intros; rewrite HY; reflexivity).
    (* (B B^T) U = U diag(lam), entrywise *)
    assert (HSU : forall k c, k < L -> c < d ->
              sumn L (fun k' => lisomap_sym N B k k' * U k' c) = U k c * lam c).
    { intros k c Hk Hc. pose proof (Heig k c Hk Hc) as E. rewrite mmul_diag_r in E by assumption. exact E. }
    (* sum_j B_kj M_jc = U_kc lam_c *)
    assert (HBM : forall k c, k < L -> c < d -> sumn N (fun j => B k j * M j c) = U k c * lam c).
    { intros k c Hk Hc. rewrite <- HSU by assumption. unfold M, lisomap_sym.
      rewrite (sumn_ext N _ (fun j => sumn L (fun k' => B k j * B k' j * U k' c))).
      2:{ intros j _. rewrite <- sumn_mul_l. apply sumn_ext. intros; ring. }
      rewrite sumn_swap. apply sumn_ext. intros k' _. rewrite <- sumn_mul_r. reflexivity. }
    (* M^T M = diag(lam) *)
    assert (HMM : forall a b, a < d -> b < d -> sumn N (fun j => M j a * M j b) = delta a b * lam b).
    { intros a b Ha Hb.
      rewrite (sumn_ext N _ (fun j => sumn L (fun k => U k a * (B k j * M j b)))).
      2:{ intros j _. unfold M at 1. rewrite <- sumn_mul_r. apply sumn_ext. intros; ring. }
      rewrite sumn_swap.
      rewrite (sumn_ext L _ (fun k => U k a * U k b * lam b)).
      2:{ intros k Hk. rewrite sumn_mul_l, HBM by assumption. ring. }
      rewrite sumn_mul_r. pose proof (Horth a b Ha Hb) as E. unfold mmul, mtrans, mI in E.
      rewrite E. reflexivity. }
    split.
    - intros a b Ha Hb. unfold mmul, mtrans, mdiag.
      rewrite (sumn_ext N _ (fun j => M j a * M j b * / (q a * q b))).
      2:{ intros j _. rewrite !HYM. field. split; apply Hq0; assumption. }
      rewrite sumn_mul_r, HMM by assumption. unfold delta.
      destruct (Nat.eqb a b) eqn:E.
      + apply Nat.eqb_eq in E. subst b. rewrite <- (Hq4 a Ha). field. apply Hq0. assumption.
      + ring.
    - intros j c Hj Hc. rewrite mmul_diag_r by assumption. unfold mmul at 1.
      rewrite (sumn_ext N _ (fun j' => sumn L (fun k => B k j * (B k j' * M j' c)) * / q c)).
      2:{ intros j' _. unfold mmul, mtrans. rewrite HYM, fdiv_def.
          transitivity (sumn L (fun t => B t j * B t j') * M j' c * / q c); [ring|].
          f_equal. rewrite <- sumn_mul_r. apply sumn_ext. intros; ring. }
      rewrite sumn_mul_r, sumn_swap.
      rewrite (sumn_ext L _ (fun k => B k j * (U k c * lam c))).
      2:{ intros k Hk. rewrite sumn_mul_l, HBM by assumption. reflexivity. }
      rewrite HYM. fold (M j c). unfold M.
      rewrite fdiv_def, <- !sumn_mul_r. apply sumn_ext. intros; ring.
  Qed.

  (* ---------------- ratio = 1, Landmark MDS ---------------- *)
  Lemma colmean_perm lm N (M : mat F) j :
    Permutation lm (seq 0 N) ->
    colmean N (fun i b => M (lmk lm i) b) j = colmean N M j.
  Proof.
    intros HP. unfold colmean, colsum. f_equal. exact (sumn_perm lm N (fun a => M a j) HP).
  Qed.

  Lemma lmds_matrix_perm lm N (dist : mat F) i j :
    Permutation lm (seq 0 N) ->
    (forall a b, a < N -> b < N -> dist a b = dist b a) ->
    i < N -> j < N ->
    lmds_matrix lm dist i j = mds_matrix_full N dist (lmk lm i) (lmk lm j).
  Proof.
    intros HP Hsym Hi Hj.
    destruct (perm_facts lm N HP) as [Hlen [Hnd [Hlt [_ Hlmk]]]].
    unfold lmds_matrix, mds_matrix_full. rewrite Hlen. f_equal.
    set (D2 := full_dist_sq dist).
    assert (HD : forall a b, a < N -> b < N ->
              landmark_dist_sq lm dist a b = D2 (lmk lm a) (lmk lm b)).
    { intros a b Ha Hb. unfold landmark_dist_sq, D2, full_dist_sq.
      destruct (Hlmk a Ha) as [Hla _]. destruct (Hlmk b Hb) as [Hlb _].
      destruct (Nat.leb a b); destruct (Nat.leb (lmk lm a) (lmk lm b)); try reflexivity;
        rewrite (Hsym (lmk lm a) (lmk lm b)) by assumption; reflexivity. }
    unfold center_matrix.
    assert (Hcm : forall b, b < N -> colmean N (landmark_dist_sq lm dist) b = colmean N D2 (lmk lm b)).
    { intros b Hb. unfold colmean, colsum. f_equal.
      rewrite (sumn_ext N _ (fun a => D2 (lmk lm a) (lmk lm b))) by (intros; apply HD; assumption).
      exact (sumn_perm lm N (fun a => D2 a (lmk lm b)) HP). }
    assert (Hg : grandmean N N (landmark_dist_sq lm dist) = grandmean N N D2).
    { unfold grandmean. f_equal. rewrite !totsum_swap.
      rewrite (sumn_ext N _ (fun b => colsum N D2 (lmk lm b))).
      2:{ intros b Hb. pose proof (Hcm b Hb) as E. unfold colmean in E.
          unfold colsum in *. 
          rewrite (sumn_ext N _ (fun a => D2 (lmk lm a) (lmk lm b))) by (intros; apply HD; assumption).
          exact (sumn_perm lm N (fun a => D2 a (lmk lm b)) HP). }
      exact (sumn_perm lm N (fun b => colsum N D2 b) HP). }
    rewrite HD, Hg, !Hcm by assumption. reflexivity.
  Qed.

  Theorem ratio_one_lmds_partial_lemma N d keep lm (dist W : mat F) (w s : vec F) ws :
    Permutation lm (seq 0 N) ->
    (forall a b, a < N -> b < N -> dist a b = dist b a) ->
    lmds_embed N d keep lm dist W w s = LOk ws ->
    let Wp : mat F := fun a c => W (pos_of lm a) c in
    (exists Y0, mds_embed N d Wp w s = LOk Y0 /\
                forall a, a < N -> last_write ws a = Some (mrow Y0 a)) /\
    (lm_eig_contract N d (lmds_matrix lm dist) (sel_vecs N d W) (sel_vals N d w) ->
     lm_eig_contract N d (mds_matrix_full N dist) (sel_vecs N d Wp) (sel_vals N d w)).
  Proof.
    intros HP Hsym H Wp.
    destruct (perm_facts lm N HP) as [Hlen [Hnd [Hlt [Hpos Hlmk]]]].
    destruct (lmds_embed_inv _ _ _ _ _ _ _ _ _ H) as [_ [Hd Ht]]. rewrite Hlen in Hd, Ht.
    destruct (triangulate_trace _ _ _ _ _ _ _ _ _ Hnd Ht) as [_ [_ [H3 _]]].
    split.
    - exists (scale_by (sel_vecs N d Wp) s). split.
      + unfold mds_embed, select_largest. apply Nat.leb_le in Hd. rewrite Hd. reflexivity.
      + intros a Ha. destruct (Hpos a Ha) as [Hp Hl]. rewrite <- Hl at 1.
        rewrite H3 by (rewrite Hlen; assumption). reflexivity.
    - intros [Horth Heig]. split.
      + intros a b Ha Hb. rewrite <- (Horth a b Ha Hb). unfold mmul, mtrans.
        rewrite <- (sumn_perm lm N (fun t => sel_vecs N d Wp t a * sel_vecs N d Wp t b) HP).
        apply sumn_ext. intros i Hi. destruct (Hlmk i Hi) as [_ Hpi].
        unfold sel_vecs, Wp. rewrite Hpi. reflexivity.
      + intros x c Hx Hc. destruct (Hpos x Hx) as [Hp Hl].
        rewrite mmul_diag_r by assumption. unfold mmul.
        rewrite <- (sumn_perm lm N (fun t => mds_matrix_full N dist x t * sel_vecs N d Wp t c) HP).
        rewrite (sumn_ext N _ (fun j => lmds_matrix lm dist (pos_of lm x) j * sel_vecs N d W j c)).
        2:{ intros j Hj. destruct (Hlmk j Hj) as [_ Hpj].
            rewrite (lmds_matrix_perm lm N dist (pos_of lm x) j HP Hsym Hp Hj). rewrite Hl.
            unfold sel_vecs, Wp. rewrite Hpj. reflexivity. }
        pose proof (Heig (pos_of lm x) c Hp Hc) as E. rewrite mmul_diag_r in E by assumption.
        unfold mmul in E. rewrite E. reflexivity.
  Qed.

  (* ---------------- ratio = 1, Landmark Isomap ---------------- *)
  Lemma isomap_matrix_sym_entry N (G : mat F) a j :
    @two F Fo <> 0 -> (forall x y, x < N -> y < N -> G x y = G y x) -> a < N -> j < N ->
    isomap_matrix N G a j =
      center_matrix N (fun x y => G x y * G x y) a j * lm_neg_half.
  Proof.
    intros H2 Hsym Ha Hj. unfold isomap_matrix. f_equal.
    set (D2 := fun x y => G x y * G x y).
    assert (HS : meq N N (sym_avg D2) D2).
    { apply sym_avg_of_sym; [assumption|]. intros x y Hx Hy. unfold D2. rewrite (Hsym x y) by assumption.
      reflexivity. }
    unfold center_matrix.
    assert (Hcm : forall b, b < N -> colmean N (sym_avg D2) b = colmean N D2 b).
    { intros b Hb. unfold colmean, colsum. f_equal. apply sumn_ext. intros i Hi. apply HS; assumption. }
    assert (Hg : grandmean N N (sym_avg D2) = grandmean N N D2).
    { unfold grandmean, totsum. f_equal. apply sumn_ext. intros i Hi. apply sumn_ext. intros k Hk.
      apply HS; assumption. }
    rewrite (HS a j Ha Hj), Hg, !Hcm by assumption. reflexivity.
  Qed.

  Lemma lisomap_matrix_perm lm N (G : mat F) k j :
    Permutation lm (seq 0 N) -> of_nat N <> 0 -> @two F Fo <> 0 ->
    (forall x y, x < N -> y < N -> G x y = G y x) ->
    k < N -> j < N ->
    lisomap_matrix N N (fun a b => G (lmk lm a) b) k j = isomap_matrix N G (lmk lm k) j.
  Proof.
    intros HP HN H2 Hsym Hk Hj.
    destruct (perm_facts lm N HP) as [Hlen [Hnd [Hlt [_ Hlmk]]]].
    destruct (Hlmk k Hk) as [Hlk _].
    rewrite isomap_matrix_sym_entry by assumption.
    unfold lisomap_matrix. f_equal.
    set (D2 := fun x y => G x y * G x y).
    change (fun i j0 => G (lmk lm i) j0 * G (lmk lm i) j0) with (fun i j0 => D2 (lmk lm i) j0).
    unfold center_matrix.
    assert (Hsym2 : msym N D2).
    { intros x y Hx Hy. unfold D2. rewrite (Hsym x y) by assumption. reflexivity. }
    assert (Hrow : rowmean N (fun i j0 => D2 (lmk lm i) j0) k = colmean N D2 (lmk lm k)).
    { unfold rowmean, colmean. f_equal. unfold rowsum.
      change (sumn N (fun j0 => D2 (lmk lm k) j0)) with (rowsum N D2 (lmk lm k)).
      apply msym_rowsum_colsum; assumption. }
    assert (Hcol : colmean N (fun i j0 => D2 (lmk lm i) j0) j = colmean N D2 j).
    { apply colmean_perm. assumption. }
    assert (Hg : grandmean N N (fun i j0 => D2 (lmk lm i) j0) = grandmean N N D2).
    { unfold grandmean. f_equal. unfold totsum.
      exact (sumn_perm lm N (fun a => sumn N (fun b => D2 a b)) HP). }
    rewrite Hrow, Hcol, Hg. unfold D2. ring.
  Qed.

  (* PARTIAL: the hypothesis that the un-permuted selected vectors are eigenvectors of Isomap's
     matrix for POSITIVE eigenvalues nu with nu^2 = lam is assumed, not derived: Landmark Isomap
     selects the d largest eigenvalues of B B^T, i.e. the d largest |nu|, Isomap the d largest nu;
     they differ when the geodesic Gram matrix has a negative eigenvalue of large magnitude. *)
  Theorem ratio_one_lisomap_partial_lemma N d lm (G W : mat F) (w q : vec F) Y :
    Permutation lm (seq 0 N) -> of_nat N <> 0 -> @two F Fo <> 0 ->
    (forall x y, x < N -> y < N -> G x y = G y x) ->
    lisomap_embed N N d (fun a b => G (lmk lm a) b) W w q = LOk Y ->
    let Up : mat F := fun a c => sel_vecs N d W (pos_of lm a) c in
    forall (nu s : vec F),
      meq N d (mmul N (isomap_matrix N G) Up) (mmul d Up (mdiag nu)) ->
      (forall c, c < d -> s c * s c = nu c /\ q c = s c /\ s c <> 0) ->
      forall j c, j < N -> c < d -> Y j c = scale_by Up s j c.
  Proof.
    intros HP HN H2 Hsym H Up nu s Heig Hs j c Hj Hc.
    destruct (perm_facts lm N HP) as [Hlen [Hnd [Hlt [Hpos Hlmk]]]].
    destruct (lisomap_embed_inv _ _ _ _ _ _ _ _ H) as [Hd HY]. rewrite HY.
    set (B0 := isomap_matrix N G).
    assert (HB0sym : forall a b, a < N -> b < N -> B0 a b = B0 b a).
    { intros a b Ha Hb. unfold B0, isomap_matrix. f_equal.
      apply center_matrix_msym; try assumption. apply sym_avg_sym. }
    rewrite (sumn_ext N _ (fun k => B0 j (lmk lm k) * Up (lmk lm k) c)).
    2:{ intros k Hk. destruct (Hlmk k Hk) as [Hlk Hpk].
        rewrite (lisomap_matrix_perm lm N G k j HP HN H2 Hsym Hk Hj).
        fold B0. rewrite (HB0sym (lmk lm k) j) by assumption.
        unfold Up. rewrite Hpk. reflexivity. }
    rewrite (sumn_perm lm N (fun a => B0 j a * Up a c) HP).
    pose proof (Heig j c Hj Hc) as E. rewrite mmul_diag_r in E by assumption.
    unfold mmul in E. fold B0 in E. rewrite E.
    destruct (Hs c Hc) as [Hs1 [Hs2 Hs3]]. rewrite Hs2, <- Hs1. unfold scale_by. field. assumption.
  Qed.
End Ratio.
