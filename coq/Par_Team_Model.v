(* Par_Team_Model.v — property C15, wave 3: WHO runs the iterations of a region.  NO proofs here.

   Par_Model quantifies over every assignment `asg` of the iterations to threads, and the theorems of Par_Proof
   need `valid_asg n asg`: every iteration is given to exactly one thread, once.  For an OpenMP worksharing loop
   lexically inside the `omp parallel` of the same function that is the guarantee of the runtime, for EVERY size
   of the team that runs the region.  It is not a guarantee for
     * a hand-made schedule   for (k = first; k < n; k += step)   inside `omp parallel` without `omp for`:
       the assignment is computed by the code, from `first` and `step`;
     * an ORPHANED worksharing construct (an `omp for` that is not inside an `omp parallel` of the same function):
       it binds to the innermost enclosing parallel region of the CALLER, so one call of the routine runs only the
       share of the calling thread.
   This file describes the two as data (`dist`, produced by translate/t_omp.py for every region and every
   worksharing construct of the source), the execution environment (`env`: the size of the team that runs the
   region — anything from 1 up to omp_get_max_threads() —, what omp_get_max_threads() answers, the caller's team),
   and the assignment they induce (`dist_asg`).  `dist_ok` is the decision procedure; Par_Team_Proof shows that
   accepted descriptors induce a valid assignment in every environment and that the rejected forms do not. *)
From Coq Require Import List Arith Bool.
Import ListNotations.

(* where a hand-made schedule takes its stride from *)
Inductive stepsrc :=
| SrcTeam              (* omp_get_num_threads() evaluated INSIDE the parallel region: the team that runs it *)
| SrcMaxThreads        (* omp_get_max_threads(): an upper bound of the team size, wherever it is evaluated *)
| SrcOutside           (* omp_get_num_threads() evaluated OUTSIDE the region: the size of the caller's team *)
| SrcConst (c : nat)   (* a literal *)
| SrcUnknown.          (* anything else *)

(* where it starts *)
Inductive firstsrc :=
| FirstTid             (* omp_get_thread_num() evaluated inside the region *)
| FirstOther.

Inductive dist :=
| DWorkshare (enclosed : bool)   (* `omp for`; enclosed: lexically inside an `omp parallel` of the same function *)
| DCyclic (first : firstsrc) (step : stepsrc)   (* for (k = first; k < n; k += step) *)
| DUnknown.                      (* a parallel region without a recognisable distribution of its work *)

Record env := mkEnv {
  e_team : nat;                (* number of threads of the team that executes the region *)
  e_max : nat;                 (* what omp_get_max_threads() answers *)
  e_outer : nat;               (* size of the team of the caller's enclosing parallel region (1 at top level) *)
  e_tid : nat;                 (* number of the calling thread in that team *)
  e_sched : nat -> list nat    (* how the runtime deals the n iterations of a worksharing loop out to the threads
                                  of the team the construct binds to (static, dynamic, guided: any) *)
}.

(* the loop  for (k = first; k < n; k += step)  with fuel n (step = 0 does not terminate in C++: the fuel runs out) *)
Fixpoint cyc (fuel k step n : nat) : list nat :=
  match fuel with
  | O => []
  | S f => if k <? n then k :: cyc f (k + step) step n else []
  end.

(* thread t of a team of `team` threads starts at its own number *)
Definition cyclic_asg (team step n : nat) : nat -> list nat :=
  fun t => if t <? team then cyc n t step n else [].

Definition step_val (s : stepsrc) (e : env) : nat :=
  match s with
  | SrcTeam => e_team e
  | SrcMaxThreads => e_max e
  | SrcOutside => e_outer e
  | SrcConst c => c
  | SrcUnknown => 0
  end.

(* one call of the routine by thread e_tid of the caller's team: only that thread's share is executed on the
   call's data *)
Definition orphan_asg (sched : nat -> list nat) (tid : nat) : nat -> list nat :=
  fun u => if u =? tid then sched tid else [].

(* the iterations each thread executes on the data of ONE call of the routine *)
Definition dist_asg (d : dist) (e : env) (n : nat) : nat -> list nat :=
  match d with
  | DWorkshare true => e_sched e
  | DWorkshare false => orphan_asg (e_sched e) (e_tid e)
  | DCyclic FirstTid s => cyclic_asg (e_team e) (step_val s e) n
  | DCyclic FirstOther _ => fun _ => []
  | DUnknown => fun _ => []
  end.

Definition dist_ok (d : dist) : bool :=
  match d with
  | DWorkshare true => true
  | DCyclic FirstTid SrcTeam => true
  | _ => false
  end.

(* a witness environment for a rejected descriptor (search aid): team of 1 inside a caller's team of 3 with
   omp_get_max_threads() = 4 — what `#pragma omp parallel num_threads(3)` around the call gives with nested
   parallelism off *)
Definition witness_env (n : nat) : env :=
  mkEnv 1 4 3 0 (fun t => if t <? 3 then cyc n t 3 n else []).

(* iterations of 0..n-1 that no thread executes *)
Definition uncovered (asg : nat -> list nat) (threads n : nat) : list nat :=
  filter (fun i => negb (existsb (fun t => existsb (Nat.eqb i) (asg t)) (seq 0 threads))) (seq 0 n).
