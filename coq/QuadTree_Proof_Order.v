(* QuadTree_Proof_Order.v — order independence of the WHOLE tree: two insertion orders of the same
   index multiset build trees with the same shape, the same cell boxes, the same cum_size in every
   cell, equal centres of mass (as rationals) in every cell and, in every leaf, the same multiplicity
   and a stored index denoting the same point (which of several coincident indices is stored is the
   only thing the order decides).
   Reason: the invariant Inv pins the tree down.  A cell is a Node iff two different points were
   routed into it, and an index goes to the first child (NW, NE, SW, SE) whose closed box contains
   it, so the four sub-lists are filters of the list routed into the cell. *)
From Coq Require Import List Arith Bool ZArith QArith Permutation Lia Lqa.
From TK Require Import QuadTree_Model QuadTree_Spec QuadTree_SpecExec QuadTree_Proof_Base
                       QuadTree_Proof_Insert QuadTree_Proof_Main QuadTree_Proof_Spec.
Import ListNotations.
Local Open Scope Q_scope.

Inductive teq (data : list pt) : qt -> qt -> Prop :=
| teq_empty c com com' : teq data (Leaf c None 0 com) (Leaf c None 0 com')
| teq_leaf c j j' cnt cum com com' :
    coinc data j j' -> pt_eq com com' ->
    teq data (Leaf c (Some (j, cnt)) cum com) (Leaf c (Some (j', cnt)) cum com')
| teq_node c cum com com' nw ne sw se nw' ne' sw' se' :
    pt_eq com com' ->
    teq data nw nw' -> teq data ne ne' -> teq data sw sw' -> teq data se se' ->
    teq data (Node c cum com nw ne sw se) (Node c cum com' nw' ne' sw' se').

(* ---------- filters ---------- *)

Lemma Permutation_filter' : forall (f : nat -> bool) l l',
  Permutation l l' -> Permutation (filter f l) (filter f l').
Proof.
  intros f l l' H. induction H.
  - constructor.
  - cbn [filter]. destruct (f x); [apply perm_skip|]; exact IHPermutation.
  - cbn [filter]. destruct (f y), (f x); try apply Permutation_refl. apply perm_swap.
  - eapply Permutation_trans; eassumption.
Qed.

Lemma filter_all : forall (f : nat -> bool) l, (forall x, In x l -> f x = true) -> filter f l = l.
Proof.
  intros f l H. induction l as [|a l IH]; [reflexivity|]. cbn [filter].
  rewrite (H a (or_introl eq_refl)). f_equal. apply IH. intros x Hx. apply H. right. exact Hx.
Qed.

Lemma filter_none : forall (f : nat -> bool) l, (forall x, In x l -> f x = false) -> filter f l = [].
Proof.
  intros f l H. induction l as [|a l IH]; [reflexivity|]. cbn [filter].
  rewrite (H a (or_introl eq_refl)). apply IH. intros x Hx. apply H. right. exact Hx.
Qed.

(* which child takes index i: first fit *)
Definition q1 (data : list pt) (c : cell) (i : nat) : bool := insideb data (nwc c) i.
Definition q2 (data : list pt) (c : cell) (i : nat) : bool :=
  negb (insideb data (nwc c) i) && insideb data (nec c) i.
Definition q3 (data : list pt) (c : cell) (i : nat) : bool :=
  negb (insideb data (nwc c) i) && negb (insideb data (nec c) i) && insideb data (swc c) i.
Definition q4 (data : list pt) (c : cell) (i : nat) : bool :=
  negb (insideb data (nwc c) i) && negb (insideb data (nec c) i) && negb (insideb data (swc c) i).

Lemma insideb_true : forall data c i, inside data c i -> insideb data c i = true.
Proof. intros. apply insideb_iff. assumption. Qed.
Lemma insideb_false : forall data c i, ~ inside data c i -> insideb data c i = false.
Proof.
  intros data c i H. destruct (insideb data c i) eqn:E; [|reflexivity].
  exfalso. apply H. apply insideb_iff. exact E.
Qed.

Section Quadrants.
  Variables (data : list pt) (c : cell) (l1 l2 l3 l4 : list nat) (nw ne sw se : qt).
  Hypothesis I1 : Inv data l1 nw.
  Hypothesis I2 : Inv data l2 ne.
  Hypothesis I3 : Inv data l3 sw.
  Hypothesis I4 : Inv data l4 se.
  Hypothesis HG : geom c nw ne sw se.
  Hypothesis HF : first_fit data c l2 l3 l4.

  Lemma in1 : forall x, In x l1 -> inside data (nwc c) x.
  Proof. destruct HG as (G1 & _). intros x Hx. rewrite <- G1. apply (Inv_inside _ _ _ I1 x Hx). Qed.
  Lemma in2 : forall x, In x l2 -> inside data (nec c) x.
  Proof. destruct HG as (_ & G2 & _). intros x Hx. rewrite <- G2. apply (Inv_inside _ _ _ I2 x Hx). Qed.
  Lemma in3 : forall x, In x l3 -> inside data (swc c) x.
  Proof. destruct HG as (_ & _ & G3 & _). intros x Hx. rewrite <- G3. apply (Inv_inside _ _ _ I3 x Hx). Qed.

  Lemma quad1 : filter (q1 data c) (l1 ++ l2 ++ l3 ++ l4) = l1.
  Proof.
    destruct HF as (F2 & F3 & F4). rewrite !filter_app.
    rewrite (filter_all _ l1), (filter_none _ l2), (filter_none _ l3), (filter_none _ l4).
    - rewrite !app_nil_r. reflexivity.
    - intros x Hx. unfold q1. apply insideb_false. apply (F4 x Hx).
    - intros x Hx. unfold q1. apply insideb_false. apply (F3 x Hx).
    - intros x Hx. unfold q1. apply insideb_false. apply (F2 x Hx).
    - intros x Hx. unfold q1. apply insideb_true. apply in1. exact Hx.
  Qed.

  Lemma quad2 : filter (q2 data c) (l1 ++ l2 ++ l3 ++ l4) = l2.
  Proof.
    destruct HF as (F2 & F3 & F4). rewrite !filter_app.
    rewrite (filter_none _ l1), (filter_all _ l2), (filter_none _ l3), (filter_none _ l4).
    - rewrite !app_nil_r. reflexivity.
    - intros x Hx. unfold q2. destruct (F4 x Hx) as (A & B & _).
      rewrite (insideb_false _ _ _ B). apply andb_false_r.
    - intros x Hx. unfold q2. destruct (F3 x Hx) as (A & B).
      rewrite (insideb_false _ _ _ B). apply andb_false_r.
    - intros x Hx. unfold q2. rewrite (insideb_false _ _ _ (F2 x Hx)), (insideb_true _ _ _ (in2 x Hx)). reflexivity.
    - intros x Hx. unfold q2. rewrite (insideb_true _ _ _ (in1 x Hx)). reflexivity.
  Qed.

  Lemma quad3 : filter (q3 data c) (l1 ++ l2 ++ l3 ++ l4) = l3.
  Proof.
    destruct HF as (F2 & F3 & F4). rewrite !filter_app.
    rewrite (filter_none _ l1), (filter_none _ l2), (filter_all _ l3), (filter_none _ l4).
    - rewrite !app_nil_r. reflexivity.
    - intros x Hx. unfold q3. destruct (F4 x Hx) as (A & B & C).
      rewrite (insideb_false _ _ _ C). apply andb_false_r.
    - intros x Hx. unfold q3. destruct (F3 x Hx) as (A & B).
      rewrite (insideb_false _ _ _ A), (insideb_false _ _ _ B), (insideb_true _ _ _ (in3 x Hx)). reflexivity.
    - intros x Hx. unfold q3. rewrite (insideb_false _ _ _ (F2 x Hx)), (insideb_true _ _ _ (in2 x Hx)). reflexivity.
    - intros x Hx. unfold q3. rewrite (insideb_true _ _ _ (in1 x Hx)). reflexivity.
  Qed.

  Lemma quad4 : filter (q4 data c) (l1 ++ l2 ++ l3 ++ l4) = l4.
  Proof.
    destruct HF as (F2 & F3 & F4). rewrite !filter_app.
    rewrite (filter_none _ l1), (filter_none _ l2), (filter_none _ l3), (filter_all _ l4).
    - reflexivity.
    - intros x Hx. unfold q4. destruct (F4 x Hx) as (A & B & C).
      rewrite (insideb_false _ _ _ A), (insideb_false _ _ _ B), (insideb_false _ _ _ C). reflexivity.
    - intros x Hx. unfold q4. rewrite (insideb_true _ _ _ (in3 x Hx)). apply andb_false_r.
    - intros x Hx. unfold q4. rewrite (insideb_false _ _ _ (F2 x Hx)), (insideb_true _ _ _ (in2 x Hx)). reflexivity.
    - intros x Hx. unfold q4. rewrite (insideb_true _ _ _ (in1 x Hx)). reflexivity.
  Qed.
End Quadrants.

(* ---------- aggregates of permuted lists agree ---------- *)

Lemma agg_ok_unique : forall data l l' cum cum' com com',
  Permutation l l' -> l <> [] ->
  agg_ok data l cum com -> agg_ok data l' cum' com' -> cum = cum' /\ pt_eq com com'.
Proof.
  intros data l l' cum cum' com com' HP Hne A A'.
  apply (agg_ok_perm _ _ _ _ _ (Permutation_sym HP)) in A'.
  destruct A as (C & X & Y), A' as (C' & X' & Y').
  split; [congruence|].
  assert (E : cum' = cum) by congruence. rewrite E in X', Y'.
  assert (Hpos : 0 < Qn cum).
  { rewrite C. destruct l; [congruence|]. cbn [length]. apply Qn_S_pos. }
  split.
  - apply (Qmult_inj_l _ _ (Qn cum)); [lra|]. rewrite X, X'. reflexivity.
  - apply (Qmult_inj_l _ _ (Qn cum)); [lra|]. rewrite Y, Y'. reflexivity.
Qed.

(* ---------- the invariant determines the tree ---------- *)

Lemma Inv_determines : forall data l t,
  Inv data l t -> forall l' t', Inv data l' t' -> Permutation l l' -> qcell t = qcell t' -> teq data t t'.
Proof.
  intros data l t H.
  induction H as [c com | c j cnt cum com l Hj Hco Hin Hcnt Hagg
                 | c cum com nw ne sw se l l1 l2 l3 l4 HP I1 IH1 I2 IH2 I3 IH3 I4 IH4 HG HF Hins H2 Hagg];
    intros l' t' H' HPl Hc.
  - (* nothing routed here *)
    destruct H' as [c' com' | c' j' cnt' cum' com' l0 Hj' Hco' Hin' Hcnt' Hagg'
                   | c' cum' com' nw' ne' sw' se' l0 m1 m2 m3 m4 HP' J1 J2 J3 J4 HG' HF' Hins' H2' Hagg'].
    + cbn [qcell] in Hc. subst c'. constructor.
    + apply Permutation_nil in HPl. subst l0. destruct Hj'.
    + apply Permutation_nil in HPl. subst l0. destruct H2' as (a & _ & Ha & _). destruct Ha.
  - (* a leaf: everything routed here coincides *)
    destruct H' as [c' com' | c' j' cnt' cum' com' l0 Hj' Hco' Hin' Hcnt' Hagg'
                   | c' cum' com' nw' ne' sw' se' l0 m1 m2 m3 m4 HP' J1 J2 J3 J4 HG' HF' Hins' H2' Hagg'].
    + apply Permutation_sym, Permutation_nil in HPl. subst l. destruct Hj.
    + cbn [qcell] in Hc. subst c'.
      assert (Hne : l <> []) by (intro E; subst l; destruct Hj).
      destruct (agg_ok_unique data l l0 cum cum' com com' HPl Hne Hagg Hagg') as (-> & Ecom).
      subst cnt cnt'. rewrite (Permutation_length HPl).
      apply teq_leaf; [|exact Ecom].
      apply coinc_sym. apply Hco. apply (Permutation_in _ (Permutation_sym HPl)). exact Hj'.
    + exfalso. destruct H2' as (a & b & Ha & Hb & Hab). apply Hab.
      apply (Permutation_in _ (Permutation_sym HPl)) in Ha.
      apply (Permutation_in _ (Permutation_sym HPl)) in Hb.
      apply (coinc_trans _ _ j); [apply Hco; exact Ha | apply coinc_sym, Hco; exact Hb].
  - (* a node *)
    destruct H' as [c' com' | c' j' cnt' cum' com' l0 Hj' Hco' Hin' Hcnt' Hagg'
                   | c' cum' com' nw' ne' sw' se' l0 m1 m2 m3 m4 HP' J1 J2 J3 J4 HG' HF' Hins' H2' Hagg'].
    + exfalso. apply Permutation_sym, Permutation_nil in HPl. subst l.
      destruct H2 as (a & _ & Ha & _). destruct Ha.
    + exfalso. destruct H2 as (a & b & Ha & Hb & Hab). apply Hab.
      apply (Permutation_in _ HPl) in Ha. apply (Permutation_in _ HPl) in Hb.
      apply (coinc_trans _ _ j'); [apply Hco'; exact Ha | apply coinc_sym, Hco'; exact Hb].
    + cbn [qcell] in Hc. subst c'.
      assert (Hne : l <> []).
      { destruct H2 as (a & _ & Ha & _). intro E. subst l. destruct Ha. }
      destruct (agg_ok_unique data l l0 cum cum' com com' HPl Hne Hagg Hagg') as (-> & Ecom).
      assert (HPP : Permutation (l1 ++ l2 ++ l3 ++ l4) (m1 ++ m2 ++ m3 ++ m4)).
      { apply (Permutation_trans (Permutation_sym HP)). apply (Permutation_trans HPl). exact HP'. }
      pose proof (Permutation_filter' (q1 data c) _ _ HPP) as P1.
      pose proof (Permutation_filter' (q2 data c) _ _ HPP) as P2.
      pose proof (Permutation_filter' (q3 data c) _ _ HPP) as P3.
      pose proof (Permutation_filter' (q4 data c) _ _ HPP) as P4.
      rewrite (quad1 data c l1 l2 l3 l4 nw ne sw se I1 HG HF),
              (quad1 data c m1 m2 m3 m4 nw' ne' sw' se' J1 HG' HF') in P1.
      rewrite (quad2 data c l1 l2 l3 l4 nw ne sw se I1 I2 HG HF),
              (quad2 data c m1 m2 m3 m4 nw' ne' sw' se' J1 J2 HG' HF') in P2.
      rewrite (quad3 data c l1 l2 l3 l4 nw ne sw se I1 I2 I3 HG HF),
              (quad3 data c m1 m2 m3 m4 nw' ne' sw' se' J1 J2 J3 HG' HF') in P3.
      rewrite (quad4 data c l1 l2 l3 l4 nw ne sw se I1 I2 I3 HG HF),
              (quad4 data c m1 m2 m3 m4 nw' ne' sw' se' J1 J2 J3 HG' HF') in P4.
      destruct HG as (G1 & G2 & G3 & G4). destruct HG' as (G1' & G2' & G3' & G4').
      apply teq_node; [exact Ecom | | | |].
      * apply (IH1 m1 nw' J1 P1). congruence.
      * apply (IH2 m2 ne' J2 P2). congruence.
      * apply (IH3 m3 sw' J3 P3). congruence.
      * apply (IH4 m4 se' J4 P4). congruence.
Qed.

Theorem order_independent_tree_gen : forall fx fuel1 fuel2 data order1 order2 root ok1 ok2 t1 t2,
  Permutation order1 order2 ->
  (forall i, In i order1 -> inside data root i) ->
  mode fx data order1 ->
  fill_order fx fuel1 data order1 (init root) = Done ok1 t1 ->
  fill_order fx fuel2 data order2 (init root) = Done ok2 t2 ->
  teq data t1 t2.
Proof.
  intros fx fuel1 fuel2 data order1 order2 root ok1 ok2 t1 t2 HP Hin Hm E1 E2.
  assert (Hin2 : forall i, In i order2 -> inside data root i).
  { intros i Hi. apply Hin. apply (Permutation_in _ (Permutation_sym HP) Hi). }
  assert (Hm2 : mode fx data order2).
  { destruct Hm as [H|H]; [left; exact H | right; apply (NoCo_perm _ _ _ HP H)]. }
  destruct (build_Inv fx fuel1 data order1 root Hin Hm) as [[E' _]|(t1' & E' & J1 & C1)]; rewrite E1 in E';
    [discriminate|]. injection E' as -> ->.
  destruct (build_Inv fx fuel2 data order2 root Hin2 Hm2) as [[E' _]|(t2' & E' & J2 & C2)]; rewrite E2 in E';
    [discriminate|]. injection E' as -> ->.
  apply (Inv_determines data (rev order1) t1' J1 (rev order2) t2' J2); [|congruence].
  apply (Permutation_trans (Permutation_sym (Permutation_rev order1))).
  apply (Permutation_trans HP). apply Permutation_rev.
Qed.

(* what teq gives for the forces: the same cells are summarised, so the sums agree *)
Lemma teq_ncells : forall data t t', teq data t t' -> ncells t = ncells t'.
Proof. intros data t t' H. induction H; cbn [ncells]; congruence. Qed.
