(* Tsne_Proof_KL.v — the algebraic half of "the closed form is 1/4 of the gradient of KL(P||Q)".

   C(Y) = sum_{k<>l} p_kl (log p_kl - log w_kl + log Z),  w_kl = 1/(1+|y_k-y_l|^2),  Z = sum_{k<>l} w_kl.
   Differentiating with respect to coordinate d of y_n uses two analytic facts only:
     (a) d log u = du / u                                     (chain rule for log)
     (b) dw_kl = -2 w_kl^2 (y_kd - y_ld) (delta_kn - delta_ln)  (derivative of 1/(1+|y_k-y_l|^2))
   giving the FORMAL derivative
     dC = sum_{k<>l} p_kl (dZ / Z - dw_kl / w_kl),     dZ = sum_{k<>l} dw_kl.
   This file proves, over any field, for symmetric P with sum_{k<>l} p_kl = 1:
     dC = 4 * grad_spec N D P Y n d
   i.e. everything in the published derivation except (a) and (b) themselves. *)
From Coq Require Import List Arith Bool Lia Field Ring.
From TK Require Import Mat_Sums Tsne_Model Tsne_Spec.

Section KL.
  Context {F : Type} {Fo : FieldOps F} {Ff : IsField F}.
  Add Field TsneKLField : (@Fth F Fo Ff).
  Local Open Scope F_scope.

  Definition offd (N : nat) (g : nat -> nat -> F) : F :=
    sumn N (fun k => sumn N (fun l => if Nat.eqb k l then 0 else g k l)).

  Lemma if_mul_r : forall (b : bool) (x c : F), (if b then 0 else x * c) = (if b then 0 else x) * c.
  Proof. intros [] x c; ring. Qed.

  (* sum over ordered pairs k <> l of g_kl (delta_kn - delta_ln) *)
  Lemma offd_delta : forall N n (g : nat -> nat -> F), n < N ->
    offd N (fun k l => g k l * (delta k n - delta l n))
    = sumn N (fun l => if Nat.eqb n l then 0 else g n l) - sumn N (fun k => if Nat.eqb k n then 0 else g k n).
  Proof.
    intros N n g Hn. unfold offd.
    rewrite (sumn_ext N _ (fun k => sumn N (fun l => if Nat.eqb k l then 0 else g k l) * delta k n
                                    - sumn N (fun l => (if Nat.eqb k l then 0 else g k l) * delta l n))).
    2:{ intros k _. rewrite <- sumn_mul_r, <- sumn_sub. apply sumn_ext. intros l _.
        destruct (Nat.eqb k l); ring. }
    rewrite sumn_sub. rewrite (sumn_delta_r N n (fun k => sumn N (fun l => if Nat.eqb k l then 0 else g k l)) Hn).
    rewrite (sumn_swap N N (fun k l => (if Nat.eqb k l then 0 else g k l) * delta l n)).
    rewrite (sumn_ext N (fun l => sumn N (fun k => (if Nat.eqb k l then 0 else g k l) * delta l n))
                        (fun l => sumn N (fun k => if Nat.eqb k l then 0 else g k l) * delta l n)).
    2:{ intros l _. now rewrite sumn_mul_r. }
    rewrite (sumn_delta_r N n (fun l => sumn N (fun k => if Nat.eqb k l then 0 else g k l)) Hn).
    reflexivity.
  Qed.

  Lemma offd_delta_antisym : forall N n (g : nat -> nat -> F), n < N ->
    (forall k l, k < N -> l < N -> g k l = - g l k) ->
    offd N (fun k l => g k l * (delta k n - delta l n))
    = two * sumn N (fun l => if Nat.eqb n l then 0 else g n l).
  Proof.
    intros N n g Hn Ha. rewrite offd_delta by exact Hn.
    rewrite (sumn_ext N (fun k => if Nat.eqb k n then 0 else g k n)
                        (fun k => - (if Nat.eqb n k then 0 else g n k))).
    2:{ intros k Hk. rewrite (Nat.eqb_sym k n). destruct (Nat.eqb n k); [ring|]. now apply Ha. }
    rewrite sumn_opp. unfold two. ring.
  Qed.

  Lemma offd_ext : forall N g h, (forall k l, k < N -> l < N -> k <> l -> g k l = h k l) -> offd N g = offd N h.
  Proof.
    intros N g h H. unfold offd. apply sumn_ext. intros k Hk. apply sumn_ext. intros l Hl.
    destruct (Nat.eqb_spec k l) as [E|NE]; [reflexivity | now apply H].
  Qed.

  Lemma offd_mul_r : forall N g c, offd N (fun k l => g k l * c) = offd N g * c.
  Proof.
    intros N g c. unfold offd. rewrite <- sumn_mul_r. apply sumn_ext. intros k _.
    rewrite <- sumn_mul_r. apply sumn_ext. intros l _. destruct (Nat.eqb k l); ring.
  Qed.

  Lemma offd_sub : forall N g h, offd N (fun k l => g k l - h k l) = offd N g - offd N h.
  Proof.
    intros N g h. unfold offd. rewrite <- sumn_sub. apply sumn_ext. intros k _.
    rewrite <- sumn_sub. apply sumn_ext. intros l _. destruct (Nat.eqb k l); ring.
  Qed.

  Lemma true_sqdist_sym : forall D (Y : @buf F) k l, true_sqdist D Y k l = true_sqdist D Y l k.
  Proof. intros D Y k l. unfold true_sqdist. apply sumn_ext. intros i _. ring. Qed.

  Lemma w_sym : forall D (Y : @buf F) k l, w_t D Y k l = w_t D Y l k.
  Proof. intros D Y k l. unfold w_t. now rewrite true_sqdist_sym. Qed.

  Section Deriv.
    Variables (N D : nat) (P Y : @buf F) (n d : nat).
    Notation w := (w_t D Y).
    Definition dw (k l : nat) : F := - two * (w k l * w k l) * (Y k d - Y l d) * (delta k n - delta l n).
    Definition dZ : F := offd N dw.
    Definition dC : F := offd N (fun k l => P k l * (dZ / Z_t N D Y - dw k l / w k l)).

    Hypothesis Hn : n < N.
    Hypothesis Psym : forall k l, k < N -> l < N -> P k l = P l k.
    Hypothesis Psum : offd N P = 1.
    Hypothesis wnz : forall k l, k < N -> l < N -> w k l <> 0.
    Hypothesis Znz : Z_t N D Y <> 0.

    Lemma dZ_value : dZ = - (two * two) * sumn N (fun l => if Nat.eqb n l then 0 else w n l * w n l * (Y n d - Y l d)).
    Proof.
      unfold dZ.
      rewrite (offd_ext N dw (fun k l => (- two * (w k l * w k l * (Y k d - Y l d))) * (delta k n - delta l n)))
        by (intros; unfold dw; ring).
      rewrite (offd_delta_antisym N n (fun k l => - two * (w k l * w k l * (Y k d - Y l d))) Hn).
      2:{ intros k l _ _. rewrite (w_sym D Y l k). ring. }
      rewrite (sumn_ext N _ (fun l => - two * (if Nat.eqb n l then 0 else w n l * w n l * (Y n d - Y l d))))
        by (intros l _; destruct (Nat.eqb n l); ring).
      rewrite sumn_mul_l. ring.
    Qed.

    Theorem kl_formal_derivative_thm : dC = (two * two) * grad_spec N D P Y n d.
    Proof.
      unfold dC.
      rewrite (offd_ext N _ (fun k l => P k l * (dZ / Z_t N D Y)
                               - (- two * (P k l * w k l * (Y k d - Y l d))) * (delta k n - delta l n))).
      2:{ intros k l Hk Hl _. unfold dw. field. split; [exact Znz | now apply wnz]. }
      rewrite offd_sub, offd_mul_r, Psum.
      rewrite (offd_delta_antisym N n (fun k l => - two * (P k l * w k l * (Y k d - Y l d))) Hn).
      2:{ intros k l Hk Hl. rewrite (w_sym D Y l k), (Psym l k Hl Hk). ring. }
      rewrite dZ_value.
      rewrite (sumn_ext N (fun l => if Nat.eqb n l then 0 else - two * (P n l * w n l * (Y n d - Y l d)))
                          (fun l => - two * (if Nat.eqb n l then 0 else P n l * w n l * (Y n d - Y l d))))
        by (intros l _; destruct (Nat.eqb n l); ring).
      rewrite sumn_mul_l.
      unfold grad_spec, q_t.
      transitivity ((two * two) * (sumn N (fun l => if Nat.eqb n l then 0 else P n l * w n l * (Y n d - Y l d))
                                   - sumn N (fun l => if Nat.eqb n l then 0 else w n l * w n l * (Y n d - Y l d)) / Z_t N D Y)).
      { field. exact Znz. }
      f_equal.
      rewrite (sumn_ext N (fun m => if Nat.eqb n m then 0 else (P n m - w n m / Z_t N D Y) * w n m * (Y n d - Y m d))
                          (fun m => (if Nat.eqb n m then 0 else P n m * w n m * (Y n d - Y m d))
                                    - (if Nat.eqb n m then 0 else w n m * w n m * (Y n d - Y m d)) * / Z_t N D Y)).
      2:{ intros m _. destruct (Nat.eqb n m); [ring|]. field. exact Znz. }
      rewrite sumn_sub, sumn_mul_r. field. exact Znz.
    Qed.
  End Deriv.
End KL.

(* closed instance + non-vacuity (three points on a line, uniform P) *)
From Coq Require Import QArith Qcanon.
From TK Require Import Mat_Qc Tsne_Proof_Dense.

Definition kl_formal_derivative_Qc := @kl_formal_derivative_thm Qc QcOps QcField.

Lemma lt3_cases : forall k, (k < 3)%nat -> k = 0%nat \/ k = 1%nat \/ k = 2%nat.
Proof. intros k H. lia. Qed.

Example kl_formal_derivative_nonvacuous_ex :
  (0 < 3)%nat /\
  (forall k l, (k < 3)%nat -> (l < 3)%nat -> wP k l = wP l k) /\
  offd 3 wP = 1%Qc /\
  (forall k l, (k < 3)%nat -> (l < 3)%nat -> w_t 1 wY k l <> 0%Qc) /\
  Z_t 3 1 wY <> 0%Qc.
Proof.
  split; [lia|]. split.
  { intros k l Hk Hl. unfold wP. now rewrite Nat.eqb_sym. }
  split.
  { apply qeqb_ok. vm_compute. reflexivity. }
  split.
  { intros k l Hk Hl H. assert (E : qeqb (w_t 1 wY k l) 0%Qc = true) by (apply qeqb_ok; exact H).
    destruct (lt3_cases k Hk) as [->|[->| ->]]; destruct (lt3_cases l Hl) as [->|[->| ->]];
      vm_compute in E; discriminate. }
  intros H. assert (E : qeqb (Z_t 3 1 wY) 0%Qc = true) by (apply qeqb_ok; exact H).
  vm_compute in E. discriminate.
Qed.
