(* ====================================================================== *)
(*  Pca_Proof.v — proofs for C06 (PCA).  Generic over every field.         *)
(*   1. what compute_covariance_matrix accumulates and returns             *)
(*   2. what the two solver front-ends see (current code: the covariance;  *)
(*      old code, dense path: off-diagonals halved)                        *)
(*   3. the list-level loops compute the function-level model              *)
(*   4. from the eigen-oracle contract: uncorrelated embedding, variances  *)
(*      = eigenvalues; embedding columns are eigenvectors of the centred   *)
(*      Gram matrix (the matrix KPCA-linear and MDS-Euclidean decompose)   *)
(* ====================================================================== *)
Require Import Field Ring Arith Lia List Bool.
From TK Require Import Mat_Sums Mat_Core Proj_Model Proj_Spec Proj_Proof Pca_Model Pca_Spec.
Import ListNotations.

Section PcaProof.
  Context {F : Type} {Fo : FieldOps F} {Ff : IsField F}.
  Add Field PcaProofField : (@Fth F Fo Ff).
  Local Open Scope nat_scope.
  Local Open Scope F_scope.

  Lemma fdiv_0_l (x : F) : 0 / x = 0.
  Proof. rewrite (Fdiv_def (@Fth F Fo Ff)). ring. Qed.

  Lemma fdiv_add (a b x : F) : (a + b) / x = a / x + b / x.
  Proof. rewrite !(Fdiv_def (@Fth F Fo Ff)). ring. Qed.

  Lemma sumn_div n (f : nat -> F) x : sumn n f / x = sumn n (fun i => f i / x).
  Proof.
    rewrite (Fdiv_def (@Fth F Fo Ff)). rewrite <- sumn_mul_r. apply sumn_ext.
    intros i _. rewrite (Fdiv_def (@Fth F Fo Ff)). reflexivity.
  Qed.

  (* ---------------- 1. the accumulation ---------------- *)
  Lemma read_upper_cov_loop n (X M : mat F) i j :
    read_upper (cov_loop n X M) i j = read_upper M i j + sumn n (fun k => X k i * X k j).
  Proof.
    induction n as [|n IH]; cbn [cov_loop sumn]; [ring|].
    rewrite read_upper_rank_update_upper, IH. ring.
  Qed.

  Lemma read_upper_mdiv N (M : mat F) i j : read_upper (mdiv N M) i j = read_upper M i j / of_nat N.
  Proof. unfold read_upper, mdiv. destruct (Nat.leb i j); reflexivity. Qed.

  Lemma read_upper_mzero i j : read_upper (@mzero F Fo) i j = 0.
  Proof. unfold read_upper, mzero. destruct (Nat.leb i j); reflexivity. Qed.

  (* the symmetric matrix denoted by the accumulated upper triangle *)
  Lemma read_upper_cov_accumulated N (X : mat F) (m : vec F) i j :
    read_upper (cov_accumulated N X m) i j = sumn N (fun k => X k i * X k j) / of_nat N - m i * m j.
  Proof.
    unfold cov_accumulated. rewrite read_upper_rank_update_upper, read_upper_mdiv, read_upper_cov_loop.
    rewrite read_upper_mzero. rewrite fdiv_add, fdiv_0_l. ring.
  Qed.

  Lemma sum_centred N (X : mat F) i :
    of_nat N <> 0 -> sumn N (fun k => X k i) = of_nat N * mean_vec N X i.
  Proof. intros HN. unfold mean_vec. field. assumption. Qed.

  (* E[(x - m)(x - m)^T] = E[x x^T] - m m^T  (what the code relies on) *)
  Lemma cov_spec_expand N (X : mat F) i j :
    of_nat N <> 0 ->
    cov_spec N X i j = sumn N (fun k => X k i * X k j) / of_nat N - mean_vec N X i * mean_vec N X j.
  Proof.
    intros HN. unfold cov_spec, centred.
    set (mi := mean_vec N X i). set (mj := mean_vec N X j).
    rewrite (sumn_ext N _ (fun k => X k i * X k j - mj * X k i - mi * X k j + mi * mj))
      by (intros; ring).
    rewrite sumn_add, !sumn_sub, !sumn_mul_l, sumn_const.
    rewrite (sum_centred N X i HN), (sum_centred N X j HN). fold mi mj. field. assumption.
  Qed.

  (* the CURRENT code (fix F49) accumulates centred vectors: for ANY vector m handed in as `mean`
     the accumulated upper triangle denotes 1/N sum (x - m)(x - m)^T *)
  Lemma read_upper_cov_accumulated_centred N (X : mat F) (m : vec F) i j :
    read_upper (cov_accumulated_centred N X m) i j =
    sumn N (fun k => (X k i - m i) * (X k j - m j)) / of_nat N.
  Proof.
    unfold cov_accumulated_centred. rewrite read_upper_mdiv, read_upper_cov_loop, read_upper_mzero.
    f_equal. ring.
  Qed.

  (* THEOREM cov_is_covariance: the CURRENT compute_covariance_matrix returns, in EVERY entry
     (both triangles), the sample covariance of the data; any D, any N (for the centred loop the
     hypothesis N <> 0 is not even needed: cov_is_covariance_every_N) *)
  Theorem cov_is_covariance_every_N N (X : mat F) :
    forall i j, pca_matrix N X i j = cov_spec N X i j.
  Proof.
    intros i j. unfold pca_matrix, compute_covariance, sym_from_upper.
    rewrite read_upper_cov_accumulated_centred. reflexivity.
  Qed.

  Theorem cov_is_covariance N (X : mat F) :
    of_nat N <> 0 -> forall i j, pca_matrix N X i j = cov_spec N X i j.
  Proof. intros _. apply cov_is_covariance_every_N. Qed.

  (* the EXPANDED form (F8 .. F49) is the covariance as well, over an exact field and for N <> 0 *)
  Theorem cov_expanded_is_covariance N (X : mat F) :
    of_nat N <> 0 -> forall i j, pca_matrix_expanded N X i j = cov_spec N X i j.
  Proof.
    intros HN i j. unfold pca_matrix_expanded, compute_covariance_expanded, sym_from_upper.
    rewrite read_upper_cov_accumulated, cov_spec_expand by assumption. reflexivity.
  Qed.

  (* ... so the two forms are EQUAL, entry by entry: the exact model cannot distinguish them.  They
     differ in binary64 only: the expanded form subtracts two numbers of size |x|^2 (absolute error
     ~ N eps |x|^2), the centred form never forms anything larger than the spread squared *)
  Theorem cov_centred_equals_expanded N (X : mat F) :
    of_nat N <> 0 -> forall i j, pca_matrix N X i j = pca_matrix_expanded N X i j.
  Proof.
    intros HN i j. rewrite cov_is_covariance_every_N, cov_expanded_is_covariance by assumption. reflexivity.
  Qed.

  (* with a vector m that is NOT the mean the two forms differ (which is why the mean handed in matters):
     centred(m) - expanded(m) = (m - mean)(m - mean)^T + ... ; stated for the accumulated triangles *)
  Theorem cov_centred_vs_expanded_any_m N (X : mat F) (m : vec F) i j :
    of_nat N <> 0 ->
    read_upper (cov_accumulated_centred N X m) i j - read_upper (cov_accumulated N X m) i j =
    (two * m i * m j - m i * mean_vec N X j - mean_vec N X i * m j).
  Proof.
    intros HN. rewrite read_upper_cov_accumulated_centred, read_upper_cov_accumulated.
    rewrite (sumn_ext N _ (fun k => X k i * X k j - m j * X k i - m i * X k j + m i * m j)) by (intros; ring).
    rewrite sumn_add, !sumn_sub, !sumn_mul_l, sumn_const.
    rewrite (sum_centred N X i HN), (sum_centred N X j HN). unfold two. field. assumption.
  Qed.

  Lemma cov_spec_sym N (X : mat F) n : msym n (cov_spec N X).
  Proof.
    intros i j _ _. unfold cov_spec. f_equal. apply sumn_ext. intros k _. ring.
  Qed.

  Lemma pca_matrix_sym N (X : mat F) n : msym n (pca_matrix N X).
  Proof. unfold pca_matrix, compute_covariance, sym_from_upper. apply read_upper_sym. Qed.

  (* ---------------- 2. what the solvers see ---------------- *)
  Theorem cov_seen_dense N (X : mat F) :
    two <> 0 -> of_nat N <> 0 -> forall i j, seen_dense (pca_matrix N X) i j = cov_spec N X i j.
  Proof.
    intros H2 HN i j. unfold seen_dense.
    set (n := S (Nat.max i j)). assert (Hi : i < n) by (unfold n; lia). assert (Hj : j < n) by (unfold n; lia).
    rewrite (read_lower_of_sym n _ (sym_avg_sym n _) i j Hi Hj).
    rewrite (sym_avg_of_sym n _ H2 (pca_matrix_sym N X n) i j Hi Hj).
    apply cov_is_covariance. assumption.
  Qed.

  Theorem cov_seen_randomized N (X : mat F) :
    of_nat N <> 0 -> forall i j, seen_randomized (pca_matrix N X) i j = cov_spec N X i j.
  Proof.
    intros HN i j. unfold seen_randomized.
    set (n := S (Nat.max i j)). assert (Hi : i < n) by (unfold n; lia). assert (Hj : j < n) by (unfold n; lia).
    rewrite (read_upper_of_sym n _ (pca_matrix_sym N X n) i j Hi Hj).
    apply cov_is_covariance. assumption.
  Qed.

  (* OLD code (before F8): the returned matrix lives in the upper triangle only *)
  Lemma cov_loop_lower n (X M : mat F) i j : j < i -> cov_loop n X M i j = M i j.
  Proof.
    intros H. induction n as [|n IH]; cbn [cov_loop]; [reflexivity|].
    rewrite rank_update_upper_keeps_lower by assumption. exact IH.
  Qed.

  Lemma cov_accumulated_upper_only N (X : mat F) (m : vec F) n : upper_only n (cov_accumulated N X m).
  Proof.
    intros i j _ _ Hlt. unfold cov_accumulated.
    rewrite rank_update_upper_keeps_lower by assumption. unfold mdiv.
    rewrite cov_loop_lower by assumption. unfold mzero. apply fdiv_0_l.
  Qed.

  Lemma read_upper_old_is_cov N (X : mat F) i j :
    of_nat N <> 0 -> read_upper (pca_matrix_old N X) i j = cov_spec N X i j.
  Proof.
    intros HN. unfold pca_matrix_old, compute_covariance_old.
    rewrite read_upper_cov_accumulated, cov_spec_expand by assumption. reflexivity.
  Qed.

  (* the dense front-end saw the right diagonal and HALF of every off-diagonal covariance *)
  Theorem cov_old_seen_dense N (X : mat F) :
    two <> 0 -> of_nat N <> 0 -> forall i j,
      seen_dense (pca_matrix_old N X) i j =
        if Nat.eqb i j then cov_spec N X i j else cov_spec N X i j / two.
  Proof.
    intros H2 HN i j. unfold seen_dense.
    set (n := S (Nat.max i j)). assert (Hi : i < n) by (unfold n; lia). assert (Hj : j < n) by (unfold n; lia).
    rewrite (read_lower_of_sym n _ (sym_avg_sym n _) i j Hi Hj).
    unfold pca_matrix_old at 1, compute_covariance_old.
    rewrite (sym_avg_upper_only n _ i j H2 (cov_accumulated_upper_only N X (mean_vec N X) n) Hi Hj).
    destruct (Nat.eqb i j) eqn:E.
    - apply Nat.eqb_eq in E. subst j. rewrite <- (read_upper_old_is_cov N X i i HN).
      rewrite read_upper_diag. reflexivity.
    - change (cov_accumulated N X (mean_vec N X)) with (pca_matrix_old N X).
      rewrite (read_upper_old_is_cov N X i j HN). reflexivity.
  Qed.

  (* the randomized front-end (upper view) saw the covariance even then *)
  Theorem cov_old_seen_randomized N (X : mat F) :
    of_nat N <> 0 -> forall i j, seen_randomized (pca_matrix_old N X) i j = cov_spec N X i j.
  Proof. intros HN i j. unfold seen_randomized. apply read_upper_old_is_cov. assumption. Qed.

  (* ---------------- 3. list-level loops ---------------- *)
  Lemma cov_loop_shift n (X M : mat F) :
    forall i j, cov_loop (S n) X M i j =
                cov_loop n (fun k => X (S k)) (rank_update_upper 1 (X 0%nat) M) i j.
  Proof.
    induction n as [|n IH]; intros i j; [reflexivity|].
    change (cov_loop (S (S n)) X M) with (rank_update_upper 1 (X (S n)) (cov_loop (S n) X M)).
    change (cov_loop (S n) (fun k => X (S k)) (rank_update_upper 1 (X 0%nat) M))
      with (rank_update_upper 1 (X (S n)) (cov_loop n (fun k => X (S k)) (rank_update_upper 1 (X 0%nat) M))).
    unfold rank_update_upper at 1 3. rewrite IH. reflexivity.
  Qed.

  Lemma cov_loop_meq D n (X X' M M' : mat F) :
    meq D D M M' -> (forall k, k < n -> veq D (X k) (X' k)) ->
    meq D D (cov_loop n X M) (cov_loop n X' M').
  Proof.
    intros HM HX. induction n as [|n IH]; cbn [cov_loop]; [exact HM|].
    intros i j Hi Hj. unfold rank_update_upper.
    rewrite (IH (fun k Hk => HX k (Nat.lt_lt_succ_r _ _ Hk)) i j Hi Hj).
    rewrite (HX n (Nat.lt_succ_diag_r n) i Hi), (HX n (Nat.lt_succ_diag_r n) j Hj). reflexivity.
  Qed.

  Lemma cov_loop_exec_ok D (Xs : list (list F)) : forall M,
    meq D D (mof (cov_loop_exec D Xs M)) (cov_loop (length Xs) (mof Xs) (mof M)).
  Proof.
    induction Xs as [|x r IH]; intros M; [apply meq_refl|].
    cbn [cov_loop_exec length].
    eapply meq_trans; [apply IH|].
    intros i j Hi Hj. rewrite cov_loop_shift.
    apply (cov_loop_meq D (length r) (mof r) (fun k => mof (x :: r) (S k))); try assumption.
    - intros a b Ha Hb. rewrite mof_mtab by assumption. reflexivity.
    - intros k _ t _. reflexivity.
  Qed.

  Lemma cov_accumulated_exec_ok D (Xs : list (list F)) (mean : list F) :
    cov_accumulated_exec D Xs mean =
    mtab D D (cov_accumulated (length Xs) (mof Xs) (vof mean)).
  Proof.
    unfold cov_accumulated_exec, cov_accumulated. apply mtab_ext. intros i j Hi Hj.
    unfold rank_update_upper. rewrite mof_mtab by assumption. unfold mdiv.
    rewrite (cov_loop_exec_ok D Xs (mtab D D mzero) i j Hi Hj).
    rewrite (cov_loop_meq D (length Xs) (mof Xs) (mof Xs) (mof (mtab D D mzero)) mzero
               (mof_mtab_meq D D mzero) (fun k _ => veq_refl D _) i j Hi Hj).
    reflexivity.
  Qed.

  Lemma forallb_len_ok D (Xs : list (list F)) :
    Forall (fun r => length r = D) Xs -> forallb (fun x => Nat.eqb (length x) D) Xs = true.
  Proof.
    intros H. apply forallb_forall. intros x Hx. rewrite Forall_forall in H.
    apply Nat.eqb_eq. apply H. assumption.
  Qed.

  Theorem compute_covariance_expanded_exec_ok N D (Xs : list (list F)) (mean : list F) :
    wf_mat N D Xs -> length mean = D ->
    compute_covariance_expanded_exec D Xs mean =
      POk (mtab D D (compute_covariance_expanded N (mof Xs) (vof mean))) /\
    compute_covariance_old_exec D Xs mean = POk (mtab D D (compute_covariance_old N (mof Xs) (vof mean))).
  Proof.
    intros [HN HX] Hm.
    assert (E : compute_covariance_old_exec D Xs mean =
                POk (mtab D D (compute_covariance_old N (mof Xs) (vof mean)))).
    { unfold compute_covariance_old_exec. rewrite (forallb_len_ok D Xs HX), Hm, Nat.eqb_refl.
      cbn [negb]. rewrite cov_accumulated_exec_ok, HN. reflexivity. }
    split; [|exact E].
    unfold compute_covariance_expanded_exec. rewrite E. f_equal. apply mtab_ext.
    intros i j Hi Hj. unfold compute_covariance_expanded, sym_from_upper, read_upper.
    destruct (Nat.leb i j); rewrite mof_mtab by assumption; reflexivity.
  Qed.

  (* the centred samples, as lists *)
  Lemma mof_map_zip_sub N D (Xs : list (list F)) (mean : list F) k t :
    wf_mat N D Xs -> length mean = D -> k < N -> t < D ->
    mof (map (fun x => zip_sub x mean) Xs) k t = mof Xs k t - vof mean t.
  Proof.
    intros [HN HX] Hm Hk Ht. unfold mof.
    rewrite (nth_indep _ [] (zip_sub [] mean)) by (rewrite map_length; lia).
    rewrite (map_nth (fun x => zip_sub x mean)). unfold vof.
    rewrite Forall_forall in HX.
    assert (Hl : length (nth k Xs []) = D) by (apply HX; apply nth_In; lia).
    apply zip_sub_nth; lia.
  Qed.

  Lemma cov_accumulated_centred_exec_ok N D (Xs : list (list F)) (mean : list F) :
    wf_mat N D Xs -> length mean = D ->
    cov_accumulated_centred_exec D Xs mean =
    mtab D D (cov_accumulated_centred N (mof Xs) (vof mean)).
  Proof.
    intros HX Hm. unfold cov_accumulated_centred_exec, cov_accumulated_centred. apply mtab_ext. intros i j Hi Hj.
    unfold mdiv. destruct HX as [HN HXD]. rewrite HN. f_equal.
    rewrite (cov_loop_exec_ok D (map (fun x => zip_sub x mean) Xs) (mtab D D mzero) i j Hi Hj).
    rewrite map_length, HN.
    apply (cov_loop_meq D N); try assumption.
    - apply mof_mtab_meq.
    - intros k Hk t Ht. apply (mof_map_zip_sub N D); try assumption. split; assumption.
  Qed.

  Theorem compute_covariance_exec_ok N D (Xs : list (list F)) (mean : list F) :
    wf_mat N D Xs -> length mean = D ->
    compute_covariance_exec D Xs mean = POk (mtab D D (compute_covariance N (mof Xs) (vof mean))) /\
    compute_covariance_old_exec D Xs mean = POk (mtab D D (compute_covariance_old N (mof Xs) (vof mean))).
  Proof.
    intros HX Hm. split; [|apply (compute_covariance_expanded_exec_ok N D Xs mean HX Hm)].
    unfold compute_covariance_exec. destruct HX as [HN HXD].
    rewrite (forallb_len_ok D Xs HXD), Hm, Nat.eqb_refl. cbn [negb]. f_equal.
    rewrite (cov_accumulated_centred_exec_ok N D Xs mean (conj HN HXD) Hm). apply mtab_ext.
    intros i j Hi Hj. unfold compute_covariance, sym_from_upper, read_upper.
    destruct (Nat.leb i j); rewrite mof_mtab by assumption; reflexivity.
  Qed.

  Theorem pca_matrix_exec_ok N D (Xs : list (list F)) :
    wf_mat N D Xs ->
    pca_matrix_exec D Xs = POk (mtab D D (pca_matrix N (mof Xs))) /\
    pca_matrix_old_exec D Xs = POk (mtab D D (pca_matrix_old N (mof Xs))).
  Proof.
    intros HX. unfold pca_matrix_exec, pca_matrix_old_exec.
    rewrite (compute_mean_exec_ok N D Xs HX).
    assert (Hl : length (vtab D (mean_vec N (mof Xs))) = D) by apply tab_length.
    destruct (compute_covariance_exec_ok N D Xs _ HX Hl) as [E1 E2]. rewrite E1, E2.
    assert (HC : meq D D (cov_accumulated N (mof Xs) (vof (vtab D (mean_vec N (mof Xs)))))
                         (cov_accumulated N (mof Xs) (mean_vec N (mof Xs)))).
    { intros i j Hi Hj. unfold cov_accumulated, rank_update_upper.
      rewrite !vof_vtab by assumption. reflexivity. }
    assert (HCc : meq D D (cov_accumulated_centred N (mof Xs) (vof (vtab D (mean_vec N (mof Xs)))))
                          (cov_accumulated_centred N (mof Xs) (mean_vec N (mof Xs)))).
    { intros i j Hi Hj. unfold cov_accumulated_centred, mdiv. f_equal.
      apply (cov_loop_meq D N); try assumption; [apply meq_refl|].
      intros k _ t Ht. rewrite vof_vtab by assumption. reflexivity. }
    split; f_equal; apply mtab_ext; intros i j Hi Hj.
    - unfold pca_matrix, compute_covariance, sym_from_upper, read_upper.
      destruct (Nat.leb i j); apply HCc; assumption.
    - unfold pca_matrix_old, compute_covariance_old. apply HC; assumption.
  Qed.

  Theorem pca_matrix_expanded_exec_ok N D (Xs : list (list F)) :
    wf_mat N D Xs ->
    pca_matrix_expanded_exec D Xs = POk (mtab D D (pca_matrix_expanded N (mof Xs))).
  Proof.
    intros HX. unfold pca_matrix_expanded_exec.
    rewrite (compute_mean_exec_ok N D Xs HX).
    assert (Hl : length (vtab D (mean_vec N (mof Xs))) = D) by apply tab_length.
    destruct (compute_covariance_expanded_exec_ok N D Xs _ HX Hl) as [E1 _]. rewrite E1.
    f_equal. apply mtab_ext. intros i j Hi Hj.
    unfold pca_matrix_expanded, compute_covariance_expanded, sym_from_upper, read_upper, cov_accumulated,
      rank_update_upper.
    destruct (Nat.leb i j); rewrite !vof_vtab by assumption; reflexivity.
  Qed.

  (* ---------------- 4. from the oracle contract ---------------- *)
  (* second-moment matrix of the centred samples = N * covariance *)
  Lemma centred_moment N (X : mat F) s t :
    of_nat N <> 0 ->
    sumn N (fun k => centred N X k s * centred N X k t) = of_nat N * cov_spec N X s t.
  Proof. intros HN. unfold cov_spec. field. assumption. Qed.

  Lemma embedding_entry N D (X P : mat F) k a :
    pca_embedding N D X P k a = sumn D (fun s => P s a * centred N X k s).
  Proof. reflexivity. Qed.

  (* sum_k Y_ka Y_kb = N * (P^T C P)_ab *)
  Lemma embedding_moment N D (X P : mat F) a b :
    of_nat N <> 0 ->
    sumn N (fun k => pca_embedding N D X P k a * pca_embedding N D X P k b) =
    of_nat N * sumn D (fun s => P s a * sumn D (fun t => cov_spec N X s t * P t b)).
  Proof.
    intros HN.
    rewrite (sumn_ext N _ (fun k => sumn D (fun s => sumn D (fun t =>
               P s a * P t b * (centred N X k s * centred N X k t))))).
    2:{ intros k _. rewrite !embedding_entry. rewrite sumn_mul_sumn.
        apply sumn_ext. intros s _. apply sumn_ext. intros t _. ring. }
    rewrite sumn_swap. rewrite <- sumn_mul_l. apply sumn_ext. intros s _.
    rewrite sumn_swap. rewrite <- !sumn_mul_l. apply sumn_ext. intros t _.
    rewrite sumn_mul_l. rewrite centred_moment by assumption. ring.
  Qed.

  (* THEOREM pca_uncorrelated: from ANY solver answer meeting the contract for the covariance,
     the embedding columns are uncorrelated and their variances are the returned eigenvalues *)
  Theorem pca_uncorrelated N D d (X P : mat F) (lam : vec F) :
    of_nat N <> 0 ->
    eig_contract D d (cov_spec N X) P lam ->
    uncorrelated N d (pca_embedding N D X P) lam.
  Proof.
    intros HN [Horth Heig] a b Ha Hb.
    rewrite embedding_moment by assumption.
    rewrite (sumn_ext D _ (fun s => P s a * (P s b * lam b))).
    2:{ intros s Hs. f_equal. specialize (Heig s b Hs Hb). unfold mmul at 1 in Heig.
        rewrite Heig. apply mmul_diag_r. assumption. }
    rewrite (sumn_ext D _ (fun s => lam b * (mtrans P a s * P s b))) by (intros; unfold mtrans; ring).
    rewrite sumn_mul_l. specialize (Horth a b Ha Hb). unfold mmul in Horth. rewrite Horth.
    unfold mI, delta. destruct (Nat.eqb a b) eqn:E.
    - apply Nat.eqb_eq in E. subst b. field. assumption.
    - field. assumption.
  Qed.

  (* THEOREM pca_embedding: Y = X_c P, entrywise, and its columns sum to zero *)
  Theorem pca_embedding_is_centred_times_P N D (X P : mat F) :
    (forall k a, pca_embedding N D X P k a = mmul D (centred N X) P k a) /\
    (of_nat N <> 0 -> forall a, sumn N (fun k => pca_embedding N D X P k a) = 0).
  Proof.
    split.
    - intros k a. rewrite embedding_entry. unfold mmul. apply sumn_ext. intros; ring.
    - intros HN a. apply embedding_centered. assumption.
  Qed.

  (* THEOREM pca_gram_factor: the PCA embedding satisfies, for the centred Gram matrix
     G = X_c X_c^T, exactly the characterisation C05 proves for Kernel PCA (linear kernel) and
     MDS (Euclidean distances):  G Y = Y diag(N lam)  and  Y^T Y = diag(N lam). *)
  Theorem pca_gram_factor N D d (X P : mat F) (lam : vec F) :
    of_nat N <> 0 ->
    eig_contract D d (cov_spec N X) P lam ->
    let Y := pca_embedding N D X P in
    (forall i c, c < d -> mmul N (centred_gram N D X) Y i c = of_nat N * lam c * Y i c) /\
    (forall a b, a < d -> b < d ->
       sumn N (fun k => Y k a * Y k b) = if Nat.eqb a b then of_nat N * lam a else 0).
  Proof.
    intros HN Hc Y. split.
    - intros i c Hcd. destruct Hc as [_ Heig]. unfold mmul, centred_gram.
      rewrite (sumn_ext N _ (fun j => sumn D (fun t => centred N X i t * (centred N X j t * Y j c)))).
      2:{ intros j _. rewrite <- sumn_mul_r. apply sumn_ext. intros; ring. }
      rewrite sumn_swap.
      rewrite (sumn_ext D _ (fun t => centred N X i t * (of_nat N * (P t c * lam c)))).
      2:{ intros t Ht. rewrite sumn_mul_l. f_equal.
          unfold Y. rewrite (sumn_ext N _ (fun j => sumn D (fun s =>
                     P s c * (centred N X j t * centred N X j s)))).
          2:{ intros j _. rewrite embedding_entry, <- sumn_mul_l. apply sumn_ext. intros; ring. }
          rewrite sumn_swap.
          rewrite (sumn_ext D _ (fun s => of_nat N * (cov_spec N X t s * P s c))).
          2:{ intros s _. rewrite sumn_mul_l, centred_moment by assumption. ring. }
          rewrite sumn_mul_l. f_equal.
          specialize (Heig t c Ht Hcd). unfold mmul at 1 in Heig. rewrite Heig.
          apply mmul_diag_r. assumption. }
      unfold Y. rewrite embedding_entry.
      rewrite <- sumn_mul_l. apply sumn_ext. intros t _. ring.
    - intros a b Ha Hb. pose proof (pca_uncorrelated N D d X P lam HN Hc a b Ha Hb) as H.
      fold Y in H. destruct (Nat.eqb a b).
      + rewrite <- H. field. assumption.
      + transitivity (of_nat N * (sumn N (fun k => Y k a * Y k b) / of_nat N)); [field; assumption|].
        rewrite H. ring.
  Qed.

  (* selecting d columns of a full decomposition gives a d-pair contract *)
  Lemma select_contract n d off (B V : mat F) (Lam : vec F) :
    off + d <= n -> full_contract n B V Lam ->
    eig_contract n d B (select_cols V (off, d)) (select_vals Lam (off, d)).
  Proof.
    intros Hle [Ho [_ He]]. split.
    - intros a b Ha Hb. unfold mmul, mtrans, select_cols. cbn [fst].
      specialize (Ho (off + a)%nat (off + b)%nat ltac:(lia) ltac:(lia)).
      unfold mmul, mtrans in Ho. rewrite Ho. unfold mI, delta.
      destruct (Nat.eqb a b) eqn:E.
      + apply Nat.eqb_eq in E. subst. rewrite Nat.eqb_refl. reflexivity.
      + apply Nat.eqb_neq in E. assert (E2 : Nat.eqb (off + a) (off + b) = false) by (apply Nat.eqb_neq; lia).
        rewrite E2. reflexivity.
    - intros i c Hi Hc. rewrite mmul_diag_r by assumption.
      unfold select_cols, select_vals. cbn [fst].
      specialize (He i (off + c)%nat Hi ltac:(lia)). rewrite mmul_diag_r in He by lia.
      unfold mmul in *. exact He.
  Qed.

  (* packaged statements used by Properties_C06.v *)
  Theorem cov_seen_by_solvers N (X : mat F) :
    two <> 0 -> of_nat N <> 0 ->
    (forall i j, seen_dense (pca_matrix N X) i j = cov_spec N X i j) /\
    (forall i j, seen_randomized (pca_matrix N X) i j = cov_spec N X i j).
  Proof.
    intros H2 HN. split; [exact (cov_seen_dense N X H2 HN)|exact (cov_seen_randomized N X HN)].
  Qed.

  Theorem pca_from_full_decomposition N D d (X V : mat F) (Lam : vec F) :
    of_nat N <> 0 -> d <= D ->
    full_contract D (cov_spec N X) V Lam ->
    let P := select_cols V ((D - d)%nat, d) in
    let lam := select_vals Lam ((D - d)%nat, d) in
    eig_contract D d (cov_spec N X) P lam /\
    uncorrelated N d (pca_embedding N D X P) lam.
  Proof.
    intros HN Hd Hfull P lam.
    assert (Hc : eig_contract D d (cov_spec N X) P lam)
      by (apply (select_contract D d (D - d)); [lia|exact Hfull]).
    split; [exact Hc|]. exact (pca_uncorrelated N D d X P lam HN Hc).
  Qed.

End PcaProof.
