(* Shapes_Proof_Base.v — C01: lemmas about the result monad, the loops and the
   neighbour-list accessors of Shapes_Model.v, and the tactic `ok_tac` that
   reduces "routine ... = Ok" to linear integer arithmetic. *)
From Coq Require Import ZArith List Bool Lia.
From TK Require Import Shapes_Model Shapes_Spec.
Import ListNotations.
Open Scope Z_scope.

Lemma seq_ok a b : a ;; b = Ok <-> a = Ok /\ b = Ok.
Proof. destruct a; cbn; split; intros H; try (destruct H; congruence); try discriminate; auto. Qed.

Lemma chk_ok s i n : chk s i n = Ok <-> 0 <= i < n.
Proof.
  unfold chk. destruct (0 <=? i) eqn:A; destruct (i <? n) eqn:B; cbn;
    split; intros H; try discriminate; try reflexivity; try lia.
Qed.

Lemma blk_ok s a l n : blk s a l n = Ok <-> 0 <= a /\ 0 <= l /\ a + l <= n.
Proof.
  unfold blk. destruct (0 <=? a) eqn:A; destruct (0 <=? l) eqn:B; destruct (a + l <=? n) eqn:C; cbn;
    split; intros H; try discriminate; try reflexivity; try lia.
Qed.

Lemma guard_ok b e : guard b e = Ok <-> b = true.
Proof. destruct b; cbn; split; intros; congruence. Qed.

Lemma for_from_ok n : forall i f,
  for_from i n f = Ok <-> (forall j, (i <= j < i + n)%nat -> f j = Ok).
Proof.
  induction n as [|n IH]; intros i f; cbn [for_from].
  - split; [intros _ j Hj; lia | reflexivity].
  - rewrite seq_ok, IH. split.
    + intros [H0 H1] j Hj. destruct (Nat.eq_dec j i) as [->|]; [assumption|]. apply H1. lia.
    + intros H. split; [apply H; lia | intros j Hj; apply H; lia].
Qed.

Lemma forZ_ok n f : forZ n f = Ok <-> (forall i, 0 <= i < n -> f i = Ok).
Proof.
  unfold forZ. rewrite for_from_ok. split.
  - intros H i Hi. specialize (H (Z.to_nat i)). rewrite Z2Nat.id in H by lia. apply H. lia.
  - intros H j Hj. apply H. lia.
Qed.

Lemma forZ_from_ok lo hi f : forZ_from lo hi f = Ok <-> (forall j, lo <= j < hi -> f j = Ok).
Proof.
  unfold forZ_from. rewrite forZ_ok. split.
  - intros H j Hj. replace j with (lo + (j - lo)) by lia. apply H. lia.
  - intros H t Ht. apply H. lia.
Qed.

(* a failing iteration makes the loop fail *)
Lemma forZ_not_ok n f i : 0 <= i < n -> f i <> Ok -> forZ n f <> Ok.
Proof. intros Hi Hf H. rewrite forZ_ok in H. auto. Qed.

(* ---------------------------------------------------------------- well-formed neighbour lists *)
Lemma nb_wf_k0 N k nb : 0 < N -> nb_wf N k nb -> k0 nb = k.
Proof.
  intros HN [Hl Hf]. destruct nb as [|l nb]; cbn in *; [lia|].
  inversion Hf as [|? ? [H _] _]; subst. reflexivity.
Qed.

Lemma nb_wf_front s N k nb : 0 < N -> nb_wf N k nb -> nb_front s nb = Ok.
Proof. intros HN [Hl _]. destruct nb; cbn in *; [lia|reflexivity]. Qed.

Lemma nb_get_ok s N k nb i j f :
  nb_wf N k nb -> 0 <= i < N -> 0 <= j < k ->
  (forall w, 0 <= w < N -> f w = Ok) -> nb_get s nb i j f = Ok.
Proof.
  intros [Hl Hf] Hi Hj H. unfold nb_get.
  destruct (i <? 0) eqn:Ei; [lia|].
  destruct (nth_error nb (Z.to_nat i)) as [l|] eqn:E.
  2:{ apply nth_error_None in E. lia. }
  rewrite Forall_forall in Hf. destruct (Hf l (nth_error_In _ _ E)) as [Hk Hw].
  destruct (j <? 0) eqn:Ej; [lia|].
  destruct (nth_error l (Z.to_nat j)) as [w|] eqn:E2.
  2:{ apply nth_error_None in E2. lia. }
  apply H. rewrite Forall_forall in Hw. apply Hw. eapply nth_error_In; eauto.
Qed.

Lemma nb_row_ok s N k nb idx f :
  nb_wf N k nb -> 0 <= idx < N ->
  (forall i w, 0 <= i < k -> 0 <= w < N -> f i w = Ok) -> nb_row s nb N idx k f = Ok.
Proof.
  intros W Hi H. unfold nb_row. apply forZ_ok. intros i Hik.
  eapply nb_get_ok; eauto. intros w Hw. apply seq_ok. split; [apply chk_ok; lia | auto].
Qed.

Lemma lm_get_ok s N l i f :
  idx_wf N l -> 0 <= i < Z.of_nat (length l) ->
  (forall w, 0 <= w < N -> f w = Ok) -> lm_get s l i f = Ok.
Proof.
  intros W Hi H. unfold lm_get. destruct (i <? 0) eqn:E; [lia|].
  destruct (nth_error l (Z.to_nat i)) as [w|] eqn:E2.
  2:{ apply nth_error_None in E2. lia. }
  apply H. unfold idx_wf in W. rewrite Forall_forall in W. apply W. eapply nth_error_In; eauto.
Qed.

Lemma in_firstn_in {A} (x : A) : forall n l, In x (firstn n l) -> In x l.
Proof.
  induction n as [|n IH]; intros l H; cbn in H; [contradiction|].
  destruct l as [|a l]; cbn in *; [contradiction|]. destruct H; [left; assumption|right; auto].
Qed.

Lemma idx_wf_firstn N n l : idx_wf N l -> idx_wf N (firstn n l).
Proof.
  unfold idx_wf. rewrite !Forall_forall. intros H x Hx. apply H. eapply in_firstn_in; eauto.
Qed.

(* ---------------------------------------------------------------- the tactic *)
Ltac ok_step :=
  match goal with
  | |- _ ;; _ = Ok => apply seq_ok; split
  | |- chk _ _ _ = Ok => apply chk_ok
  | |- blk _ _ _ _ = Ok => apply blk_ok
  | |- guard _ _ = Ok => apply guard_ok
  | |- forZ _ _ = Ok => apply forZ_ok; intros
  | |- forZ_from _ _ _ = Ok => apply forZ_from_ok; intros
  | |- Ok = Ok => reflexivity
  end.
