(* QuadTree_Proof_FloatQ.v — the binary64 box arithmetic (QuadTree_Float_Model.v) REFINES the exact-rational model
   (QuadTree_Model.v: contains, nwc/nec/swc/sec) on the class of QuadTree_Proof_FloatExact.v.
   F2Q x = the rational value of the double x.  For a cell on a grid 2^g with headroom and every finite point:
     fcontains c p = contains (cellQ c) (ptQ p)            (the same boolean)
     cellQ (fnwc c) = nwc (cellQ c)  ...                     (field by field, ==)
   and along every path of length <= d below a root with d spare bits.  So every containment decision the real code
   takes on such inputs is the decision the exact model takes: this is what makes "model and implementation must agree
   exactly" on the exact stream a consequence of a theorem rather than of an informal argument about dyadic numbers. *)
From Coq Require Import ZArith QArith Qreals Reals Floats Lia Lra Bool List.
From Flocq Require Import Core BinarySingleNaN.
Require Import Flocq.IEEE754.PrimFloat.
From TK Require Import QuadTree_Model QuadTree_Proof_Base QuadTree_Float_Model QuadTree_Proof_FloatExact.
Import ListNotations.

Notation pfloat := Coq.Floats.PrimFloat.float (only parsing).

Definition SF2Q (s : spec_float) : Q :=
  match s with
  | S754_finite sg m e =>
    let z := if sg then Zneg m else Zpos m in
    match e with
    | Z0 => inject_Z z
    | Zpos q => inject_Z (z * 2 ^ Zpos q)
    | Zneg q => Qmake z (2 ^ q)%positive
    end
  | _ => 0%Q
  end.
Definition F2Q (x : pfloat) : Q := SF2Q (Prim2SF x).

Lemma Q2R_inject_Z : forall z, Q2R (inject_Z z) = IZR z.
Proof. intros z. unfold Q2R, inject_Z. cbn [Qnum Qden]. rewrite Rinv_1. ring. Qed.

Lemma F2Q_R : forall x, Q2R (F2Q x) = FR x.
Proof.
  intros x. unfold F2Q, FR, Prim2B. rewrite B2R_SF2B.
  destruct (Prim2SF x) as [s|s| |s m e]; cbn [SF2Q SF2R]; try (unfold Q2R; cbn; lra).
  unfold F2R. cbn [Fnum Fexp].
  assert (Hz : cond_Zopp s (Z.pos m) = (if s then Z.neg m else Z.pos m)) by (destruct s; reflexivity).
  rewrite Hz. set (z := if s then Z.neg m else Z.pos m).
  destruct e as [|q|q].
  - rewrite Q2R_inject_Z. cbn [bpow]. ring.
  - rewrite Q2R_inject_Z, mult_IZR. f_equal; try (symmetry; apply (IZR_Zpower radix2); lia).
  - unfold Q2R. cbn [Qnum Qden]. f_equal.
    change (Z.neg q) with (- Z.pos q)%Z. rewrite bpow_opp. f_equal.
    rewrite Pos2Z.inj_pow. apply (IZR_Zpower radix2). lia.
Qed.

Definition cellQ (c : fcell) : cell := mkCell (F2Q (fcx c)) (F2Q (fcy c)) (F2Q (fchw c)) (F2Q (fchh c)).
Definition ptQ (p : fpt) : pt := (F2Q (fst p), F2Q (snd p)).

Local Open Scope Q_scope.

Definition cell_eq (a b : cell) : Prop :=
  cx a == cx b /\ cy a == cy b /\ chw a == chw b /\ chh a == chh b.

Lemma contains_cell_eq : forall a b p, cell_eq a b -> contains a p = contains b p.
Proof.
  intros a b p (H1 & H2 & H3 & H4).
  destruct (contains a p) eqn:Ea; destruct (contains b p) eqn:Eb; try reflexivity.
  - apply contains_iff in Ea. assert (contains b p = true) by (apply contains_iff; rewrite <- H1, <- H2, <- H3, <- H4; exact Ea).
    congruence.
  - apply contains_iff in Eb. assert (contains a p = true) by (apply contains_iff; rewrite H1, H2, H3, H4; exact Eb).
    congruence.
Qed.

(* real inequalities between FR values are rational inequalities between F2Q values *)
Lemma FR_le_Q : forall a b : Q, (Q2R a <= Q2R b)%R <-> a <= b.
Proof. intros a b. split; [apply Rle_Qle|apply Qle_Rle]. Qed.

Theorem fcontains_refines_gen : forall g c p,
  (gmin <= g <= gmax)%Z -> cell_on_grid g c -> pt_finite p ->
  fcontains c p = contains (cellQ c) (ptQ p).
Proof.
  intros g c p Hg Hc Hp.
  pose proof (fcontains_exact_on_grid g c p Hg Hc Hp) as H.
  assert (K : contains (cellQ c) (ptQ p) = true <->
              (FR (fcx c) - FR (fchw c) <= FR (fst p) <= FR (fcx c) + FR (fchw c) /\
               FR (fcy c) - FR (fchh c) <= FR (snd p) <= FR (fcy c) + FR (fchh c))%R).
  { rewrite contains_iff. unfold cellQ, ptQ. cbn [cx cy chw chh fst snd].
    rewrite <- !F2Q_R. rewrite <- !Q2R_minus, <- !Q2R_plus. rewrite !FR_le_Q. tauto. }
  destruct (fcontains c p); destruct (contains (cellQ c) (ptQ p)); try reflexivity.
  - symmetry. apply K. apply H. reflexivity.
  - apply H. apply K. reflexivity.
Qed.

Lemma Q2R_half : Q2R (1#2) = (/ 2)%R.
Proof. unfold Q2R. cbn [Qnum Qden]. lra. Qed.

Lemma Q2R_eq : forall a b : Q, Q2R a = Q2R b -> a == b.
Proof. intros a b H. apply eqR_Qeq. exact H. Qed.

Theorem fchildren_refine_gen : forall g c,
  (gmin <= g <= gmax)%Z -> cell_on_grid g c ->
  cell_eq (cellQ (fnwc c)) (nwc (cellQ c)) /\ cell_eq (cellQ (fnec c)) (nec (cellQ c)) /\
  cell_eq (cellQ (fswc c)) (swc (cellQ c)) /\ cell_eq (cellQ (fsec c)) (sec (cellQ c)).
Proof.
  intros g c Hg Hc.
  destruct (fchildren_exact_on_grid g c Hg Hc) as (A1 & A2 & A3 & A4 & A5 & A6).
  destruct (nwc_val (cellQ c)) as (N1 & N2 & N3 & N4).
  destruct (nec_val (cellQ c)) as (E1 & E2 & E3 & E4).
  destruct (swc_val (cellQ c)) as (S1 & S2 & S3 & S4).
  destruct (sec_val (cellQ c)) as (T1 & T2 & T3 & T4).
  assert (Hhalf : forall a b : Q, (Q2R a = Q2R b / 2)%R -> a == (1#2) * b).
  { intros a b H. apply Q2R_eq. rewrite Q2R_mult, Q2R_half. rewrite H. lra. }
  assert (Hm : forall a b c' : Q, (Q2R a = Q2R b - Q2R c' / 2)%R -> a == b - (1#2) * c').
  { intros a b c' H. apply Q2R_eq. rewrite Q2R_minus, Q2R_mult, Q2R_half. rewrite H. lra. }
  assert (Hp : forall a b c' : Q, (Q2R a = Q2R b + Q2R c' / 2)%R -> a == b + (1#2) * c').
  { intros a b c' H. apply Q2R_eq. rewrite Q2R_plus, Q2R_mult, Q2R_half. rewrite H. lra. }
  revert A1 A2 A3 A4 A5 A6.
  rewrite <- ?(F2Q_R (fchw c)), <- ?(F2Q_R (fchh c)), <- ?(F2Q_R (fcx c)), <- ?(F2Q_R (fcy c)),
          <- ?(F2Q_R (fchw (fnwc c))), <- ?(F2Q_R (fchh (fnwc c))), <- ?(F2Q_R (fcx (fnwc c))), <- ?(F2Q_R (fcx (fnec c))),
          <- ?(F2Q_R (fcy (fnwc c))), <- ?(F2Q_R (fcy (fswc c))).
  intros A1 A2 A3 A4 A5 A6.
  apply Hhalf in A1, A2. apply Hm in A3, A5. apply Hp in A4, A6.
  unfold cell_eq. cbn [cellQ fnwc fnec fswc fsec fcx fcy fchw fchh cx cy chw chh] in *.
  rewrite N1, N2, N3, N4, E1, E2, E3, E4, S1, S2, S3, S4, T1, T2, T3, T4.
  cbn [cellQ cx cy chw chh].
  repeat split; assumption.
Qed.

(* ---------- along a path ---------- *)
Definition qchild (k : nat) (c : cell) : cell :=
  match k with
  | 0%nat => nwc c | 1%nat => nec c | 2%nat => swc c | 3%nat => sec c
  | _ => c
  end.
Fixpoint qdescend (path : list nat) (c : cell) : cell :=
  match path with
  | [] => c
  | k :: rest => qdescend rest (qchild k c)
  end.

Lemma cell_eq_refl : forall a, cell_eq a a.
Proof. intros a. repeat split; reflexivity. Qed.
Lemma cell_eq_trans : forall a b c, cell_eq a b -> cell_eq b c -> cell_eq a c.
Proof.
  intros a b c (A1 & A2 & A3 & A4) (B1 & B2 & B3 & B4).
  repeat split; [rewrite A1|rewrite A2|rewrite A3|rewrite A4]; assumption.
Qed.

Lemma qchild_cell_eq : forall k a b, cell_eq a b -> cell_eq (qchild k a) (qchild k b).
Proof.
  intros k a b (H1 & H2 & H3 & H4).
  destruct k as [|[|[|[|k]]]]; cbn [qchild]; [| | | |repeat split; assumption].
  - destruct (nwc_val a) as (A1 & A2 & A3 & A4). destruct (nwc_val b) as (B1 & B2 & B3 & B4).
    repeat split; [rewrite A1, B1, H1, H3|rewrite A2, B2, H2, H4|rewrite A3, B3, H3|rewrite A4, B4, H4]; reflexivity.
  - destruct (nec_val a) as (A1 & A2 & A3 & A4). destruct (nec_val b) as (B1 & B2 & B3 & B4).
    repeat split; [rewrite A1, B1, H1, H3|rewrite A2, B2, H2, H4|rewrite A3, B3, H3|rewrite A4, B4, H4]; reflexivity.
  - destruct (swc_val a) as (A1 & A2 & A3 & A4). destruct (swc_val b) as (B1 & B2 & B3 & B4).
    repeat split; [rewrite A1, B1, H1, H3|rewrite A2, B2, H2, H4|rewrite A3, B3, H3|rewrite A4, B4, H4]; reflexivity.
  - destruct (sec_val a) as (A1 & A2 & A3 & A4). destruct (sec_val b) as (B1 & B2 & B3 & B4).
    repeat split; [rewrite A1, B1, H1, H3|rewrite A2, B2, H2, H4|rewrite A3, B3, H3|rewrite A4, B4, H4]; reflexivity.
Qed.

Lemma qdescend_cell_eq : forall path a b, cell_eq a b -> cell_eq (qdescend path a) (qdescend path b).
Proof.
  induction path as [|k path IH]; intros a b H; cbn [qdescend]; [exact H|].
  apply IH. apply qchild_cell_eq. exact H.
Qed.

(* a root with d spare bits: along every path of length <= d the binary64 cell IS the exact model's cell and takes
   the exact model's containment decision on every finite point *)
Theorem box_arithmetic_refines_gen : forall (path : list nat) g d root p,
  (length path <= d)%nat -> (Z.of_nat d <= prec)%Z ->
  (gmin + Z.of_nat d <= g <= gmax)%Z ->
  cell_on_grid_b g (2 ^ (prec - Z.of_nat d)) root ->
  Forall (fun k => (k < 4)%nat) path ->
  pt_finite p ->
  cell_eq (cellQ (fdescend path root)) (qdescend path (cellQ root)) /\
  fcontains (fdescend path root) p = contains (qdescend path (cellQ root)) (ptQ p).
Proof.
  induction path as [|k path IH]; intros g d root p Hlen Hd Hg Hroot Hpath Hp.
  - cbn [fdescend qdescend]. split; [apply cell_eq_refl|].
    apply (fcontains_refines_gen g); [lia| |exact Hp].
    apply (cell_on_grid_of_b g (2 ^ (prec - Z.of_nat d))); [apply Z.pow_le_mono_r; lia|exact Hroot].
  - cbn [fdescend qdescend]. cbn [length] in Hlen. destruct d as [|d]; [lia|].
    inversion Hpath as [|k' path' Hk Hrest]; subst.
    assert (Hg' : (gmin <= g <= gmax)%Z) by lia.
    assert (Hc : cell_on_grid g root).
    { apply (cell_on_grid_of_b g (2 ^ (prec - Z.of_nat (S d)))); [apply Z.pow_le_mono_r; lia|exact Hroot]. }
    assert (Hchild : cell_on_grid_b (g - 1) (2 ^ (prec - Z.of_nat d)) (fchild k root)).
    { replace (2 ^ (prec - Z.of_nat d))%Z with (2 * 2 ^ (prec - Z.of_nat (S d)))%Z.
      - apply child_on_grid; try assumption.
        split; [apply Z.pow_pos_nonneg; lia|apply Z.pow_le_mono_r; lia].
      - rewrite <- Z.pow_succ_r by lia. f_equal. lia. }
    destruct (IH (g - 1)%Z d (fchild k root) p) as [E1 E2]; try assumption; try lia.
    assert (Hk' : cell_eq (cellQ (fchild k root)) (qchild k (cellQ root))).
    { destruct (fchildren_refine_gen g root Hg' Hc) as (C0 & C1 & C2 & C3).
      destruct k as [|[|[|[|k]]]]; cbn [fchild qchild]; try assumption; lia. }
    pose proof (qdescend_cell_eq path _ _ Hk') as E3.
    split.
    + eapply cell_eq_trans; [exact E1|exact E3].
    + rewrite E2. apply contains_cell_eq. exact E3.
Qed.

Example refines_hyps :
  (length [0; 3; 1]%nat <= 40)%nat /\ (Z.of_nat 40 <= prec)%Z /\ (gmin + Z.of_nat 40 <= -1 <= gmax)%Z /\
  cell_on_grid_b (-1) (2 ^ (prec - Z.of_nat 40)) unit_cell /\
  Forall (fun k => (k < 4)%nat) [0; 3; 1]%nat /\ pt_finite origin_pt.
Proof. exact no_crack_hyps. Qed.
