(* ====================================================================== *)
(*  Equiv_Proof_Knn.v — C12: the neighbourhood stage under a permutation  *)
(*  of the samples.                                                        *)
(*   * the k-NN SPECIFICATION of property C02 (Knn_Spec.is_knn) is         *)
(*     transported by every relabelling of the samples: l is a set of k    *)
(*     nearest other samples of q for the table d  iff  map p l is one of  *)
(*     p q for the relabelled table.  Hence any exact search is            *)
(*     equivariant up to the choice among ties (the only freedom the       *)
(*     specification leaves).                                              *)
(*   * geodesics of a neighbourhood graph scale with the edge weights      *)
(*     (Conn_Spec.is_geodesic; integers, see the header of Conn_Spec.v).   *)
(*  The connectivity decision and the k-doubling recursion are C03's       *)
(*  theorems (Conn_Proof_Main: main_cc_perm, main_cc_result_perm,          *)
(*  main_cc_order_refuted); Properties_C12.v restates them.                *)
(* ====================================================================== *)
From Coq Require Import List ZArith Bool Lia Permutation.
From TK Require Import Knn_Spec Conn_Model Conn_Spec.
Import ListNotations.
Local Open Scope Z_scope.

(* p and pinv are mutually inverse bijections of the samples 0 .. N-1 *)
Definition zbij (N : nat) (p pinv : Z -> Z) : Prop :=
  (forall i, 0 <= i < Z.of_nat N -> 0 <= p i < Z.of_nat N) /\
  (forall i, 0 <= i < Z.of_nat N -> 0 <= pinv i < Z.of_nat N) /\
  (forall i, 0 <= i < Z.of_nat N -> pinv (p i) = i) /\
  (forall i, 0 <= i < Z.of_nat N -> p (pinv i) = i).

(* the distance table of the relabelled data set: new sample x is old sample pinv x *)
Definition relabel_dist (pinv : Z -> Z) (d : dist) : dist := fun x y => d (pinv x) (pinv y).

Lemma zbij_sym N p pinv : zbij N p pinv -> zbij N pinv p.
Proof. intros (H1 & H2 & H3 & H4). unfold zbij. split; [|split; [|split]]; assumption. Qed.

Lemma zbij_id N : zbij N (fun i => i) (fun i => i).
Proof. unfold zbij. split; [|split; [|split]]; intros; lia || reflexivity. Qed.

Lemma NoDup_map_zbij N p pinv l :
  zbij N p pinv -> NoDup l -> (forall i, In i l -> 0 <= i < Z.of_nat N) -> NoDup (map p l).
Proof.
  intros (_ & _ & Hinv & _) Hnd. induction Hnd as [|x l Hx Hnd IH]; intros Hr; cbn [map].
  - constructor.
  - constructor.
    + intros Hin. apply in_map_iff in Hin. destruct Hin as (y & Hy & Hyl).
      assert (y = x).
      { rewrite <- (Hinv y), <- (Hinv x), Hy; [reflexivity| |]; apply Hr; [left|right]; auto. }
      subst y. contradiction.
    + apply IH. intros y Hy. apply Hr. right. exact Hy.
Qed.

Theorem is_knn_relabel : forall N p pinv d q k l,
  zbij N p pinv -> 0 <= q < Z.of_nat N ->
  is_knn d N q k l -> is_knn (relabel_dist pinv d) N (p q) k (map p l).
Proof.
  intros N p pinv d q k l Hb Hq (Hnd & Hlen & Hql & Hrng & Hopt).
  pose proof Hb as (Hp & Hpi & Hinv & Hinv').
  unfold is_knn. split; [|split; [|split; [|split]]].
  - eapply NoDup_map_zbij; eauto.
  - rewrite map_length. exact Hlen.
  - intros Hin. apply in_map_iff in Hin. destruct Hin as (y & Hy & Hyl).
    assert (y = q) by (rewrite <- (Hinv y), <- (Hinv q), Hy; auto). subst y. contradiction.
  - intros i Hi. apply in_map_iff in Hi. destruct Hi as (y & <- & Hyl). apply Hp. apply Hrng. exact Hyl.
  - intros i j Hi Hnj Hjq Hj. apply in_map_iff in Hi. destruct Hi as (y & <- & Hyl).
    unfold relabel_dist. rewrite !Hinv by (auto using Hrng).
    apply Hopt; try assumption.
    + intros Hin. apply Hnj. apply in_map_iff. exists (pinv j). split; [apply Hinv'; exact Hj|exact Hin].
    + intros E. apply Hjq. rewrite <- E. symmetry. apply Hinv'. exact Hj.
    + apply Hpi. exact Hj.
Qed.

(* relabelling back gives the original table on the samples *)
Lemma is_knn_dist_ext : forall N d d' q k l,
  0 <= q < Z.of_nat N ->
  (forall x y, 0 <= x < Z.of_nat N -> 0 <= y < Z.of_nat N -> d' x y = d x y) ->
  is_knn d N q k l -> is_knn d' N q k l.
Proof.
  intros N d d' q k l Hq He (Hnd & Hlen & Hql & Hrng & Hopt).
  unfold is_knn. repeat split; try assumption; try (apply Hrng; assumption).
  intros i j Hi Hnj Hjq Hj. rewrite !He by (auto using Hrng). apply Hopt; assumption.
Qed.

Lemma map_map_zbij N p pinv l :
  zbij N p pinv -> (forall i, In i l -> 0 <= i < Z.of_nat N) -> map pinv (map p l) = l.
Proof.
  intros (_ & _ & Hinv & _) Hr. rewrite map_map. rewrite <- (map_id l) at 2.
  apply map_ext_in. intros a Ha. apply Hinv. apply Hr. exact Ha.
Qed.

(* THE statement: the specification is equivariant, in both directions *)
Theorem knn_spec_perm_equivariant : forall N p pinv d q k l,
  zbij N p pinv -> 0 <= q < Z.of_nat N -> (forall i, In i l -> 0 <= i < Z.of_nat N) ->
  (is_knn d N q k l <-> is_knn (relabel_dist pinv d) N (p q) k (map p l)).
Proof.
  intros N p pinv d q k l Hb Hq Hr. split.
  - apply is_knn_relabel; assumption.
  - intros H. pose proof Hb as (Hp & Hpi & Hinv & Hinv').
    pose proof (is_knn_relabel N pinv p (relabel_dist pinv d) (p q) k (map p l)
                  (zbij_sym _ _ _ Hb) (Hp q Hq) H) as H'.
    rewrite (map_map_zbij N p pinv l Hb Hr), (Hinv q Hq) in H'.
    eapply is_knn_dist_ext; [exact Hq| |exact H'].
    intros x y Hx Hy. unfold relabel_dist. rewrite !Hinv by assumption. reflexivity.
Qed.

(* the boolean oracle the harnesses run gives the same verdict on both sides *)
Corollary knn_oracle_perm_equivariant : forall N p pinv d q k l,
  zbij N p pinv -> 0 <= q < Z.of_nat N -> (forall i, In i l -> 0 <= i < Z.of_nat N) ->
  is_knn_b (relabel_dist pinv d) N (p q) k (map p l) = is_knn_b d N q k l.
Proof.
  intros N p pinv d q k l Hb Hq Hr.
  pose proof (knn_spec_perm_equivariant N p pinv d q k l Hb Hq Hr) as Hiff.
  rewrite <- !is_knn_b_spec in Hiff.
  destruct (is_knn_b d N q k l), (is_knn_b (relabel_dist pinv d) N (p q) k (map p l));
    try reflexivity; destruct Hiff as [H1 H2].
  - apply H1. reflexivity.
  - symmetry. apply H2. reflexivity.
Qed.

(* the neighbour DISTANCES (all an embedding method ever uses of a neighbour set, up to
   ties) are the same multiset on both sides *)
Corollary knn_dists_perm_invariant : forall N p pinv d q k l l',
  zbij N p pinv -> 0 <= q < Z.of_nat N ->
  is_knn d N q k l -> is_knn (relabel_dist pinv d) N (p q) k l' ->
  dists_sorted (relabel_dist pinv d) (p q) l' = dists_sorted d q l.
Proof.
  intros N p pinv d q k l l' Hb Hq H H'.
  pose proof (is_knn_relabel N p pinv d q k l Hb Hq H) as H1.
  rewrite (is_knn_agree _ _ _ _ _ _ H' H1).
  unfold dists_sorted. f_equal. rewrite map_map. apply map_ext_in. intros a Ha.
  destruct H as (_ & _ & _ & Hrng & _). destruct Hb as (_ & _ & Hinv & _).
  unfold relabel_dist. rewrite !Hinv by auto. reflexivity.
Qed.

(* ---------------------------------------------------------------------- *)
(* geodesics scale with the edge weights (Isomap: distances scaled by c)    *)
(* ---------------------------------------------------------------------- *)
Lemma walk_weight_scale c w i vs :
  walk_weight (fun a b => c * w a b) i vs = c * walk_weight w i vs.
Proof.
  revert i. induction vs as [|v vs IH]; intros i; cbn [walk_weight]; [lia|].
  rewrite IH. lia.
Qed.

Theorem geodesic_scale : forall nb w c i j d,
  0 < c -> is_geodesic nb w i j d ->
  is_geodesic nb (fun a b => c * w a b) i j (option_map (Z.mul c) d).
Proof.
  intros nb w c i j d Hc H. destruct d as [z|]; cbn [option_map is_geodesic] in *.
  - destruct H as ((vs & Hw & Hz) & Hmin). split.
    + exists vs. split; [exact Hw|]. rewrite walk_weight_scale, Hz. reflexivity.
    + intros vs' Hw'. rewrite walk_weight_scale. specialize (Hmin vs' Hw'). nia.
  - exact H.
Qed.
