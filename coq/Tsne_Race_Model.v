(* Tsne_Race_Model.v — the per-node scratch member of tsne::QuadTree made explicit.  No proofs here.

   quadtree.hpp, computeNonEdgeForces(point_index, theta, neg_f, sum_Q), at a node used as a summary:
       for d: buff[d]  = data[ind + d];                 |
       for d: buff[d] -= center_of_mass[d];             |  Wr : writes the MEMBER buff of this node
       for d: D += buff[d] * buff[d];                   |
       Q = 1/(1+D); *sum_Q += cum_size*Q; mult = cum_size*Q*Q;   |  Rd : reads it back
       for d: neg_f[d] += mult * buff[d];               |
   c18's QuadTree_Model.add_summary computes the same quantities from the point directly ("buff is not
   represented"); that abstraction is sound for a caller that finishes one call before it starts the next,
   which is what TSNE::computeGradient / evaluateError do (a plain `for (n...)` loop).  Here two or more
   callers ("threads", each with its own point, its own neg_f slice and — as under an OpenMP reduction —
   its own partial sum_Q) work on ONE node whose buff they share; a schedule is a list of Wr / Rd events. *)
From Coq Require Import List Arith QArith.
From TK Require Import QuadTree_Model.
Import ListNotations.
Local Open Scope Q_scope.

Inductive rop : Type := Wr (t : nat) | Rd (t : nat).

Record rstate : Type := mkR { r_buff : pt; r_acc : nat -> facc }.

Definition upd (f : nat -> facc) (t : nat) (v : facc) : nat -> facc :=
  fun u => if Nat.eqb u t then v else f u.

Section Race.
  Variable com : pt.          (* center_of_mass of the node *)
  Variable cum : nat.         (* cum_size *)
  Variable pts : nat -> pt.   (* the point of caller t *)

  Definition rstep (s : rstate) (o : rop) : rstate :=
    match o with
    | Wr t => mkR (fst (pts t) - fst com, snd (pts t) - snd com) (r_acc s)
    | Rd t =>
        let b := r_buff s in
        let D := fst b * fst b + snd b * snd b in
        let q := 1 / (1 + D) in
        let mult := Qn cum * q * q in
        let '(f0, f1, sq) := r_acc s t in
        mkR b (upd (r_acc s) t (f0 + mult * fst b, f1 + mult * snd b, sq + Qn cum * q))
    end.

  Definition rrun (s : rstate) (l : list rop) : rstate := fold_left rstep l s.

  (* every caller completes its call before the next one starts *)
  Definition atomic (ts : list nat) : list rop := flat_map (fun t => [Wr t; Rd t]) ts.
End Race.

Definition facc_eq (a b : facc) : Prop :=
  fst (fst a) == fst (fst b) /\ snd (fst a) == snd (fst b) /\ snd a == snd b.
