(* QuadTree_Proof_Counts.v — every cell's cum_size lies between the number of inserted points strictly inside
   its box and the number of inserted points inside its closed box (cell_counts_ok, all_cells). *)
From Coq Require Import List Arith Bool ZArith QArith Permutation Lia Lqa.
From TK Require Import QuadTree_Model QuadTree_Spec QuadTree_SpecExec QuadTree_Proof_Base
                       QuadTree_Proof_Insert QuadTree_Proof_Main QuadTree_Proof_Spec QuadTree_Proof_Order.
Import ListNotations.
Local Open Scope Q_scope.

Definition strict (data : list pt) (c : cell) (i : nat) : Prop := strictb data c i = true.

Lemma strict_in_iff : forall c p,
  strict_in c p = true <->
  (cx c - chw c < fst p /\ fst p < cx c + chw c /\ cy c - chh c < snd p /\ snd p < cy c + chh c).
Proof.
  intros c p. unfold strict_in. rewrite !andb_true_iff, !Qltb_true. tauto.
Qed.

Lemma strict_inside : forall data c i, strict data c i -> inside data c i.
Proof.
  intros data c i H. unfold strict, strictb in H. destruct (nth_error data i) as [p|] eqn:E; [|discriminate].
  exists p. split; [exact E|]. apply contains_iff. apply strict_in_iff in H. lra.
Qed.

(* strictly inside a child: strictly inside the parent, and outside the closed boxes of the children tried earlier *)
Lemma strict_child : forall data c i,
  (strict data (nwc c) i -> strict data c i) /\
  (strict data (nec c) i -> strict data c i /\ ~ inside data (nwc c) i) /\
  (strict data (swc c) i -> strict data c i /\ ~ inside data (nwc c) i /\ ~ inside data (nec c) i) /\
  (strict data (sec c) i -> strict data c i /\ ~ inside data (nwc c) i /\ ~ inside data (nec c) i /\ ~ inside data (swc c) i).
Proof.
  intros data c i. unfold strict, strictb, inside.
  destruct (nwc_val c) as (A1 & A2 & A3 & A4). destruct (nec_val c) as (B1 & B2 & B3 & B4).
  destruct (swc_val c) as (C1 & C2 & C3 & C4). destruct (sec_val c) as (D1 & D2 & D3 & D4).
  destruct (nth_error data i) as [p|]; [|repeat split; intros; congruence].
  assert (X : forall k, (exists q, Some p = Some q /\ contains k q = true) -> contains k p = true).
  { intros k (q & E & H). injection E as <-. exact H. }
  repeat split.
  - intro H. apply strict_in_iff in H. apply strict_in_iff. rewrite A1, A2, A3, A4 in H. lra.
  - apply strict_in_iff in H. apply strict_in_iff. rewrite B1, B2, B3, B4 in H. lra.
  - intro K. apply X in K. apply contains_iff in K. apply strict_in_iff in H.
    rewrite B1, B2, B3, B4 in H. rewrite A1, A2, A3, A4 in K. lra.
  - apply strict_in_iff in H. apply strict_in_iff. rewrite C1, C2, C3, C4 in H. lra.
  - intro K. apply X in K. apply contains_iff in K. apply strict_in_iff in H.
    rewrite C1, C2, C3, C4 in H. rewrite A1, A2, A3, A4 in K. lra.
  - intro K. apply X in K. apply contains_iff in K. apply strict_in_iff in H.
    rewrite C1, C2, C3, C4 in H. rewrite B1, B2, B3, B4 in K. lra.
  - apply strict_in_iff in H. apply strict_in_iff. rewrite D1, D2, D3, D4 in H. lra.
  - intro K. apply X in K. apply contains_iff in K. apply strict_in_iff in H.
    rewrite D1, D2, D3, D4 in H. rewrite A1, A2, A3, A4 in K. lra.
  - intro K. apply X in K. apply contains_iff in K. apply strict_in_iff in H.
    rewrite D1, D2, D3, D4 in H. rewrite B1, B2, B3, B4 in K. lra.
  - intro K. apply X in K. apply contains_iff in K. apply strict_in_iff in H.
    rewrite D1, D2, D3, D4 in H. rewrite C1, C2, C3, C4 in K. lra.
Qed.

Lemma NoDup_filter' : forall (f : nat -> bool) l, NoDup l -> NoDup (filter f l).
Proof.
  intros f l H. induction H as [|a l Ha Hl IH]; cbn [filter]; [constructor|].
  destruct (f a); [|exact IH]. constructor; [|exact IH].
  intro K. apply filter_In in K. apply Ha. apply K.
Qed.

Lemma counts_from_lists : forall data ins c l cum,
  NoDup ins -> NoDup l -> incl l ins -> cum = length l ->
  (forall i, In i l -> inside data c i) ->
  (forall i, In i ins -> strict data c i -> In i l) ->
  cell_counts_ok data ins c cum.
Proof.
  intros data ins c l cum Hni Hnl Hl Hc Hin Hst. subst cum. split.
  - apply NoDup_incl_length; [apply NoDup_filter'; exact Hni|].
    intros i Hi. apply filter_In in Hi. destruct Hi as [Hi Hs]. apply (Hst i Hi Hs).
  - apply NoDup_incl_length; [exact Hnl|].
    intros i Hi. apply filter_In. split; [apply Hl; exact Hi | apply insideb_iff; apply Hin; exact Hi].
Qed.

Lemma NoDup_app_r' : forall (a b : list nat), NoDup (a ++ b) -> NoDup b.
Proof.
  intros a b. induction a as [|x a IH]; cbn [app]; intro H; [exact H|].
  inversion H as [|? ? _ Hd]. subst. apply IH. exact Hd.
Qed.

Lemma NoDup_app4 : forall (l l1 l2 l3 l4 : list nat),
  Permutation l (l1 ++ l2 ++ l3 ++ l4) -> NoDup l -> NoDup l1 /\ NoDup l2 /\ NoDup l3 /\ NoDup l4.
Proof.
  intros l l1 l2 l3 l4 HP H. apply (Permutation_NoDup HP) in H.
  pose proof (NoDup_app_l _ _ H) as H1. apply NoDup_app_r' in H.
  pose proof (NoDup_app_l _ _ H) as H2. apply NoDup_app_r' in H.
  pose proof (NoDup_app_l _ _ H) as H3. apply NoDup_app_r' in H. auto.
Qed.

Lemma Inv_counts : forall data l t,
  Inv data l t ->
  forall ins, NoDup ins -> NoDup l -> incl l ins ->
    (forall i, In i ins -> strict data (qcell t) i -> In i l) ->
    all_cells (cell_counts_ok data ins) t.
Proof.
  intros data l t H.
  induction H as [c com | c j cnt cum com l Hj Hco Hin Hcnt Hagg
                 | c cum com nw ne sw se l l1 l2 l3 l4 HP I1 IH1 I2 IH2 I3 IH3 I4 IH4 HG HF Hins H2 Hagg];
    intros ins Hni Hnl Hl Hst; cbn [all_cells qcell] in *.
  - apply (counts_from_lists data ins c [] 0%nat Hni Hnl Hl eq_refl); [intros i []|exact Hst].
  - destruct Hagg as (Hc & _).
    apply (counts_from_lists data ins c l cum Hni Hnl Hl Hc); [|exact Hst].
    intros i Hi. apply (inside_coinc _ _ _ j); [apply Hco; exact Hi | exact Hin].
  - destruct Hagg as (Hc & _).
    split; [apply (counts_from_lists data ins c l cum Hni Hnl Hl Hc Hins Hst)|].
    destruct (NoDup_app4 l l1 l2 l3 l4 HP Hnl) as (D1 & D2 & D3 & D4).
    assert (Sub : forall x, In x (l1 ++ l2 ++ l3 ++ l4) -> In x ins).
    { intros x Hx. apply Hl. apply (Permutation_in _ (Permutation_sym HP) Hx). }
    destruct HG as (G1 & G2 & G3 & G4). destruct HF as (F2 & F3 & F4).
    pose proof (Inv_inside _ _ _ I1) as In1. rewrite G1 in In1.
    pose proof (Inv_inside _ _ _ I2) as In2. rewrite G2 in In2.
    pose proof (Inv_inside _ _ _ I3) as In3. rewrite G3 in In3.
    pose proof (Inv_inside _ _ _ I4) as In4. rewrite G4 in In4.
    assert (Split : forall i, In i ins -> strict data c i -> In i l1 \/ In i l2 \/ In i l3 \/ In i l4).
    { intros i Hi Hs. pose proof (Hst i Hi Hs) as K. apply (Permutation_in _ HP) in K.
      apply in_app_or in K. destruct K as [K|K]; [auto|].
      apply in_app_or in K. destruct K as [K|K]; [auto|].
      apply in_app_or in K. destruct K as [K|K]; auto. }
    repeat split.
    + apply (IH1 ins Hni D1); [intros x Hx; apply Sub; apply in_or_app; auto|].
      rewrite G1. intros i Hi Hs. destruct (strict_child data c i) as (S1 & _).
      destruct (Split i Hi (S1 Hs)) as [K|[K|[K|K]]]; [exact K | exfalso..].
      * apply (F2 i K). apply strict_inside. exact Hs.
      * destruct (F3 i K) as (Q & _). apply Q. apply strict_inside. exact Hs.
      * destruct (F4 i K) as (Q & _). apply Q. apply strict_inside. exact Hs.
    + apply (IH2 ins Hni D2); [intros x Hx; apply Sub; apply in_or_app; right; apply in_or_app; auto|].
      rewrite G2. intros i Hi Hs. destruct (strict_child data c i) as (_ & S2 & _).
      destruct (S2 Hs) as (Sc & N1).
      destruct (Split i Hi Sc) as [K|[K|[K|K]]]; [exfalso | exact K | exfalso..].
      * apply N1. apply In1. exact K.
      * destruct (F3 i K) as (_ & Q). apply Q. apply strict_inside. exact Hs.
      * destruct (F4 i K) as (_ & Q & _). apply Q. apply strict_inside. exact Hs.
    + apply (IH3 ins Hni D3);
        [intros x Hx; apply Sub; apply in_or_app; right; apply in_or_app; right; apply in_or_app; auto|].
      rewrite G3. intros i Hi Hs. destruct (strict_child data c i) as (_ & _ & S3 & _).
      destruct (S3 Hs) as (Sc & N1 & N2).
      destruct (Split i Hi Sc) as [K|[K|[K|K]]]; [exfalso | exfalso | exact K | exfalso].
      * apply N1. apply In1. exact K.
      * apply N2. apply In2. exact K.
      * destruct (F4 i K) as (_ & _ & Q). apply Q. apply strict_inside. exact Hs.
    + apply (IH4 ins Hni D4);
        [intros x Hx; apply Sub; apply in_or_app; right; apply in_or_app; right; apply in_or_app; auto|].
      rewrite G4. intros i Hi Hs. destruct (strict_child data c i) as (_ & _ & _ & S4).
      destruct (S4 Hs) as (Sc & N1 & N2 & N3).
      destruct (Split i Hi Sc) as [K|[K|[K|K]]]; [exfalso | exfalso | exfalso | exact K].
      * apply N1. apply In1. exact K.
      * apply N2. apply In2. exact K.
      * apply N3. apply In3. exact K.
Qed.

Theorem cell_counts_gen : forall fx fuel data order root ok t,
  (forall i, In i order -> inside data root i) ->
  mode fx data order -> NoDup order ->
  fill_order fx fuel data order (init root) = Done ok t ->
  all_cells (cell_counts_ok data order) t.
Proof.
  intros fx fuel data order root ok t Hin Hm Hnd E.
  destruct (build_Inv fx fuel data order root Hin Hm) as [[E' _]|(t' & E' & I & Ec)]; rewrite E in E'.
  - discriminate.
  - injection E' as -> ->.
    apply (Inv_counts data (rev order) t' I order Hnd).
    + apply (Permutation_NoDup (Permutation_rev order) Hnd).
    + intros x Hx. apply in_rev. exact Hx.
    + intros i Hi _. apply in_rev in Hi. exact Hi.
Qed.
