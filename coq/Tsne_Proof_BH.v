(* Tsne_Proof_BH.v — bh_gradient_limit: for every map without coincident points and every tree
   built over it there is theta0 > 0 such that for all 0 <= theta < theta0 the Barnes-Hut gradient
   (computeGradient) IS the closed form  edge forces - (exact all-pairs repulsion) / (exact sum_Q)
   — "an approximation that converges to the true gradient as theta -> 0" in its strongest
   discrete form.  Composition of agent c18's forces_eventually_exact and nonedge_loop_theta0. *)
From Coq Require Import List Arith QArith Lia Lqa.
From TK Require Import QuadTree_Model QuadTree_Spec QuadTree_SpecExec QuadTree_Proof_Gradient
                       QuadTree_Proof_Final Tsne_BH_Model.
Import ListNotations.
Local Open Scope Q_scope.

Lemma nonedge_loop_theta_irrelevant : forall data t theta,
  (forall i a, forces data i theta t a = forces data i 0 t a) ->
  forall ns sq, nonedge_loop data theta t ns sq = nonedge_loop data 0 t ns sq.
Proof.
  intros data t theta H ns. induction ns as [|n r IH]; intros sq; cbn [nonedge_loop]; [reflexivity|].
  rewrite H. destruct (forces data n 0 t (0, 0, sq)) as [[[f0 f1] sq']|]; [|reflexivity].
  now rewrite IH.
Qed.

(* rows of the result agree with the closed form up to Qeq *)
Fixpoint rows_eq (a b : list (Q * Q)) : Prop :=
  match a, b with
  | [], [] => True
  | (x0, x1) :: a', (y0, y1) :: b' => x0 == y0 /\ x1 == y1 /\ rows_eq a' b'
  | _, _ => False
  end.

Lemma combine_closed : forall data order rows n negs Z Z',
  rows_ok data order (seq n (length rows)) negs -> Z == Z' -> ~ Z' == 0 ->
  rows_eq (combine_grad n data rows negs Z) (closed_rows n data order rows Z').
Proof.
  intros data order rows. induction rows as [|row rows IH]; intros n negs Z Z' Hok HZ HZ0.
  - destruct negs; cbn in *; [exact I | destruct p; contradiction].
  - cbn [length seq] in Hok. destruct negs as [|[f0 f1] negs]; cbn [rows_ok] in Hok; [contradiction|].
    destruct Hok as (E0 & E1 & Hok). cbn [combine_grad closed_rows rows_eq fst snd].
    assert (HZ0' : ~ Z == 0) by (rewrite HZ; exact HZ0).
    split; [rewrite E0, HZ; reflexivity|]. split; [rewrite E1, HZ; reflexivity|].
    now apply IH.
Qed.

Theorem bh_gradient_limit_thm : forall fuel data root ok t (rows : list (list (nat * Q))),
  let N := length rows in
  in_root data root (seq 0 N) -> NoCo data (seq 0 N) -> (N <= length data)%nat ->
  fill_order true fuel data (seq 0 N) (init root) = Done ok t ->
  ~ total_sq data (seq 0 N) (seq 0 N) == 0 ->
  exists theta0, 0 < theta0 /\
    forall theta, 0 <= theta -> theta < theta0 ->
      exists g, bh_gradient data rows theta t = Some g /\
                rows_eq g (closed_rows 0 data (seq 0 N) rows (total_sq data (seq 0 N) (seq 0 N))).
Proof.
  intros fuel data root ok t rows N Hin HNoCo HN E HZ.
  destruct (forces_eventually_exact_final fuel data (seq 0 N) root ok t Hin E) as (theta0 & Hpos & Hev).
  exists theta0. split; [exact Hpos|]. intros theta H0 Hlt.
  destruct (nonedge_loop_theta0_final true fuel data (seq 0 N) root ok t Hin HNoCo E (seq 0 N) 0)
    as (negs & Z & El & Hok & HZe).
  { intros n Hn. apply in_seq in Hn. lia. }
  unfold bh_gradient. fold N.
  rewrite (nonedge_loop_theta_irrelevant data t theta (Hev theta H0 Hlt)), El.
  eexists. split; [reflexivity|].
  apply combine_closed; [exact Hok | rewrite HZe; lra | exact HZ].
Qed.

(* non-vacuity of the hypotheses (c18's four-point example, a sparse P with two edges) *)
Definition ex_rows : list (list (nat * Q)) := [[(1%nat, 1#4)]; [(0%nat, 1#4)]; [(3%nat, 1#4)]; [(2%nat, 1#4)]].

Example bh_gradient_limit_nonvacuous_ex :
  in_root ex_data2 ex_root (seq 0 (length ex_rows)) /\ NoCo ex_data2 (seq 0 (length ex_rows)) /\
  (length ex_rows <= length ex_data2)%nat /\
  (exists t, fill_order true 6 ex_data2 (seq 0 (length ex_rows)) (init ex_root) = Done true t) /\
  ~ total_sq ex_data2 (seq 0 (length ex_rows)) (seq 0 (length ex_rows)) == 0.
Proof.
  destruct ex_hyps_noco as (H1 & H2 & H3).
  split; [exact H1|]. split; [exact H2|]. split; [cbn; lia|]. split; [exact H3|].
  intros H. vm_compute in H. discriminate.
Qed.

(* ---------- the tree the check EXECUTES (wave 2): QuadTree(Y, N) = tsne_tree (auto_root + fill) ----------
   The GM stream of checks/c17.py runs `bh_gradient data rows theta t` with `tsne_tree slack fuel data N =
   Some (Done ok t)` through extraction against the real computeGradient; this is bh_gradient_limit for exactly
   that tree (the root box computed from the data contains the points: c18's auto_root_in_root). *)
Theorem bh_gradient_limit_tsne_tree_thm : forall slack fuel data ok t (rows : list (list (nat * Q))),
  let N := length rows in
  0 <= slack -> (N <= length data)%nat -> NoCo data (seq 0 N) ->
  tsne_tree slack fuel data N = Some (Done ok t) ->
  ~ total_sq data (seq 0 N) (seq 0 N) == 0 ->
  exists theta0, 0 < theta0 /\
    forall theta, 0 <= theta -> theta < theta0 ->
      exists g, bh_gradient data rows theta t = Some g /\
                rows_eq g (closed_rows 0 data (seq 0 N) rows (total_sq data (seq 0 N) (seq 0 N))).
Proof.
  intros slack fuel data ok t rows N Hs HN HNo E HZ. unfold tsne_tree in E.
  destruct (auto_root slack data N) as [c|] eqn:Ea; [|discriminate]. injection E as E. unfold fill in E.
  exact (bh_gradient_limit_thm fuel data c ok t rows (auto_root_in_root slack data N c Hs HN Ea) HNo HN E HZ).
Qed.

Example bh_gradient_limit_tsne_tree_nonvacuous_ex :
  0 <= (1 # 100000) /\ (length ex_rows <= length ex_data2)%nat /\ NoCo ex_data2 (seq 0 (length ex_rows)) /\
  (exists ok t, tsne_tree (1 # 100000) 12 ex_data2 (length ex_rows) = Some (Done ok t)) /\
  ~ total_sq ex_data2 (seq 0 (length ex_rows)) (seq 0 (length ex_rows)) == 0.
Proof.
  destruct ex_hyps_noco as (_ & H2 & _).
  split; [discriminate|]. split; [cbn; lia|]. split; [exact H2|].
  split; [eexists; eexists; vm_compute; reflexivity|].
  intros H. vm_compute in H. discriminate.
Qed.
