(* Tsne_Sym_Model.v — executable model of TSNE::symmetrizeMatrix (tsne.hpp), the CSR
   routine that turns the K-NN conditional similarities into (P + P^T)/2.
   No proofs in this file.

   Arrays are lists; every read and write is bounds checked and an out-of-range index
   gives the distinguished result `OOB array index` (never a default value).  The arrays
   sym_col_P / sym_val_P are malloc'ed, i.e. UNINITIALISED: the model keeps them as
   `list (option _)` with None = never written, and the final loop `sym_val_P[i] /= 2.0`
   over all no_elem slots returns `Uninit i` if it meets a slot nobody wrote (the C++
   would read an indeterminate value there and hand it to the gradient).
   Indices are `nat` (the C++ `int`s are non-negative for every CSR produced by
   computeGaussianPerplexity; a negative column cannot be represented here and is out
   of the model's scope).  Values are an abstract type V with the two operations the
   routine applies: `vadd` (val_P[i] + val_P[m]) and `vhalf` (x / 2.0); the closed
   instance for execution is Q (dyadic doubles are added and halved exactly in C++, so
   model and implementation must agree exactly on dyadic inputs).
   Loops `for (i = a; i < b; i++)` are folds over `seq a (b - a)`: same order, and an
   empty range when b <= a exactly as in C++. *)
From Coq Require Import List Arith Bool.
Import ListNotations.

Inductive arr : Type :=
  A_row_P | A_col_P | A_val_P | A_row_counts | A_sym_row_P | A_sym_col_P | A_sym_val_P | A_offset.

Inductive res (T : Type) : Type :=
| Ok (x : T)
| OOB (a : arr) (i : nat)
| Uninit (i : nat).
Arguments Ok {T} x.
Arguments OOB {T} a i.
Arguments Uninit {T} i.

Definition bind {S T} (r : res S) (f : S -> res T) : res T :=
  match r with Ok x => f x | OOB a i => OOB a i | Uninit i => Uninit i end.
Notation "'do' x <- r ; k" := (bind r (fun x => k)) (at level 200, x pattern, r at level 100, k at level 200).

Definition rd {T} (a : arr) (l : list T) (i : nat) : res T :=
  match nth_error l i with Some x => Ok x | None => OOB a i end.

Fixpoint upd {T} (l : list T) (i : nat) (x : T) : list T :=
  match l, i with
  | [], _ => []
  | _ :: r, O => x :: r
  | y :: r, S j => y :: upd r j x
  end.

Definition wr {T} (a : arr) (l : list T) (i : nat) (x : T) : res (list T) :=
  if i <? length l then Ok (upd l i x) else OOB a i.

(* l[i]++ *)
Definition incr (a : arr) (l : list nat) (i : nat) : res (list nat) :=
  do x <- rd a l i; wr a l i (S x).

(* for (x in xs) st = body x st, stopping at the first failure *)
Fixpoint forM {S T} (xs : list S) (st : T) (body : S -> T -> res T) : res T :=
  match xs with
  | [] => Ok st
  | x :: r => do st' <- body x st; forM r st' body
  end.

Definition range (a b : nat) : list nat := seq a (b - a).

Section Sym.
Variable V : Type.
Variable vadd : V -> V -> V.
Variable vhalf : V -> V.

Record csr : Type := mkCsr { row_P : list nat; col_P : list nat; val_P : list V }.

(* bool present = false;
   for (m = row_P[col_P[i]]; m < row_P[col_P[i] + 1]; m++) if (col_P[m] == n) present = true; *)
Definition present_scan (p : csr) (n c : nat) : res bool :=
  do lo <- rd A_row_P (row_P p) c;
  do hi <- rd A_row_P (row_P p) (c + 1);
  forM (range lo hi) false (fun m present =>
    do cm <- rd A_col_P (col_P p) m;
    Ok (if Nat.eqb cm n then true else present)).

(* first pass: row_counts *)
Definition count_entry (p : csr) (n i : nat) (rc : list nat) : res (list nat) :=
  do c <- rd A_col_P (col_P p) i;
  do present <- present_scan p n c;
  if present then incr A_row_counts rc n
  else do rc1 <- incr A_row_counts rc n; incr A_row_counts rc1 c.

Definition count_pass (p : csr) (N : nat) : res (list nat) :=
  forM (seq 0 N) (repeat 0 N) (fun n rc =>
    do lo <- rd A_row_P (row_P p) n;
    do hi <- rd A_row_P (row_P p) (n + 1);
    forM (range lo hi) rc (fun i rc => count_entry p n i rc)).

(* sym_row_P[0] = 0; sym_row_P[n + 1] = sym_row_P[n] + row_counts[n] *)
Fixpoint prefix_sums (acc : nat) (counts : list nat) : list nat :=
  match counts with
  | [] => [acc]
  | c :: r => acc :: prefix_sums (acc + c) r
  end.

Record fill_state : Type :=
  mkFill { s_col : list (option nat); s_val : list (option V); s_off : list nat }.

(* the four stores of one branch:
     sym_col_P[sym_row_P[n] + offset[n]] = c;   sym_col_P[sym_row_P[c] + offset[c]] = n;
     sym_val_P[sym_row_P[n] + offset[n]] = v;   sym_val_P[sym_row_P[c] + offset[c]] = v; *)
Definition store4 (srow : list nat) (n c : nat) (v : V) (st : fill_state) : res fill_state :=
  do rn <- rd A_sym_row_P srow n;
  do on <- rd A_offset (s_off st) n;
  do col1 <- wr A_sym_col_P (s_col st) (rn + on) (Some c);
  do rc <- rd A_sym_row_P srow c;
  do oc <- rd A_offset (s_off st) c;
  do col2 <- wr A_sym_col_P col1 (rc + oc) (Some n);
  do val1 <- wr A_sym_val_P (s_val st) (rn + on) (Some v);
  do val2 <- wr A_sym_val_P val1 (rc + oc) (Some v);
  Ok (mkFill col2 val2 (s_off st)).

(* second pass, one element (n, col_P[i]) *)
Definition fill_entry (p : csr) (srow : list nat) (n i : nat) (st : fill_state) : res fill_state :=
  do c <- rd A_col_P (col_P p) i;
  do lo <- rd A_row_P (row_P p) c;
  do hi <- rd A_row_P (row_P p) (c + 1);
  do ps <- forM (range lo hi) (false, st) (fun m (ps : bool * fill_state) =>
             let (present, st) := ps in
             do cm <- rd A_col_P (col_P p) m;
             if Nat.eqb cm n then
               if n <=? c then
                 do vi <- rd A_val_P (val_P p) i;
                 do vm <- rd A_val_P (val_P p) m;
                 do st' <- store4 srow n c (vadd vi vm) st;
                 Ok (true, st')
               else Ok (true, st)
             else Ok (present, st));
  let (present, st1) := ps in
  do st2 <- (if negb present then
               do vi <- rd A_val_P (val_P p) i; store4 srow n c vi st1
             else Ok st1);
  (* if (!present || (present && n <= col_P[i])) { offset[n]++; if (col_P[i] != n) offset[col_P[i]]++; } *)
  if negb present || (present && (n <=? c)) then
    do off1 <- incr A_offset (s_off st2) n;
    do off2 <- (if negb (Nat.eqb c n) then incr A_offset off1 c else Ok off1);
    Ok (mkFill (s_col st2) (s_val st2) off2)
  else Ok st2.

Definition fill_pass (p : csr) (N : nat) (srow : list nat) (no_elem : nat) : res fill_state :=
  forM (seq 0 N) (mkFill (repeat None no_elem) (repeat None no_elem) (repeat 0 N)) (fun n st =>
    do lo <- rd A_row_P (row_P p) n;
    do hi <- rd A_row_P (row_P p) (n + 1);
    forM (range lo hi) st (fun i st => fill_entry p srow n i st)).

(* for (i = 0; i < no_elem; i++) sym_val_P[i] /= 2.0;  and the hand-over of the arrays *)
Fixpoint finish_vals (i : nat) (l : list (option V)) : res (list V) :=
  match l with
  | [] => Ok []
  | None :: _ => Uninit i
  | Some v :: r => do r' <- finish_vals (S i) r; Ok (vhalf v :: r')
  end.

Fixpoint finish_cols (i : nat) (l : list (option nat)) : res (list nat) :=
  match l with
  | [] => Ok []
  | None :: _ => Uninit i
  | Some c :: r => do r' <- finish_cols (S i) r; Ok (c :: r')
  end.

Definition symmetrize (p : csr) (N : nat) : res csr :=
  do rc <- count_pass p N;
  let no_elem := fold_left Nat.add rc 0 in
  let srow := prefix_sums 0 rc in
  do st <- fill_pass p N srow no_elem;
  do vals <- finish_vals 0 (s_val st);
  do cols <- finish_cols 0 (s_col st);
  Ok (mkCsr srow cols vals).

End Sym.

Arguments mkCsr {V} _ _ _.
Arguments row_P {V} _.
Arguments col_P {V} _.
Arguments val_P {V} _.
