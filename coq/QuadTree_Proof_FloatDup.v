(* QuadTree_Proof_FloatDup.v — the binary64 duplicate test of insert() (QuadTree_Float_Dup.fdup: IEEE `!=` per
   coordinate) IS the duplicate test of the exact-rational model (QuadTree_Model.pt_eqb on the rational values of the
   doubles) for every pair of finite points; in particular it identifies +0.0 and -0.0, which the model cannot tell
   apart (F2Q of both is 0).  A bitwise test (memcmp) is a different function: witness (+0.0, y) / (-0.0, y). *)
From Coq Require Import ZArith QArith Qreals Reals Floats Lia Lra Bool List.
From Flocq Require Import Core BinarySingleNaN.
Require Import Flocq.IEEE754.PrimFloat.
From TK Require Import QuadTree_Model QuadTree_Float_Model QuadTree_Float_Dup QuadTree_Proof_FloatExact QuadTree_Proof_FloatQ.
Import ListNotations.

Lemma feqb_is_Qeq : forall x y : pfloat, ffin x -> ffin y ->
  Coq.Floats.PrimFloat.eqb x y = Qeq_bool (F2Q x) (F2Q y).
Proof.
  intros x y Hx Hy. rewrite eqb_equiv. rewrite Beqb_correct by assumption.
  fold (FR x). fold (FR y). rewrite <- !F2Q_R.
  destruct (Qeq_bool (F2Q x) (F2Q y)) eqn:E.
  - apply Qeq_bool_iff in E. apply Req_bool_true. apply Qeq_eqR. exact E.
  - apply Req_bool_false. intro H. apply eqR_Qeq in H. apply Qeq_bool_iff in H. congruence.
Qed.

Theorem fdup_is_pt_eqb : forall p q : fpt, pt_finite p -> pt_finite q ->
  fdup p q = pt_eqb (ptQ p) (ptQ q).
Proof.
  intros p q [Hp1 Hp2] [Hq1 Hq2]. unfold fdup, pt_eqb, ptQ. cbn [fst snd].
  rewrite (feqb_is_Qeq _ _ Hp1 Hq1), (feqb_is_Qeq _ _ Hp2 Hq2). reflexivity.
Qed.

Local Open Scope float_scope.

Definition zpos_pt : fpt := (0, 0.375).
Definition zneg_pt : fpt := (-0, 0.375).

Lemma zpts_finite : pt_finite zpos_pt /\ pt_finite zneg_pt.
Proof.
  unfold pt_finite, ffin, Prim2B, zpos_pt, zneg_pt; cbn [fst snd].
  repeat split; rewrite is_finite_SF2B; vm_compute; reflexivity.
Qed.

(* the two encodings of zero: one point for the exact model and for the `!=` test, two for a bitwise test *)
Theorem signed_zero_twins : 
  pt_finite zpos_pt /\ pt_finite zneg_pt /\
  pt_eqb (ptQ zpos_pt) (ptQ zneg_pt) = true /\ fdup zpos_pt zneg_pt = true /\ fdup_bits zpos_pt zneg_pt = false.
Proof.
  destruct zpts_finite as [A B]. repeat split; try assumption; vm_compute; reflexivity.
Qed.

Theorem bitwise_duplicate_test_refuted :
  exists p q : fpt, pt_finite p /\ pt_finite q /\ pt_eqb (ptQ p) (ptQ q) = true /\ fdup_bits p q = false.
Proof.
  exists zpos_pt, zneg_pt. destruct signed_zero_twins as (A & B & C & _ & D). repeat split; assumption.
Qed.
