(* Spe_Proof_Run.v — the whole main loop: the centroid of the configuration is an invariant of the complete
   run, for every random stream (shuffle answers, uniform draws), every number of iterations, every value the
   norm oracle returns, both strategies. *)
Require Import Field Ring List Arith Lia Bool ZArith QArith Permutation.
From TK Require Import Mat_Sums Mat_Core Spe_Model Spe_Spec Spe_Proof_Lists Spe_Proof_Index Spe_Proof_Coord
     Spe_Run_Model.
Import ListNotations.
Local Open Scope nat_scope.

Definition pairs_below (N : nat) (ps : list (nat * nat)) : Prop :=
  Forall (fun p => fst p < N /\ snd p < N) ps.

Lemma in_firstn_in {A} (l : list A) n x : In x (firstn n l) -> In x l.
Proof. intros H. rewrite <- (firstn_skipn n l). apply in_or_app. left. exact H. Qed.
Lemma in_skipn_in {A} (l : list A) n x : In x (skipn n l) -> In x l.
Proof. intros H. rewrite <- (firstn_skipn n l). apply in_or_app. right. exact H. Qed.

Lemma global_pairs_below N nu perm ps : global_iter_ok N nu perm ps -> pairs_below N ps.
Proof.
  intros [HP [_ [E _]]]. subst ps. apply Forall_forall. intros [a b] Hin.
  pose proof (in_combine_l _ _ _ _ Hin) as Ha. pose proof (in_combine_r _ _ _ _ Hin) as Hb.
  cbn [fst snd]. split.
  - apply (is_perm_lt N perm); [exact HP|]. apply (in_firstn_in _ nu). exact Ha.
  - apply (is_perm_lt N perm); [exact HP|]. apply (in_skipn_in _ nu). apply (in_firstn_in _ nu). exact Hb.
Qed.

(* neighbour lists only mention samples *)
Definition nbrs_below (N : nat) (nbrs : list (list nat)) : Prop :=
  Forall (Forall (fun x => x < N)) nbrs.

Lemma local_pairs_below N nu k nbrs perm ps :
  nbrs_below N nbrs -> local_iter_ok N nu k nbrs perm ps -> pairs_below N ps.
Proof.
  intros Hnb [HP [_ [Hf [_ Hall]]]]. apply Forall_forall. intros p Hp.
  rewrite Forall_forall in Hall. specialize (Hall p Hp). split.
  - apply (is_perm_lt N perm); [exact HP|]. apply (in_firstn_in _ nu). rewrite <- Hf.
    apply in_map. exact Hp.
  - apply in_firstn_in in Hall.
    destruct (Nat.lt_ge_cases (fst p) (length nbrs)) as [Hlt|Hge].
    + unfold nbrs_below in Hnb. rewrite Forall_forall in Hnb.
      specialize (Hnb (nth (fst p) nbrs []) (nth_In _ _ Hlt)). rewrite Forall_forall in Hnb.
      apply Hnb. exact Hall.
    + rewrite nth_overflow in Hall by exact Hge. destruct Hall.
Qed.

Section RunProof.
  Context {F : Type} {Fo : FieldOps F} {Ff : IsField F}.
  Add Field SpeRunField : (@Fth F Fo Ff).
  Local Open Scope F_scope.

  Lemma spe_coords_centroid N T tol alpha R t : forall steps lam (Y : pts),
    Forall (fun s => pairs_below N (s_pairs s)) steps ->
    sumn N (fun i => spe_coords T tol alpha R steps lam Y i t) = sumn N (fun i => Y i t).
  Proof.
    induction steps as [|s steps IH]; intros lam Y Hs; [reflexivity|].
    inversion Hs as [|? ? H1 H2]; subst. cbn [spe_coords]. rewrite IH by exact H2.
    apply spe_centroid_invariant_proof. exact H1.
  Qed.

  Lemma steps_below N (outs : list iter_out) (norms : list (list F)) :
    Forall (fun o => pairs_below N (o_pairs o)) outs ->
    Forall (fun s => pairs_below N (s_pairs s))
           (map (fun on => {| s_pairs := o_pairs (fst on); s_norms := snd on |}) (combine outs norms)).
  Proof.
    intros H. apply Forall_forall. intros s Hs. apply in_map_iff in Hs. destruct Hs as [[o n] [<- Hin]].
    cbn [s_pairs fst]. rewrite Forall_forall in H. apply H. apply (in_combine_l _ _ _ _ Hin).
  Qed.

  (* `spe_run_centroid_global`: global strategy (old and current code), the complete run *)
  Theorem spe_run_centroid_global_proof (old : bool) nbrs nupd N its norms tol alpha R (Y0 : pts) t :
    Forall (fun i => is_perm N (it_from i)) its ->
    exists Y, spe_embedding_run old true nbrs nupd N its norms tol alpha R Y0 = Ok Y /\
              sumn N (fun i => Y i t) = sumn N (fun i => Y0 i t).
  Proof.
    intros Hf. destruct (global_indices_perm_proof old nbrs nupd N its Hf) as [outs [E [_ Hall]]].
    unfold spe_embedding_run. rewrite E. cbn [bind]. eexists. split; [reflexivity|].
    apply spe_coords_centroid. apply steps_below.
    apply Forall_forall. intros o Ho. rewrite Forall_forall in Hall.
    destruct (Hall o Ho) as [Hok _]. exact (global_pairs_below _ _ _ _ Hok).
  Qed.

  (* `spe_run_centroid_local`: local strategy, current code, the complete run *)
  Theorem spe_run_centroid_local_proof nbrs nupd N its norms tol alpha R (Y0 : pts) t :
    let k := length (nth 0 nbrs []) in
    let nu := Nat.min nupd (N / 2) in
    (0 < N)%nat -> (0 < k)%nat -> nbrs_ok N k nbrs -> nbrs_below N nbrs ->
    Forall (fun i => is_perm N (it_from i) /\ us_ok nu (it_us i)) its ->
    exists Y, spe_embedding_run false false nbrs nupd N its norms tol alpha R Y0 = Ok Y /\
              sumn N (fun i => Y i t) = sumn N (fun i => Y0 i t).
  Proof.
    intros k nu HN Hk Hnb Hbel Hf.
    destruct (local_indices_spec_proof nbrs nupd N its HN Hk Hnb Hf) as [outs [E Hall]].
    unfold spe_embedding_run. rewrite E. cbn [bind]. eexists. split; [reflexivity|].
    apply spe_coords_centroid. apply steps_below.
    clear E. induction Hall as [|i o its' outs' Hio Hrest IH]; [constructor|].
    constructor.
    - destruct Hio as [Hok _]. exact (local_pairs_below _ _ _ _ _ _ Hbel Hok).
    - apply IH. inversion Hf; assumption.
  Qed.
End RunProof.
