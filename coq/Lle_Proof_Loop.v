(* ====================================================================== *)
(*  Lle_Proof_Loop.v — the generated table of HLLE's product loop          *)
(*  (gen/HlleLoop.v, translate/t_hlle.py) denotes the hand model           *)
(*    hlle_loop_eqb_ok    the boolean comparison of tables is sound        *)
(*    p_loop_known / j_loop_known   the generic evaluator on the known     *)
(*                        tables = Lle_Model.hlle_writes_from              *)
(*    loop_writes_model   loop_kind L = Some b -> loop_writes L d =        *)
(*                        hlle_writes b d (with sources j+1, j+p+1) and    *)
(*                        the buffer has hlle_ncols d columns              *)
(*    hlle_loop_table     obligation over the GENERATED table: it is one   *)
(*                        of the two known ones, and whichever it is:      *)
(*                        repaired -> for every d exactly the columns      *)
(*                        1+d .. d+dp are written, all inside the buffer;  *)
(*                        shipped -> column 12 of 10 at d = 3              *)
(* ====================================================================== *)
Require Import ZArith Arith Lia List Bool.
From TK Require Import Mat_Sums Mat_Core Lle_Model Lle_Loop HlleLoop Lle_Proof_Hlle.
Import ListNotations.

Definition w5_of (w : nat * nat * nat) : write5 :=
  let '(j, p, col) := w in
  (Z.of_nat j, Z.of_nat p, Z.of_nat col, Z.of_nat (j + 1), Z.of_nat (j + p + 1)).

Lemma tuple5_eq (a a' b b' c c' d d' e e' : Z) :
  a = a' -> b = b' -> c = c' -> d = d' -> e = e' -> (a, b, c, d, e) = (a', b', c', d', e').
Proof. intros; subst; reflexivity. Qed.

Lemma lin_eqb_ok a b : lin_eqb a b = true -> a = b.
Proof.
  destruct a, b. unfold lin_eqb. cbn. rewrite !andb_true_iff, !Z.eqb_eq.
  intros [[[[[-> ->] ->] ->] ->] ->]. reflexivity.
Qed.

Lemma hlle_loop_eqb_ok a b : hlle_loop_eqb a b = true -> a = b.
Proof.
  destruct a, b. unfold hlle_loop_eqb. cbn. rewrite !andb_true_iff.
  intros [[[[[[[[[[H1 H2] H3] H4] H5] H6] H7] H8] H9] H10] H11].
  apply lin_eqb_ok in H1, H2, H3, H4, H5, H6, H7, H8, H9, H10. apply Bool.eqb_prop in H11.
  subst. reflexivity.
Qed.

Definition upd_of (b : bool) : lin :=
  if b then mk_lin 2 0 (-1) 1 0 0 else mk_lin 1 0 (-1) 1 0 0.

Lemma loop_kind_known L b : loop_kind L = Some b -> L = loop_common (upd_of b).
Proof.
  unfold loop_kind. destruct (hlle_loop_eqb L loop_repaired) eqn:E1.
  - intros H. inversion H. apply hlle_loop_eqb_ok in E1. exact E1.
  - destruct (hlle_loop_eqb L loop_shipped) eqn:E2; [|discriminate].
    intros H. inversion H. apply hlle_loop_eqb_ok in E2. exact E2.
Qed.

Lemma p_loop_known upd d j ct dp m p f :
  (p + m = d - j)%nat -> (j < d)%nat -> (m < f)%nat ->
  p_loop (loop_common upd) f (Z.of_nat ct) (Z.of_nat p) (Z.of_nat j) (Z.of_nat d) dp =
  map w5_of (map (fun p => (j, p, ct + p + 1 + d)%nat) (seq p m)).
Proof.
  revert p f. induction m as [|m IH]; intros p f Hm Hj Hf; (destruct f as [|f]; [lia|]); cbn [p_loop].
  - unfold leval at 1. cbn [hl_pbound loop_common l_ct l_p l_j l_d l_dp l_c].
    assert (E : (Z.of_nat p <? 0 * Z.of_nat ct + 0 * Z.of_nat p + -1 * Z.of_nat j + 1 * Z.of_nat d + 0 * dp + 0)%Z = false)
      by (apply Z.ltb_ge; lia).
    rewrite E. reflexivity.
  - unfold leval at 1. cbn [hl_pbound loop_common l_ct l_p l_j l_d l_dp l_c].
    assert (E : (Z.of_nat p <? 0 * Z.of_nat ct + 0 * Z.of_nat p + -1 * Z.of_nat j + 1 * Z.of_nat d + 0 * dp + 0)%Z = true)
      by (apply Z.ltb_lt; lia).
    rewrite E. cbn [seq map]. apply (f_equal2 (@cons write5)).
    + unfold w5_of, leval. cbn [hl_col hl_src1 hl_src2 loop_common l_ct l_p l_j l_d l_dp l_c].
      apply tuple5_eq; lia.
    + replace (Z.of_nat p + 1)%Z with (Z.of_nat (S p)) by lia. apply IH; lia.
Qed.

Lemma j_loop_known b d dp n j ct f :
  (j + n = d)%nat -> (n < f)%nat ->
  j_loop (loop_common (upd_of b)) f (S d) (Z.of_nat ct) (Z.of_nat j) (Z.of_nat d) dp =
  map w5_of (hlle_writes_from b d n j ct).
Proof.
  revert j ct f. induction n as [|n IH]; intros j ct f Hn Hf; (destruct f as [|f]; [lia|]);
    cbn [j_loop hlle_writes_from].
  - unfold leval at 1. cbn [hl_jbound loop_common l_ct l_p l_j l_d l_dp l_c].
    assert (E : (Z.of_nat j <? 0 * Z.of_nat ct + 0 * 0 + 0 * Z.of_nat j + 1 * Z.of_nat d + 0 * dp + 0)%Z = false)
      by (apply Z.ltb_ge; lia).
    rewrite E. reflexivity.
  - unfold leval at 1. cbn [hl_jbound loop_common l_ct l_p l_j l_d l_dp l_c].
    assert (E : (Z.of_nat j <? 0 * Z.of_nat ct + 0 * 0 + 0 * Z.of_nat j + 1 * Z.of_nat d + 0 * dp + 0)%Z = true)
      by (apply Z.ltb_lt; lia).
    rewrite E. rewrite map_app. f_equal.
    + assert (E0 : leval (hl_p0 (loop_common (upd_of b))) (Z.of_nat ct) 0 (Z.of_nat j) (Z.of_nat d) dp = Z.of_nat 0)
        by (unfold leval; cbn; lia).
      rewrite E0. apply p_loop_known; lia.
    + assert (Eu : leval (hl_upd (loop_common (upd_of b))) (Z.of_nat ct) 0 (Z.of_nat j) (Z.of_nat d) dp
                   = Z.of_nat (hlle_ct_next b d j ct)).
      { unfold leval, hlle_ct_next. destruct b; cbn [hl_upd loop_common upd_of l_ct l_p l_j l_d l_dp l_c]; lia. }
      rewrite Eu. replace (Z.of_nat j + 1)%Z with (Z.of_nat (S j)) by lia. apply IH; lia.
Qed.

Lemma tri_of_nat d : tri (Z.of_nat d) = Z.of_nat (hlle_dp d).
Proof.
  unfold tri, hlle_dp. rewrite Nat2Z.inj_div, Nat2Z.inj_mul, Nat2Z.inj_add. reflexivity.
Qed.

Theorem loop_writes_model L b d :
  loop_kind L = Some b ->
  loop_writes L d = map w5_of (hlle_writes b d) /\
  loop_ncols L d = Z.of_nat (hlle_ncols d).
Proof.
  intros H. apply loop_kind_known in H. subst L. split.
  - unfold loop_writes, hlle_writes.
    assert (E0 : forall x, leval (mk_lin 0 0 0 0 0 0) 0 0 0 (Z.of_nat d) x = Z.of_nat 0)
      by (intros; unfold leval; cbn; lia).
    cbn [hl_ct0 hl_j0 loop_common]. rewrite !E0. apply j_loop_known; lia.
  - unfold loop_ncols. rewrite tri_of_nat. unfold leval, hlle_ncols.
    cbn [hl_ncols loop_common l_ct l_p l_j l_d l_dp l_c]. lia.
Qed.

(* ---------------- obligations over the GENERATED table ---------------- *)
Lemma hlle_loop_known : loop_kind hlle_loop_src <> None.
Proof. vm_compute. discriminate. Qed.

Definition w5_col (w : write5) : Z := let '(_, _, c, _, _) := w in c.

Lemma w5_col_of w : w5_col (w5_of w) = Z.of_nat (snd w).
Proof. destruct w as [[j p] c]. reflexivity. Qed.

Theorem hlle_loop_table :
  (loop_kind hlle_loop_src = Some false /\
   forall d, map w5_col (loop_writes hlle_loop_src d) = map Z.of_nat (seq (1 + d) (hlle_dp d)) /\
             (forall w, In w (loop_writes hlle_loop_src d) -> (w5_col w < loop_ncols hlle_loop_src d)%Z))
  \/
  (loop_kind hlle_loop_src = Some true /\
   exists w, In w (loop_writes hlle_loop_src 3) /\ (loop_ncols hlle_loop_src 3 <= w5_col w)%Z).
Proof.
  destruct (loop_kind hlle_loop_src) as [[|]|] eqn:E.
  - right. split; [reflexivity|].
    destruct (loop_writes_model _ _ 3 E) as [Hw Hn]. rewrite Hw, Hn.
    exists (w5_of (2, 0, 12)%nat). split; [vm_compute; tauto|vm_compute; discriminate].
  - left. split; [reflexivity|]. intros d.
    destruct (loop_writes_model _ _ d E) as [Hw Hn]. rewrite Hw, Hn. split.
    + rewrite map_map. rewrite (map_ext _ (fun w => Z.of_nat (snd w))) by (intros; apply w5_col_of).
      rewrite <- (map_map (fun w : nat * nat * nat => snd w) Z.of_nat). f_equal. apply hlle_columns.
    + intros w Hin. apply in_map_iff in Hin. destruct Hin as [w0 [<- Hin]].
      rewrite w5_col_of. apply hlle_columns_in_range in Hin. unfold wcol in Hin. lia.
  - exfalso. apply hlle_loop_known. exact E.
Qed.
