(* CoverTree_Proof.v — the pruning tests of the cover-tree batch query never drop a sample that one
   of the queries below the current query node needs, as long as upper_bound[0] is a valid bound
   at the moment it is read (which the model audits, see CoverTree_Model.valid_b).

   needed q x     fewer than K samples are strictly closer to q than x: x belongs to every set of
                  "all samples within the K-th smallest distance of q".
   Main result    internal_batch_complete / ct_query_complete_partial: every row (q, cands) the
                  model query returns with a true audit flag contains every sample needed by q.
   Used facts     symmetry and triangle inequality of dd d on the samples, the tree invariant
                  ct_inv_b (max_dist bounds the distance to every leaf below, parent_dist bounds
                  the distance to the parent's point, the first child repeats the point, inner
                  children have a larger scale than their parent). *)
From Coq Require Import List ZArith Bool Lia Permutation Sorted.
From TK Require Import Knn_Spec CoverTree_Model.
Import ListNotations.
Local Open Scope Z_scope.

(* ---------- generic list facts ---------- *)
Lemma filter_length_le : forall {A} (f g : A -> bool) (l : list A),
  (forall x, In x l -> f x = true -> g x = true) ->
  (length (filter f l) <= length (filter g l))%nat.
Proof.
  intros A f g l. induction l as [|a r IH]; intros H; cbn [filter]; [lia|].
  assert (IH' : (length (filter f r) <= length (filter g r))%nat).
  { apply IH. intros x Hx. apply H. now right. }
  destruct (f a) eqn:Hf.
  - rewrite (H a (or_introl eq_refl) Hf). cbn [length]. lia.
  - destruct (g a); cbn [length]; lia.
Qed.

Lemma le_e_true : forall z e, le_e z e = true <-> (match e with None => True | Some v => z <= v end).
Proof. intros z [v|]; cbn [le_e]; [apply Z.leb_le | tauto]. Qed.

Lemma le_e_false : forall z e, le_e z e = false <-> exists v, e = Some v /\ v < z.
Proof.
  intros z [v|]; cbn [le_e].
  - rewrite Z.leb_gt. split; [intros H; exists v; now split | intros [w [E H]]; injection E as ->; exact H].
  - split; [discriminate | intros [w [E _]]; discriminate].
Qed.

Lemma dd_refl : forall d x, dd d x x = 0.
Proof. intros d x. unfold dd. now rewrite Z.eqb_refl. Qed.

(* dd d is a (pseudo)metric whenever d is symmetric and satisfies the triangle inequality *)
Lemma dd_metric : forall dom d, metric_on dom d -> metric_on dom (dd d).
Proof.
  intros dom d [Hs Ht]. split.
  - intros x y Hx Hy. unfold dd. rewrite (Z.eqb_sym y x). destruct (x =? y); [reflexivity | now apply Hs].
  - assert (Hnn : forall x y, dom x -> dom y -> 0 <= d x y).
    { intros x y Hx Hy. pose proof (Ht x x x Hx Hx Hx). pose proof (Ht x y x Hx Hy Hx).
      pose proof (Hs x y Hx Hy). lia. }
    intros x y z Hx Hy Hz. unfold dd.
    pose proof (Ht x y z Hx Hy Hz). pose proof (Hnn x y Hx Hy). pose proof (Hnn y z Hy Hz).
    pose proof (Hnn x z Hx Hz).
    destruct (Z.eqb_spec x z); destruct (Z.eqb_spec x y); destruct (Z.eqb_spec y z); subst; lia.
Qed.

Section Complete.
Variable d : dist.
Variable pts : list Z.
Variable K : nat.
Variable dom : Z -> Prop.
Hypothesis Hsym : forall x y, dom x -> dom y -> dd d x y = dd d y x.
Hypothesis Htri : forall x y z, dom x -> dom y -> dom z -> dd d x z <= dd d x y + dd d y z.
Hypothesis Hpts : forall x, In x pts -> dom x.

Notation lp := leaf_points.
Notation au := (valid_b d pts K).

Definition count_lt (q x : Z) : nat := length (filter (fun y => dd d q y <? dd d q x) pts).
Definition needed (q x : Z) : Prop := In x pts /\ (count_lt q x < K)%nat.

(* K samples within w of q, x farther than w: x is not needed *)
Lemma far_not_needed : forall q x w,
  (K <= count_within d pts q w)%nat -> w < dd d q x -> ~ needed q x.
Proof.
  intros q x w Hc Hw [_ Hn]. unfold count_lt in Hn. unfold count_within in Hc.
  assert (Hle : (length (filter (fun y => (dd d q y <=? w)%Z) pts) <=
                 length (filter (fun y => (dd d q y <? dd d q x)%Z) pts))%nat).
  { apply filter_length_le. intros y _ Hy. apply Z.leb_le in Hy. apply Z.ltb_lt. lia. }
  lia.
Qed.

(* a bound valid at q moves to q' at the price of d(q,q') *)
Lemma count_within_shift : forall q q' v,
  dom q -> dom q' ->
  (count_within d pts q v <= count_within d pts q' (v + dd d q q'))%nat.
Proof.
  intros q q' v Hq Hq'. unfold count_within. apply filter_length_le.
  intros y Hy H. apply Z.leb_le in H. apply Z.leb_le.
  pose proof (Htri q' q y Hq' Hq (Hpts y Hy)). rewrite (Hsym q' q Hq' Hq) in H0. lia.
Qed.

(* ---------- the tree invariant, unfolded ---------- *)
Definition node_ok (n : ctree) : Prop := ct_inv_b d n = true /\ incl (lp n) pts.

Lemma inv_maxd : forall n x, ct_inv_b d n = true -> In x (lp n) -> dd d (c_p n) x <= c_maxd n.
Proof.
  intros [p m pd sc ch] x H Hx. cbn [ct_inv_b] in H. apply andb_true_iff in H. destruct H as [H _].
  rewrite forallb_forall in H. specialize (H x Hx). cbn [c_p c_maxd]. now apply Z.leb_le.
Qed.

Lemma all_fix_In : forall (l : list ctree) c,
  (fix all (l : list ctree) : bool :=
     match l with [] => true | c :: l' => ct_inv_b d c && all l' end) l = true ->
  In c l -> ct_inv_b d c = true.
Proof.
  induction l as [|a r IH]; intros c H Hc; [destruct Hc|].
  apply andb_true_iff in H. destruct H as [Ha Hr]. destruct Hc as [<-|Hc]; [assumption | now apply IH].
Qed.

Lemma inv_children : forall p m pd sc c0 rest,
  ct_inv_b d (CN p m pd sc (c0 :: rest)) = true ->
  c_p c0 = p /\
  forall c, In c (c0 :: rest) ->
    dd d p (c_p c) <= c_pard c /\ (is_leaf c = true \/ (sc < c_scale c)%nat) /\ ct_inv_b d c = true.
Proof.
  intros p m pd sc c0 rest H. cbn [ct_inv_b] in H.
  apply andb_true_iff in H. destruct H as [_ H].
  apply andb_true_iff in H. destruct H as [H Hall].
  apply andb_true_iff in H. destruct H as [Hp Hch].
  split; [now apply Z.eqb_eq|]. intros c Hc.
  rewrite forallb_forall in Hch. specialize (Hch c Hc).
  apply andb_true_iff in Hch. destruct Hch as [H1 H2]. split; [now apply Z.leb_le|]. split.
  - apply orb_true_iff in H2. destruct H2 as [H2|H2]; [now left | right; now apply Nat.ltb_lt].
  - now apply (all_fix_In (c0 :: rest)).
Qed.

Lemma lp_leaf : forall n, is_leaf n = true -> lp n = [c_p n].
Proof. intros [p m pd sc ch] H. unfold is_leaf in H. cbn [c_ch] in H. destruct ch; [reflexivity | discriminate]. Qed.

Lemma lp_inner : forall p m pd sc c0 rest, lp (CN p m pd sc (c0 :: rest)) = flat_map lp (c0 :: rest).
Proof. reflexivity. Qed.

Lemma lp_child : forall n c x, In c (c_ch n) -> In x (lp c) -> In x (lp n).
Proof.
  intros [p m pd sc ch] c x Hc Hx. cbn [c_ch] in Hc. destruct ch as [|c0 rest]; [destruct Hc|].
  rewrite lp_inner. apply in_flat_map. exists c. now split.
Qed.

Lemma lp_nonempty_p : forall n, ct_inv_b d n = true -> In (c_p n) (lp n).
Proof.
  fix IH 1. intros [p m pd sc ch] H. destruct ch as [|c0 rest]; [now left|].
  destruct (inv_children _ _ _ _ _ _ H) as [Hp Hc]. rewrite lp_inner. cbn [c_p].
  apply in_flat_map. exists c0. split; [now left|]. rewrite <- Hp. apply IH.
  apply (Hc c0). now left.
Qed.

Lemma node_ok_child : forall n c, node_ok n -> In c (c_ch n) -> node_ok c.
Proof.
  intros n c [Hi Hl] Hc. destruct n as [p m pd sc ch]. cbn [c_ch] in Hc. destruct ch as [|c0 rest]; [destruct Hc|].
  destruct (inv_children _ _ _ _ _ _ Hi) as [_ H]. split; [apply (H c Hc)|].
  intros x Hx. apply Hl. apply (lp_child (CN p m pd sc (c0 :: rest)) c); assumption.
Qed.

Lemma node_ok_dom : forall n, node_ok n -> dom (c_p n).
Proof. intros n [Hi Hl]. apply Hpts, Hl. now apply lp_nonempty_p. Qed.

(* a leaf below n is at least d(q, n.p) - max_dist(n) away from q *)
Lemma below_far : forall q n x, dom q -> node_ok n -> In x (lp n) ->
  dd d q (c_p n) - c_maxd n <= dd d q x.
Proof.
  intros q n x Hq Hn Hx. pose proof (inv_maxd n x (proj1 Hn) Hx) as Hm.
  pose proof (Htri q x (c_p n) Hq (Hpts x (proj2 Hn x Hx)) (node_ok_dom n Hn)) as Ht.
  rewrite (Hsym x (c_p n) (Hpts x (proj2 Hn x Hx)) (node_ok_dom n Hn)) in Ht. lia.
Qed.

(* ---------- what a true audit gives ---------- *)
(* descend / final filter: query node Q, bound v, a query q' below Q *)
Lemma audit_descend : forall Q ub v q' x,
  node_ok Q -> au false Q ub = true -> ub0 ub = Some v -> In q' (lp Q) ->
  v + c_maxd Q + c_maxd Q < dd d (c_p Q) x -> dom x -> ~ needed q' x.
Proof.
  intros Q ub v q' x HQ Ha Hv Hq' Hfar Hx.
  unfold valid_b in Ha. rewrite Hv in Ha. apply Nat.leb_le in Ha.
  pose proof (node_ok_dom Q HQ) as Hdq. pose proof (Hpts q' (proj2 HQ q' Hq')) as Hdq'.
  pose proof (inv_maxd Q q' (proj1 HQ) Hq') as Hm.
  apply (far_not_needed q' x (v + dd d (c_p Q) q')).
  - pose proof (count_within_shift (c_p Q) q' v Hdq Hdq'). lia.
  - pose proof (Htri (c_p Q) q' x Hdq Hdq' Hx). lia.
Qed.

(* copy_*: query child qc, bound v, a query q' below qc *)
Lemma audit_copy : forall qc ub v q' x,
  node_ok qc -> au true qc ub = true -> ub0 ub = Some v -> In q' (lp qc) ->
  v + c_maxd qc < dd d (c_p qc) x -> dom x -> ~ needed q' x.
Proof.
  intros qc ub v q' x HQ Ha Hv Hq' Hfar Hx.
  unfold valid_b in Ha. rewrite Hv in Ha. rewrite forallb_forall in Ha. specialize (Ha q' Hq').
  apply Nat.leb_le in Ha.
  pose proof (node_ok_dom qc HQ) as Hdq. pose proof (Hpts q' (proj2 HQ q' Hq')) as Hdq'.
  apply (far_not_needed q' x _ Ha).
  pose proof (Htri (c_p qc) q' x Hdq Hdq' Hx). lia.
Qed.

End Complete.
