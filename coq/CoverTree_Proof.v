(* CoverTree_Proof.v — the pruning tests of the cover-tree batch query never drop a sample that one
   of the queries below the current query node needs, as long as upper_bound[0] is a valid bound
   at the moment it is read (the model audits that: CoverTree_Model.valid_b; CoverTree_Proof_Audit.v
   proves that the audit never fails, which turns the results of this file into unconditional ones).
   The model variant proved here is the committed code (oc = false: after fix F46 the copy sites
   prune with two query max_dist, like descend).

   needed q x     fewer than K samples are strictly closer to q than x: x belongs to every set of
                  "all samples within the K-th smallest distance of q".
   Main result    internal_batch_complete / ct_query_complete_partial: every row (q, cands) the
                  model query returns with a true audit flag contains every sample needed by q.
   Used facts     symmetry and triangle inequality of dd d on the samples, the tree invariant
                  ct_inv_b (max_dist bounds the distance to every leaf below, parent_dist bounds
                  the distance to the parent's point, the first child repeats the point, inner
                  children have a larger scale than their parent). *)
From Coq Require Import List ZArith Bool Lia Permutation Sorted.
From TK Require Import Knn_Spec CoverTree_Model.
Import ListNotations.
Local Open Scope Z_scope.

(* ---------- generic list facts ---------- *)
Lemma filter_length_le : forall {A} (f g : A -> bool) (l : list A),
  (forall x, In x l -> f x = true -> g x = true) ->
  (length (filter f l) <= length (filter g l))%nat.
Proof.
  intros A f g l. induction l as [|a r IH]; intros H; cbn [filter]; [lia|].
  assert (IH' : (length (filter f r) <= length (filter g r))%nat).
  { apply IH. intros x Hx. apply H. now right. }
  destruct (f a) eqn:Hf.
  - rewrite (H a (or_introl eq_refl) Hf). cbn [length]. lia.
  - destruct (g a); cbn [length]; lia.
Qed.

Lemma le_e_true : forall z e, le_e z e = true <-> (match e with None => True | Some v => z <= v end).
Proof. intros z [v|]; cbn [le_e]; [apply Z.leb_le | tauto]. Qed.

Lemma le_e_false : forall z e, le_e z e = false <-> exists v, e = Some v /\ v < z.
Proof.
  intros z [v|]; cbn [le_e].
  - rewrite Z.leb_gt. split; [intros H; exists v; now split | intros [w [E H]]; injection E as ->; exact H].
  - split; [discriminate | intros [w [E _]]; discriminate].
Qed.

Lemma dd_refl : forall d x, dd d x x = 0.
Proof. intros d x. unfold dd. now rewrite Z.eqb_refl. Qed.

(* dd d is a (pseudo)metric whenever d is symmetric and satisfies the triangle inequality *)
Lemma dd_metric : forall dom d, metric_on dom d -> metric_on dom (dd d).
Proof.
  intros dom d [Hs Ht]. split.
  - intros x y Hx Hy. unfold dd. rewrite (Z.eqb_sym y x). destruct (x =? y); [reflexivity | now apply Hs].
  - assert (Hnn : forall x y, dom x -> dom y -> 0 <= d x y).
    { intros x y Hx Hy. pose proof (Ht x x x Hx Hx Hx). pose proof (Ht x y x Hx Hy Hx).
      pose proof (Hs x y Hx Hy). lia. }
    intros x y z Hx Hy Hz. unfold dd.
    pose proof (Ht x y z Hx Hy Hz). pose proof (Hnn x y Hx Hy). pose proof (Hnn y z Hy Hz).
    pose proof (Hnn x z Hx Hz).
    destruct (Z.eqb_spec x z); destruct (Z.eqb_spec x y); destruct (Z.eqb_spec y z); subst; lia.
Qed.

Section Complete.
Variable d : dist.
Variable pts : list Z.
Variable K : nat.
Variable dom : Z -> Prop.
Hypothesis Hsym : forall x y, dom x -> dom y -> dd d x y = dd d y x.
Hypothesis Htri : forall x y z, dom x -> dom y -> dom z -> dd d x z <= dd d x y + dd d y z.
Hypothesis Hpts : forall x, In x pts -> dom x.

Notation lp := leaf_points.
Notation au := (valid_b d pts K).
Notation oc := false.                 (* the repaired copy radius (fix F46) *)

Definition count_lt (q x : Z) : nat := length (filter (fun y => dd d q y <? dd d q x) pts).
Definition needed (q x : Z) : Prop := In x pts /\ (count_lt q x < K)%nat.

(* K samples within w of q, x farther than w: x is not needed *)
Lemma far_not_needed : forall q x w,
  (K <= count_within d pts q w)%nat -> w < dd d q x -> ~ needed q x.
Proof.
  intros q x w Hc Hw [_ Hn]. unfold count_lt in Hn. unfold count_within in Hc.
  assert (Hle : (length (filter (fun y => (dd d q y <=? w)%Z) pts) <=
                 length (filter (fun y => (dd d q y <? dd d q x)%Z) pts))%nat).
  { apply filter_length_le. intros y _ Hy. apply Z.leb_le in Hy. apply Z.ltb_lt. lia. }
  lia.
Qed.

(* a bound valid at q moves to q' at the price of d(q,q') *)
Lemma count_within_shift : forall q q' v,
  dom q -> dom q' ->
  (count_within d pts q v <= count_within d pts q' (v + dd d q q'))%nat.
Proof.
  intros q q' v Hq Hq'. unfold count_within. apply filter_length_le.
  intros y Hy H. apply Z.leb_le in H. apply Z.leb_le.
  pose proof (Htri q' q y Hq' Hq (Hpts y Hy)). rewrite (Hsym q' q Hq' Hq) in H0. lia.
Qed.

(* ---------- the tree invariant, unfolded ---------- *)
Definition node_ok (n : ctree) : Prop := ct_inv_b d n = true /\ incl (lp n) pts.

Lemma inv_maxd : forall n x, ct_inv_b d n = true -> In x (lp n) -> dd d (c_p n) x <= c_maxd n.
Proof.
  intros [p m pd sc ch] x H Hx. cbn [ct_inv_b] in H. apply andb_true_iff in H. destruct H as [H _].
  rewrite forallb_forall in H. specialize (H x Hx). cbn [c_p c_maxd]. now apply Z.leb_le.
Qed.

Lemma all_fix_In : forall (l : list ctree) c,
  (fix all (l : list ctree) : bool :=
     match l with [] => true | c :: l' => ct_inv_b d c && all l' end) l = true ->
  In c l -> ct_inv_b d c = true.
Proof.
  induction l as [|a r IH]; intros c H Hc; [destruct Hc|].
  apply andb_true_iff in H. destruct H as [Ha Hr]. destruct Hc as [<-|Hc]; [assumption | now apply IH].
Qed.

Lemma inv_children : forall p m pd sc c0 rest,
  ct_inv_b d (CN p m pd sc (c0 :: rest)) = true ->
  c_p c0 = p /\
  forall c, In c (c0 :: rest) ->
    dd d p (c_p c) <= c_pard c /\ (is_leaf c = true \/ (sc < c_scale c)%nat) /\ ct_inv_b d c = true.
Proof.
  intros p m pd sc c0 rest H. cbn [ct_inv_b] in H.
  apply andb_true_iff in H. destruct H as [_ H].
  apply andb_true_iff in H. destruct H as [H Hall].
  apply andb_true_iff in H. destruct H as [Hp Hch].
  split; [now apply Z.eqb_eq|]. intros c Hc.
  rewrite forallb_forall in Hch. specialize (Hch c Hc).
  apply andb_true_iff in Hch. destruct Hch as [H1 H2]. split; [now apply Z.leb_le|]. split.
  - apply orb_true_iff in H2. destruct H2 as [H2|H2]; [now left | right; now apply Nat.ltb_lt].
  - now apply (all_fix_In (c0 :: rest)).
Qed.

Lemma lp_leaf : forall n, is_leaf n = true -> lp n = [c_p n].
Proof. intros [p m pd sc ch] H. unfold is_leaf in H. cbn [c_ch] in H. destruct ch; [reflexivity | discriminate]. Qed.

Lemma lp_inner : forall p m pd sc c0 rest, lp (CN p m pd sc (c0 :: rest)) = flat_map lp (c0 :: rest).
Proof. reflexivity. Qed.

Lemma lp_child : forall n c x, In c (c_ch n) -> In x (lp c) -> In x (lp n).
Proof.
  intros [p m pd sc ch] c x Hc Hx. cbn [c_ch] in Hc. destruct ch as [|c0 rest]; [destruct Hc|].
  rewrite lp_inner. apply in_flat_map. exists c. now split.
Qed.

Lemma lp_nonempty_p : forall n, ct_inv_b d n = true -> In (c_p n) (lp n).
Proof.
  fix IH 1. intros [p m pd sc ch] H. destruct ch as [|c0 rest]; [now left|].
  destruct (inv_children _ _ _ _ _ _ H) as [Hp Hc]. rewrite lp_inner. cbn [c_p].
  apply in_flat_map. exists c0. split; [now left|]. rewrite <- Hp. apply IH.
  apply (Hc c0). now left.
Qed.

Lemma node_ok_child : forall n c, node_ok n -> In c (c_ch n) -> node_ok c.
Proof.
  intros n c [Hi Hl] Hc. destruct n as [p m pd sc ch]. cbn [c_ch] in Hc. destruct ch as [|c0 rest]; [destruct Hc|].
  destruct (inv_children _ _ _ _ _ _ Hi) as [_ H]. split; [apply (H c Hc)|].
  intros x Hx. apply Hl. apply (lp_child (CN p m pd sc (c0 :: rest)) c); assumption.
Qed.

Lemma node_ok_dom : forall n, node_ok n -> dom (c_p n).
Proof. intros n [Hi Hl]. apply Hpts, Hl. now apply lp_nonempty_p. Qed.

(* a leaf below n is at least d(q, n.p) - max_dist(n) away from q *)
Lemma below_far : forall q n x, dom q -> node_ok n -> In x (lp n) ->
  dd d q (c_p n) - c_maxd n <= dd d q x.
Proof.
  intros q n x Hq Hn Hx. pose proof (inv_maxd n x (proj1 Hn) Hx) as Hm.
  pose proof (Htri q x (c_p n) Hq (Hpts x (proj2 Hn x Hx)) (node_ok_dom n Hn)) as Ht.
  rewrite (Hsym x (c_p n) (Hpts x (proj2 Hn x Hx)) (node_ok_dom n Hn)) in Ht. lia.
Qed.

(* ---------- what a true audit gives ---------- *)
(* descend / final filter: query node Q, bound v, a query q' below Q *)
Lemma audit_descend : forall Q ub v q' x,
  node_ok Q -> au false Q ub = true -> ub0 ub = Some v -> In q' (lp Q) ->
  v + c_maxd Q + c_maxd Q < dd d (c_p Q) x -> dom x -> ~ needed q' x.
Proof.
  intros Q ub v q' x HQ Ha Hv Hq' Hfar Hx.
  unfold valid_b in Ha. rewrite Hv in Ha. apply Nat.leb_le in Ha.
  pose proof (node_ok_dom Q HQ) as Hdq. pose proof (Hpts q' (proj2 HQ q' Hq')) as Hdq'.
  pose proof (inv_maxd Q q' (proj1 HQ) Hq') as Hm.
  apply (far_not_needed q' x (v + dd d (c_p Q) q')).
  - pose proof (count_within_shift (c_p Q) q' v Hdq Hdq'). lia.
  - pose proof (Htri (c_p Q) q' x Hdq Hdq' Hx). lia.
Qed.

(* copy_*: query child qc, bound v, a query q' below qc: the same statement (two max_dist) *)
Lemma audit_copy : forall qc ub v q' x,
  node_ok qc -> au true qc ub = true -> ub0 ub = Some v -> In q' (lp qc) ->
  v + c_maxd qc + c_maxd qc < dd d (c_p qc) x -> dom x -> ~ needed q' x.
Proof. intros qc ub v q' x HQ Ha. apply (audit_descend qc ub v q' x HQ). exact Ha. Qed.

(* ---------- the sets ---------- *)
Definition zero_ok (q : Z) (zero : list dnode) : Prop :=
  forall e, In e zero -> is_leaf (snd e) = true /\ fst e = dd d q (c_p (snd e)) /\ node_ok (snd e).

Definition cover_ok (q : Z) (cs ms : nat) (cover : list centry) : Prop :=
  forall s dist n, In (s, (dist, n)) cover -> (cs <= s)%nat ->
    (s <= ms)%nat /\ is_leaf n = false /\ (s <= c_scale n)%nat /\ dist = dd d q (c_p n) /\ node_ok n.

Definition in_zero (zero : list dnode) (x : Z) : Prop := exists e, In e zero /\ In x (lp (snd e)).
Definition in_cover (cover : list centry) (lo : nat) (x : Z) : Prop :=
  exists s dist n, In (s, (dist, n)) cover /\ (lo <= s)%nat /\ In x (lp n).
Definition covered (cover : list centry) (zero : list dnode) (cs : nat) (x : Z) : Prop :=
  in_zero zero x \/ in_cover cover cs x.

Lemma eadd_some : forall e z w, eadd e z = Some w -> exists v, e = Some v /\ w = v + z.
Proof. intros [v|] z w H; cbn [eadd] in H; [injection H as <-; now exists v | discriminate]. Qed.

Lemma zero_ok_nil : forall q, zero_ok q [].
Proof. intros q e []. Qed.

Lemma zero_ok_cons : forall q e l, zero_ok q (e :: l) <->
  (is_leaf (snd e) = true /\ fst e = dd d q (c_p (snd e)) /\ node_ok (snd e)) /\ zero_ok q l.
Proof.
  intros q e l. split.
  - intros H. split; [apply H; now left | intros e' He'; apply H; now right].
  - intros [He Hl] e' [<-|He']; [assumption | now apply Hl].
Qed.

Lemma maxd_nonneg : forall n, node_ok n -> 0 <= c_maxd n.
Proof.
  intros n Hn. pose proof (inv_maxd n (c_p n) (proj1 Hn) (lp_nonempty_p n (proj1 Hn))) as H.
  now rewrite dd_refl in H.
Qed.

(* everything below n is farther than v + a from q when n.p is farther than v + a + max_dist(n) *)
Lemma far_below : forall q n v a x, dom q -> node_ok n ->
  v + a + c_maxd n < dd d q (c_p n) -> In x (lp n) -> v + a < dd d q x.
Proof. intros q n v a x Hq Hn H Hx. pose proof (below_far q n x Hq Hn Hx). lia. Qed.

(* ---------- copy_zero_set ---------- *)
Definition keepz (qc : ctree) (ub : list ext) (e : dnode) : bool :=
  shell (fst e) (c_pard qc) (eadd (ub0 ub) (c_maxd qc + c_maxd qc)) &&
  le_e (dd d (c_p qc) (c_p (snd e))) (eadd (ub0 ub) (c_maxd qc + c_maxd qc)).

Lemma copy_zero_set_cons : forall qc ub e rest ok,
  copy_zero_set oc d au qc ub (e :: rest) ok =
  if keepz qc ub e then
    let dq := dd d (c_p qc) (c_p (snd e)) in
    let '(ub2, out, ok2) := copy_zero_set oc d au qc (if lt_e dq (ub0 ub) then ub_update ub dq else ub) rest
                                          (ok && au true qc ub) in
    (ub2, (dq, snd e) :: out, ok2)
  else copy_zero_set oc d au qc ub rest (ok && au true qc ub).
Proof.
  intros qc ub [edist en] rest ok. unfold keepz. cbn [copy_zero_set fst snd qmd].
  destruct (shell edist (c_pard qc) (eadd (ub0 ub) (c_maxd qc + c_maxd qc))); cbn [andb]; [|reflexivity].
  destruct (le_e (dd d (c_p qc) (c_p en)) (eadd (ub0 ub) (c_maxd qc + c_maxd qc))); reflexivity.
Qed.

Lemma keepz_false_far : forall qc q ub e,
  keepz qc ub e = false -> node_ok qc -> dom q -> dd d q (c_p qc) <= c_pard qc ->
  fst e = dd d q (c_p (snd e)) -> dom (c_p (snd e)) ->
  exists v, ub0 ub = Some v /\ v + c_maxd qc + c_maxd qc < dd d (c_p qc) (c_p (snd e)).
Proof.
  intros qc q ub [edist en] H Hqc Hq Hpd Hdist Hde. cbn [fst snd] in *. unfold keepz in H. cbn [fst snd] in H.
  pose proof (node_ok_dom qc Hqc) as Hdc.
  apply andb_false_iff in H. destruct H as [H|H].
  - unfold shell in H. apply le_e_false in H. destruct H as [w [Hw Hlt]].
    apply eadd_some in Hw. destruct Hw as [v [Hv ->]]. exists v. split; [assumption|].
    pose proof (Htri q (c_p qc) (c_p en) Hq Hdc Hde). lia.
  - apply le_e_false in H. destruct H as [w [Hw Hlt]].
    apply eadd_some in Hw. destruct Hw as [v [Hv ->]]. exists v. split; [assumption | lia].
Qed.

Lemma copy_zero_set_spec : forall qc q zero ub ok ub' out ok',
  copy_zero_set oc d au qc ub zero ok = (ub', out, ok') -> ok' = true ->
  node_ok qc -> dom q -> dd d q (c_p qc) <= c_pard qc -> zero_ok q zero ->
  ok = true /\ zero_ok (c_p qc) out /\
  forall q' x, In q' (lp qc) -> needed q' x -> in_zero zero x -> in_zero out x.
Proof.
  intros qc q zero. induction zero as [|e rest IH]; intros ub ok ub' out ok' E Hok' Hqc Hq Hpd Hz.
  - cbn [copy_zero_set] in E. injection E as <- <- <-. split; [assumption|]. split; [apply zero_ok_nil|].
    intros q' x _ _ [e [[] _]].
  - apply zero_ok_cons in Hz. destruct Hz as [[Hleaf [Hdist Hen]] Hz].
    pose proof (node_ok_dom (snd e) Hen) as Hde.
    rewrite copy_zero_set_cons in E. destruct (keepz qc ub e) eqn:Hk.
    + cbv zeta in E.
      destruct (copy_zero_set oc d au qc _ rest (ok && au true qc ub)) as [[ub2 out2] ok2] eqn:E2.
      injection E as <- <- <-.
      destruct (IH _ _ _ _ _ E2 Hok' Hqc Hq Hpd Hz) as [Hok1 [Hzo Hcov]].
      apply andb_true_iff in Hok1. destruct Hok1 as [Hok _]. split; [assumption|]. split.
      * apply zero_ok_cons. split; [|assumption]. cbn [fst snd]. repeat split; try assumption; apply Hen.
      * intros q' x Hq' Hn [e' [[<-|He'] Hx]].
        -- exists (dd d (c_p qc) (c_p (snd e)), snd e). split; [now left | assumption].
        -- destruct (Hcov q' x Hq' Hn (ex_intro _ e' (conj He' Hx))) as [e'' [He'' Hx'']].
           exists e''. split; [now right | assumption].
    + destruct (IH _ _ _ _ _ E Hok' Hqc Hq Hpd Hz) as [Hok1 [Hzo Hcov]].
      apply andb_true_iff in Hok1. destruct Hok1 as [Hok Hau]. split; [assumption|]. split; [assumption|].
      intros q' x Hq' Hn [e' [[<-|He'] Hx]].
      * exfalso. rewrite (lp_leaf (snd e) Hleaf) in Hx. destruct Hx as [<-|[]].
        destruct (keepz_false_far qc q ub e Hk Hqc Hq Hpd Hdist Hde) as [v [Hv Hfar]].
        exact (audit_copy qc ub v q' (c_p (snd e)) Hqc Hau Hv Hq' Hfar Hde Hn).
      * apply (Hcov q' x Hq' Hn). now exists e'.
Qed.

(* ---------- copy_slot / copy_cover_sets ---------- *)
Definition keepc (qc : ctree) (ub : list ext) (e : dnode) : bool :=
  shell (fst e) (c_pard qc) (eadd (eadd (ub0 ub) (c_maxd qc + c_maxd qc)) (c_maxd (snd e))) &&
  le_e (dd d (c_p qc) (c_p (snd e))) (eadd (eadd (ub0 ub) (c_maxd qc + c_maxd qc)) (c_maxd (snd e))).

Lemma copy_slot_cons : forall qc ub s es e rest ok,
  copy_slot oc d au qc ub s ((es, e) :: rest) ok =
  if Nat.eqb es s then
    if keepc qc ub e then
      let dq := dd d (c_p qc) (c_p (snd e)) in
      let '(ub2, out, ok2) := copy_slot oc d au qc (if lt_e dq (ub0 ub) then ub_update ub dq else ub) s rest
                                        (ok && au true qc ub) in
      (ub2, (s, (dq, snd e)) :: out, ok2)
    else copy_slot oc d au qc ub s rest (ok && au true qc ub)
  else copy_slot oc d au qc ub s rest ok.
Proof.
  intros qc ub s es [edist en] rest ok. unfold keepc. cbn [copy_slot fst snd qmd].
  destruct (Nat.eqb es s); [|reflexivity].
  destruct (shell edist (c_pard qc) (eadd (eadd (ub0 ub) (c_maxd qc + c_maxd qc)) (c_maxd en))); cbn [andb]; [|reflexivity].
  destruct (le_e (dd d (c_p qc) (c_p en)) (eadd (eadd (ub0 ub) (c_maxd qc + c_maxd qc)) (c_maxd en))); reflexivity.
Qed.

Lemma keepc_false_far : forall qc q ub e,
  keepc qc ub e = false -> node_ok qc -> dom q -> dd d q (c_p qc) <= c_pard qc ->
  fst e = dd d q (c_p (snd e)) -> dom (c_p (snd e)) ->
  exists v, ub0 ub = Some v /\ v + (c_maxd qc + c_maxd qc) + c_maxd (snd e) < dd d (c_p qc) (c_p (snd e)).
Proof.
  intros qc q ub [edist en] H Hqc Hq Hpd Hdist Hde. cbn [fst snd] in *. unfold keepc in H. cbn [fst snd] in H.
  pose proof (node_ok_dom qc Hqc) as Hdc.
  apply andb_false_iff in H. destruct H as [H|H].
  - unfold shell in H. apply le_e_false in H. destruct H as [w [Hw Hlt]].
    apply eadd_some in Hw. destruct Hw as [w1 [Hw1 ->]].
    apply eadd_some in Hw1. destruct Hw1 as [v [Hv ->]]. exists v. split; [assumption|].
    pose proof (Htri q (c_p qc) (c_p en) Hq Hdc Hde). lia.
  - apply le_e_false in H. destruct H as [w [Hw Hlt]].
    apply eadd_some in Hw. destruct Hw as [w1 [Hw1 ->]].
    apply eadd_some in Hw1. destruct Hw1 as [v [Hv ->]]. exists v. split; [assumption | lia].
Qed.

(* what copy_slot / copy_cover_sets put out: entries of the input with the distance re-evaluated *)
Definition from_cover (c : Z) (cover : list centry) (lo hi : nat) (out : list centry) : Prop :=
  forall s dist n, In (s, (dist, n)) out ->
    (lo <= s < hi)%nat /\ dist = dd d c (c_p n) /\ exists dist0, In (s, (dist0, n)) cover.

Lemma copy_slot_spec : forall qc q s cover ub ok ub' out ok',
  copy_slot oc d au qc ub s cover ok = (ub', out, ok') -> ok' = true ->
  node_ok qc -> dom q -> dd d q (c_p qc) <= c_pard qc ->
  (forall dist n, In (s, (dist, n)) cover -> dist = dd d q (c_p n) /\ node_ok n) ->
  ok = true /\ from_cover (c_p qc) cover s (S s) out /\
  forall q' x, In q' (lp qc) -> needed q' x ->
    (exists dist n, In (s, (dist, n)) cover /\ In x (lp n)) ->
    (exists dist n, In (s, (dist, n)) out /\ In x (lp n)).
Proof.
  intros qc q s cover. induction cover as [|[es e] rest IH]; intros ub ok ub' out ok' E Hok' Hqc Hq Hpd Hc.
  - cbn [copy_slot] in E. injection E as <- <- <-. split; [assumption|]. split.
    + intros s' dist n [].
    + intros q' x _ _ [dist [n [[] _]]].
  - assert (Hc' : forall dist n, In (s, (dist, n)) rest -> dist = dd d q (c_p n) /\ node_ok n).
    { intros dist n Hin. apply Hc. now right. }
    assert (Hfrom : forall out1, from_cover (c_p qc) rest s (S s) out1 ->
                                 from_cover (c_p qc) ((es, e) :: rest) s (S s) out1).
    { intros out1 H s' dist n Hin. destruct (H s' dist n Hin) as [H1 [H2 [d0 H3]]].
      split; [assumption|]. split; [assumption|]. exists d0. now right. }
    rewrite copy_slot_cons in E. destruct (Nat.eqb_spec es s) as [->|Hne].
    + destruct e as [edist en]. destruct (Hc edist en (or_introl eq_refl)) as [Hdist Hen].
      pose proof (node_ok_dom en Hen) as Hde.
      destruct (keepc qc ub (edist, en)) eqn:Hk.
      * cbv zeta in E. cbn [snd] in E.
        destruct (copy_slot oc d au qc _ s rest (ok && au true qc ub)) as [[ub2 out2] ok2] eqn:E2.
        injection E as <- <- <-.
        destruct (IH _ _ _ _ _ E2 Hok' Hqc Hq Hpd Hc') as [Hok1 [Hfr Hcov]].
        apply andb_true_iff in Hok1. destruct Hok1 as [Hok _]. split; [assumption|]. split.
        -- intros s' dist n [Hin|Hin].
           ++ injection Hin as <- <- <-. split; [lia|]. split; [reflexivity|]. exists edist. now left.
           ++ now apply (Hfrom out2 Hfr).
        -- intros q' x Hq' Hn [dist [n [[Hin|Hin] Hx]]].
           ++ injection Hin as <- <-. exists (dd d (c_p qc) (c_p en)), en. split; [now left | assumption].
           ++ destruct (Hcov q' x Hq' Hn (ex_intro _ dist (ex_intro _ n (conj Hin Hx)))) as [d1 [n1 [H1 H2]]].
              exists d1, n1. split; [now right | assumption].
      * destruct (IH _ _ _ _ _ E Hok' Hqc Hq Hpd Hc') as [Hok1 [Hfr Hcov]].
        apply andb_true_iff in Hok1. destruct Hok1 as [Hok Hau]. split; [assumption|].
        split; [now apply Hfrom|].
        intros q' x Hq' Hn [dist [n [[Hin|Hin] Hx]]].
        -- exfalso. injection Hin as <- <-.
           destruct (keepc_false_far qc q ub (edist, en) Hk Hqc Hq Hpd Hdist Hde) as [v [Hv Hfar]].
           cbn [snd] in Hfar.
           pose proof (far_below (c_p qc) en v (c_maxd qc + c_maxd qc) x (node_ok_dom qc Hqc) Hen Hfar Hx) as Hfx.
           assert (Hfx' : v + c_maxd qc + c_maxd qc < dd d (c_p qc) x) by lia.
           exact (audit_copy qc ub v q' x Hqc Hau Hv Hq' Hfx' (Hpts x (proj2 Hen x Hx)) Hn).
        -- apply (Hcov q' x Hq' Hn). now exists dist, n.
    + destruct (IH _ _ _ _ _ E Hok' Hqc Hq Hpd Hc') as [Hok1 [Hfr Hcov]].
      split; [assumption|]. split; [now apply Hfrom|].
      intros q' x Hq' Hn [dist [n [[Hin|Hin] Hx]]].
      * exfalso. injection Hin as -> _. now apply Hne.
      * apply (Hcov q' x Hq' Hn). now exists dist, n.
Qed.

Lemma copy_cover_sets_spec : forall qc q cover n s ub ok ub' out ok',
  copy_cover_sets oc d au qc ub s n cover ok = (ub', out, ok') -> ok' = true ->
  node_ok qc -> dom q -> dd d q (c_p qc) <= c_pard qc ->
  (forall s' dist m, In (s', (dist, m)) cover -> (s <= s' < s + n)%nat -> dist = dd d q (c_p m) /\ node_ok m) ->
  ok = true /\ from_cover (c_p qc) cover s (s + n) out /\
  forall q' x, In q' (lp qc) -> needed q' x ->
    (exists s' dist m, In (s', (dist, m)) cover /\ (s <= s' < s + n)%nat /\ In x (lp m)) ->
    in_cover out s x.
Proof.
  intros qc q cover n. induction n as [|n IH]; intros s ub ok ub' out ok' E Hok' Hqc Hq Hpd Hc.
  - cbn [copy_cover_sets] in E. injection E as <- <- <-. split; [assumption|]. split.
    + intros s' dist m [].
    + intros q' x _ _ [s' [dist [m [_ [Hr _]]]]]. lia.
  - cbn [copy_cover_sets] in E.
    destruct (copy_slot oc d au qc ub s cover ok) as [[ub1 out1] ok1] eqn:E1.
    destruct (copy_cover_sets oc d au qc ub1 (S s) n cover ok1) as [[ub2 out2] ok2] eqn:E2.
    injection E as <- <- <-.
    assert (Hc2 : forall s' dist m, In (s', (dist, m)) cover -> (S s <= s' < S s + n)%nat ->
                                    dist = dd d q (c_p m) /\ node_ok m).
    { intros s' dist m Hin Hr. apply (Hc s' dist m Hin). lia. }
    destruct (IH _ _ _ _ _ _ E2 Hok' Hqc Hq Hpd Hc2) as [Hok1 [Hfr2 Hcov2]].
    assert (Hc1 : forall dist m, In (s, (dist, m)) cover -> dist = dd d q (c_p m) /\ node_ok m).
    { intros dist m Hin. apply (Hc s dist m Hin). lia. }
    destruct (copy_slot_spec qc q s cover ub ok ub1 out1 ok1 E1 Hok1 Hqc Hq Hpd Hc1) as [Hok [Hfr1 Hcov1]].
    split; [assumption|]. split.
    + intros s' dist m Hin. apply in_app_or in Hin. destruct Hin as [Hin|Hin].
      * destruct (Hfr1 s' dist m Hin) as [H1 H2]. split; [lia | assumption].
      * destruct (Hfr2 s' dist m Hin) as [H1 H2]. split; [lia | assumption].
    + intros q' x Hq' Hn [s' [dist [m [Hin [Hr Hx]]]]].
      destruct (Nat.eq_dec s' s) as [->|Hne].
      * destruct (Hcov1 q' x Hq' Hn (ex_intro _ dist (ex_intro _ m (conj Hin Hx)))) as [d1 [n1 [H1 H2]]].
        exists s, d1, n1. split; [apply in_or_app; now left|]. split; [lia | assumption].
      * assert (Hr2 : (S s <= s' < S s + n)%nat) by lia.
        destruct (Hcov2 q' x Hq' Hn (ex_intro _ s' (ex_intro _ dist (ex_intro _ m (conj Hin (conj Hr2 Hx))))))
          as [s2 [d2 [n2 [H1 [H2 H3]]]]].
        exists s2, d2, n2. split; [apply in_or_app; now right|]. split; [lia | assumption].
Qed.

(* ---------- descend ---------- *)
Definition st_ok (q : Z) (cs : nat) (st : dstate) : Prop :=
  zero_ok q (ds_zero st) /\ cover_ok q cs (ds_ms st) (ds_cover st).

Definition grows (st st' : dstate) : Prop :=
  (ds_ms st <= ds_ms st')%nat /\ incl (ds_zero st) (ds_zero st') /\ incl (ds_cover st) (ds_cover st').

Lemma grows_refl : forall st, grows st st.
Proof. intros st. split; [lia|]. split; apply incl_refl. Qed.

Lemma grows_trans : forall a b c, grows a b -> grows b c -> grows a c.
Proof.
  intros a b c [H1 [H2 H3]] [G1 [G2 G3]]. split; [lia|].
  split; eapply incl_tran; eassumption.
Qed.

Lemma in_zero_incl : forall z z' x, incl z z' -> in_zero z x -> in_zero z' x.
Proof. intros z z' x H [e [He Hx]]. exists e. split; [now apply H | assumption]. Qed.

Lemma in_cover_incl : forall c c' lo x, incl c c' -> in_cover c lo x -> in_cover c' lo x.
Proof. intros c c' lo x H [s [dist [n [Hin Hr]]]]. exists s, dist, n. split; [now apply H | assumption]. Qed.

Lemma cover_ok_ms : forall q cs ms ms' cover, cover_ok q cs ms cover -> (ms <= ms')%nat -> cover_ok q cs ms' cover.
Proof.
  intros q cs ms ms' cover H Hle s dist n Hin Hs. destruct (H s dist n Hin Hs) as [H1 H2].
  split; [lia | assumption].
Qed.

Lemma zero_ok_app : forall q z e, zero_ok q z ->
  is_leaf (snd e) = true -> fst e = dd d q (c_p (snd e)) -> node_ok (snd e) -> zero_ok q (z ++ [e]).
Proof.
  intros q z e Hz H1 H2 H3 e' He'. apply in_app_or in He'. destruct He' as [He'|[<-|[]]]; [now apply Hz|].
  split; [exact H1|]. split; [exact H2 | exact H3].
Qed.

Lemma cover_ok_app : forall q cs ms cover sc dist n, cover_ok q cs ms cover ->
  is_leaf n = false -> dist = dd d q (c_p n) -> node_ok n -> sc = c_scale n ->
  cover_ok q cs (Nat.max ms sc) (cover ++ [(sc, (dist, n))]).
Proof.
  intros q cs ms cover sc dist n Hc H1 H2 H3 H4 s' dist' n' Hin Hs.
  apply in_app_or in Hin. destruct Hin as [Hin|[Hin|[]]].
  - destruct (Hc s' dist' n' Hin Hs) as [G1 G2]. split; [lia | assumption].
  - injection Hin as <- <- <-. split; [lia|]. split; [assumption|]. split; [lia|]. now split.
Qed.

Ltac same_sets := split; [cbn [ds_ms]; lia | split; cbn [ds_zero ds_cover]; apply incl_refl].

(* one non-first child *)
Lemma descend_child_spec : forall Q cs par pdist chi st,
  ds_ok (descend_child d au Q pdist chi st) = true ->
  node_ok Q -> node_ok chi -> dom (c_p par) ->
  pdist = dd d (c_p Q) (c_p par) -> dd d (c_p par) (c_p chi) <= c_pard chi ->
  (is_leaf chi = true \/ (cs < c_scale chi)%nat) ->
  st_ok (c_p Q) cs st ->
  ds_ok st = true /\ st_ok (c_p Q) cs (descend_child d au Q pdist chi st) /\
  grows st (descend_child d au Q pdist chi st) /\
  forall q' x, In q' (lp Q) -> needed q' x -> In x (lp chi) ->
    in_zero (ds_zero (descend_child d au Q pdist chi st)) x \/
    in_cover (ds_cover (descend_child d au Q pdist chi st)) (S cs) x.
Proof.
  intros Q cs par pdist chi st Hok HQ Hchi Hdp Hpd Hpard Hsc [Hz Hc].
  pose proof (node_ok_dom Q HQ) as Hdq. pose proof (node_ok_dom chi Hchi) as Hdc.
  pose proof (maxd_nonneg chi Hchi) as Hmc. pose proof (maxd_nonneg Q HQ) as HmQ.
  unfold descend_child in *.
  set (ub := ds_ub st) in *. set (ok1 := ds_ok st && au false Q ub) in *.
  set (upper_chi := eadd (eadd (eadd (ub0 ub) (c_maxd chi)) (c_maxd Q)) (c_maxd Q)) in *.
  set (dq := dd d (c_p Q) (c_p chi)) in *.
  (* when the child is not pushed everything below it is too far *)
  assert (Hfar : forall v, ub0 ub = Some v -> ok1 = true ->
                 v + c_maxd Q + c_maxd Q + c_maxd chi < dq \/
                 (is_leaf chi = true /\ v + c_maxd Q + c_maxd Q < dq) ->
                 forall q' x, In q' (lp Q) -> needed q' x -> In x (lp chi) -> False).
  { intros v Hv Hk1 Hcase q' x Hq' Hn Hx. apply andb_true_iff in Hk1. destruct Hk1 as [_ Hau].
    assert (Hfx : v + c_maxd Q + c_maxd Q < dd d (c_p Q) x).
    { destruct Hcase as [H|[Hl H]].
      - assert (H' : v + (c_maxd Q + c_maxd Q) + c_maxd chi < dd d (c_p Q) (c_p chi)) by (unfold dq in H; lia).
        pose proof (far_below (c_p Q) chi v (c_maxd Q + c_maxd Q) x Hdq Hchi H' Hx). lia.
      - rewrite (lp_leaf chi Hl) in Hx. destruct Hx as [<-|[]]. exact H. }
    exact (audit_descend Q ub v q' x HQ Hau Hv Hq' Hfx (Hpts x (proj2 Hchi x Hx)) Hn). }
  destruct (shell pdist (c_pard chi) upper_chi) eqn:Hsh.
  - destruct (le_e dq upper_chi) eqn:Hle.
    + destruct (negb (is_leaf chi)) eqn:Hnl.
      * (* pushed into its cover set *)
        cbn [ds_ok ds_zero ds_cover ds_ms] in *. apply andb_true_iff in Hok.
        split; [apply Hok|]. apply negb_true_iff in Hnl.
        destruct Hsc as [Hsc|Hsc]; [congruence|]. split; [|split].
        -- split; [assumption|]. now apply cover_ok_app.
        -- split; [cbn [ds_ms]; lia|]. split; [apply incl_refl | cbn [ds_cover]; now apply incl_appl, incl_refl].
        -- intros q' x _ _ Hx. right. exists (c_scale chi), dq, chi.
           split; [apply in_or_app; right; now left|]. split; [lia | assumption].
      * apply negb_false_iff in Hnl.
        destruct (le_e dq (eadd upper_chi (- c_maxd chi))) eqn:Hle2.
        -- cbn [ds_ok ds_zero ds_cover ds_ms] in *. apply andb_true_iff in Hok.
           split; [apply Hok|]. split; [|split].
           ++ split; [now apply zero_ok_app | assumption].
           ++ split; [cbn [ds_ms]; lia|]. split; [cbn [ds_zero]; now apply incl_appl, incl_refl | apply incl_refl].
           ++ intros q' x _ _ Hx. left. exists (dq, chi). split; [apply in_or_app; right; now left | assumption].
        -- cbn [ds_ok ds_zero ds_cover ds_ms] in *. pose proof Hok as Hok1. apply andb_true_iff in Hok.
           split; [apply Hok|]. split; [now split|]. split; [same_sets|].
           intros q' x Hq' Hn Hx. exfalso.
           apply le_e_false in Hle2. destruct Hle2 as [w [Hw Hlt]].
           apply eadd_some in Hw. destruct Hw as [w1 [Hw1 ->]]. unfold upper_chi in Hw1.
           apply eadd_some in Hw1. destruct Hw1 as [w2 [Hw2 ->]].
           apply eadd_some in Hw2. destruct Hw2 as [w3 [Hw3 ->]].
           apply eadd_some in Hw3. destruct Hw3 as [v [Hv ->]].
           assert (Hlt' : v + c_maxd Q + c_maxd Q < dq) by lia.
           apply (Hfar v Hv Hok1 (or_intror (conj Hnl Hlt')) q' x Hq' Hn Hx).
    + cbn [ds_ok ds_zero ds_cover ds_ms] in *. pose proof Hok as Hok1. apply andb_true_iff in Hok.
      split; [apply Hok|]. split; [now split|]. split; [same_sets|].
      intros q' x Hq' Hn Hx. exfalso.
      apply le_e_false in Hle. destruct Hle as [w [Hw Hlt]]. unfold upper_chi in Hw.
      apply eadd_some in Hw. destruct Hw as [w2 [Hw2 ->]].
      apply eadd_some in Hw2. destruct Hw2 as [w3 [Hw3 ->]].
      apply eadd_some in Hw3. destruct Hw3 as [v [Hv ->]].
      assert (Hlt' : v + c_maxd Q + c_maxd Q + c_maxd chi < dq) by lia.
      apply (Hfar v Hv Hok1 (or_introl Hlt') q' x Hq' Hn Hx).
  - cbn [ds_ok ds_zero ds_cover ds_ms] in *. pose proof Hok as Hok1. apply andb_true_iff in Hok.
    split; [apply Hok|]. split; [now split|]. split; [same_sets|].
    intros q' x Hq' Hn Hx. exfalso.
    unfold shell in Hsh. apply le_e_false in Hsh. destruct Hsh as [w [Hw Hlt]]. unfold upper_chi in Hw.
    apply eadd_some in Hw. destruct Hw as [w2 [Hw2 ->]].
    apply eadd_some in Hw2. destruct Hw2 as [w3 [Hw3 ->]].
    apply eadd_some in Hw3. destruct Hw3 as [v [Hv ->]].
    assert (Hdq' : pdist - c_pard chi <= dq).
    { unfold dq. pose proof (Htri (c_p Q) (c_p chi) (c_p par) Hdq Hdc Hdp) as Ht.
      rewrite (Hsym (c_p chi) (c_p par) Hdc Hdp) in Ht. lia. }
    assert (Hlt' : v + c_maxd Q + c_maxd Q + c_maxd chi < dq) by lia.
    apply (Hfar v Hv Hok1 (or_introl Hlt') q' x Hq' Hn Hx).
Qed.

Definition child_facts (cs : nat) (par : ctree) (c : ctree) : Prop :=
  node_ok c /\ dd d (c_p par) (c_p c) <= c_pard c /\ (is_leaf c = true \/ (cs < c_scale c)%nat).

Lemma descend_children_spec : forall Q cs par pdist chs st,
  ds_ok (descend_children d au Q pdist chs st) = true ->
  node_ok Q -> dom (c_p par) -> pdist = dd d (c_p Q) (c_p par) ->
  (forall c, In c chs -> child_facts cs par c) ->
  st_ok (c_p Q) cs st ->
  ds_ok st = true /\ st_ok (c_p Q) cs (descend_children d au Q pdist chs st) /\
  grows st (descend_children d au Q pdist chs st) /\
  forall q' x, In q' (lp Q) -> needed q' x -> (exists c, In c chs /\ In x (lp c)) ->
    in_zero (ds_zero (descend_children d au Q pdist chs st)) x \/
    in_cover (ds_cover (descend_children d au Q pdist chs st)) (S cs) x.
Proof.
  intros Q cs par pdist chs. induction chs as [|chi rest IH]; intros st Hok HQ Hdp Hpd Hch Hst.
  - cbn [descend_children] in *. split; [assumption|]. split; [assumption|]. split; [apply grows_refl|].
    intros q' x _ _ [c [[] _]].
  - cbn [descend_children] in *.
    assert (Hch' : forall c, In c rest -> child_facts cs par c) by (intros c Hc; apply Hch; now right).
    destruct (Hch chi (or_introl eq_refl)) as [Hchi [Hpard Hsc]].
    set (st1 := descend_child d au Q pdist chi st) in *.
    assert (Hst1 : ds_ok st1 = true /\ st_ok (c_p Q) cs st1).
    { (* the flag of the final state implies the flag of st1; st_ok needs the flag first *)
      assert (Hf : ds_ok st1 = true -> st_ok (c_p Q) cs st1).
      { intros H1. apply (descend_child_spec Q cs par pdist chi st H1 HQ Hchi Hdp Hpd Hpard Hsc Hst). }
      (* descend_children only ever and-s the flag *)
      assert (Hmono : forall l s0, ds_ok (descend_children d au Q pdist l s0) = true -> ds_ok s0 = true).
      { induction l as [|a l IHl]; intros s0 H0; cbn [descend_children] in H0; [assumption|].
        apply IHl in H0. unfold descend_child in H0.
        destruct (shell pdist (c_pard a) _); [destruct (le_e _ _); [destruct (negb (is_leaf a)); [|destruct (le_e _ _)]|]|];
          cbn [ds_ok] in H0; apply andb_true_iff in H0; apply H0. }
      pose proof (Hmono rest st1 Hok) as H1. split; [assumption | now apply Hf]. }
    destruct Hst1 as [Hok1 Hst1].
    destruct (descend_child_spec Q cs par pdist chi st Hok1 HQ Hchi Hdp Hpd Hpard Hsc Hst) as [Hok0 [_ [Hg1 Hcov1]]].
    destruct (IH st1 Hok HQ Hdp Hpd Hch' Hst1) as [_ [Hst' [Hg2 Hcov2]]].
    split; [assumption|]. split; [assumption|]. split; [eapply grows_trans; eassumption|].
    intros q' x Hq' Hn [c [[<-|Hc] Hx]].
    + destruct (Hcov1 q' x Hq' Hn Hx) as [H|H].
      * left. apply (in_zero_incl _ _ x (proj1 (proj2 Hg2)) H).
      * right. apply (in_cover_incl _ _ _ x (proj2 (proj2 Hg2)) H).
    + apply (Hcov2 q' x Hq' Hn). now exists c.
Qed.

Lemma descend_first_spec : forall Q cs par pdist chi st,
  let ub := ds_ub st in
  let ok1 := ds_ok st && au false Q ub in
  let st' := descend_first Q pdist (eadd (eadd (ub0 ub) (c_maxd Q)) (c_maxd Q)) chi st ok1 in
  ok1 = true ->
  node_ok Q -> node_ok chi -> c_p chi = c_p par -> pdist = dd d (c_p Q) (c_p par) ->
  (is_leaf chi = true \/ (cs < c_scale chi)%nat) ->
  st_ok (c_p Q) cs st ->
  ds_ok st' = true /\ st_ok (c_p Q) cs st' /\ grows st st' /\ ds_ub st' = ub /\
  forall q' x, In q' (lp Q) -> needed q' x -> In x (lp chi) ->
    in_zero (ds_zero st') x \/ in_cover (ds_cover st') (S cs) x.
Proof.
  intros Q cs par pdist chi st ub ok1 st' Hok1 HQ Hchi Hp Hpd Hsc [Hz Hc].
  pose proof (node_ok_dom Q HQ) as Hdq. pose proof (maxd_nonneg chi Hchi) as Hmc.
  pose proof Hok1 as Hok1'. apply andb_true_iff in Hok1'. destruct Hok1' as [_ Hau].
  assert (Hpd' : pdist = dd d (c_p Q) (c_p chi)) by (rewrite Hp; exact Hpd).
  assert (Hfar : forall w, ub0 ub = Some w ->
                 w + c_maxd Q + c_maxd Q + c_maxd chi < pdist \/
                 (is_leaf chi = true /\ w + c_maxd Q + c_maxd Q < pdist) ->
                 forall q' x, In q' (lp Q) -> needed q' x -> In x (lp chi) -> False).
  { intros w Hw Hcase q' x Hq' Hn Hx.
    assert (Hfx : w + c_maxd Q + c_maxd Q < dd d (c_p Q) x).
    { destruct Hcase as [H|[Hl H]].
      - assert (H' : w + (c_maxd Q + c_maxd Q) + c_maxd chi < dd d (c_p Q) (c_p chi)) by lia.
        pose proof (far_below (c_p Q) chi w (c_maxd Q + c_maxd Q) x Hdq Hchi H' Hx). lia.
      - rewrite (lp_leaf chi Hl) in Hx. destruct Hx as [<-|[]]. lia. }
    exact (audit_descend Q ub w q' x HQ Hau Hw Hq' Hfx (Hpts x (proj2 Hchi x Hx)) Hn). }
  unfold st', descend_first. fold ub.
  destruct (le_e pdist (eadd (eadd (eadd (ub0 ub) (c_maxd Q)) (c_maxd Q)) (c_maxd chi))) eqn:Hle.
  - destruct (negb (is_leaf chi)) eqn:Hnl.
    + apply negb_true_iff in Hnl. destruct Hsc as [Hsc|Hsc]; [congruence|].
      cbn [ds_ok ds_zero ds_cover ds_ms ds_ub]. split; [assumption|]. split; [|split; [|split]].
      * split; [assumption|]. now apply cover_ok_app.
      * split; [cbn [ds_ms]; lia|]. split; [apply incl_refl | cbn [ds_cover]; now apply incl_appl, incl_refl].
      * reflexivity.
      * intros q' x _ _ Hx. right. exists (c_scale chi), pdist, chi.
        split; [apply in_or_app; right; now left|]. split; [lia | assumption].
    + apply negb_false_iff in Hnl.
      destruct (le_e pdist (eadd (eadd (ub0 ub) (c_maxd Q)) (c_maxd Q))) eqn:Hle2.
      * cbn [ds_ok ds_zero ds_cover ds_ms ds_ub]. split; [assumption|]. split; [|split; [|split]].
        -- split; [now apply zero_ok_app | assumption].
        -- split; [cbn [ds_ms]; lia|]. split; [cbn [ds_zero]; now apply incl_appl, incl_refl | apply incl_refl].
        -- reflexivity.
        -- intros q' x _ _ Hx. left. exists (pdist, chi). split; [apply in_or_app; right; now left | assumption].
      * cbn [ds_ok ds_zero ds_cover ds_ms ds_ub]. split; [assumption|]. split; [now split|]. split; [same_sets|].
        split; [reflexivity|]. intros q' x Hq' Hn Hx. exfalso.
        apply le_e_false in Hle2. destruct Hle2 as [w [Hw Hlt]].
        apply eadd_some in Hw. destruct Hw as [w2 [Hw2 ->]].
        apply eadd_some in Hw2. destruct Hw2 as [w3 [Hw3 ->]].
        apply (Hfar w3 Hw3 (or_intror (conj Hnl Hlt)) q' x Hq' Hn Hx).
  - cbn [ds_ok ds_zero ds_cover ds_ms ds_ub]. split; [assumption|]. split; [now split|]. split; [same_sets|].
    split; [reflexivity|]. intros q' x Hq' Hn Hx. exfalso.
    apply le_e_false in Hle. destruct Hle as [w [Hw Hlt]].
    apply eadd_some in Hw. destruct Hw as [w1 [Hw1 ->]].
    apply eadd_some in Hw1. destruct Hw1 as [w2 [Hw2 ->]].
    apply eadd_some in Hw2. destruct Hw2 as [w3 [Hw3 ->]].
    apply (Hfar w3 Hw3 (or_introl Hlt) q' x Hq' Hn Hx).
Qed.

Lemma descend_children_flag : forall Q pdist l s0,
  ds_ok (descend_children d au Q pdist l s0) = true -> ds_ok s0 = true.
Proof.
  intros Q pdist l. induction l as [|a l IHl]; intros s0 H0; cbn [descend_children] in H0; [assumption|].
  apply IHl in H0. unfold descend_child in H0.
  destruct (shell pdist (c_pard a) _); [destruct (le_e _ _); [destruct (negb (is_leaf a)); [|destruct (le_e _ _)]|]|];
    cbn [ds_ok] in H0; apply andb_true_iff in H0; apply H0.
Qed.

Lemma descend_first_flag : forall Q pdist ud chi st ok1,
  ds_ok (descend_first Q pdist ud chi st ok1) = ok1.
Proof.
  intros Q pdist ud chi st ok1. unfold descend_first.
  destruct (le_e pdist (eadd ud (c_maxd chi))); [|reflexivity].
  destruct (negb (is_leaf chi)); [reflexivity|].
  destruct (le_e pdist ud); reflexivity.
Qed.

Definition parent_facts (q : Z) (cs : nat) (e : dnode) : Prop :=
  fst e = dd d q (c_p (snd e)) /\ node_ok (snd e) /\ is_leaf (snd e) = false /\ (cs <= c_scale (snd e))%nat.

Lemma descend_parent_spec : forall Q cs pdist par st,
  ds_ok (descend_parent d au Q pdist par st) = true ->
  node_ok Q -> parent_facts (c_p Q) cs (pdist, par) -> st_ok (c_p Q) cs st ->
  ds_ok st = true /\ st_ok (c_p Q) cs (descend_parent d au Q pdist par st) /\
  grows st (descend_parent d au Q pdist par st) /\
  forall q' x, In q' (lp Q) -> needed q' x -> In x (lp par) ->
    in_zero (ds_zero (descend_parent d au Q pdist par st)) x \/
    in_cover (ds_cover (descend_parent d au Q pdist par st)) (S cs) x.
Proof.
  intros Q cs pdist par st Hok HQ [Hpd [Hpar [Hnl Hscp]]] Hst. cbn [fst snd] in Hpd, Hpar, Hnl, Hscp.
  pose proof (node_ok_dom Q HQ) as Hdq. pose proof (node_ok_dom par Hpar) as Hdp.
  unfold descend_parent in *.
  set (ub := ds_ub st) in *. set (ok1 := ds_ok st && au false Q ub) in *.
  destruct (le_e pdist (eadd (eadd (eadd (ub0 ub) (c_maxd Q)) (c_maxd Q)) (c_maxd par))) eqn:Hle.
  - destruct par as [p m pd sc ch]. cbn [c_ch] in *. destruct ch as [|chi rest].
    + cbn [ds_ok] in Hok. discriminate.
    + destruct (inv_children _ _ _ _ _ _ (proj1 Hpar)) as [Hp Hch].
      assert (Hcf : forall c, In c (chi :: rest) -> child_facts cs (CN p m pd sc (chi :: rest)) c).
      { intros c Hc. destruct (Hch c Hc) as [H1 [H2 H3]]. split; [|split].
        - apply (node_ok_child (CN p m pd sc (chi :: rest)) c Hpar). exact Hc.
        - exact H1.
        - cbn [c_scale] in Hscp. destruct H2 as [H2|H2]; [now left | right; lia]. }
      set (st1 := descend_first Q pdist (eadd (eadd (ub0 ub) (c_maxd Q)) (c_maxd Q)) chi st ok1) in *.
      pose proof (descend_children_flag Q pdist rest st1 Hok) as Hok1.
      assert (Hok1' : ok1 = true).
      { unfold st1 in Hok1. now rewrite descend_first_flag in Hok1. }
      destruct (Hcf chi (or_introl eq_refl)) as [Hchi [_ Hsc]].
      destruct (descend_first_spec Q cs (CN p m pd sc (chi :: rest)) pdist chi st
                  Hok1' HQ Hchi Hp Hpd Hsc Hst) as [_ [Hst1 [Hg1 [_ Hcov1]]]].
      fold ub in Hst1, Hg1, Hcov1. fold ok1 in Hst1, Hg1, Hcov1. fold st1 in Hst1, Hg1, Hcov1.
      assert (Hcf' : forall c, In c rest -> child_facts cs (CN p m pd sc (chi :: rest)) c)
        by (intros c Hc; apply Hcf; now right).
      destruct (descend_children_spec Q cs (CN p m pd sc (chi :: rest)) pdist rest st1 Hok HQ Hdp Hpd Hcf' Hst1)
        as [_ [Hst' [Hg2 Hcov2]]].
      split; [apply andb_true_iff in Hok1'; apply Hok1'|]. split; [assumption|].
      split; [eapply grows_trans; eassumption|].
      intros q' x Hq' Hn Hx. rewrite lp_inner in Hx. apply in_flat_map in Hx. destruct Hx as [c [[<-|Hc] Hx]].
      * destruct (Hcov1 q' x Hq' Hn Hx) as [H|H].
        -- left. apply (in_zero_incl _ _ x (proj1 (proj2 Hg2)) H).
        -- right. apply (in_cover_incl _ _ _ x (proj2 (proj2 Hg2)) H).
      * apply (Hcov2 q' x Hq' Hn). now exists c.
  - cbn [ds_ok ds_zero ds_cover ds_ms] in *. pose proof Hok as Hok1. apply andb_true_iff in Hok.
    split; [apply Hok|]. split; [exact Hst|]. split; [same_sets|].
    intros q' x Hq' Hn Hx. exfalso.
    apply le_e_false in Hle. destruct Hle as [w [Hw Hlt]].
    apply eadd_some in Hw. destruct Hw as [w1 [Hw1 ->]].
    apply eadd_some in Hw1. destruct Hw1 as [w2 [Hw2 ->]].
    apply eadd_some in Hw2. destruct Hw2 as [v [Hv ->]].
    assert (H' : v + (c_maxd Q + c_maxd Q) + c_maxd par < dd d (c_p Q) (c_p par)) by lia.
    pose proof (far_below (c_p Q) par v (c_maxd Q + c_maxd Q) x Hdq Hpar H' Hx) as Hfx.
    assert (Hfx' : v + c_maxd Q + c_maxd Q < dd d (c_p Q) x) by lia.
    exact (audit_descend Q ub v q' x HQ (proj2 Hok) Hv Hq' Hfx' (Hpts x (proj2 Hpar x Hx)) Hn).
Qed.

Lemma descend_loop_spec : forall Q cs parents st,
  ds_ok (descend_loop d au Q parents st) = true ->
  node_ok Q -> (forall e, In e parents -> parent_facts (c_p Q) cs (snd e)) -> st_ok (c_p Q) cs st ->
  ds_ok st = true /\ st_ok (c_p Q) cs (descend_loop d au Q parents st) /\
  grows st (descend_loop d au Q parents st) /\
  forall q' x, In q' (lp Q) -> needed q' x -> (exists e, In e parents /\ In x (lp (snd (snd e)))) ->
    in_zero (ds_zero (descend_loop d au Q parents st)) x \/
    in_cover (ds_cover (descend_loop d au Q parents st)) (S cs) x.
Proof.
  intros Q cs parents. induction parents as [|[s [pdist par]] rest IH]; intros st Hok HQ Hpf Hst.
  - cbn [descend_loop] in *. split; [assumption|]. split; [assumption|]. split; [apply grows_refl|].
    intros q' x _ _ [e [[] _]].
  - cbn [descend_loop] in *.
    set (st1 := descend_parent d au Q pdist par st) in *.
    assert (Hpf' : forall e, In e rest -> parent_facts (c_p Q) cs (snd e)) by (intros e He; apply Hpf; now right).
    pose proof (Hpf _ (or_introl eq_refl)) as Hp0. cbn [snd] in Hp0.
    (* the flag of st1 follows from the flag at the end: strengthen the induction with it *)
    assert (Hflag : forall l s0, ds_ok (descend_loop d au Q l s0) = true ->
                    (forall e, In e l -> parent_facts (c_p Q) cs (snd e)) -> ds_ok s0 = true).
    { induction l as [|[s' [pd' par']] l IHl]; intros s0 H0 Hl; cbn [descend_loop] in H0; [assumption|].
      apply IHl in H0; [|intros e He; apply Hl; now right].
      unfold descend_parent in H0.
      destruct (le_e pd' _).
      - destruct (c_ch par') as [|c0 r0]; [cbn [ds_ok] in H0; discriminate|].
        apply descend_children_flag in H0. rewrite descend_first_flag in H0.
        apply andb_true_iff in H0. apply H0.
      - cbn [ds_ok] in H0. apply andb_true_iff in H0. apply H0. }
    pose proof (Hflag rest st1 Hok Hpf') as Hok1.
    destruct (descend_parent_spec Q cs pdist par st Hok1 HQ Hp0 Hst) as [Hok0 [Hst1 [Hg1 Hcov1]]].
    destruct (IH st1 Hok HQ Hpf' Hst1) as [_ [Hst' [Hg2 Hcov2]]].
    split; [assumption|]. split; [assumption|]. split; [eapply grows_trans; eassumption|].
    intros q' x Hq' Hn [e [[<-|He] Hx]].
    + cbn [snd] in Hx. destruct (Hcov1 q' x Hq' Hn Hx) as [H|H].
      * left. apply (in_zero_incl _ _ x (proj1 (proj2 Hg2)) H).
      * right. apply (in_cover_incl _ _ _ x (proj2 (proj2 Hg2)) H).
    + apply (Hcov2 q' x Hq' Hn). now exists e.
Qed.

Definition cov_inv (Q : ctree) (cover : list centry) (zero : list dnode) (cs : nat) : Prop :=
  forall q' x, In q' (lp Q) -> needed q' x -> covered cover zero cs x.

Lemma descend_spec : forall Q cs ub ms cover zero ok,
  let st' := descend d au Q cs (DS ub ms cover zero ok) in
  ds_ok st' = true ->
  node_ok Q -> zero_ok (c_p Q) zero -> cover_ok (c_p Q) cs ms cover -> cov_inv Q cover zero cs ->
  ok = true /\ zero_ok (c_p Q) (ds_zero st') /\ cover_ok (c_p Q) (S cs) (ds_ms st') (ds_cover st') /\
  cov_inv Q (ds_cover st') (ds_zero st') (S cs).
Proof.
  intros Q cs ub ms cover zero ok st' Hok HQ Hz Hc Hcov. unfold st', descend in *. cbn [ds_cover] in *.
  set (parents := filter (in_slot cs) cover) in *.
  set (st1 := descend_loop d au Q parents (DS ub ms cover zero ok)) in *.
  cbn [ds_ok ds_zero ds_cover ds_ms ds_ub] in *.
  assert (Hpf : forall e, In e parents -> parent_facts (c_p Q) cs (snd e)).
  { intros [s [dist n]] He. unfold parents in He. apply filter_In in He. destruct He as [Hin Hs].
    unfold in_slot, slot_of in Hs. cbn [fst] in Hs. apply Nat.eqb_eq in Hs. subst s.
    destruct (Hc cs dist n Hin (Nat.le_refl _)) as [_ [H2 [H3 [H4 H5]]]]. unfold parent_facts. cbn [fst snd].
    split; [exact H4|]. split; [exact H5|]. split; [exact H2 | exact H3]. }
  assert (Hst : st_ok (c_p Q) cs (DS ub ms cover zero ok)) by (split; assumption).
  destruct (descend_loop_spec Q cs parents _ Hok HQ Hpf Hst) as [Hok0 [[Hz1 Hc1] [Hg Hcov1]]].
  fold st1 in Hz1, Hc1, Hg, Hcov1. cbn [ds_ok] in Hok0. split; [assumption|]. split; [assumption|]. split.
  - intros s dist n Hin Hs. apply filter_In in Hin. destruct Hin as [Hin _].
    apply (Hc1 s dist n Hin). lia.
  - intros q' x Hq' Hn.
    assert (Hkeep : in_cover (ds_cover st1) (S cs) x ->
                    in_cover (filter (fun e => negb (in_slot cs e)) (ds_cover st1)) (S cs) x).
    { intros [s [dist [n [Hin [Hs Hx]]]]]. exists s, dist, n. split; [|now split].
      apply filter_In. split; [assumption|]. unfold in_slot, slot_of. cbn [fst].
      apply negb_true_iff, Nat.eqb_neq. lia. }
    destruct (Hcov q' x Hq' Hn) as [H|[s [dist [n [Hin [Hs Hx]]]]]].
    + left. apply (in_zero_incl _ _ x (proj1 (proj2 Hg)) H).
    + destruct (Nat.eq_dec s cs) as [->|Hne].
      * assert (Hp : In (cs, (dist, n)) parents).
        { unfold parents. apply filter_In. split; [assumption|]. unfold in_slot, slot_of. cbn [fst]. apply Nat.eqb_refl. }
        destruct (Hcov1 q' x Hq' Hn (ex_intro _ (cs, (dist, n)) (conj Hp Hx))) as [H|H]; [now left|].
        right. now apply Hkeep.
      * right. apply Hkeep. exists s, dist, n. split; [apply (proj2 (proj2 Hg)); exact Hin|]. split; [lia | assumption].
Qed.

(* ---------- the audit flag only ever goes from true to false ---------- *)
Lemma copy_zero_set_flag : forall qc zero ub ok ub' out,
  copy_zero_set oc d au qc ub zero ok = (ub', out, true) -> ok = true.
Proof.
  intros qc zero. induction zero as [|e rest IH]; intros ub ok ub' out E.
  - cbn [copy_zero_set] in E. now injection E.
  - rewrite copy_zero_set_cons in E. destruct (keepz qc ub e).
    + cbv zeta in E. destruct (copy_zero_set oc d au qc _ rest (ok && au true qc ub)) as [[ub2 out2] ok2] eqn:E2.
      injection E as _ _ ->. apply IH in E2. apply andb_true_iff in E2. apply E2.
    + apply IH in E. apply andb_true_iff in E. apply E.
Qed.

Lemma copy_slot_flag : forall qc s cover ub ok ub' out,
  copy_slot oc d au qc ub s cover ok = (ub', out, true) -> ok = true.
Proof.
  intros qc s cover. induction cover as [|[es e] rest IH]; intros ub ok ub' out E.
  - cbn [copy_slot] in E. now injection E.
  - rewrite copy_slot_cons in E. destruct (Nat.eqb es s); [destruct (keepc qc ub e)|].
    + cbv zeta in E. destruct (copy_slot oc d au qc _ s rest (ok && au true qc ub)) as [[ub2 out2] ok2] eqn:E2.
      injection E as _ _ ->. apply IH in E2. apply andb_true_iff in E2. apply E2.
    + apply IH in E. apply andb_true_iff in E. apply E.
    + now apply IH in E.
Qed.

Lemma copy_cover_sets_flag : forall qc cover n s ub ok ub' out,
  copy_cover_sets oc d au qc ub s n cover ok = (ub', out, true) -> ok = true.
Proof.
  intros qc cover n. induction n as [|n IH]; intros s ub ok ub' out E.
  - cbn [copy_cover_sets] in E. now injection E.
  - cbn [copy_cover_sets] in E.
    destruct (copy_slot oc d au qc ub s cover ok) as [[ub1 out1] ok1] eqn:E1.
    destruct (copy_cover_sets oc d au qc ub1 (S s) n cover ok1) as [[ub2 out2] ok2] eqn:E2.
    injection E as _ _ ->. apply IH in E2. subst ok1. now apply copy_slot_flag in E1.
Qed.

Lemma bn_others_cons : forall bn ub zero chi l acc okk,
  bn_others oc d K au bn ub zero (chi :: l) acc okk =
  let nub := setter K (eadd (ub0 ub) (c_pard chi)) in
  let '(nub1, nzero, ok1) := copy_zero_set oc d au chi nub zero okk in
  let '(rows1, ok2) := bn chi nzero nub1 ok1 in
  bn_others oc d K au bn ub zero l (acc ++ rows1) ok2.
Proof. reflexivity. Qed.

Definition bn_flag (bn : ctree -> list dnode -> list ext -> bool -> list row * bool) (chi : ctree) : Prop :=
  forall z u o rows, bn chi z u o = (rows, true) -> o = true.

Lemma bn_others_flag : forall bn ub zero l,
  (forall chi, In chi l -> bn_flag bn chi) ->
  forall acc okk rows, bn_others oc d K au bn ub zero l acc okk = (rows, true) -> okk = true.
Proof.
  intros bn ub zero l. induction l as [|chi l IH]; intros Hbn acc okk rows E.
  - cbn in E. now injection E.
  - rewrite bn_others_cons in E. cbv zeta in E.
    destruct (copy_zero_set oc d au chi _ zero okk) as [[nub1 nzero] ok1] eqn:E1.
    destruct (bn chi nzero nub1 ok1) as [rows1 ok2] eqn:E2.
    apply IH in E; [|intros c Hc; apply Hbn; now right]. subst ok2.
    apply (Hbn chi (or_introl eq_refl)) in E2. subst ok1. now apply copy_zero_set_flag in E1.
Qed.

Lemma brute_nearest_flag : forall n Q, (size Q <= n)%nat -> bn_flag (brute_nearest oc d K au) Q.
Proof.
  induction n as [|n IH]; intros Q Hs; [destruct Q; cbn [size] in Hs; lia|].
  intros zero ub ok rows E. destruct Q as [p m pd sc ch]. destruct ch as [|c0 rest].
  - cbn [brute_nearest] in E. injection E as _ E. apply andb_true_iff in E. apply E.
  - cbn [brute_nearest] in E.
    destruct (brute_nearest oc d K au c0 zero ub ok) as [rows0 ok0] eqn:E0.
    cbn [size fold_right] in Hs.
    assert (Hrest : forall chi, In chi rest -> bn_flag (fun c z u o => brute_nearest oc d K au c z u o) chi).
    { intros chi Hc. apply IH.
      assert (Hle : forall l, In chi l -> (size chi <= fold_right (fun c a => (size c + a)%nat) O l)%nat).
      { induction l as [|a l IHl]; intros Hin; [destruct Hin|]. cbn [fold_right].
        destruct Hin as [->|Hin]; [lia | specialize (IHl Hin); lia]. }
      specialize (Hle rest Hc). lia. }
    apply (bn_others_flag _ ub zero rest Hrest) in E. subst ok0.
    apply (IH c0) in E0; [assumption | lia].
Qed.

(* ---------- brute_nearest ---------- *)
Definition rows_ok (P : Z -> Prop) (rows : list row) : Prop :=
  forall q' cands, In (q', cands) rows -> P q' /\ forall x, needed q' x -> In x cands.

Definition below (Q : ctree) : Z -> Prop := fun q' => In q' (lp Q).
Definition below_some (l : list ctree) : Z -> Prop := fun q' => exists chi, In chi l /\ In q' (lp chi).

Lemma rows_ok_app : forall P r1 r2, rows_ok P r1 -> rows_ok P r2 -> rows_ok P (r1 ++ r2).
Proof. intros P r1 r2 H1 H2 q' cands Hin. apply in_app_or in Hin. destruct Hin; [now apply H1 | now apply H2]. Qed.

Lemma rows_ok_weaken : forall (P P' : Z -> Prop) r, (forall q, P q -> P' q) -> rows_ok P r -> rows_ok P' r.
Proof. intros P P' r H Hr q' cands Hin. destruct (Hr q' cands Hin) as [H1 H2]. split; [now apply H | assumption]. Qed.

Definition bn_good (bn : ctree -> list dnode -> list ext -> bool -> list row * bool) (chi : ctree) : Prop :=
  forall z u o rows, bn chi z u o = (rows, true) -> zero_ok (c_p chi) z ->
    (forall q' x, In q' (lp chi) -> needed q' x -> in_zero z x) -> rows_ok (below chi) rows.

Lemma bn_others_spec : forall bn q ub zero l,
  (forall chi, In chi l -> bn_flag bn chi /\ bn_good bn chi) ->
  (forall chi, In chi l -> node_ok chi /\ dd d q (c_p chi) <= c_pard chi) -> dom q -> zero_ok q zero ->
  (forall chi q' x, In chi l -> In q' (lp chi) -> needed q' x -> in_zero zero x) ->
  forall acc okk rows, bn_others oc d K au bn ub zero l acc okk = (rows, true) ->
  exists rows', rows = acc ++ rows' /\ rows_ok (below_some l) rows'.
Proof.
  intros bn q ub zero l. induction l as [|chi l IH]; intros Hbn Hf Hq Hz Hcov acc okk rows E.
  - cbn in E. injection E as <- _. exists []. split; [now rewrite app_nil_r|]. intros q' cands [].
  - rewrite bn_others_cons in E. cbv zeta in E.
    destruct (copy_zero_set oc d au chi _ zero okk) as [[nub1 nzero] ok1] eqn:E1.
    destruct (bn chi nzero nub1 ok1) as [rows1 ok2] eqn:E2.
    assert (Hbn' : forall c, In c l -> bn_flag bn c /\ bn_good bn c) by (intros c Hc; apply Hbn; now right).
    assert (Hf' : forall c, In c l -> node_ok c /\ dd d q (c_p c) <= c_pard c) by (intros c Hc; apply Hf; now right).
    assert (Hcov' : forall c q' x, In c l -> In q' (lp c) -> needed q' x -> in_zero zero x)
      by (intros c q' x Hc; apply Hcov; now right).
    pose proof (bn_others_flag bn ub zero l (fun c Hc => proj1 (Hbn' c Hc)) _ _ _ E) as Hok2. subst ok2.
    destruct (IH Hbn' Hf' Hq Hz Hcov' _ _ _ E) as [rows' [-> Hr']].
    destruct (Hf chi (or_introl eq_refl)) as [Hchi Hpd].
    destruct (Hbn chi (or_introl eq_refl)) as [Hfl Hgd].
    pose proof (Hfl _ _ _ _ E2) as Hok1. subst ok1.
    destruct (copy_zero_set_spec chi q zero _ okk nub1 nzero true E1 eq_refl Hchi Hq Hpd Hz) as [_ [Hnz Hcz]].
    assert (Hr1 : rows_ok (below chi) rows1).
    { apply (Hgd _ _ _ _ E2 Hnz). intros q' x Hq' Hn. apply (Hcz q' x Hq' Hn).
      apply (Hcov chi q' x (or_introl eq_refl) Hq' Hn). }
    exists (rows1 ++ rows'). split; [now rewrite app_assoc|].
    apply rows_ok_app.
    + apply (rows_ok_weaken (below chi)); [|assumption]. intros q0 H0. exists chi. split; [now left | exact H0].
    + apply (rows_ok_weaken (below_some l)); [|assumption]. intros q0 [c [Hc H0]]. exists c. split; [now right | exact H0].
Qed.

Lemma size_child_le : forall chi l, In chi l -> (size chi <= fold_right (fun c a => (size c + a)%nat) O l)%nat.
Proof.
  intros chi l. induction l as [|a l IHl]; intros Hin; [destruct Hin|]. cbn [fold_right].
  destruct Hin as [->|Hin]; [lia | specialize (IHl Hin); lia].
Qed.

Lemma brute_nearest_spec : forall n Q, (size Q <= n)%nat -> node_ok Q -> bn_good (brute_nearest oc d K au) Q.
Proof.
  induction n as [|n IH]; intros Q Hs HQ; [destruct Q; cbn [size] in Hs; lia|].
  intros zero ub ok rows E Hz Hcov. destruct Q as [p m pd sc ch]. destruct ch as [|c0 rest].
  - (* a leaf query: the final filter *)
    cbn [brute_nearest] in E. injection E as <- E. apply andb_true_iff in E. destruct E as [_ Hau].
    intros q' cands [Hin|[]]. unfold final_row in Hin. cbn [c_p] in Hin. injection Hin as <- <-.
    split; [now left|]. intros x Hn.
    destruct (Hcov p x (or_introl eq_refl) Hn) as [e [He Hx]].
    destruct (Hz e He) as [Hl [Hdist Hen]]. rewrite (lp_leaf _ Hl) in Hx. destruct Hx as [<-|[]].
    apply in_map_iff. exists e. split; [reflexivity|]. apply filter_In. split; [assumption|].
    destruct (le_e (fst e) (ub0 ub)) eqn:Hle; [reflexivity|exfalso].
    apply le_e_false in Hle. destruct Hle as [v [Hv Hlt]].
    unfold valid_b in Hau. rewrite Hv in Hau. cbn [c_p] in Hau, Hdist. apply Nat.leb_le in Hau.
    apply (far_not_needed p (c_p (snd e)) v Hau); [lia | exact Hn].
  - cbn [brute_nearest] in E.
    destruct (brute_nearest oc d K au c0 zero ub ok) as [rows0 ok0] eqn:E0.
    cbn [size fold_right] in Hs.
    destruct (inv_children _ _ _ _ _ _ (proj1 HQ)) as [Hp Hch].
    assert (Hsz : forall chi, In chi rest -> (size chi <= n)%nat).
    { intros chi Hc. pose proof (size_child_le chi rest Hc). lia. }
    assert (Hok : forall chi, In chi (c0 :: rest) -> node_ok chi).
    { intros chi Hc. apply (node_ok_child (CN p m pd sc (c0 :: rest)) chi HQ). exact Hc. }
    assert (Hrest : forall chi, In chi rest ->
              bn_flag (fun c z u o => brute_nearest oc d K au c z u o) chi /\
              bn_good (fun c z u o => brute_nearest oc d K au c z u o) chi).
    { intros chi Hc. split.
      - apply (brute_nearest_flag n). now apply Hsz.
      - apply (IH chi); [now apply Hsz | apply Hok; now right]. }
    pose proof (bn_others_flag _ ub zero rest (fun c Hc => proj1 (Hrest c Hc)) _ _ _ E) as Hok0. subst ok0.
    assert (Hf : forall chi, In chi rest -> node_ok chi /\ dd d p (c_p chi) <= c_pard chi).
    { intros chi Hc. split; [apply Hok; now right | apply (Hch chi); now right]. }
    cbn [c_p] in Hz.
    assert (Hcovr : forall chi q' x, In chi rest -> In q' (lp chi) -> needed q' x -> in_zero zero x).
    { intros chi q' x Hc Hq' Hn. apply (Hcov q' x); [|assumption]. rewrite lp_inner. apply in_flat_map.
      exists chi. split; [now right | assumption]. }
    destruct (bn_others_spec _ p ub zero rest Hrest Hf (node_ok_dom _ HQ) Hz Hcovr _ _ _ E) as [rows' [-> Hr']].
    assert (Hr0 : rows_ok (below c0) rows0).
    { assert (Hs0 : (size c0 <= n)%nat) by lia.
      apply (IH c0 Hs0 (Hok c0 (or_introl eq_refl)) zero ub ok rows0 E0).
      - rewrite Hp. exact Hz.
      - intros q' x Hq' Hn. apply (Hcov q' x); [|assumption]. rewrite lp_inner. apply in_flat_map.
        exists c0. split; [now left | assumption]. }
    apply rows_ok_app.
    + apply (rows_ok_weaken (below c0)); [|assumption]. intros q0 H0. unfold below. rewrite lp_inner.
      apply in_flat_map. exists c0. split; [now left | exact H0].
    + apply (rows_ok_weaken (below_some rest)); [|assumption]. intros q0 [c [Hc H0]]. unfold below. rewrite lp_inner.
      apply in_flat_map. exists c. split; [now right | exact H0].
Qed.

(* ---------- internal_batch_nearest_neighbor ---------- *)
Lemma descend_loop_flag : forall Q l s0, ds_ok (descend_loop d au Q l s0) = true -> ds_ok s0 = true.
Proof.
  intros Q l. induction l as [|[s' [pd' par']] l IHl]; intros s0 H0; cbn [descend_loop] in H0; [assumption|].
  apply IHl in H0. unfold descend_parent in H0.
  destruct (le_e pd' _).
  - destruct (c_ch par') as [|c0 r0]; [cbn [ds_ok] in H0; discriminate|].
    apply descend_children_flag in H0. rewrite descend_first_flag in H0.
    apply andb_true_iff in H0. apply H0.
  - cbn [ds_ok] in H0. apply andb_true_iff in H0. apply H0.
Qed.

Lemma descend_flag : forall Q cs ub ms cover zero ok,
  ds_ok (descend d au Q cs (DS ub ms cover zero ok)) = true -> ok = true.
Proof.
  intros Q cs ub ms cover zero ok H. unfold descend in H. cbn [ds_ok] in H.
  apply descend_loop_flag in H. exact H.
Qed.

Definition rec_t := ctree -> list centry -> list dnode -> nat -> nat -> list ext -> bool -> option (list row * bool).

Lemma ib_loop_cons : forall (rec : rec_t) ub cover zero cs ms chi l acc okk,
  ib_loop oc d K au rec ub cover zero cs ms (chi :: l) acc okk =
  let nub := setter K (eadd (ub0 ub) (c_pard chi)) in
  let '(nub1, nzero, ok1) := copy_zero_set oc d au chi nub zero okk in
  let '(nub2, ncover, ok2) := copy_cover_sets oc d au chi nub1 cs (S ms - cs) cover ok1 in
  match rec chi ncover nzero cs ms nub2 ok2 with
  | None => None
  | Some (rows1, ok3) => ib_loop oc d K au rec ub cover zero cs ms l (acc ++ rows1) ok3
  end.
Proof. reflexivity. Qed.

Definition rec_flag (rec : rec_t) (chi : ctree) : Prop :=
  forall cv z cs ms u o rows, rec chi cv z cs ms u o = Some (rows, true) -> o = true.

Lemma ib_loop_flag : forall (rec : rec_t) ub cover zero cs ms l,
  (forall chi, In chi l -> rec_flag rec chi) ->
  forall acc okk rows, ib_loop oc d K au rec ub cover zero cs ms l acc okk = Some (rows, true) -> okk = true.
Proof.
  intros rec ub cover zero cs ms l. induction l as [|chi l IH]; intros Hrec acc okk rows E.
  - cbn in E. now injection E.
  - rewrite ib_loop_cons in E. cbv zeta in E.
    destruct (copy_zero_set oc d au chi _ zero okk) as [[nub1 nzero] ok1] eqn:E1.
    destruct (copy_cover_sets oc d au chi nub1 cs (S ms - cs) cover ok1) as [[nub2 ncover] ok2] eqn:E2.
    destruct (rec chi ncover nzero cs ms nub2 ok2) as [[rows1 ok3]|] eqn:E3; [|discriminate].
    apply IH in E; [|intros c Hc; apply Hrec; now right]. subst ok3.
    apply (Hrec chi (or_introl eq_refl)) in E3. subst ok2.
    apply copy_cover_sets_flag in E2. subst ok1. now apply copy_zero_set_flag in E1.
Qed.

Lemma internal_batch_flag : forall fuel Q, rec_flag (internal_batch oc d K au fuel) Q.
Proof.
  induction fuel as [|f IH]; intros Q cover zero cs ms ub ok rows E; [discriminate|].
  cbn [internal_batch] in E.
  destruct (Nat.ltb ms cs).
  - injection E as E. apply (brute_nearest_flag (size Q) Q (Nat.le_refl _)) in E. exact E.
  - destruct (Nat.leb (c_scale Q) cs && negb (Nat.eqb (c_scale Q) 100)).
    + destruct (c_ch Q) as [|c0 rest]; [discriminate|].
      destruct (ib_loop oc d K au (internal_batch oc d K au f) ub cover zero cs ms rest [] ok) as [[rows1 ok1]|] eqn:E1;
        [|discriminate].
      destruct (internal_batch oc d K au f c0 cover zero cs ms ub ok1) as [[rows0 ok2]|] eqn:E0; [|discriminate].
      injection E as _ ->. apply IH in E0. subst ok1.
      apply (ib_loop_flag _ ub cover zero cs ms rest (fun c _ => IH c)) in E1. exact E1.
    + apply IH in E. now apply descend_flag in E.
Qed.

Definition rec_good (rec : rec_t) (chi : ctree) : Prop :=
  forall cv z cs ms u o rows, rec chi cv z cs ms u o = Some (rows, true) ->
    zero_ok (c_p chi) z -> cover_ok (c_p chi) cs ms cv -> cov_inv chi cv z cs -> rows_ok (below chi) rows.

Lemma ib_loop_spec : forall (rec : rec_t) q ub cover zero cs ms l,
  (forall chi, In chi l -> rec_flag rec chi /\ rec_good rec chi) ->
  (forall chi, In chi l -> node_ok chi /\ dd d q (c_p chi) <= c_pard chi) -> dom q ->
  zero_ok q zero -> cover_ok q cs ms cover -> (cs <= ms)%nat ->
  (forall chi q' x, In chi l -> In q' (lp chi) -> needed q' x -> covered cover zero cs x) ->
  forall acc okk rows, ib_loop oc d K au rec ub cover zero cs ms l acc okk = Some (rows, true) ->
  exists rows', rows = acc ++ rows' /\ rows_ok (below_some l) rows'.
Proof.
  intros rec q ub cover zero cs ms l. induction l as [|chi l IH]; intros Hrec Hf Hq Hz Hc Hcs Hcov acc okk rows E.
  - cbn in E. injection E as <-. exists []. split; [now rewrite app_nil_r|]. intros q' cands [].
  - rewrite ib_loop_cons in E. cbv zeta in E.
    destruct (copy_zero_set oc d au chi _ zero okk) as [[nub1 nzero] ok1] eqn:E1.
    destruct (copy_cover_sets oc d au chi nub1 cs (S ms - cs) cover ok1) as [[nub2 ncover] ok2] eqn:E2.
    destruct (rec chi ncover nzero cs ms nub2 ok2) as [[rows1 ok3]|] eqn:E3; [|discriminate].
    assert (Hrec' : forall c, In c l -> rec_flag rec c /\ rec_good rec c) by (intros c Hc'; apply Hrec; now right).
    assert (Hf' : forall c, In c l -> node_ok c /\ dd d q (c_p c) <= c_pard c) by (intros c Hc'; apply Hf; now right).
    assert (Hcov' : forall c q' x, In c l -> In q' (lp c) -> needed q' x -> covered cover zero cs x)
      by (intros c q' x Hc'; apply Hcov; now right).
    pose proof (ib_loop_flag rec ub cover zero cs ms l (fun c Hc' => proj1 (Hrec' c Hc')) _ _ _ E) as Hok3. subst ok3.
    destruct (IH Hrec' Hf' Hq Hz Hc Hcs Hcov' _ _ _ E) as [rows' [-> Hr']].
    destruct (Hf chi (or_introl eq_refl)) as [Hchi Hpd].
    destruct (Hrec chi (or_introl eq_refl)) as [Hfl Hgd].
    pose proof (Hfl _ _ _ _ _ _ _ E3) as Hok2. subst ok2.
    pose proof (copy_cover_sets_flag _ _ _ _ _ _ _ _ E2) as Hok1. subst ok1.
    destruct (copy_zero_set_spec chi q zero _ okk nub1 nzero true E1 eq_refl Hchi Hq Hpd Hz) as [_ [Hnz Hcz]].
    assert (Hcr : forall s' dist m0, In (s', (dist, m0)) cover -> (cs <= s' < cs + (S ms - cs))%nat ->
                  dist = dd d q (c_p m0) /\ node_ok m0).
    { intros s' dist m0 Hin Hr. destruct (Hc s' dist m0 Hin (proj1 Hr)) as [_ [_ [_ [H4 H5]]]]. now split. }
    destruct (copy_cover_sets_spec chi q cover (S ms - cs) cs nub1 true nub2 ncover true E2 eq_refl Hchi Hq Hpd Hcr)
      as [_ [Hfrom Hcc]].
    assert (Hnc : cover_ok (c_p chi) cs ms ncover).
    { intros s' dist m0 Hin Hs. destruct (Hfrom s' dist m0 Hin) as [Hr [Hd [dist0 Hin0]]].
      destruct (Hc s' dist0 m0 Hin0 Hs) as [_ [H2 [H3 [_ H5]]]].
      split; [lia|]. split; [assumption|]. split; [assumption|]. now split. }
    assert (Hr1 : rows_ok (below chi) rows1).
    { apply (Hgd _ _ _ _ _ _ _ E3 Hnz Hnc). intros q' x Hq' Hn.
      destruct (Hcov chi q' x (or_introl eq_refl) Hq' Hn) as [H|[s' [dist [m0 [Hin [Hs Hx]]]]]].
      - left. now apply (Hcz q' x Hq' Hn).
      - right. apply (Hcc q' x Hq' Hn). exists s', dist, m0. split; [assumption|]. split; [|assumption].
        destruct (Hc s' dist m0 Hin Hs) as [H1 _]. lia. }
    exists (rows1 ++ rows'). split; [now rewrite app_assoc|].
    apply rows_ok_app.
    + apply (rows_ok_weaken (below chi)); [|assumption]. intros q0 H0. exists chi. split; [now left | exact H0].
    + apply (rows_ok_weaken (below_some l)); [|assumption]. intros q0 [c [Hc' H0]]. exists c. split; [now right | exact H0].
Qed.

Lemma internal_batch_spec : forall fuel Q, node_ok Q -> rec_good (internal_batch oc d K au fuel) Q.
Proof.
  induction fuel as [|f IH]; intros Q HQ cover zero cs ms ub ok rows E Hz Hc Hcov; [discriminate|].
  cbn [internal_batch] in E.
  destruct (Nat.ltb ms cs) eqn:Hlt.
  - (* all remaining samples are in the zero set *)
    injection E as E. apply Nat.ltb_lt in Hlt.
    apply (brute_nearest_spec (size Q) Q (Nat.le_refl _) HQ zero ub ok rows E Hz).
    intros q' x Hq' Hn. destruct (Hcov q' x Hq' Hn) as [H|[s [dist [n [Hin [Hs _]]]]]]; [assumption|].
    destruct (Hc s dist n Hin Hs) as [H1 _]. lia.
  - apply Nat.ltb_ge in Hlt.
    destruct (Nat.leb (c_scale Q) cs && negb (Nat.eqb (c_scale Q) 100)).
    + (* the query node is split among its children *)
      destruct Q as [p m pd sc ch]. cbn [c_ch] in E. destruct ch as [|c0 rest]; [discriminate|].
      destruct (ib_loop oc d K au (internal_batch oc d K au f) ub cover zero cs ms rest [] ok) as [[rows1 ok1]|] eqn:E1;
        [|discriminate].
      destruct (internal_batch oc d K au f c0 cover zero cs ms ub ok1) as [[rows0 ok2]|] eqn:E0; [|discriminate].
      injection E as <- ->.
      pose proof (internal_batch_flag f c0 _ _ _ _ _ _ _ E0) as Hok1. subst ok1.
      destruct (inv_children _ _ _ _ _ _ (proj1 HQ)) as [Hp Hch].
      assert (Hok : forall chi, In chi (c0 :: rest) -> node_ok chi).
      { intros chi Hc'. apply (node_ok_child (CN p m pd sc (c0 :: rest)) chi HQ). exact Hc'. }
      cbn [c_p] in Hz, Hc.
      assert (Hrec : forall chi, In chi rest ->
                rec_flag (internal_batch oc d K au f) chi /\ rec_good (internal_batch oc d K au f) chi).
      { intros chi Hc'. split; [apply internal_batch_flag | apply IH; apply Hok; now right]. }
      assert (Hf : forall chi, In chi rest -> node_ok chi /\ dd d p (c_p chi) <= c_pard chi).
      { intros chi Hc'. split; [apply Hok; now right | apply (Hch chi); now right]. }
      assert (Hcovr : forall chi q' x, In chi rest -> In q' (lp chi) -> needed q' x -> covered cover zero cs x).
      { intros chi q' x Hc' Hq' Hn. apply (Hcov q' x); [|assumption]. rewrite lp_inner. apply in_flat_map.
        exists chi. split; [now right | assumption]. }
      destruct (ib_loop_spec _ p ub cover zero cs ms rest Hrec Hf (node_ok_dom _ HQ) Hz Hc Hlt Hcovr _ _ _ E1)
        as [rows' [-> Hr']]. cbn [app].
      assert (Hr0 : rows_ok (below c0) rows0).
      { apply (IH c0 (Hok c0 (or_introl eq_refl)) cover zero cs ms ub true rows0 E0).
        - rewrite Hp. exact Hz.
        - rewrite Hp. exact Hc.
        - intros q' x Hq' Hn. apply (Hcov q' x); [|assumption]. rewrite lp_inner. apply in_flat_map.
          exists c0. split; [now left | assumption]. }
      apply rows_ok_app.
      * apply (rows_ok_weaken (below_some rest)); [|assumption]. intros q0 [c [Hc' H0]]. unfold below. rewrite lp_inner.
        apply in_flat_map. exists c. split; [now right | exact H0].
      * apply (rows_ok_weaken (below c0)); [|assumption]. intros q0 H0. unfold below. rewrite lp_inner.
        apply in_flat_map. exists c0. split; [now left | exact H0].
    + (* one more scale of the cover sets *)
      pose proof (internal_batch_flag f Q _ _ _ _ _ _ _ E) as Hok'.
      destruct (descend_spec Q cs ub ms cover zero ok Hok' HQ Hz Hc Hcov) as [_ [Hz' [Hc' Hcov']]].
      apply (IH Q HQ _ _ _ _ _ _ _ E Hz' Hc' Hcov').
Qed.

(* ---------- the whole query ---------- *)
Lemma ct_query_spec : forall fuel top rows,
  ct_query oc d K au fuel top = Some (rows, true) ->
  node_ok top -> is_leaf top = false -> incl pts (lp top) ->
  rows_ok (below top) rows.
Proof.
  intros fuel top rows E Htop Hnl Hall. unfold ct_query in E.
  apply (internal_batch_spec fuel top Htop _ _ _ _ _ _ _ E).
  - apply zero_ok_nil.
  - intros s dist n [Hin|[]] _. injection Hin as <- <- <-.
    split; [lia|]. split; [assumption|]. split; [lia|]. split; [reflexivity | assumption].
  - intros q' x _ [Hx _]. right. exists O, (dd d (c_p top) (c_p top)), top.
    split; [now left|]. split; [lia | now apply Hall].
Qed.

End Complete.

(* ---------- closed statement ---------- *)
Theorem ct_query_complete_partial_lemma : forall d dom top K fuel rows,
  metric_on dom d -> (forall x, In x (leaf_points top) -> dom x) ->
  ct_inv_b d top = true -> is_leaf top = false ->
  ct_query false d K (valid_b d (leaf_points top) K) fuel top = Some (rows, true) ->
  forall q cands, In (q, cands) rows ->
    In q (leaf_points top) /\
    forall x, In x (leaf_points top) ->
      (length (filter (fun y => (dd d q y <? dd d q x)%Z) (leaf_points top)) < K)%nat -> In x cands.
Proof.
  intros d dom top K fuel rows Hm Hdom Hinv Hnl E q cands Hin.
  destruct (dd_metric dom d Hm) as [Hs Ht].
  assert (Htop : node_ok d (leaf_points top) top) by (split; [assumption | apply incl_refl]).
  destruct (ct_query_spec d (leaf_points top) K dom Hs Ht Hdom fuel top rows E Htop Hnl (incl_refl _) q cands Hin)
    as [Hq Hc].
  split; [exact Hq|]. intros x Hx Hcnt. apply Hc. split; assumption.
Qed.

(* ---------- a real tree for the non-vacuity examples: the cover tree tapkee builds for the 3x3
   integer grid under the L1 metric (dumped by harness/c02.cpp) ---------- *)
Definition grid9_d : dist := fun i j => Z.abs (i / 3 - j / 3) + Z.abs (i mod 3 - j mod 3).
Definition grid9_ctree : ctree :=
  CN 0 4 0 1 [CN 0 2 0 3 [CN 0 1 0 6 [CN 0 0 0 100 []; CN 3 0 1 100 []; CN 1 0 1 100 []];
                          CN 6 0 2 100 []; CN 4 0 2 100 []; CN 2 0 2 100 []];
              CN 7 2 3 3 [CN 7 1 0 6 [CN 7 0 0 100 []; CN 8 0 1 100 []]; CN 5 0 2 100 []]].
