(* QuadTree_Proof_Fuel.v — insert_fuel: when insert runs out of fuel there is a chain of
   `fuel` nested cells each holding two different inserted points (Deep, proved in
   QuadTree_Proof_Insert); for points on a grid of step g inside a root box of half-width
   at most 2^d * g such a chain has length at most d + 2, so fuel d + 3 always suffices.
   (Unit root box [0,1]^2 = centre 1/2, half-width 1/2 = 2^(m-1) * 2^-m: fuel m + 2.) *)
From Coq Require Import List Arith Bool ZArith QArith Permutation Lia Lqa.
From TK Require Import QuadTree_Model QuadTree_Spec QuadTree_Proof_Base QuadTree_Proof_Insert
                       QuadTree_Proof_Main.
Import ListNotations.
Local Open Scope Q_scope.

Fixpoint pow2 (k : nat) : Q := match k with O => 1 | S k => 2 * pow2 k end.

Lemma pow2_pos : forall k, 0 < pow2 k.
Proof. induction k; cbn [pow2]; lra. Qed.

(* both coordinates are integer multiples of g *)
Definition on_grid (g : Q) (p : pt) : Prop :=
  exists a b : Z, fst p == inject_Z a * g /\ snd p == inject_Z b * g.

(* half-width and half-height below 2^k * g/2 *)
Definition small (g : Q) (k : nat) (c : cell) : Prop :=
  chw c < pow2 k * (g / 2) /\ chh c < pow2 k * (g / 2).

Lemma grid_close : forall g a b x y,
  0 < g -> x == inject_Z a * g -> y == inject_Z b * g -> x - y < g -> y - x < g -> x == y.
Proof.
  intros g a b x y Hg Hx Hy H1 H2.
  destruct (Z.lt_trichotomy a b) as [H|[H|H]].
  - exfalso. assert (K : (a + 1 <= b)%Z) by lia.
    rewrite Zle_Qle in K. rewrite inject_Z_plus in K. change (inject_Z 1) with 1 in K.
    assert (K2 : 1 * g <= (inject_Z b - inject_Z a) * g) by (apply Qmult_le_compat_r; lra).
    lra.
  - subst b. lra.
  - exfalso. assert (K : (b + 1 <= a)%Z) by lia.
    rewrite Zle_Qle in K. rewrite inject_Z_plus in K. change (inject_Z 1) with 1 in K.
    assert (K2 : 1 * g <= (inject_Z a - inject_Z b) * g) by (apply Qmult_le_compat_r; lra).
    lra.
Qed.

Lemma small0_unique : forall g c p q,
  0 < g -> small g 0 c -> contains c p = true -> contains c q = true ->
  on_grid g p -> on_grid g q -> pt_eq p q.
Proof.
  intros g c p q Hg [Hw Hh] Hp Hq (a & b & Ha & Hb) (a' & b' & Ha' & Hb').
  apply contains_iff in Hp. apply contains_iff in Hq. cbn [pow2] in Hw, Hh.
  assert (E : g / 2 == g * (1 # 2)) by (field).
  rewrite E in Hw, Hh.
  split.
  - apply (grid_close g a a'); try assumption; lra.
  - apply (grid_close g b b'); try assumption; lra.
Qed.

Lemma subcell_small : forall g n c k, subcell c k -> small g (S n) c -> small g n k.
Proof.
  intros g n c k Hk [Hw Hh]. cbn [pow2] in Hw, Hh. unfold small.
  destruct (nwc_val c) as (_ & _ & A3 & A4). destruct (nec_val c) as (_ & _ & B3 & B4).
  destruct (swc_val c) as (_ & _ & C3 & C4). destruct (sec_val c) as (_ & _ & D3 & D4).
  destruct Hk as [ -> | [ -> | [ -> | -> ] ] ].
  - rewrite A3, A4. lra.
  - rewrite B3, B4. lra.
  - rewrite C3, C4. lra.
  - rewrite D3, D4. lra.
Qed.

Lemma Deep_small : forall g data l,
  0 < g ->
  (forall x p, In x l -> nth_error data x = Some p -> on_grid g p) ->
  forall c n, Deep data l c n -> forall k, small g k c -> (n <= k)%nat.
Proof.
  intros g data l Hg Hgrid c n H.
  induction H as [c | c k0 n Hs (a & b & Ha & Hb & (pa & Hpa & Hca) & (pb & Hpb & Hcb) & Hab) _ IH];
    intros k Hk.
  - lia.
  - destruct k as [|k].
    + exfalso. apply Hab. exists pa, pb. repeat split; try assumption.
      * apply (small0_unique g c pa pb Hg Hk Hca Hcb (Hgrid a pa Ha Hpa) (Hgrid b pb Hb Hpb)).
      * apply (small0_unique g c pa pb Hg Hk Hca Hcb (Hgrid a pa Ha Hpa) (Hgrid b pb Hb Hpb)).
    + apply le_n_S. apply IH. apply (subcell_small g k c k0 Hs Hk).
Qed.

Theorem insert_fuel_gen : forall fx fuel data order root g d,
  0 < g ->
  (forall i, In i order -> inside data root i) ->
  (forall i p, In i order -> nth_error data i = Some p -> on_grid g p) ->
  chw root <= pow2 d * g -> chh root <= pow2 d * g ->
  mode fx data order ->
  (d + 3 <= fuel)%nat ->
  exists t, fill_order fx fuel data order (init root) = Done true t.
Proof.
  intros fx fuel data order root g d Hg Hin Hgrid Hw Hh Hm Hfuel.
  destruct (build_Inv fx fuel data order root Hin Hm) as [[E D]|(t & E & _)].
  - exfalso.
    assert (Hk : small g (d + 2) root).
    { unfold small. replace (d + 2)%nat with (S (S d)) by lia. cbn [pow2].
      pose proof (pow2_pos d) as Hp.
      assert (K : 0 < pow2 d * g) by (apply Qmult_lt_0_compat; assumption).
      assert (E2 : 2 * (2 * pow2 d) * (g / 2) == 2 * (pow2 d * g)) by field.
      rewrite E2. split; lra. }
    assert (Hgrid' : forall x p, In x (rev order) -> nth_error data x = Some p -> on_grid g p).
    { intros x p Hx. apply Hgrid. apply in_rev. exact Hx. }
    pose proof (Deep_small g data (rev order) Hg Hgrid' root fuel D (d + 2)%nat Hk). lia.
  - exists t. exact E.
Qed.
