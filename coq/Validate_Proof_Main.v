(* Validate_Proof_Main.v — property C14, part E of the proof: embed() as a whole.

   For every table T that is well formed (`wf T`: documented stage order, defaults, catch table;
   typed steps; nothing can throw after a kernel/distance evaluation) and whose summary is the
   documented table, and for EVERY request r:

     exec T r = (trace, RThrow (exception of the first violated documented clause))   or
                (trace, RDone (supplied values, then documented defaults))            if none is violated,

   and in the first case the trace contains no kernel/distance evaluation. *)

From Coq Require Import ZArith QArith Qround List Bool Arith Lia.
Import ListNotations.
From TK Require Import Validate_Model Validate_Spec Validate_Proof Validate_Proof_Steps.
Local Open Scope nat_scope.

Lemma exec_stages_cons : forall T r s st rest,
  exec_stages T r s (st :: rest) =
  match do_stage T r s st with
  | Stop tr e => (tr, RThrow e)
  | Go tr s' => let (tr', res) := exec_stages T r s' rest in (tr ++ tr', res)
  end.
Proof. reflexivity. Qed.

Lemma find_method_map : forall ms m,
  find (fun mi => Nat.eqb (m_id mi) m) (map summarise_method ms) =
  option_map summarise_method (find (fun mi => Nat.eqb (m_id mi) m) ms).
Proof.
  induction ms as [|a ms IH]; intros m; cbn [map find]; auto.
  change (m_id (summarise_method a)) with (m_id a).
  destruct (Nat.eqb (m_id a) m); auto.
Qed.

Lemma needs_summarise : forall m cb, needs (summarise_method m) cb = needs m cb.
Proof. intros m cb. destruct cb; reflexivity. Qed.

Definition tail_stages : list stage :=
  [ SNoData; SCheck cell_target_dimension; SFeatDim; SCancel kw_cancel_function;
    SNeed kw_method CbKernel CbKernel; SNeed kw_method CbDistance CbDistance;
    SNeed kw_method CbFeatures CbFeatures; SDispatch kw_method ].

Definition tail_clauses (r : request) : list clause :=
  [ CNoData; CRange [] cell_target_dimension; CCancel;
    CNeeds CbKernel; CNeeds CbDistance; CNeeds CbFeatures ] ++ method_clauses r.

Definition no_kd (tr : trace) : Prop := existsb is_kd tr = false.

Section Embed.
  Variable T : tables.
  Variable r : request.
  Hypothesis W : wf T.
  Hypothesis S : summarise T = doc_tables.

  Let Wrt : t_rethrow T = doc_rethrow := wf_rethrow T W.
  Let Wdf : t_defaults T = doc_defaults := wf_defaults T W.

  (* "the run from state s over `stages` is the documented one for the clause list cl" *)
  Definition documented (s : pset) (stages : list stage) (cl : list clause) (pmf : pmap) : Prop :=
    exists tr,
      exec_stages T r s stages =
        (tr, match find (violated r) cl with Some c => RThrow (exc_of c) | None => RDone pmf end) /\
      (find (violated r) cl <> None -> no_kd tr).

  Lemma documented_skip : forall s stages c cl pmf,
    violated r c = false -> documented s stages cl pmf -> documented s stages (c :: cl) pmf.
  Proof. intros s stages c cl pmf V D. unfold documented. cbn [find]. now rewrite V. Qed.

  Lemma documented_stop : forall s st rest c cl pmf tr0,
    violated r c = true -> do_stage T r s st = Stop tr0 (exc_of c) -> no_kd tr0 ->
    documented s (st :: rest) (c :: cl) pmf.
  Proof.
    intros s st rest c cl pmf tr0 V D K. unfold documented. cbn [find]. rewrite V.
    rewrite exec_stages_cons, D. exists tr0. split; auto.
  Qed.

  Lemma documented_go : forall s st rest cl pmf tr0 s',
    do_stage T r s st = Go tr0 s' -> no_kd tr0 ->
    documented s' rest cl pmf -> documented s (st :: rest) cl pmf.
  Proof.
    intros s st rest cl pmf tr0 s' D K [tr [E KK]]. unfold documented.
    rewrite exec_stages_cons, D, E. exists (tr0 ++ tr). split; auto.
    intros NN. unfold no_kd in *. rewrite existsb_app, K, (KK NN). reflexivity.
  Qed.

  Lemma methods_eq : t_methods doc_tables = map summarise_method (t_methods T).
  Proof. rewrite <- S. reflexivity. Qed.

  Lemma spec_method_eq : forall m, effective r kw_method = Some (VMethod m) ->
    spec_method r = option_map summarise_method (find_method T m).
  Proof.
    intros m H. unfold spec_method. rewrite H. unfold find_method.
    rewrite methods_eq. apply find_method_map.
  Qed.

  Lemma found_in : forall m mi, find_method T m = Some mi -> In mi (t_methods T).
  Proof. intros m mi H. unfold find_method in H. now apply find_some in H. Qed.

  Lemma handled_true : forall m mi, find_method T m = Some mi -> m_handled mi = true.
  Proof.
    intros m mi H. apply found_in in H.
    assert (A : forallb m_handled (t_methods doc_tables) = true) by reflexivity.
    rewrite methods_eq in A. rewrite forallb_forall in A.
    apply (A (summarise_method mi)). now apply in_map.
  Qed.

  Lemma method_ok_of : forall m mi, find_method T m = Some mi -> method_ok mi = true.
  Proof.
    intros m mi H. apply found_in in H.
    pose proof (wf_methods T W) as A. rewrite forallb_forall in A. now apply A.
  Qed.

  (* ---------------------------------------------------------------- SDispatch *)
  Lemma dispatch_documented : forall pm d m,
    typed pm -> agrees r pm -> effective r kw_method = Some (VMethod m) ->
    (forall mi, find_method T m = Some mi -> forall cb, needs mi cb = true -> has_cb r cb = true) ->
    documented {| ps_map := pm; ps_dups := d |} [SDispatch kw_method] (method_clauses r) pm.
  Proof.
    intros pm d m Hty Hag Hm Hneeds. unfold documented.
    rewrite exec_stages_cons. cbn [do_stage ps_map]. unfold selected. rewrite Hag, Hm.
    unfold method_clauses. rewrite (spec_method_eq m Hm).
    destruct (find_method T m) as [mi|] eqn:F; cbn [option_map].
    - rewrite (handled_true m mi F).
      pose proof (method_ok_of m mi F) as OK. unfold method_ok in OK.
      apply andb_true_iff in OK as [OK Hlate]. apply andb_true_iff in OK as [Hnoev Htyped].
      change (flat_map clause_of_step
                (m_validate (summarise_method mi) ++ m_embed (summarise_method mi)))
        with (clauses (m_validate (summarise_method mi) ++ m_embed (summarise_method mi))).
      rewrite method_clauses_find by auto.
      destruct (exec_early T r pm Wrt Hty Hag (m_validate mi ++ m_embed mi) (needs mi)
                  (Hneeds mi eq_refl) Htyped Hlate) as [tr [E K]].
      rewrite E.
      destruct (find (violated r) (clauses (prep (m_validate mi ++ m_embed mi)))) as [c|];
        cbn [option_map].
      + exists tr. split; [reflexivity|]. intros _. apply K. discriminate.
      + exists (tr ++ []). split; [reflexivity | congruence].
    - exists ([] ++ []). split; [reflexivity | cbn; congruence].
  Qed.

  (* ---------------------------------------------------------------- SNeed *)
  Lemma need_stage : forall pm d m cb rest cl,
    agrees r pm -> effective r kw_method = Some (VMethod m) ->
    ((forall mi, find_method T m = Some mi -> needs mi cb = true -> has_cb r cb = true) ->
     documented {| ps_map := pm; ps_dups := d |} rest cl pm) ->
    documented {| ps_map := pm; ps_dups := d |} (SNeed kw_method cb cb :: rest) (CNeeds cb :: cl) pm.
  Proof.
    intros pm d m cb rest cl Hag Hm Hrest.
    assert (Sel : selected T pm kw_method = find_method T m).
    { unfold selected. now rewrite Hag, Hm. }
    assert (V : violated r (CNeeds cb) =
                match find_method T m with
                | Some mi => needs mi cb && negb (has_cb r cb) | None => false end).
    { cbn [violated]. rewrite (spec_method_eq m Hm).
      destruct (find_method T m) as [mi|]; cbn [option_map]; auto.
    }
    destruct (violated r (CNeeds cb)) eqn:VV.
    - apply documented_stop with (tr0 := []); [assumption | | reflexivity].
      cbn [do_stage ps_map]. rewrite Sel.
      destruct (find_method T m) as [mi|]; [|discriminate]. now rewrite <- V.
    - apply documented_skip; auto. apply documented_go with (tr0 := []) (s' := {| ps_map := pm; ps_dups := d |}).
      + cbn [do_stage ps_map]. rewrite Sel.
        destruct (find_method T m) as [mi|]; auto. now rewrite <- V.
      + reflexivity.
      + apply Hrest. intros mi F N. rewrite F in V.
        rewrite N in V. cbn [andb] in V. symmetry in V. now apply negb_false_iff in V.
  Qed.

  (* ---------------------------------------------------------------- from the base constructor on *)
  Lemma tail_documented : forall pm d m,
    typed pm -> agrees r pm -> effective r kw_method = Some (VMethod m) ->
    documented {| ps_map := pm; ps_dups := d |} tail_stages (tail_clauses r) pm.
  Proof.
    intros pm d m Hty Hag Hm. unfold tail_stages, tail_clauses. cbn [app].
    set (s := {| ps_map := pm; ps_dups := d |}).
    (* empty range *)
    assert (V1 : violated r CNoData = Z.eqb (rq_n r) 0) by reflexivity.
    destruct (violated r CNoData) eqn:E1.
    { apply documented_stop with (tr0 := []); [assumption | | reflexivity].
      cbn [do_stage]. now rewrite <- V1. }
    apply documented_skip; auto.
    apply documented_go with (tr0 := []) (s' := s); [cbn [do_stage]; now rewrite <- V1 | reflexivity |].
    (* target dimension *)
    assert (C2 : do_check pm (mk_env r pm) cell_target_dimension =
                 if out_of_range r cell_target_dimension then Some SwWrongValue else None).
    { apply check_ok; auto. }
    assert (V2 : violated r (CRange [] cell_target_dimension) = out_of_range r cell_target_dimension)
      by reflexivity.
    destruct (violated r (CRange [] cell_target_dimension)) eqn:E2.
    { apply documented_stop with (tr0 := []); [assumption | | reflexivity].
      cbn [do_stage ps_map s]. rewrite C2, <- V2. now rewrite (tr_value T Wrt). }
    apply documented_skip; auto.
    apply documented_go with (tr0 := []) (s' := s);
      [cbn [do_stage ps_map s]; now rewrite C2, <- V2 | reflexivity |].
    (* features.dimension() *)
    apply documented_go with (tr0 := if rq_features r then [EvFeatDim] else []) (s' := s);
      [reflexivity | destruct (rq_features r); reflexivity |].
    (* cancel *)
    assert (D4 : do_stage T r s (SCancel kw_cancel_function) =
                 match effective r kw_cancel_function with
                 | Some (VCancel (Some true)) => Stop [EvCancelFn] Cancelled
                 | Some (VCancel (Some false)) => Go [EvCancelFn] s
                 | _ => Go [] s
                 end).
    { cbn [do_stage ps_map s]. now rewrite Hag. }
    assert (V4 : violated r CCancel =
                 match effective r kw_cancel_function with
                 | Some (VCancel (Some true)) => true | _ => false end) by reflexivity.
    destruct (violated r CCancel) eqn:E4.
    { apply documented_stop with (tr0 := [EvCancelFn]); [assumption | | reflexivity].
      rewrite D4. destruct (effective r kw_cancel_function) as [[| | | | | | | |[[|]|]|]|];
        try discriminate; reflexivity. }
    apply documented_skip; auto.
    apply documented_go with
      (tr0 := match effective r kw_cancel_function with
              | Some (VCancel (Some false)) => [EvCancelFn] | _ => [] end) (s' := s).
    { rewrite D4. destruct (effective r kw_cancel_function) as [[| | | | | | | |[[|]|]|]|];
        try discriminate; reflexivity. }
    { destruct (effective r kw_cancel_function) as [[| | | | | | | |[[|]|]|]|]; reflexivity. }
    (* the three callback tests, then the handler chain *)
    apply (need_stage pm d m CbKernel); auto. intros NK.
    apply (need_stage pm d m CbDistance); auto. intros ND.
    apply (need_stage pm d m CbFeatures); auto. intros NF.
    apply (dispatch_documented pm d m); auto.
    intros mi F cb N. destruct cb; [apply (NK mi) | apply (ND mi) | apply (NF mi)]; assumption.
  Qed.

  (* ---------------------------------------------------------------- embed() as a whole *)
  Theorem exec_documented :
    exists tr,
      exec T r =
        (tr, match spec_decide r with
             | Some c => RThrow (exc_of c)
             | None => RDone (pm_merge (rq_kws r) doc_defaults)
             end) /\
      (spec_decide r <> None -> no_kd tr).
  Proof.
    unfold exec, spec_decide, documented_order. rewrite (wf_stages T W).
    change (exists tr,
      exec_stages T r (ps_build (rq_kws r)) doc_stages =
        (tr, match find (violated r)
                     ([CDuplicate; CWrongType; CMethodMissing; CMethodType] ++ tail_clauses r) with
             | Some c => RThrow (exc_of c)
             | None => RDone (pm_merge (rq_kws r) doc_defaults)
             end) /\
      (find (violated r) ([CDuplicate; CWrongType; CMethodMissing; CMethodType] ++ tail_clauses r)
         <> None -> no_kd tr)).
    fold (documented (ps_build (rq_kws r)) doc_stages
            ([CDuplicate; CWrongType; CMethodMissing; CMethodType] ++ tail_clauses r)
            (pm_merge (rq_kws r) doc_defaults)).
    unfold doc_stages. cbn [app].
    (* a keyword given twice *)
    assert (V1 : violated r CDuplicate = negb (nodupb (map fst (rq_kws r)))) by reflexivity.
    destruct (nodupb (map fst (rq_kws r))) eqn:ND; cbn [negb] in V1.
    2:{ apply documented_stop with (tr0 := []); [assumption | | reflexivity].
        cbn [do_stage]. pose proof (build_dup _ ND) as B.
        destruct (ps_dups (ps_build (rq_kws r))); [congruence|]. now rewrite (tr_multiple T Wrt). }
    apply documented_skip; auto. rewrite (build_nodup _ ND).
    apply documented_go with (tr0 := []) (s' := {| ps_map := rq_kws r; ps_dups := [] |});
      [reflexivity | reflexivity |].
    (* a value of the wrong type *)
    assert (V2 : violated r CWrongType = existsb (wrong_type_vs doc_defaults) (rq_kws r)) by reflexivity.
    destruct (violated r CWrongType) eqn:E2.
    { apply documented_stop with (tr0 := []); [assumption | | reflexivity].
      cbn [do_stage ps_map]. rewrite Wdf, <- V2. now rewrite (tr_type T Wrt). }
    apply documented_skip; auto.
    apply documented_go with (tr0 := []) (s' := {| ps_map := rq_kws r; ps_dups := [] |});
      [cbn [do_stage ps_map]; now rewrite Wdf, <- V2 | reflexivity |].
    (* merge(defaults) *)
    apply documented_go with (tr0 := [])
      (s' := {| ps_map := pm_merge (rq_kws r) doc_defaults; ps_dups := [] |});
      [cbn [do_stage ps_map ps_dups]; now rewrite Wdf | reflexivity |].
    set (pm := pm_merge (rq_kws r) doc_defaults).
    assert (Hty : typed pm) by (apply merged_typed; now rewrite <- V2).
    assert (Hag : agrees r pm) by apply merged_agrees.
    set (s := {| ps_map := pm; ps_dups := [] |}).
    (* the method *)
    assert (D3 : do_stage T r s (SConv kw_method TMethod) =
                 match effective r kw_method with
                 | None => Stop [] (translate T SwMissed)
                 | Some v => if vtype_eqb (type_of v) TMethod then Go [] s
                             else Stop [] (translate T SwWrongType)
                 end).
    { cbn [do_stage ps_map s]. unfold do_conv. rewrite Hag.
      destruct (effective r kw_method) as [v|]; auto.
      destruct (vtype_eqb (type_of v) TMethod); auto. }
    assert (V3 : violated r CMethodMissing =
                 match effective r kw_method with None => true | Some _ => false end) by reflexivity.
    assert (V4 : violated r CMethodType =
                 match effective r kw_method with
                 | Some v => negb (vtype_eqb (type_of v) TMethod) | None => false end) by reflexivity.
    destruct (effective r kw_method) as [v|] eqn:Em.
    2:{ apply documented_stop with (tr0 := []); [assumption | | reflexivity].
        rewrite D3. now rewrite (tr_missed T Wrt). }
    apply documented_skip; auto.
    destruct (vtype_eqb (type_of v) TMethod) eqn:Et; cbn [negb] in V4.
    2:{ apply documented_stop with (tr0 := []); [assumption | | reflexivity].
        rewrite D3. now rewrite (tr_type T Wrt). }
    apply documented_skip; auto.
    apply documented_go with (tr0 := []) (s' := s); [exact D3 | reflexivity |].
    (* progress and cancel function pointers: typed by checkTypes *)
    apply documented_go with (tr0 := []) (s' := s);
      [cbn [do_stage ps_map s]; now rewrite (conv_ok pm Hty) | reflexivity |].
    apply documented_go with (tr0 := []) (s' := s);
      [cbn [do_stage ps_map s]; now rewrite (conv_ok pm Hty) | reflexivity |].
    (* the rest *)
    assert (exists m, v = VMethod m) as [m ->].
    { destruct v; cbn in Et; try discriminate. eauto. }
    apply (tail_documented pm [] m); auto.
  Qed.
End Embed.
