(* ====================================================================== *)
(*  Lle_Proof_GsSkip.v — C08, wave 4: what the Gram-Schmidt loop of         *)
(*  hessian_weight_matrix owes to running over ALL columns.                 *)
(*    hlle_null_any_tangent   for ANY tangent columns V (no hypothesis: the *)
(*        eigenvectors of a zero eigenvalue that the local solver returns   *)
(*        for a rank-deficient neighbourhood are arbitrary), the local      *)
(*        matrix of the all-columns loop annihilates every affine           *)
(*        combination  c0 1 + sum_t c_t V_t  (non-degenerate loop)          *)
(*    gs_rel_orthogonal_prefix / hlle_from_annihilates   the variant that   *)
(*        starts the loop at column `start` (Lle_Model.hlle_gs_sf_from) has *)
(*        the same property PROVIDED the skipped columns are mutually       *)
(*        orthogonal: this is exactly the assumption of the rewrite         *)
(*    hlle_skip_refuted       ... and without it the property fails: k = 6  *)
(*        collinear neighbours, d = 2, first tangent column the centred     *)
(*        positions, second one a vector orthogonal to it (a null vector of *)
(*        the centred Gram matrix) that is not orthogonal to 1              *)
(*  Any field for the positive statements; Qc for the witness.              *)
(* ====================================================================== *)
Require Import Field Ring Arith Lia List Bool ZArith QArith Qcanon.
From TK Require Import Mat_Sums Mat_Core Mat_Qc Lle_Model Lle_Proof_Hlle Lle_Proof_Gs Lle_Proof_GsQc.
Import ListNotations.
Close Scope Qc_scope.
Close Scope Q_scope.
Close Scope Z_scope.

Section GsSkip.
  Context {F : Type} {Fo : FieldOps F} {Ff : IsField F}.
  Add Field GsSkipField : (@Fth F Fo Ff).
  Local Open Scope F_scope.
  Local Notation vec := (Mat_Core.vec F).
  Local Notation mat := (Mat_Core.mat F).
  Local Notation ulist := (list (vec * F)).

  Lemma hlle_gs_sf_from_0 k d (prev V : mat) :
    hlle_gs_sf_from 0 k d prev V = hlle_gs_sf false k d prev V.
  Proof. reflexivity. Qed.

  (* linearity: a matrix row that kills 1 and every column of V kills their combinations *)
  Lemma row_kills_span k d (P : mat) (V : mat) a (c0 : F) (c : nat -> F) :
    sumn k (fun b => P a b) = 0 ->
    (forall t, t < d -> sumn k (fun b => P a b * V b t) = 0) ->
    sumn k (fun b => P a b * (c0 + sumn d (fun t => c t * V b t))) = 0.
  Proof.
    intros H1 HV.
    rewrite (sumn_ext k _ (fun b => c0 * P a b + sumn d (fun t => c t * (P a b * V b t)))).
    2:{ intros b _.
        rewrite (sumn_ext d (fun t => c t * (P a b * V b t)) (fun t => P a b * (c t * V b t)))
          by (intros t _; ring).
        rewrite sumn_mul_l. ring. }
    rewrite sumn_add, sumn_mul_l, sumn_swap.
    rewrite (sumn_zero' d).
    - match goal with |- _ * ?X + _ = _ => change X with (sumn k (fun b => P a b)) end.
      rewrite H1. ring.
    - intros t Ht. rewrite sumn_mul_l, (HV t Ht). ring.
  Qed.

  (* the all-columns loop: no hypothesis on V at all *)
  Theorem hlle_null_any_tangent k d (prev V : mat) a (c0 : F) (c : nat -> F) :
    gs_nondegenerate (hlle_gs_sf false k d prev V) -> a < k ->
    sumn k (fun b => hlle_local_sf false k d prev V a b * (c0 + sumn d (fun t => c t * V b t))) = 0.
  Proof.
    intros Hnd Ha. destruct (hlle_local_annihilates k d prev V a Hnd Ha) as [H1 HV].
    apply row_kills_span; assumption.
  Qed.

  (* ---------- the loop that starts at column `start` ---------- *)
  Definition pairwise_orth (k : nat) (cols : list vec) : Prop :=
    forall i j dv, i < j -> j < length cols -> dot k (nth j cols dv) (nth i cols dv) = 0.

  Lemma with_norms_snoc k (cols : list vec) v :
    with_norms k (cols ++ [v]) = with_norms k cols ++ [(v, dot k v v)].
  Proof. unfold with_norms. rewrite map_app. reflexivity. Qed.

  (* mutually orthogonal columns, taken as they are, satisfy the loop invariant *)
  Lemma gs_rel_orthogonal_prefix k (cols : list vec) :
    pairwise_orth k cols -> gs_rel k (with_norms k cols) cols.
  Proof.
    induction cols as [|v cols IH] using rev_ind; intros Hp; [constructor|].
    rewrite with_norms_snoc. apply gs_rel_snoc.
    - apply IH. intros i j dv Hij Hj.
      specialize (Hp i j dv Hij ltac:(rewrite app_length; cbn [length]; lia)).
      rewrite !app_nth1 in Hp by lia. exact Hp.
    - intros un Hin. unfold with_norms in Hin. apply in_map_iff in Hin. destruct Hin as [q [<- Hq]].
      cbn [fst]. apply (In_nth _ _ v) in Hq. destruct Hq as [i [Hi Hnth]].
      specialize (Hp i (length cols) v Hi ltac:(rewrite app_length; cbn [length]; lia)).
      rewrite app_nth2, Nat.sub_diag in Hp by lia. cbn [nth] in Hp.
      rewrite app_nth1 in Hp by lia. rewrite Hnth in Hp. exact Hp.
    - intros w _ Hw. exact Hw.
  Qed.

  Lemma firstn_skipn_nth {A} n (l : list A) :
    firstn n l ++ skipn n l = l.
  Proof. apply firstn_skipn. Qed.

  Theorem hlle_from_annihilates start k d (prev V : mat) a (c0 : F) (c : nat -> F) :
    let cols := cols_of k (hlle_ncols d) (hlle_Yprod false d prev V) in
    pairwise_orth k (firstn start cols) ->
    gs_nondegenerate (hlle_gs_sf_from start k d prev V) -> a < k ->
    sumn k (fun b => hlle_local_sf_from start k d prev V a b * (c0 + sumn d (fun t => c t * V b t))) = 0.
  Proof.
    intros cols Hp Hnd Ha.
    unfold hlle_local_sf_from, hlle_local_of.
    pose proof (gs_rel_orthogonal_prefix k _ Hp) as H0.
    pose proof (mgs_sf_rel k _ _ (skipn start cols) H0 Hnd) as H.
    rewrite firstn_skipn in H. fold cols in H.
    change (mgs_sf k (with_norms k (firstn start cols)) (skipn start cols))
      with (hlle_gs_sf_from start k d prev V) in H.
    pose proof (gs_rel_length k _ _ H) as Hlen. unfold cols in Hlen at 1. rewrite cols_of_length in Hlen.
    assert (Htail : forall un j, In un (skipn (1 + d) (hlle_gs_sf_from start k d prev V)) -> j < 1 + d ->
                                 dot k (fst un) (mcol (hlle_Yprod false d prev V) j) = 0).
    { intros un j Hin Hj.
      apply (In_nth _ _ (fun _ => 0, 0)) in Hin. destruct Hin as [m [Hm Hnth]].
      rewrite skipn_length in Hm. rewrite nth_skipn' in Hnth.
      pose proof (gs_rel_later_orth k _ _ H (1 + d + m) j (fun _ => 0, 0) (fun _ => 0)
                    ltac:(lia) ltac:(lia)) as Hz.
      unfold cols in Hz. rewrite cols_of_nth in Hz by (unfold hlle_ncols; lia).
      rewrite dot_memo_r in Hz. rewrite <- Hnth. exact Hz. }
    apply row_kills_span.
    - rewrite (sumn_ext k _ (fun b => outer_sum_sf (skipn (1 + d) (hlle_gs_sf_from start k d prev V)) a b
                                      * mcol (hlle_Yprod false d prev V) 0%nat b)).
      + apply outer_sum_kills. intros un Hin. apply Htail; [assumption|lia].
      + intros b Hb. unfold mcol.
        destruct (hlle_Yprod_entries d prev V b) as [E0 _]. rewrite E0. ring.
    - intros t Ht.
      rewrite (sumn_ext k _ (fun b => outer_sum_sf (skipn (1 + d) (hlle_gs_sf_from start k d prev V)) a b
                                      * mcol (hlle_Yprod false d prev V) (S t) b)).
      + apply outer_sum_kills. intros un Hin. apply Htail; [assumption|lia].
      + intros b Hb. unfold mcol.
        destruct (hlle_Yprod_entries d prev V b) as [_ [E1 _]]. rewrite (E1 t Ht). reflexivity.
  Qed.
End GsSkip.

(* ---------- the witness (Qc): k = 6 collinear neighbours, d = 2 ---------- *)
Definition skipw_qz (z : Z) : Qc := Q2Qc (inject_Z z).

(* column 0: the centred positions -5 -3 -1 1 3 5 of six equally spaced collinear samples (the eigenvector of the
   only non-zero eigenvalue of their centred Gram matrix x x^T, up to scale);
   column 1: w = (-1 0 -1 0 -2 0), orthogonal to column 0, hence an eigenvector of eigenvalue 0 of x x^T: a
   legitimate second "tangent coordinate" from the local solver; it is NOT orthogonal to 1 (sum -4) *)
Definition skipw_V : mat Qc :=
  mof [[skipw_qz (-5); skipw_qz (-1)]; [skipw_qz (-3); skipw_qz 0]; [skipw_qz (-1); skipw_qz (-1)];
       [skipw_qz 1; skipw_qz 0]; [skipw_qz 3; skipw_qz (-2)]; [skipw_qz 5; skipw_qz 0]].

Definition skipw_prev : mat Qc := fun _ _ => 0%F.

Theorem hlle_skip_refuted :
  (* V is a legitimate local-solver answer for the Gram matrix x x^T of the collinear neighbours *)
  sumn 6 (fun b => skipw_V b 0) = 0%F /\
  dot 6 (mcol skipw_V 0) (mcol skipw_V 1) = 0%F /\
  sumn 6 (fun b => skipw_V b 1) <> 0%F /\
  (* both loops run without a degenerate column *)
  gs_nondegenerate (hlle_gs_sf false 6 2 skipw_prev skipw_V) /\
  gs_nondegenerate (hlle_gs_sf_from 3 6 2 skipw_prev skipw_V) /\
  (* the loop that skips the constant and the tangent columns no longer annihilates constants *)
  sumn 6 (fun b => hlle_local_sf_from 3 6 2 skipw_prev skipw_V 0 b) <> 0%F /\
  (* the loop as written does *)
  (forall a, a < 6 -> sumn 6 (fun b => hlle_local_sf false 6 2 skipw_prev skipw_V a b) = 0%F).
Proof.
  assert (Hnd : gs_nondegenerate (hlle_gs_sf false 6 2 skipw_prev skipw_V))
    by (apply gs_nondegenerate_by_compute; vm_compute; reflexivity).
  split; [apply qeqb_ok; vm_compute; reflexivity|].
  split; [apply qeqb_ok; vm_compute; reflexivity|].
  split; [|split; [|split; [|split]]].
  - apply qeqb_false. vm_compute. reflexivity.
  - exact Hnd.
  - apply gs_nondegenerate_by_compute. vm_compute. reflexivity.
  - apply qeqb_false. vm_compute. reflexivity.
  - intros a Ha. exact (proj1 (hlle_local_annihilates 6 2 skipw_prev skipw_V a Hnd Ha)).
Qed.
