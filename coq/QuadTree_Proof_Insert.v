(* QuadTree_Proof_Insert.v — the invariant of insert() and its preservation.

   Inv data l t : the index list l (order irrelevant) is exactly what has been
   routed into the subtree t.  It is `Routed` of QuadTree_Spec strengthened by what
   the code additionally does: children are the four half-size boxes (geom), an
   index goes to the FIRST child (NW, NE, SW, SE) whose closed box contains it
   (first_fit), a leaf stores one of the indices routed to it and its ghost
   multiplicity is their number, and a cell is only split when two different
   points have been routed into it (two_distinct).

   mode fx data L : the repaired code (fx = true) needs no hypothesis; the shipped
   code (fx = false) is covered when no two indices of L coincide. *)
From Coq Require Import List Arith Bool ZArith QArith Permutation Lia Lqa.
From TK Require Import QuadTree_Model QuadTree_Spec QuadTree_Proof_Base.
Import ListNotations.
Local Open Scope Q_scope.

(* ---------- coinc / inside ---------- *)

Lemma coinc_refl : forall data i p, nth_error data i = Some p -> coinc data i i.
Proof. intros data i p H. exists p, p. repeat split; try assumption; reflexivity. Qed.

Lemma coinc_sym : forall data i j, coinc data i j -> coinc data j i.
Proof. intros data i j (a & b & Ha & Hb & E). exists b, a. repeat split; try assumption; apply pt_eq_sym, E. Qed.

Lemma coinc_trans : forall data i j k, coinc data i j -> coinc data j k -> coinc data i k.
Proof.
  intros data i j k (a & b & Ha & Hb & E) (b' & c & Hb' & Hc & E').
  rewrite Hb in Hb'. injection Hb' as <-.
  exists a, c. repeat split; try assumption; apply (pt_eq_trans _ _ _ E E').
Qed.

Lemma inside_coinc : forall data c i j, coinc data i j -> inside data c j -> inside data c i.
Proof.
  intros data c i j (a & b & Ha & Hb & E) (b' & Hb' & Hc).
  rewrite Hb in Hb'. injection Hb' as <-.
  exists a. split; [exact Ha|]. rewrite (contains_pt_eq c a b E). exact Hc.
Qed.

Lemma inside_point : forall data c i p, nth_error data i = Some p -> inside data c i -> contains c p = true.
Proof. intros data c i p H (q & Hq & Hc). rewrite H in Hq. injection Hq as <-. exact Hc. Qed.

Lemma not_inside_false : forall data c i p,
  nth_error data i = Some p -> contains c p = false -> ~ inside data c i.
Proof. intros data c i p H Hc Hin. rewrite (inside_point _ _ _ _ H Hin) in Hc. discriminate. Qed.

Lemma coinc_point : forall data i j pi pj,
  nth_error data i = Some pi -> nth_error data j = Some pj -> coinc data i j -> pt_eq pi pj.
Proof.
  intros data i j pi pj Hi Hj (a & b & Ha & Hb & E).
  rewrite Hi in Ha. rewrite Hj in Hb. injection Ha as <-. injection Hb as <-. exact E.
Qed.

(* ---------- sums over coincident indices ---------- *)

Lemma sumx_coinc_repeat : forall data l j,
  (forall x, In x l -> coinc data x j) -> sumx data l == sumx data (repeat j (length l)).
Proof.
  intros data l j H. induction l as [|a l IH]; cbn [sumx length repeat]; [reflexivity|].
  rewrite IH by (intros x Hx; apply H; right; exact Hx).
  destruct (H a (or_introl eq_refl)) as (pa & pj & Ha & Hj & (E1 & _)).
  rewrite (pt_at_nth_error _ _ _ Ha), (pt_at_nth_error _ _ _ Hj), E1. reflexivity.
Qed.

Lemma sumy_coinc_repeat : forall data l j,
  (forall x, In x l -> coinc data x j) -> sumy data l == sumy data (repeat j (length l)).
Proof.
  intros data l j H. induction l as [|a l IH]; cbn [sumy length repeat]; [reflexivity|].
  rewrite IH by (intros x Hx; apply H; right; exact Hx).
  destruct (H a (or_introl eq_refl)) as (pa & pj & Ha & Hj & (_ & E2)).
  rewrite (pt_at_nth_error _ _ _ Ha), (pt_at_nth_error _ _ _ Hj), E2. reflexivity.
Qed.

(* ---------- NoCo / mode ---------- *)

Definition mode (fx : bool) (data : list pt) (L : list nat) : Prop := fx = true \/ NoCo data L.

Lemma NoCo_perm : forall data l l', Permutation l l' -> NoCo data l -> NoCo data l'.
Proof.
  intros data l l' HP [Hnd H]. split.
  - apply (Permutation_NoDup HP Hnd).
  - intros a b Ha Hb. apply H; apply (Permutation_in _ (Permutation_sym HP)); assumption.
Qed.

Lemma NoDup_app_l : forall (a b : list nat), NoDup (a ++ b) -> NoDup a.
Proof.
  intros a b. induction a as [|x a IH]; cbn [app]; intro H; [constructor|].
  inversion H as [|? ? Hn Hd]. subst. constructor.
  - intro Hx. apply Hn. apply in_or_app. left. exact Hx.
  - apply IH. exact Hd.
Qed.

Lemma NoCo_app_l : forall data a b, NoCo data (a ++ b) -> NoCo data a.
Proof.
  intros data a b [Hnd H]. split.
  - apply (NoDup_app_l _ _ Hnd).
  - intros x y Hx Hy. apply H; apply in_or_app; left; assumption.
Qed.

Lemma mode_sub : forall fx data L l rest,
  mode fx data L -> Permutation L (l ++ rest) -> mode fx data l.
Proof.
  intros fx data L l rest [H|H] HP; [left; exact H|right].
  apply (NoCo_app_l data l rest). apply (NoCo_perm _ _ _ HP H).
Qed.

Lemma perm_pick1 : forall (i : nat) l1 l2 l3 l4,
  Permutation (i :: l1 ++ l2 ++ l3 ++ l4) ((i :: l1) ++ (l2 ++ l3 ++ l4)).
Proof. intros. apply Permutation_refl. Qed.
Lemma perm_pick2 : forall (i : nat) l1 l2 l3 l4,
  Permutation (i :: l1 ++ l2 ++ l3 ++ l4) ((i :: l2) ++ (l1 ++ l3 ++ l4)).
Proof. intros. cbn [app]. apply perm_skip. apply Permutation_app_swap_app. Qed.
Lemma perm_pick3 : forall (i : nat) l1 l2 l3 l4,
  Permutation (i :: l1 ++ l2 ++ l3 ++ l4) ((i :: l3) ++ (l1 ++ l2 ++ l4)).
Proof.
  intros. cbn [app]. apply perm_skip.
  rewrite (app_assoc l1 l2 (l3 ++ l4)), (app_assoc l1 l2 l4).
  apply Permutation_app_swap_app.
Qed.
Lemma perm_pick4 : forall (i : nat) l1 l2 l3 l4,
  Permutation (i :: l1 ++ l2 ++ l3 ++ l4) ((i :: l4) ++ (l1 ++ l2 ++ l3)).
Proof.
  intros. cbn [app]. apply perm_skip.
  rewrite (app_assoc l1 l2 (l3 ++ l4)), (app_assoc (l1 ++ l2) l3 l4).
  rewrite <- (app_assoc l1 l2 l3).
  apply Permutation_app_comm.
Qed.

Lemma all_same_nodup_len : forall (l : list nat) j,
  (forall x, In x l -> x = j) -> NoDup l -> (length l <= 1)%nat.
Proof.
  intros l j H Hnd. destruct l as [|a [|b l]]; cbn; try lia.
  exfalso. assert (a = j) by (apply H; cbn; auto). assert (b = j) by (apply H; cbn; auto).
  subst. inversion Hnd as [|? ? Hn _]. apply Hn. left. reflexivity.
Qed.

(* ---------- the invariant ---------- *)

Definition geom (c : cell) (nw ne sw se : qt) : Prop :=
  qcell nw = nwc c /\ qcell ne = nec c /\ qcell sw = swc c /\ qcell se = sec c.

Definition first_fit (data : list pt) (c : cell) (l2 l3 l4 : list nat) : Prop :=
  (forall i, In i l2 -> ~ inside data (nwc c) i) /\
  (forall i, In i l3 -> ~ inside data (nwc c) i /\ ~ inside data (nec c) i) /\
  (forall i, In i l4 -> ~ inside data (nwc c) i /\ ~ inside data (nec c) i /\ ~ inside data (swc c) i).

Definition two_distinct (data : list pt) (l : list nat) : Prop :=
  exists a b, In a l /\ In b l /\ ~ coinc data a b.

Inductive Inv (data : list pt) : list nat -> qt -> Prop :=
| Inv_empty c com : Inv data [] (Leaf c None 0 com)
| Inv_leaf c j cnt cum com l :
    In j l ->
    (forall i, In i l -> coinc data i j) ->
    inside data c j ->
    cnt = length l ->
    agg_ok data l cum com ->
    Inv data l (Leaf c (Some (j, cnt)) cum com)
| Inv_node c cum com nw ne sw se l l1 l2 l3 l4 :
    Permutation l (l1 ++ l2 ++ l3 ++ l4) ->
    Inv data l1 nw -> Inv data l2 ne -> Inv data l3 sw -> Inv data l4 se ->
    geom c nw ne sw se ->
    first_fit data c l2 l3 l4 ->
    (forall i, In i l -> inside data c i) ->
    two_distinct data l ->
    agg_ok data l cum com ->
    Inv data l (Node c cum com nw ne sw se).

Definition Kids (data : list pt) (c : cell) (l1 l2 l3 l4 : list nat) (nw ne sw se : qt) : Prop :=
  Inv data l1 nw /\ Inv data l2 ne /\ Inv data l3 sw /\ Inv data l4 se /\
  geom c nw ne sw se /\ first_fit data c l2 l3 l4.

Lemma mkKids : forall data c l1 l2 l3 l4 nw ne sw se,
  Inv data l1 nw -> Inv data l2 ne -> Inv data l3 sw -> Inv data l4 se ->
  qcell nw = nwc c -> qcell ne = nec c -> qcell sw = swc c -> qcell se = sec c ->
  (forall i, In i l2 -> ~ inside data (nwc c) i) ->
  (forall i, In i l3 -> ~ inside data (nwc c) i /\ ~ inside data (nec c) i) ->
  (forall i, In i l4 -> ~ inside data (nwc c) i /\ ~ inside data (nec c) i /\ ~ inside data (swc c) i) ->
  Kids data c l1 l2 l3 l4 nw ne sw se.
Proof. intros. unfold Kids, geom, first_fit. tauto. Qed.

Lemma Inv_inside : forall data l t, Inv data l t -> forall i, In i l -> inside data (qcell t) i.
Proof.
  intros data l t H. destruct H as [c com | c j cnt cum com l Hj Hco Hin _ _ | ]; cbn [qcell].
  - intros i [].
  - intros i Hi. apply (inside_coinc _ _ _ j); [apply Hco; exact Hi | exact Hin].
  - assumption.
Qed.

Lemma Inv_perm : forall data l l' t, Permutation l l' -> Inv data l t -> Inv data l' t.
Proof.
  intros data l l' t HP H. destruct H.
  - apply Permutation_nil in HP. subst. constructor.
  - apply Inv_leaf.
    + apply (Permutation_in _ HP). assumption.
    + intros i Hi. apply H0. apply (Permutation_in _ (Permutation_sym HP)). exact Hi.
    + assumption.
    + rewrite <- (Permutation_length HP). assumption.
    + apply (agg_ok_perm _ _ _ _ _ HP). assumption.
  - apply (Inv_node data c cum com nw ne sw se l' l1 l2 l3 l4); try assumption.
    + apply (Permutation_trans (Permutation_sym HP)). assumption.
    + intros i Hi. apply H6. apply (Permutation_in _ (Permutation_sym HP)). exact Hi.
    + destruct H7 as (a & b & Ha & Hb & Hab). exists a, b.
      repeat split; try assumption; apply (Permutation_in _ HP); assumption.
    + apply (agg_ok_perm _ _ _ _ _ HP). assumption.
Qed.

(* ---------- running out of fuel: a chain of nested cells each holding two different points ---------- *)

Definition subcell (c k : cell) : Prop := k = nwc c \/ k = nec c \/ k = swc c \/ k = sec c.

Inductive Deep (data : list pt) (l : list nat) : cell -> nat -> Prop :=
| Deep_0 c : Deep data l c 0
| Deep_S c k n :
    subcell c k ->
    (exists a b, In a l /\ In b l /\ inside data c a /\ inside data c b /\ ~ coinc data a b) ->
    Deep data l k n ->
    Deep data l c (S n).

Lemma Deep_incl : forall data l l' c n, incl l l' -> Deep data l c n -> Deep data l' c n.
Proof.
  intros data l l' c n Hi H. induction H as [c | c k n Hs (a & b & Ha & Hb & Hia & Hib & Hab) _ IH].
  - constructor.
  - apply (Deep_S data l' c k n Hs); [|exact IH].
    exists a, b. repeat split; try assumption; apply Hi; assumption.
Qed.

(* ---------- unfolding ---------- *)

Lemma insert_S : forall fx f data i t,
  insert fx (S f) data i t =
    match nth_error data i with
    | None => OOB i
    | Some p =>
      if negb (contains (qcell t) p) then Done false t
      else
        match t with
        | Leaf c st cum com =>
          let cum' := S cum in
          let com' := com_update com cum' p in
          match st with
          | None => Done true (Leaf c (Some (i, 1%nat)) cum' com')
          | Some (j, cnt) =>
            match nth_error data j with
            | None => OOB j
            | Some pj =>
              if pt_eqb p pj then Done true (Leaf c (Some (j, S cnt)) cum' com')
              else
                match route_times (if fx then cnt else 1%nat) (insert fx f data j)
                                  (init (nwc c)) (init (nec c)) (init (swc c)) (init (sec c)) with
                | Done4 _ nw ne sw se =>
                  match route4 (insert fx f data i) nw ne sw se with
                  | Done4 ok nw' ne' sw' se' => Done ok (Node c cum' com' nw' ne' sw' se')
                  | OutOfFuel4 => OutOfFuel
                  | OOB4 k => OOB k
                  end
                | OutOfFuel4 => OutOfFuel
                | OOB4 k => OOB k
                end
            end
          end
        | Node c cum com nw ne sw se =>
          let cum' := S cum in
          let com' := com_update com cum' p in
          match route4 (insert fx f data i) nw ne sw se with
          | Done4 ok nw' ne' sw' se' => Done ok (Node c cum' com' nw' ne' sw' se')
          | OutOfFuel4 => OutOfFuel
          | OOB4 k => OOB k
          end
        end
    end.
Proof. reflexivity. Qed.

Lemma insert_outside : forall fx f data i p s,
  nth_error data i = Some p -> contains (qcell s) p = false ->
  insert fx f data i s = Done false s \/ (insert fx f data i s = OutOfFuel /\ f = 0%nat).
Proof.
  intros fx f data i p s Hi Hc. destruct f as [|f].
  - right. split; reflexivity.
  - left. rewrite insert_S, Hi, Hc. reflexivity.
Qed.

Lemma insert_outside_S : forall fx f data i p s,
  nth_error data i = Some p -> contains (qcell s) p = false ->
  insert fx (S f) data i s = Done false s.
Proof. intros fx f data i p s Hi Hc. rewrite insert_S, Hi, Hc. reflexivity. Qed.

(* ---------- routing one index into four children that satisfy Kids ---------- *)

Definition insert_post (fx : bool) (f : nat) (data : list pt) (i : nat) (t : qt) (l : list nat) : Prop :=
  (insert fx f data i t = OutOfFuel /\ Deep data (i :: l) (qcell t) f) \/
  exists t', insert fx f data i t = Done true t' /\ Inv data (i :: l) t' /\ qcell t' = qcell t.

Definition insert_IH (fx : bool) (f : nat) (data : list pt) (i : nat) (p : pt) : Prop :=
  forall t l, Inv data l t -> contains (qcell t) p = true -> mode fx data (i :: l) ->
              insert_post fx f data i t l.

Lemma Deep_0_any : forall data l c f, f = 0%nat -> Deep data l c f.
Proof. intros; subst; constructor. Qed.

Lemma route_Kids : forall fx f data i p c l1 l2 l3 l4 nw ne sw se,
  insert_IH fx f data i p ->
  nth_error data i = Some p ->
  Kids data c l1 l2 l3 l4 nw ne sw se ->
  contains c p = true ->
  mode fx data (i :: l1 ++ l2 ++ l3 ++ l4) ->
  (route4 (insert fx f data i) nw ne sw se = OutOfFuel4 /\
   exists k, subcell c k /\ Deep data (i :: l1 ++ l2 ++ l3 ++ l4) k f) \/
  exists l1' l2' l3' l4' nw' ne' sw' se',
    route4 (insert fx f data i) nw ne sw se = Done4 true nw' ne' sw' se' /\
    Kids data c l1' l2' l3' l4' nw' ne' sw' se' /\
    Permutation (i :: l1 ++ l2 ++ l3 ++ l4) (l1' ++ l2' ++ l3' ++ l4').
Proof.
  intros fx f data i p c l1 l2 l3 l4 nw ne sw se IH Hi HK Hc Hm.
  destruct HK as (I1 & I2 & I3 & I4 & (G1 & G2 & G3 & G4) & (F2 & F3 & F4)).
  pose proof (mode_sub _ _ _ _ _ Hm (perm_pick1 i l1 l2 l3 l4)) as M1.
  pose proof (mode_sub _ _ _ _ _ Hm (perm_pick2 i l1 l2 l3 l4)) as M2.
  pose proof (mode_sub _ _ _ _ _ Hm (perm_pick3 i l1 l2 l3 l4)) as M3.
  pose proof (mode_sub _ _ _ _ _ Hm (perm_pick4 i l1 l2 l3 l4)) as M4.
  assert (S1 : incl (i :: l1) (i :: l1 ++ l2 ++ l3 ++ l4)).
  { intros x [->|Hx]; [left; reflexivity|right]. apply in_or_app. auto. }
  assert (S2 : incl (i :: l2) (i :: l1 ++ l2 ++ l3 ++ l4)).
  { intros x [->|Hx]; [left; reflexivity|right]. apply in_or_app. right. apply in_or_app. auto. }
  assert (S3 : incl (i :: l3) (i :: l1 ++ l2 ++ l3 ++ l4)).
  { intros x [->|Hx]; [left; reflexivity|right]. apply in_or_app. right. apply in_or_app. right.
    apply in_or_app. auto. }
  assert (S4 : incl (i :: l4) (i :: l1 ++ l2 ++ l3 ++ l4)).
  { intros x [->|Hx]; [left; reflexivity|right]. apply in_or_app. right. apply in_or_app. right.
    apply in_or_app. auto. }
  unfold route4.
  (* NW *)
  destruct (contains (nwc c) p) eqn:C1.
  { destruct (IH nw l1 I1) as [[E D]|(t' & E & It & Ec)]; [rewrite G1; exact C1 | exact M1 | |].
    - left. rewrite E. split; [reflexivity|]. exists (nwc c). split; [left; reflexivity|].
      rewrite G1 in D. apply (Deep_incl _ _ _ _ _ S1 D).
    - right. exists (i :: l1), l2, l3, l4, t', ne, sw, se. rewrite E.
      split; [reflexivity|]. split; [|apply Permutation_refl].
      apply mkKids; try assumption; congruence. }
  destruct (insert_outside fx f data i p nw Hi) as [E1|[E1 Z]]; [rewrite G1; exact C1 | |].
  2:{ left. rewrite E1. split; [reflexivity|]. exists (nwc c). split; [left; reflexivity|].
      apply Deep_0_any, Z. }
  rewrite E1.
  pose proof (not_inside_false _ _ _ _ Hi C1) as N1.
  (* NE *)
  destruct (contains (nec c) p) eqn:C2.
  { destruct (IH ne l2 I2) as [[E D]|(t' & E & It & Ec)]; [rewrite G2; exact C2 | exact M2 | |].
    - left. rewrite E. split; [reflexivity|]. exists (nec c). split; [right; left; reflexivity|].
      rewrite G2 in D. apply (Deep_incl _ _ _ _ _ S2 D).
    - right. exists l1, (i :: l2), l3, l4, nw, t', sw, se. rewrite E.
      split; [reflexivity|]. split; [|apply Permutation_middle].
      apply mkKids; try assumption; try congruence.
      intros x [<-|Hx]; [exact N1 | apply F2; exact Hx]. }
  destruct (insert_outside fx f data i p ne Hi) as [E2|[E2 Z]]; [rewrite G2; exact C2 | |].
  2:{ left. rewrite E2. split; [reflexivity|]. exists (nwc c). split; [left; reflexivity|].
      apply Deep_0_any, Z. }
  rewrite E2.
  pose proof (not_inside_false _ _ _ _ Hi C2) as N2.
  (* SW *)
  destruct (contains (swc c) p) eqn:C3.
  { destruct (IH sw l3 I3) as [[E D]|(t' & E & It & Ec)]; [rewrite G3; exact C3 | exact M3 | |].
    - left. rewrite E. split; [reflexivity|]. exists (swc c). split; [right; right; left; reflexivity|].
      rewrite G3 in D. apply (Deep_incl _ _ _ _ _ S3 D).
    - right. exists l1, l2, (i :: l3), l4, nw, ne, t', se. rewrite E.
      split; [reflexivity|]. split.
      + apply mkKids; try assumption; try congruence.
        intros x [<-|Hx]; [split; assumption | apply F3; exact Hx].
      + rewrite (app_assoc l1 l2 (l3 ++ l4)), (app_assoc l1 l2 ((i :: l3) ++ l4)).
        cbn [app]. apply Permutation_middle. }
  destruct (insert_outside fx f data i p sw Hi) as [E3|[E3 Z]]; [rewrite G3; exact C3 | |].
  2:{ left. rewrite E3. split; [reflexivity|]. exists (nwc c). split; [left; reflexivity|].
      apply Deep_0_any, Z. }
  rewrite E3.
  pose proof (not_inside_false _ _ _ _ Hi C3) as N3.
  (* SE *)
  assert (C4 : contains (sec c) p = true).
  { destruct (children_cover_base c p Hc) as [H|[H|[H|H]]]; congruence. }
  destruct (IH se l4 I4) as [[E D]|(t' & E & It & Ec)]; [rewrite G4; exact C4 | exact M4 | |].
  - left. rewrite E. split; [reflexivity|]. exists (sec c). split; [right; right; right; reflexivity|].
    rewrite G4 in D. apply (Deep_incl _ _ _ _ _ S4 D).
  - right. exists l1, l2, l3, (i :: l4), nw, ne, sw, t'. rewrite E.
    split; [reflexivity|]. split.
    + apply mkKids; try assumption; try congruence.
      intros x [<-|Hx]; [repeat split; assumption | apply F4; exact Hx].
    + rewrite (app_assoc l1 l2 (l3 ++ l4)), (app_assoc (l1 ++ l2) l3 l4).
      rewrite (app_assoc l1 l2 (l3 ++ i :: l4)), (app_assoc (l1 ++ l2) l3 (i :: l4)).
      apply Permutation_middle.
Qed.

(* ---------- subdivide(): moving the stored index down ---------- *)

(* centre of mass of a child that has taken the same point m times, starting from init *)
Fixpoint com_iter (p : pt) (m : nat) : pt :=
  match m with
  | O => (0, 0)
  | S k => com_update (com_iter p k) (S k) p
  end.

Definition leaf_m (j : nat) (pj : pt) (m : nat) (k : cell) : qt :=
  Leaf k (Some (j, m)) m (com_iter pj m).

(* put L at the first child box containing pj, fresh leaves elsewhere *)
Definition place (c : cell) (pj : pt) (L : cell -> qt) : qt * qt * qt * qt :=
  if contains (nwc c) pj then (L (nwc c), init (nec c), init (swc c), init (sec c))
  else if contains (nec c) pj then (init (nwc c), L (nec c), init (swc c), init (sec c))
  else if contains (swc c) pj then (init (nwc c), init (nec c), L (swc c), init (sec c))
  else (init (nwc c), init (nec c), init (swc c), L (sec c)).

Definition route4u (ins : qt -> res) (k : qt * qt * qt * qt) : res4 :=
  let '(a, b, c, d) := k in route4 ins a b c d.
Definition route_times_u (m : nat) (ins : qt -> res) (k : qt * qt * qt * qt) : res4 :=
  let '(a, b, c, d) := k in route_times m ins a b c d.
Definition done4u (k : qt * qt * qt * qt) : res4 :=
  let '(a, b, c, d) := k in Done4 true a b c d.

Lemma route4_place : forall (ins : qt -> res) c pj (L L' : cell -> qt),
  contains c pj = true ->
  (forall k, qcell (L k) = k) ->
  (forall s, contains (qcell s) pj = false -> ins s = Done false s) ->
  (forall k, contains k pj = true -> ins (L k) = Done true (L' k)) ->
  route4u ins (place c pj L) = done4u (place c pj L').
Proof.
  intros ins c pj L L' Hc HL Hout Hin. unfold place.
  destruct (contains (nwc c) pj) eqn:C1.
  { unfold route4u, done4u, route4. rewrite (Hin _ C1). reflexivity. }
  destruct (contains (nec c) pj) eqn:C2.
  { unfold route4u, done4u, route4. rewrite (Hout (init (nwc c)) C1), (Hin _ C2). reflexivity. }
  destruct (contains (swc c) pj) eqn:C3.
  { unfold route4u, done4u, route4.
    rewrite (Hout (init (nwc c)) C1), (Hout (init (nec c)) C2), (Hin _ C3). reflexivity. }
  assert (C4 : contains (sec c) pj = true).
  { destruct (children_cover_base c pj Hc) as [H|[H|[H|H]]]; congruence. }
  unfold route4u, done4u, route4.
  rewrite (Hout (init (nwc c)) C1), (Hout (init (nec c)) C2), (Hout (init (swc c)) C3), (Hin _ C4).
  reflexivity.
Qed.

Lemma insert_init_S : forall fx f data j pj k,
  nth_error data j = Some pj -> contains k pj = true ->
  insert fx (S f) data j (init k) = Done true (leaf_m j pj 1 k).
Proof.
  intros fx f data j pj k Hj Hc. rewrite insert_S, Hj. cbn [init qcell]. rewrite Hc. reflexivity.
Qed.

Lemma insert_same_S : forall fx f data j pj m k,
  nth_error data j = Some pj -> contains k pj = true ->
  insert fx (S f) data j (leaf_m j pj m k) = Done true (leaf_m j pj (S m) k).
Proof.
  intros fx f data j pj m k Hj Hc. rewrite insert_S, Hj. unfold leaf_m. cbn [qcell]. rewrite Hc.
  cbn [negb]. rewrite Hj.
  assert (E : pt_eqb pj pj = true) by (apply pt_eqb_iff, pt_eq_refl).
  rewrite E. reflexivity.
Qed.

Lemma route_times_done4u : forall m ins k,
  route_times_u (S m) ins k =
  match route4u ins k with
  | Done4 _ a b c d => route_times m ins a b c d
  | r => r
  end.
Proof. intros m ins [[[a b] c] d]. reflexivity. Qed.

Lemma move_down_from : forall fx f data c j pj n m,
  nth_error data j = Some pj -> contains c pj = true ->
  route_times_u n (insert fx (S f) data j) (place c pj (leaf_m j pj m)) =
  done4u (place c pj (leaf_m j pj (m + n))).
Proof.
  intros fx f data c j pj n. induction n as [|n IH]; intros m Hj Hc.
  - rewrite Nat.add_0_r. destruct (place c pj (leaf_m j pj m)) as [[[a b] d] e]. reflexivity.
  - rewrite route_times_done4u.
    rewrite (route4_place _ c pj (leaf_m j pj m) (leaf_m j pj (S m)) Hc).
    + specialize (IH (S m) Hj Hc). rewrite <- Nat.add_succ_comm.
      destruct (place c pj (leaf_m j pj (S m))) as [[[a b] d] e]. exact IH.
    + reflexivity.
    + intros s Hs. apply (insert_outside_S fx f data j pj s Hj Hs).
    + intros k Hk. apply (insert_same_S fx f data j pj m k Hj Hk).
Qed.

Lemma move_down : forall fx f data c j pj n,
  nth_error data j = Some pj -> contains c pj = true ->
  route_times (S n) (insert fx (S f) data j)
              (init (nwc c)) (init (nec c)) (init (swc c)) (init (sec c)) =
  done4u (place c pj (leaf_m j pj (S n))).
Proof.
  intros fx f data c j pj n Hj Hc.
  change (route_times (S n) (insert fx (S f) data j)
              (init (nwc c)) (init (nec c)) (init (swc c)) (init (sec c)))
    with (route_times_u (S n) (insert fx (S f) data j)
              (init (nwc c), init (nec c), init (swc c), init (sec c))).
  rewrite route_times_done4u.
  assert (E : (init (nwc c), init (nec c), init (swc c), init (sec c)) = place c pj init).
  { unfold place. destruct (contains (nwc c) pj), (contains (nec c) pj), (contains (swc c) pj); reflexivity. }
  rewrite E.
  rewrite (route4_place _ c pj init (leaf_m j pj 1) Hc).
  - pose proof (move_down_from fx f data c j pj n 1 Hj Hc) as H.
    destruct (place c pj (leaf_m j pj 1)) as [[[a b] d] e]. exact H.
  - reflexivity.
  - intros s Hs. apply (insert_outside_S fx f data j pj s Hj Hs).
  - intros k Hk. apply (insert_init_S fx f data j pj k Hj Hk).
Qed.

Lemma agg_ok_com_iter : forall data j pj m,
  nth_error data j = Some pj -> agg_ok data (repeat j m) m (com_iter pj m).
Proof.
  intros data j pj m Hj. induction m as [|m IH]; cbn [repeat com_iter].
  - apply agg_ok_nil.
  - apply agg_step; assumption.
Qed.

Lemma Inv_leaf_m : forall data j pj l k,
  nth_error data j = Some pj -> contains k pj = true ->
  In j l -> (forall x, In x l -> coinc data x j) ->
  Inv data l (leaf_m j pj (length l) k).
Proof.
  intros data j pj l k Hj Hc Hin Hco. unfold leaf_m. apply Inv_leaf; try assumption.
  - exists pj. split; assumption.
  - reflexivity.
  - destruct (agg_ok_com_iter data j pj (length l) Hj) as (A & B & C).
    split; [reflexivity|]. rewrite repeat_length in A. split.
    + rewrite B. symmetry. apply sumx_coinc_repeat. exact Hco.
    + rewrite C. symmetry. apply sumy_coinc_repeat. exact Hco.
Qed.

(* the children after subdivide() satisfy Kids with the whole list in the first-fit child *)
Lemma Kids_place : forall data c j pj l,
  nth_error data j = Some pj -> contains c pj = true ->
  In j l -> (forall x, In x l -> coinc data x j) ->
  exists l1 l2 l3 l4 nw ne sw se,
    place c pj (leaf_m j pj (length l)) = (nw, ne, sw, se) /\
    Kids data c l1 l2 l3 l4 nw ne sw se /\
    Permutation l (l1 ++ l2 ++ l3 ++ l4).
Proof.
  intros data c j pj l Hj Hc Hin Hco. unfold place.
  assert (HN : forall k x, contains k pj = false -> In x l -> ~ inside data k x).
  { intros k x Hk Hx Hins. apply (not_inside_false _ _ _ _ Hj Hk).
    apply (inside_coinc _ _ _ x); [apply coinc_sym, Hco, Hx | exact Hins]. }
  destruct (contains (nwc c) pj) eqn:C1.
  { exists l, [], [], [], (leaf_m j pj (length l) (nwc c)), (init (nec c)), (init (swc c)), (init (sec c)).
    split; [reflexivity|]. split; [|rewrite !app_nil_r; apply Permutation_refl].
    apply mkKids; try (apply Inv_empty); try reflexivity; try (intros x []).
    apply Inv_leaf_m; assumption. }
  destruct (contains (nec c) pj) eqn:C2.
  { exists [], l, [], [], (init (nwc c)), (leaf_m j pj (length l) (nec c)), (init (swc c)), (init (sec c)).
    split; [reflexivity|]. split; [|cbn [app]; rewrite !app_nil_r; apply Permutation_refl].
    apply mkKids; try (apply Inv_empty); try reflexivity; try (intros x []).
    - apply Inv_leaf_m; assumption.
    - intros x Hx. apply (HN _ _ C1 Hx). }
  destruct (contains (swc c) pj) eqn:C3.
  { exists [], [], l, [], (init (nwc c)), (init (nec c)), (leaf_m j pj (length l) (swc c)), (init (sec c)).
    split; [reflexivity|]. split; [|cbn [app]; rewrite !app_nil_r; apply Permutation_refl].
    apply mkKids; try (apply Inv_empty); try reflexivity; try (intros x []).
    - apply Inv_leaf_m; assumption.
    - intros x Hx. split; [apply (HN _ _ C1 Hx) | apply (HN _ _ C2 Hx)]. }
  assert (C4 : contains (sec c) pj = true).
  { destruct (children_cover_base c pj Hc) as [H|[H|[H|H]]]; congruence. }
  exists [], [], [], l, (init (nwc c)), (init (nec c)), (init (swc c)), (leaf_m j pj (length l) (sec c)).
  split; [reflexivity|]. split; [|cbn [app]; apply Permutation_refl].
  apply mkKids; try (apply Inv_empty); try reflexivity; try (intros x []).
  - apply Inv_leaf_m; assumption.
  - intros x Hx. repeat split; [apply (HN _ _ C1 Hx) | apply (HN _ _ C2 Hx) | apply (HN _ _ C3 Hx)].
Qed.

(* ---------- the main preservation lemma ---------- *)

Lemma split_count : forall fx data i l j,
  mode fx data (i :: l) -> In j l -> (forall x, In x l -> coinc data x j) ->
  (if fx then length l else 1%nat) = length l.
Proof.
  intros fx data i l j [->|[Hnd Hu]] Hj Hco; [reflexivity|].
  destruct fx; [reflexivity|].
  assert (Hall : forall x, In x l -> x = j).
  { intros x Hx. apply Hu; [right; exact Hx | right; exact Hj | apply Hco; exact Hx]. }
  inversion Hnd as [|? ? _ Hnd']. subst.
  pose proof (all_same_nodup_len l j Hall Hnd').
  destruct l; [destruct Hj | cbn in *; lia].
Qed.

Lemma insert_Inv : forall fx f data i p, nth_error data i = Some p -> insert_IH fx f data i p.
Proof.
  intros fx f data i p Hi. induction f as [|f IHf]; intros t l HI Hc Hm.
  { left. split; [reflexivity | constructor]. }
  unfold insert_post. rewrite insert_S, Hi, Hc. cbn [negb].
  destruct HI as [c com | c j cnt cum com l Hj Hco Hin Hcnt Hagg
                 | c cum com nw ne sw se l l1 l2 l3 l4 HP I1 I2 I3 I4 HG HF Hins H2 Hagg];
    cbn [qcell] in *.
  - (* empty leaf: store *)
    right. eexists. split; [reflexivity|]. split; [|reflexivity].
    apply Inv_leaf.
    + left; reflexivity.
    + intros x [<-|[]]. apply (coinc_refl _ _ _ Hi).
    + exists p. split; assumption.
    + reflexivity.
    + apply agg_step; [apply agg_ok_nil | exact Hi].
  - (* full leaf *)
    destruct Hin as (pj & Hpj & Hcj). rewrite Hpj.
    destruct (pt_eqb p pj) eqn:E.
    + (* exact duplicate: absorbed *)
      right. eexists. split; [reflexivity|]. split; [|reflexivity].
      apply Inv_leaf.
      * right; exact Hj.
      * intros x [<-|Hx]; [|apply Hco; exact Hx].
        exists p, pj. repeat split; try assumption; apply pt_eqb_iff in E; apply E.
      * exists pj. split; assumption.
      * cbn [length]. congruence.
      * apply agg_step; assumption.
    + (* subdivide *)
      apply pt_eqb_false in E.
      assert (Hij : ~ coinc data i j).
      { intro H. apply E. apply (coinc_point _ _ _ _ _ Hi Hpj H). }
      assert (H2 : exists a b, In a (i :: l) /\ In b (i :: l) /\ inside data c a /\ inside data c b /\
                               ~ coinc data a b).
      { exists i, j. repeat split; [left; reflexivity | right; exact Hj | exists p; auto | exists pj; auto | exact Hij]. }
      subst cnt. rewrite (split_count fx data i l j Hm Hj Hco).
      destruct l as [|a0 l0]; [destruct Hj|]. set (l := a0 :: l0) in *.
      change (length l) with (S (length l0)).
      destruct f as [|f].
      { left. cbn [route_times route4 insert]. split; [reflexivity|].
        apply (Deep_S data (i :: l) c (nwc c) 0); [left; reflexivity | exact H2 | constructor]. }
      rewrite (move_down fx f data c j pj (length l0) Hpj Hcj).
      destruct (Kids_place data c j pj l Hpj Hcj Hj Hco)
        as (l1 & l2 & l3 & l4 & nw & ne & sw & se & Epl & HK & HP).
      change (S (length l0)) with (length l). rewrite Epl. cbn [done4u].
      assert (Hm' : mode fx data (i :: l1 ++ l2 ++ l3 ++ l4)).
      { apply (mode_sub fx data (i :: l) _ []); [exact Hm|]. rewrite app_nil_r. apply perm_skip, HP. }
      destruct (route_Kids fx (S f) data i p c l1 l2 l3 l4 nw ne sw se IHf Hi HK Hc Hm')
        as [[Er (k & Hk & D)] | (l1' & l2' & l3' & l4' & nw' & ne' & sw' & se' & Er & HK' & HP')].
      * left. rewrite Er. split; [reflexivity|].
        apply (Deep_S data (i :: l) c k (S f) Hk H2).
        apply (Deep_incl data (i :: l1 ++ l2 ++ l3 ++ l4) (i :: l)); [|exact D].
        intros x [->|Hx]; [left; reflexivity|right]. apply (Permutation_in _ (Permutation_sym HP) Hx).
      * right. rewrite Er. eexists. split; [reflexivity|]. split; [|reflexivity].
        destruct HK' as (J1 & J2 & J3 & J4 & HG' & HF').
        apply (Inv_node data c _ _ nw' ne' sw' se' (i :: l) l1' l2' l3' l4'); try assumption.
        -- apply (Permutation_trans (perm_skip i HP) HP').
        -- intros x [<-|Hx]; [exists p; auto|].
           apply (inside_coinc _ _ _ j); [apply Hco, Hx | exists pj; auto].
        -- exists i, j. repeat split; [left; reflexivity | right; exact Hj | exact Hij].
        -- apply agg_step; assumption.
  - (* internal node *)
    assert (Hm' : mode fx data (i :: l1 ++ l2 ++ l3 ++ l4)).
    { apply (mode_sub fx data (i :: l) _ []); [exact Hm|]. rewrite app_nil_r. apply perm_skip, HP. }
    assert (HK : Kids data c l1 l2 l3 l4 nw ne sw se) by (unfold Kids; tauto).
    destruct (route_Kids fx f data i p c l1 l2 l3 l4 nw ne sw se IHf Hi HK Hc Hm')
      as [[Er (k & Hk & D)] | (l1' & l2' & l3' & l4' & nw' & ne' & sw' & se' & Er & HK' & HP')].
    + left. rewrite Er. split; [reflexivity|].
      apply (Deep_S data (i :: l) c k f Hk).
      * destruct H2 as (a & b & Ha & Hb & Hab). exists a, b.
        repeat split; try (right; assumption); try (apply Hins; assumption). exact Hab.
      * apply (Deep_incl data (i :: l1 ++ l2 ++ l3 ++ l4) (i :: l)); [|exact D].
        intros x [->|Hx]; [left; reflexivity|right]. apply (Permutation_in _ (Permutation_sym HP) Hx).
    + right. rewrite Er. eexists. split; [reflexivity|]. split; [|reflexivity].
      destruct HK' as (J1 & J2 & J3 & J4 & HG' & HF').
      apply (Inv_node data c _ _ nw' ne' sw' se' (i :: l) l1' l2' l3' l4'); try assumption.
      * apply (Permutation_trans (perm_skip i HP) HP').
      * intros x [<-|Hx]; [exists p; auto | apply Hins, Hx].
      * destruct H2 as (a & b & Ha & Hb & Hab). exists a, b. repeat split; try (right; assumption). exact Hab.
      * apply agg_step; assumption.
Qed.
