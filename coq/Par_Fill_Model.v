(* Par_Fill_Model.v — property C15: the loop body of the symmetric-fill regions as a program of
   Par_Model (compute_distance_matrix x2, compute_diffusion_matrix, CLI matrix_from_callback):

       for (j = i; j < N; ++j) { v = f(i, j); M(i, j) = v; M(j, i) = v; }

   `f` is the value the callback expression yields for the pair (an oracle: d(i,j)^2, exp(-d^2/w),
   callback(i,j)); it is evaluated once per pair by the iteration that owns the pair.  NO proofs here. *)
From Coq Require Import ZArith List String Bool.
Import ListNotations.
From TK Require Import Par_Model Par_Region_Model.

Definition mkey (var : string) (a b : nat) : key := (var, (Z.of_nat a, Z.of_nat b)).

Section Fill.
  Variable V C : Type.
  Variable var : string.
  Variable f : nat -> nat -> V.

  Fixpoint fill_row (i : nat) (js : list nat) : prog key V C :=
    match js with
    | [] => Ret
    | j :: js' => Wr (Sh (mkey var i j)) (f i j) (Wr (Sh (mkey var j i)) (f i j) (fill_row i js'))
    end.

  Definition sym_body (N i : nat) : prog key V C := fill_row i (seq i (N - i)).
End Fill.

(* the descriptor T-omp produces for these regions (up to the name of the matrix) *)
Definition sym_accs (var : string) : list access :=
  [ mkAcc var true false AElem (XIt 0) (XIn (BIt 0) BTop);
    mkAcc var true false AElem (XIn (BIt 0) BTop) (XIt 0) ].

(* shape of a descriptor with the variable names erased; two descriptors have the same shape when they
   list the same access shapes, in any order and multiplicity *)
Definition acc_shape (a : access) := (a_write a, a_crit a, a_kind a, a_i a, a_j a).

Definition bound_eqb (b b' : bound) : bool :=
  match b, b' with BIt c, BIt c' => Z.eqb c c' | BTop, BTop => true | _, _ => false end.
Definition ix_eqb (x y : ix) : bool :=
  match x, y with
  | XIt c, XIt c' => Z.eqb c c'
  | XIn l h, XIn l' h' => bound_eqb l l' && bound_eqb h h'
  | XAny, XAny => true
  | _, _ => false
  end.
Definition kind_eqb (k k' : akind) : bool :=
  match k, k' with AElem, AElem | AAppend, AAppend | AOpaque, AOpaque | AEscape, AEscape => true | _, _ => false end.
Definition shape_eqb (a b : access) : bool :=
  Bool.eqb (a_write a) (a_write b) && Bool.eqb (a_crit a) (a_crit b) && kind_eqb (a_kind a) (a_kind b) &&
  ix_eqb (a_i a) (a_i b) && ix_eqb (a_j a) (a_j b).
Definition same_shapes (l l' : list access) : bool :=
  forallb (fun a => existsb (shape_eqb a) l') l && forallb (fun b => existsb (shape_eqb b) l) l'.

(* ------------------------------------------------------------------ HLLE: the thread-private basis Yi
   one key per column of Yi.  An iteration of hessian_weight_matrix writes column 0 (setConstant),
   columns 1..d (eigenvectors), the quadratic columns given by the extracted bookkeeping
   (Par_Region_Model.hlle_written), then Gram-Schmidt reads EVERY column 0 .. d + d(d+1)/2 (before
   rewriting it), then the triplets are appended inside the critical section. *)
Definition ykey (c : Z) : key := ("Yi"%string, (c, 0%Z)).

Section HlleBody.
  Variable V C : Type.
  Variable v0 : V.
  Variable c0 : C.

  Fixpoint wr_cols (cs : list Z) (k : prog key V C) : prog key V C :=
    match cs with [] => k | c :: cs' => Wr (Pr (ykey c)) v0 (wr_cols cs' k) end.
  Fixpoint rd_cols (cs : list Z) (k : prog key V C) : prog key V C :=
    match cs with [] => k | c :: cs' => Rd (Pr (ykey c)) (fun _ => rd_cols cs' k) end.

  Definition hlle_written_all (step col : hexpr) (d : nat) : list Z :=
    0%Z :: map Z.of_nat (seq 1 d) ++ hlle_written step col d.
  Definition hlle_read_all (d : nat) : list Z := map Z.of_nat (seq 0 (1 + d + tri d)).

  Definition hlle_body (step col : hexpr) (d : nat) : prog key V C :=
    wr_cols (hlle_written_all step col d) (rd_cols (hlle_read_all d) (Crit c0 Ret)).
End HlleBody.

(* ------------------------------------------------------------------ private-variable events as a program *)
(* the abstract program of the events on key x: `take` says which conditional events execute *)
Section EvProg.
  Variable K V C : Type.
  Variable x : K.
  Variable v : V.              (* some value written *)
  Variable f : V -> V.         (* what a modification does *)
  Variable canon : V.          (* the content after clear() *)

  Fixpoint prog_of (evs : list pevent) (take : list bool) : prog K V C :=
    match evs with
    | [] => Ret
    | e :: evs' =>
        let b := match take with b :: _ => b | [] => true end in
        let take' := if e_cond e then tl take else take in
        if e_cond e && negb b then prog_of evs' take'
        else match e_kind e with
             | EW => Wr (Pr x) v (prog_of evs' take')
             | ER => Rd (Pr x) (fun _ => prog_of evs' take')
             | ERMW | EM => Rd (Pr x) (fun u => Wr (Pr x) (f u) (prog_of evs' take'))
             | ECLR => Wr (Pr x) canon (prog_of evs' take')
             end
    end.
End EvProg.
