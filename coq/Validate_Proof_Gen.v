(* Validate_Proof_Gen.v — property C14: the theorems instantiated at the GENERATED tables
   (coq/gen/Validate.v, regenerated from the C++ working tree by translate/t_val.py on every run),
   readings of the documented cells as plain inequalities, and the regression theorems about the
   stage order of the tree before repair F27 (no parameters.checkTypes(defaults)). *)

From Coq Require Import ZArith QArith Qround List Bool Arith Lia.
Import ListNotations.
From TK Require Import Validate_Model Validate_Spec Validate_Proof Validate_Proof_Steps
  Validate_Proof_Main Validate.
Local Open Scope nat_scope.

(* ------------------------------------------------------------------ the generated table *)
(* finite: by evaluation *)
Lemma gen_summary : summarise gen_tables = doc_tables.
Proof. vm_compute. reflexivity. Qed.

Lemma gen_wf : wf gen_tables.
Proof. constructor; vm_compute; reflexivity. Qed.

Definition outcome_of (res : result) : option exc :=
  match res with RThrow e => Some e | RDone _ => None end.

Lemma gen_exec : forall r, exists tr,
  exec gen_tables r =
    (tr, match spec_decide r with
         | Some c => RThrow (exc_of c)
         | None => RDone (pm_merge (rq_kws r) doc_defaults)
         end) /\
  (spec_decide r <> None -> existsb is_kd tr = false).
Proof. intros r. exact (exec_documented gen_tables r gen_wf gen_summary). Qed.

Lemma gen_decide : forall r,
  decide gen_tables r =
  match spec_decide r with
  | Some c => RThrow (exc_of c)
  | None => RDone (pm_merge (rq_kws r) doc_defaults)
  end.
Proof. intros r. destruct (gen_exec r) as [tr [E _]]. unfold decide. now rewrite E. Qed.

Lemma gen_outcome : forall r, outcome_of (decide gen_tables r) = spec_outcome r.
Proof.
  intros r. rewrite gen_decide. unfold spec_outcome. destruct (spec_decide r); reflexivity.
Qed.

Lemma gen_before_any_evaluation : forall r e,
  decide gen_tables r = RThrow e -> evaluates gen_tables r = false.
Proof.
  intros r e H. destruct (gen_exec r) as [tr [E K]]. unfold decide in H. unfold evaluates.
  rewrite E in *. cbn [fst snd] in *. apply K. destruct (spec_decide r); congruence.
Qed.

Lemma RDone_inj : forall a b, RDone a = RDone b -> a = b.
Proof. intros a b H. injection H. auto. Qed.

Lemma gen_explicit_wins : forall r pm k v,
  decide gen_tables r = RDone pm -> explicit r k = Some v -> pm_lookup k pm = Some v.
Proof.
  intros r pm k v H X. rewrite gen_decide in H. destruct (spec_decide r); [discriminate|].
  apply RDone_inj in H. subst pm. rewrite (merged_agrees r k). unfold effective. rewrite X. reflexivity.
Qed.

Lemma gen_defaults_fill : forall r pm k,
  decide gen_tables r = RDone pm -> explicit r k = None -> pm_lookup k pm = pm_lookup k doc_defaults.
Proof.
  intros r pm k H X. rewrite gen_decide in H. destruct (spec_decide r); [discriminate|].
  apply RDone_inj in H. subst pm. rewrite (merged_agrees r k). unfold effective. rewrite X. reflexivity.
Qed.

Lemma find_none_iff : forall (A : Type) (p : A -> bool) l,
  find p l = None <-> (forall x, In x l -> p x = false).
Proof.
  induction l as [|a l IH]; cbn.
  - split; auto. intros _ x [].
  - destruct (p a) eqn:E.
    + split; [discriminate|]. intros H. rewrite (H a) in E; auto. discriminate.
    + rewrite IH. split.
      * intros H x [<-|I]; auto.
      * intros H x I. apply H. now right.
Qed.

Lemma gen_accept_inside : forall r,
  (forall c, In c (documented_order r) -> violated r c = false) ->
  decide gen_tables r = RDone (pm_merge (rq_kws r) doc_defaults).
Proof.
  intros r H. rewrite gen_decide. unfold spec_decide.
  apply find_none_iff in H. now rewrite H.
Qed.

Lemma gen_reject_outside : forall r c,
  In c (documented_order r) -> violated r c = true ->
  exists c', In c' (documented_order r) /\ violated r c' = true /\
             decide gen_tables r = RThrow (exc_of c') /\ evaluates gen_tables r = false.
Proof.
  intros r c I V. destruct (spec_decide r) as [c'|] eqn:D.
  - unfold spec_decide in D. pose proof (find_some _ _ D) as [I' V'].
    exists c'. repeat split; auto.
    + rewrite gen_decide. unfold spec_decide. now rewrite D.
    + apply (gen_before_any_evaluation r (exc_of c')). rewrite gen_decide. unfold spec_decide. now rewrite D.
  - unfold spec_decide in D. rewrite find_none_iff in D. rewrite (D c I) in V. discriminate.
Qed.

(* ------------------------------------------------------------------ reading the cells *)
Lemma range_clause : forall r gs c v x,
  effective r (c_kw c) = Some v -> value_Q v = Some x ->
  violated r (CRange gs c) = forallb (spec_guard r) gs && negb (pred_holds (spec_env r) (c_ty c) (c_pred c) x).
Proof. intros r gs c v x E X. cbn [violated]. unfold out_of_range. now rewrite E, X. Qed.

Lemma inside_index_range : forall E lo z,
  pred_holds E TIndex (in_range (BInt lo) BN) (inject_Z z) = true <-> (lo <= z < e_n E)%Z.
Proof.
  intros E lo z. rewrite in_range_spec. unfold bound. cbn [eval_bexpr coerce num_Q].
  rewrite <- Zle_Qle, <- Zlt_Qlt. reflexivity.
Qed.

Lemma inside_closed_index_range : forall E lo hi k z,
  eval_bexpr E hi = NI k ->
  (pred_holds E TIndex (in_closed_range (BInt lo) hi) (inject_Z z) = true <-> (lo <= z <= k)%Z).
Proof.
  intros E lo hi k z H. rewrite in_closed_range_spec. unfold bound. rewrite H.
  cbn [eval_bexpr coerce num_Q]. rewrite <- !Zle_Qle. reflexivity.
Qed.

Lemma target_dimension_cell : forall r z,
  effective r kw_target_dimension = Some (VIndex z) ->
  (violated r (CRange [] cell_target_dimension) = false <-> (1 <= z < rq_n r)%Z).
Proof.
  intros r z E. rewrite (range_clause r [] cell_target_dimension (VIndex z) (inject_Z z) E eq_refl).
  cbn [forallb andb]. rewrite negb_false_iff. apply inside_index_range.
Qed.

Lemma num_neighbors_cell : forall r gs z,
  effective r kw_num_neighbors = Some (VIndex z) -> forallb (spec_guard r) gs = true ->
  (violated r (CRange gs cell_num_neighbors) = false <-> (3 <= z < rq_n r)%Z).
Proof.
  intros r gs z E G. rewrite (range_clause r gs cell_num_neighbors (VIndex z) (inject_Z z) E eq_refl).
  rewrite G. cbn [andb]. rewrite negb_false_iff. apply inside_index_range.
Qed.

(* the ranges added by repairs F21 / F12 *)
Lemma td_features_cell : forall r z,
  effective r kw_target_dimension = Some (VIndex z) ->
  (violated r (CRange [] cell_td_features) = false <-> (1 <= z <= cur_dim r)%Z).
Proof.
  intros r z E. rewrite (range_clause r [] cell_td_features (VIndex z) (inject_Z z) E eq_refl).
  cbn [forallb andb]. rewrite negb_false_iff.
  apply (inside_closed_index_range (spec_env r) 1 BDim (cur_dim r) z). reflexivity.
Qed.

Lemma td_neighbors_cell : forall r z k,
  effective r kw_target_dimension = Some (VIndex z) ->
  effective r kw_num_neighbors = Some (VIndex k) ->
  (violated r (CRange [] cell_td_neighbors) = false <-> (1 <= z <= k)%Z).
Proof.
  intros r z k E K. rewrite (range_clause r [] cell_td_neighbors (VIndex z) (inject_Z z) E eq_refl).
  cbn [forallb andb]. rewrite negb_false_iff.
  apply (inside_closed_index_range (spec_env r) 1 (BParam kw_num_neighbors TIndex) k z).
  cbn [eval_bexpr spec_env e_get]. now rewrite K.
Qed.

Lemma td_landmarks_cell : forall r z q,
  effective r kw_target_dimension = Some (VIndex z) ->
  effective r kw_landmark_ratio = Some (VScalar q) ->
  (violated r (CRange [] cell_td_landmarks) = false <->
   (1 <= z <= Qtrunc (inject_Z (rq_n r) * q))%Z).
Proof.
  intros r z q E K. rewrite (range_clause r [] cell_td_landmarks (VIndex z) (inject_Z z) E eq_refl).
  cbn [forallb andb]. rewrite negb_false_iff.
  apply (inside_closed_index_range (spec_env r) 1
           (BTrunc (BMul BN (BParam kw_landmark_ratio TScalar))) _ z).
  cbn [eval_bexpr spec_env e_get e_n]. now rewrite K.
Qed.

Lemma td_two_cell : forall r z th,
  effective r kw_target_dimension = Some (VIndex z) ->
  effective r kw_sne_theta = Some (VScalar th) ->
  (violated r (CRange [theta_positive] cell_td_two) = false <-> ((0 < th)%Q -> z = 2%Z)).
Proof.
  intros r z th E K.
  rewrite (range_clause r [theta_positive] cell_td_two (VIndex z) (inject_Z z) E eq_refl).
  cbn [forallb spec_guard theta_positive guard_on]. rewrite K. cbn [value_Q]. rewrite andb_true_r.
  assert (P : pred_holds (spec_env r) (c_ty cell_td_two) (c_pred cell_td_two) (inject_Z z) = true
              <-> (2 <= z <= 2)%Z).
  { apply (inside_closed_index_range (spec_env r) 2 (BInt 2) 2 z). reflexivity. }
  destruct (Qltb 0 th) eqn:L; cbn [Bool.eqb andb].
  - apply Qltb_lt in L. rewrite negb_false_iff, P. split; [intros; lia | intros H; specialize (H L); lia].
  - split; auto. intros _ H. apply Qltb_lt in H. congruence.
Qed.

Lemma positive_cell : forall r c v x,
  c_pred c = positive -> effective r (c_kw c) = Some v -> value_Q v = Some x ->
  (violated r (CRange [] c) = false <-> (0 < x)%Q).
Proof.
  intros r c v x P E X. rewrite (range_clause r [] c v x E X). cbn [forallb andb].
  rewrite negb_false_iff, P. apply positive_spec.
Qed.

Lemma non_negative_cell : forall r c v x,
  c_pred c = non_negative -> effective r (c_kw c) = Some v -> value_Q v = Some x ->
  (violated r (CRange [] c) = false <-> (0 <= x)%Q).
Proof.
  intros r c v x P E X. rewrite (range_clause r [] c v x E X). cbn [forallb andb].
  rewrite negb_false_iff, P. apply non_negative_spec.
Qed.

Lemma landmark_ratio_cell : forall r q,
  effective r kw_landmark_ratio = Some (VScalar q) ->
  (violated r (CRange [] cell_landmark_ratio) = false <-> (3 / inject_Z (rq_n r) <= q /\ q <= 1)%Q).
Proof.
  intros r q E. rewrite (range_clause r [] cell_landmark_ratio (VScalar q) q E eq_refl).
  cbn [forallb andb]. rewrite negb_false_iff.
  change (c_pred cell_landmark_ratio) with (in_closed_range (BDiv (BReal 3) BN) (BReal 1)).
  rewrite in_closed_range_spec.
  destruct (bound_landmark_ratio (spec_env r)) as [B1 B2].
  change (c_ty cell_landmark_ratio) with TScalar. now rewrite B1, B2.
Qed.

Lemma perplexity_cell : forall r q,
  effective r kw_sne_perplexity = Some (VScalar q) ->
  (violated r (CRange [] cell_perplexity) = false <-> (0 <= q /\ q <= (inject_Z (rq_n r) - 1) / 3)%Q).
Proof.
  intros r q E. rewrite (range_clause r [] cell_perplexity (VScalar q) q E eq_refl).
  cbn [forallb andb]. rewrite negb_false_iff.
  change (c_pred cell_perplexity) with (in_closed_range (BReal 0) (BDiv (BSub BN (BInt 1)) (BReal 3))).
  rewrite in_closed_range_spec.
  destruct (bound_perplexity (spec_env r)) as [B1 B2].
  change (c_ty cell_perplexity) with TScalar. now rewrite B1, B2.
Qed.

Lemma squishing_cell : forall r q,
  effective r kw_squishing_rate = Some (VScalar q) ->
  (violated r (CRange [] cell_squishing) = false <-> (0 <= q /\ q < 1)%Q).
Proof.
  intros r q E. rewrite (range_clause r [] cell_squishing (VScalar q) q E eq_refl).
  cbn [forallb andb]. rewrite negb_false_iff.
  change (c_pred cell_squishing) with (in_range (BReal 0) (BReal 1)).
  rewrite in_range_spec. reflexivity.
Qed.

(* ------------------------------------------------------------------ the tree before repair F27 *)
Section Old.
  Variable T : tables.
  Variable r : request.

  Lemma translate_old : forall e, translate (old_of T) e = translate T e.
  Proof. reflexivity. Qed.

  Lemma exec_steps_old : forall pm steps, exec_steps (old_of T) r pm steps = exec_steps T r pm steps.
  Proof.
    intros pm. induction steps as [|[gs b] rest IH]; auto.
    cbn [exec_steps]. rewrite IH. destruct (forallb (guard_holds pm) gs); auto.
  Qed.

  Lemma do_stage_old : forall s st, do_stage (old_of T) r s st = do_stage T r s st.
  Proof.
    intros s st. destruct st; try reflexivity.
    cbn [do_stage]. change (selected (old_of T)) with (selected T).
    destruct (selected T (ps_map s) k); auto. now rewrite exec_steps_old.
  Qed.

  Lemma exec_stages_old : forall stages s, exec_stages (old_of T) r s stages = exec_stages T r s stages.
  Proof.
    induction stages as [|st rest IH]; intros s; auto.
    rewrite !exec_stages_cons, do_stage_old. destruct (do_stage T r s st); auto. now rewrite IH.
  Qed.

  Hypothesis W : wf T.

  (* on requests whose values all have the declared types, the old stage order (no checkTypes)
     behaves exactly like the repaired one *)
  Lemma old_same_when_well_typed : well_typed r -> exec (old_of T) r = exec T r.
  Proof.
    intros WT. unfold exec. rewrite exec_stages_old. cbn [old_of t_stages].
    rewrite (wf_stages T W). unfold doc_stages. cbn [old_stages filter is_check_types negb].
    rewrite !exec_stages_cons with (st := SCheckDups).
    cbn [do_stage].
    destruct (ps_dups (ps_build (rq_kws r))) eqn:D; auto.
    rewrite exec_stages_cons with (st := SCheckTypes). cbn [do_stage].
    assert (ND : nodupb (map fst (rq_kws r)) = true).
    { destruct (nodupb (map fst (rq_kws r))) eqn:N; auto.
      pose proof (build_dup _ N). congruence. }
    rewrite (build_nodup _ ND). cbn [ps_map]. rewrite (wf_defaults T W).
    unfold well_typed in WT. rewrite WT.
    destruct (exec_stages T r {| ps_map := rq_kws r; ps_dups := [] |}
                (SMerge :: SConv kw_method TMethod :: SConv kw_progress_function TProgress ::
                 SConv kw_cancel_function TCancel :: SNoData :: SCheck cell_target_dimension ::
                 SFeatDim :: SCancel kw_cancel_function :: SNeed kw_method CbKernel CbKernel ::
                 SNeed kw_method CbDistance CbDistance :: SNeed kw_method CbFeatures CbFeatures ::
                 [SDispatch kw_method])) as [tr res].
    reflexivity.
  Qed.
End Old.

Lemma gen_old_same_when_well_typed : forall r, well_typed r ->
  exec (old_of gen_tables) r = exec gen_tables r.
Proof. intros r. apply old_same_when_well_typed. exact gen_wf. Qed.

(* witnesses: the old stage order breaks the wrong-type clause in both ways *)
Definition all_callbacks (kws : list (kwid * value)) (n : Z) : request :=
  {| rq_kws := kws; rq_n := n; rq_dim := 24; rq_kernel := true; rq_distance := true; rq_features := true |}.

(* Kernel PCA with an eigen method of a foreign type: the kernel matrix is evaluated first *)
Definition witness_late : request :=
  all_callbacks [(kw_method, VMethod KernelPCA); (kw_eigen_method, VOther 0)] 6.
(* PCA with a number of neighbours of type double: never noticed *)
Definition witness_never : request :=
  all_callbacks [(kw_method, VMethod PCA); (kw_num_neighbors, VScalar 2)] 6.

Lemma old_wrong_type_late_refuted :
  spec_outcome witness_late = Some WrongType /\
  decide (old_of gen_tables) witness_late = RThrow WrongType /\
  evaluates (old_of gen_tables) witness_late = true.
Proof. vm_compute. repeat split; reflexivity. Qed.

Lemma old_wrong_type_never_refuted :
  spec_outcome witness_never = Some WrongType /\
  outcome_of (decide (old_of gen_tables) witness_never) = None.
Proof. vm_compute. split; reflexivity. Qed.

Lemma repaired_on_witnesses :
  decide gen_tables witness_late = RThrow WrongType /\ evaluates gen_tables witness_late = false /\
  decide gen_tables witness_never = RThrow WrongType.
Proof. vm_compute. repeat split; reflexivity. Qed.

(* ------------------------------------------------------------------ declared keyword types *)
(* keywords.hpp declares every keyword with the type of its documented default (and `method` as a
   DimensionReductionMethod): finite, by evaluation *)
Fixpoint kw_assoc (k : kwid) (l : list (kwid * vtype)) : option vtype :=
  match l with
  | [] => None
  | (k', t) :: rest => if Nat.eqb k k' then Some t else kw_assoc k rest
  end.

Definition opt_vtype_eqb (a b : option vtype) : bool :=
  match a, b with
  | Some x, Some y => vtype_eqb x y
  | None, None => true
  | _, _ => false
  end.

Lemma gen_kwtypes_checked :
  forallb (fun k => opt_vtype_eqb (kw_assoc k gen_kwtypes) (kw_assoc k doc_kwtypes)) (seq 0 22) = true /\
  map fst gen_kwtypes = seq 0 22.
Proof. vm_compute. split; reflexivity. Qed.

Lemma gen_kwtypes_agree : forall k, k < 22 -> kw_assoc k gen_kwtypes = kw_assoc k doc_kwtypes.
Proof.
  intros k H. destruct gen_kwtypes_checked as [A _]. rewrite forallb_forall in A.
  assert (I : In k (seq 0 22)) by (apply in_seq; lia).
  specialize (A k I). destruct (kw_assoc k gen_kwtypes) as [x|], (kw_assoc k doc_kwtypes) as [y|];
    cbn in A; try discriminate; auto. apply vtype_eqb_eq in A. now subst.
Qed.
