(* Conn_Proof_Knn.v — the hypothesis "the search returns exact k-NN lists" of the C03
   theorems is literally the conclusion of property C02: Knn_Spec.is_knn (indices in Z,
   one row) implies Conn_Spec.is_knn_row (indices in nat) for the same metric.  Only the
   specification file of C02 is used. *)
From Coq Require Import List Arith Bool ZArith Lia.
From TK Require Import Conn_Model Conn_Spec Conn_Proof Conn_Proof_Main.
From TK Require Knn_Spec.
Import ListNotations.

Definition dist_nat (d : Z -> Z -> Z) (a b : nat) : Z := d (Z.of_nat a) (Z.of_nat b).

Definition graph_of_Z (rows : list (list Z)) : graph := map (map Z.to_nat) rows.

Lemma in_map_to_nat : forall N (l : list Z) (j : nat),
  (forall i, In i l -> (0 <= i < Z.of_nat N)%Z) ->
  (In j (map Z.to_nat l) <-> In (Z.of_nat j) l).
Proof.
  intros N l j Hr. split.
  - intros H. apply in_map_iff in H. destruct H as [z [E Hz]].
    specialize (Hr z Hz). subst j. rewrite Z2Nat.id by lia. exact Hz.
  - intros H. apply in_map_iff. exists (Z.of_nat j). split; auto. apply Nat2Z.id.
Qed.

Lemma c02_row : forall d N k i l,
  Knn_Spec.is_knn d N (Z.of_nat i) k l ->
  is_knn_row (dist_nat d) N k i (map Z.to_nat l).
Proof.
  intros d N k i l [ND [L [Hq [Hr Hm]]]].
  split; [rewrite map_length; exact L|]. split; [|split].
  - clear L Hq Hm. induction l as [|h t IH]; cbn; [constructor|].
    inversion ND as [|? ? Hnin ND']; subst. constructor.
    + intros Hin. apply in_map_iff in Hin. destruct Hin as [z [E Hz]].
      assert (Hh : (0 <= h < Z.of_nat N)%Z) by (apply Hr; left; auto).
      assert (Hzr : (0 <= z < Z.of_nat N)%Z) by (apply Hr; right; auto).
      assert (z = h) by (apply Z2Nat.inj; lia). subst. contradiction.
    + apply IH; auto. intros x Hx. apply Hr. right; auto.
  - intros j Hj. apply (in_map_to_nat N l j Hr) in Hj. split.
    + specialize (Hr _ Hj). lia.
    + intros ->. contradiction.
  - intros j m Hj HmN Hmi Hnin. unfold dist_nat.
    apply (in_map_to_nat N l j Hr) in Hj.
    apply Hm; auto.
    + intros Hin. apply Hnin. apply (in_map_to_nat N l m Hr). exact Hin.
    + intros E. apply Hmi. apply Nat2Z.inj. exact E.
    + lia.
Qed.

Lemma c02_graph : forall d N k (rows : list (list Z)),
  length rows = N ->
  (forall i, i < N -> Knn_Spec.is_knn d N (Z.of_nat i) k (nth i rows [])) ->
  is_knn_graph (dist_nat d) N k (graph_of_Z rows).
Proof.
  intros d N k rows Hl Hrows. split.
  - unfold graph_of_Z. rewrite map_length. exact Hl.
  - intros i Hi. unfold graph_of_Z.
    change (@nil nat) with (map Z.to_nat []). rewrite map_nth. apply c02_row. apply Hrows; auto.
Qed.

(* the minimality theorem with its hypothesis in C02's own vocabulary *)
Lemma main_cc_from_c02 : forall d N (search : nat -> list (list Z)),
  1 <= N ->
  (forall k, k <= N - 1 -> length (search k) = N /\
     forall i, i < N -> Knn_Spec.is_knn d N (Z.of_nat i) k (nth i (search k) [])) ->
  forall k, 1 <= k ->
  exists j, find_neighbors is_connected_fixed (fun k => graph_of_Z (search k)) N N k true
            = COk (kseq N k j, graph_of_Z (search (kseq N k j))) /\
    strongly_connected N (graph_of_Z (search (kseq N k j))) /\
    forall j', j' < j -> ~ strongly_connected N (graph_of_Z (search (kseq N k j'))).
Proof.
  intros d N search HN Hs k Hk.
  apply (main_cc_minimal (dist_nat d) (fun k => graph_of_Z (search k)) N); auto.
  intros k0 Hk0. destruct (Hs k0 Hk0) as [Hl Hr]. apply c02_graph; auto.
Qed.

(* non-vacuity: three samples on a line at 0, 2, 3 *)
Definition c02_d (a b : Z) : Z := Z.abs (nth (Z.to_nat a) [0; 2; 3]%Z 0%Z - nth (Z.to_nat b) [0; 2; 3]%Z 0%Z).
Definition c02_search (k : nat) : list (list Z) :=
  match k with
  | O => [[]; []; []]
  | S O => [[1]; [2]; [1]]%Z
  | _ => [[1; 2]; [2; 0]; [1; 0]]%Z
  end.

Lemma nv_c02 : 1 <= 3 /\
  (forall k, k <= 3 - 1 -> length (c02_search k) = 3 /\
     forall i, i < 3 -> Knn_Spec.is_knn c02_d 3 (Z.of_nat i) k (nth i (c02_search k) [])).
Proof.
  split; [lia|]. intros k Hk.
  assert (Hc : k = 0 \/ k = 1 \/ k = 2) by lia.
  destruct Hc as [-> | [-> | ->]]; (split; [reflexivity|]); intros i Hi;
    assert (Hi' : i = 0 \/ i = 1 \/ i = 2) by lia;
    destruct Hi' as [-> | [-> | ->]]; apply Knn_Spec.is_knn_b_spec; vm_compute; reflexivity.
Qed.
