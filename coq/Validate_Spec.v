(* Validate_Spec.v — property C14: the DOCUMENTED behaviour, written by hand.

   1. predicate objects of the statement (in_range, in_closed_range, positive, non_negative),
   2. the documented table: defaults of the 21 optional keywords, traits of the 20 methods, the
      (keyword, method) cells with their bounds, the order of the tests,
   3. `summarise`: what of a generated table the property talks about (conversions that cannot
      fail are dropped, everything after the first kernel/distance evaluation is cut),
   4. `wf`: side conditions under which the summary is faithful (Validate_Proof.summarise_sound),
   5. the specification proper: the ordered list of documented clauses of a request, a boolean
      `violated`, and `spec_decide` = first violated clause.

   Nothing here is generated and nothing here is proved (see Validate_Proof.v). *)

From Coq Require Import ZArith QArith Qround List Bool Arith.
Import ListNotations.
From TK Require Import Validate_Model.
Local Open Scope nat_scope.

(* ------------------------------------------------------------------ identifiers *)
(* numbering fixed in translate/t_val.py (KW_IDS, METHOD_IDS, ENUM_IDS) *)
Definition kw_computation_strategy : kwid := 0.
Definition kw_method : kwid := 1.
Definition kw_eigen_method : kwid := 2.
Definition kw_neighbors_method : kwid := 3.
Definition kw_num_neighbors : kwid := 4.
Definition kw_target_dimension : kwid := 5.
Definition kw_diffusion_map_timesteps : kwid := 6.
Definition kw_gaussian_kernel_width : kwid := 7.
Definition kw_max_iteration : kwid := 8.
Definition kw_spe_global_strategy : kwid := 9.
Definition kw_spe_num_updates : kwid := 10.
Definition kw_spe_tolerance : kwid := 11.
Definition kw_landmark_ratio : kwid := 12.
Definition kw_nullspace_shift : kwid := 13.
Definition kw_klle_shift : kwid := 14.
Definition kw_check_connectivity : kwid := 15.
Definition kw_fa_epsilon : kwid := 16.
Definition kw_progress_function : kwid := 17.
Definition kw_cancel_function : kwid := 18.
Definition kw_sne_perplexity : kwid := 19.
Definition kw_sne_theta : kwid := 20.
Definition kw_squishing_rate : kwid := 21.

Definition KLLE : methid := 0.      Definition KLTSA : methid := 1.
Definition DiffusionMap : methid := 2.  Definition MDS : methid := 3.
Definition LandmarkMDS : methid := 4.   Definition Isomap : methid := 5.
Definition LandmarkIsomap : methid := 6. Definition NPE : methid := 7.
Definition LLTSA : methid := 8.     Definition HLLE : methid := 9.
Definition LaplacianEigenmaps : methid := 10. Definition LPP : methid := 11.
Definition PCA : methid := 12.      Definition KernelPCA : methid := 13.
Definition RandomProjection : methid := 14. Definition SPE : methid := 15.
Definition PassThru : methid := 16. Definition FactorAnalysis : methid := 17.
Definition tSNE : methid := 18.     Definition ManifoldSculpting : methid := 19.

(* ------------------------------------------------------------------ 1. predicates *)
Definition in_range (l u : bexpr) : pred := {| p_lo := Some (false, l); p_hi := Some (true, u) |}.
Definition in_closed_range (l u : bexpr) : pred := {| p_lo := Some (false, l); p_hi := Some (false, u) |}.
Definition positive : pred := {| p_lo := Some (true, BInt 0); p_hi := None |}.
Definition non_negative : pred := {| p_lo := Some (false, BInt 0); p_hi := None |}.

(* the value a bound expression denotes for a check over type ty *)
Definition bound (n : env) (ty : vtype) (b : bexpr) : Q := coerce ty (eval_bexpr n b).

(* ------------------------------------------------------------------ 2. the documented table *)
(* cells of the property statement *)
Definition cell_target_dimension : check :=      (* target_dimension in [1, N) *)
  {| c_kw := kw_target_dimension; c_ty := TIndex; c_pred := in_range (BInt 1) BN |}.
Definition cell_num_neighbors : check :=         (* num_neighbors in [3, N) *)
  {| c_kw := kw_num_neighbors; c_ty := TIndex; c_pred := in_range (BInt 3) BN |}.
Definition cell_width : check :=                 (* gaussian kernel width > 0 *)
  {| c_kw := kw_gaussian_kernel_width; c_ty := TScalar; c_pred := positive |}.
Definition cell_timesteps : check :=             (* diffusion map timesteps > 0 *)
  {| c_kw := kw_diffusion_map_timesteps; c_ty := TIndex; c_pred := positive |}.
Definition cell_spe_tolerance : check :=         (* SPE tolerance > 0 *)
  {| c_kw := kw_spe_tolerance; c_ty := TScalar; c_pred := positive |}.
Definition cell_spe_updates : check :=           (* SPE number of updates > 0 *)
  {| c_kw := kw_spe_num_updates; c_ty := TIndex; c_pred := positive |}.
Definition cell_landmark_ratio : check :=        (* landmark_ratio in [3/N, 1] *)
  {| c_kw := kw_landmark_ratio; c_ty := TScalar;
     c_pred := in_closed_range (BDiv (BReal 3) BN) (BReal 1) |}.
Definition cell_perplexity : check :=            (* perplexity in [0, (N-1)/3] *)
  {| c_kw := kw_sne_perplexity; c_ty := TScalar;
     c_pred := in_closed_range (BReal 0) (BDiv (BSub BN (BInt 1)) (BReal 3)) |}.
Definition cell_theta : check :=                 (* theta >= 0 *)
  {| c_kw := kw_sne_theta; c_ty := TScalar; c_pred := non_negative |}.
Definition cell_fa_epsilon : check :=            (* FA epsilon >= 0 *)
  {| c_kw := kw_fa_epsilon; c_ty := TScalar; c_pred := non_negative |}.
Definition cell_squishing : check :=             (* squishing rate in [0, 1) *)
  {| c_kw := kw_squishing_rate; c_ty := TScalar; c_pred := in_range (BReal 0) (BReal 1) |}.

(* ranges added by repairs F21 / F12 (now part of the documented ranges) *)
Definition cell_td_features : check :=           (* target_dimension in [1, feature dimension] *)
  {| c_kw := kw_target_dimension; c_ty := TIndex; c_pred := in_closed_range (BInt 1) BDim |}.
Definition cell_td_neighbors : check :=          (* target_dimension in [1, num_neighbors] *)
  {| c_kw := kw_target_dimension; c_ty := TIndex;
     c_pred := in_closed_range (BInt 1) (BParam kw_num_neighbors TIndex) |}.
Definition cell_td_landmarks : check :=          (* target_dimension in [1, int(N * landmark_ratio)] *)
  {| c_kw := kw_target_dimension; c_ty := TIndex;
     c_pred := in_closed_range (BInt 1) (BTrunc (BMul BN (BParam kw_landmark_ratio TScalar))) |}.
Definition cell_td_two : check :=                (* Barnes-Hut t-SNE: target_dimension = 2 *)
  {| c_kw := kw_target_dimension; c_ty := TIndex; c_pred := in_closed_range (BInt 2) (BInt 2) |}.
Definition theta_positive : guard := GGt kw_sne_theta TScalar 0 true.

(* documented defaults (doc comments of defines/keywords.hpp); doubles are written as the exact
   rational of the nearest double: 1e-9, 1e-3, 0.99 *)
Definition dbl_1e_9 : Q := 4835703278458517 # 4835703278458516698824704.
Definition dbl_1e_3 : Q := 1152921504606847 # 1152921504606846976.
Definition dbl_0_99 : Q := 4458563631096791 # 4503599627370496.

Definition doc_defaults : pmap :=
  [ (kw_computation_strategy, VStrategy 0);        (* HomogeneousCPUStrategy *)
    (kw_eigen_method, VEigen 2);                   (* Dense (no ARPACK in this build) *)
    (kw_neighbors_method, VNeighbors 2);           (* CoverTree (TAPKEE_USE_LGPL_COVERTREE) *)
    (kw_num_neighbors, VIndex 5);
    (kw_target_dimension, VIndex 2);
    (kw_diffusion_map_timesteps, VIndex 3);
    (kw_gaussian_kernel_width, VScalar 1);
    (kw_max_iteration, VIndex 100);
    (kw_spe_global_strategy, VBool true);
    (kw_spe_num_updates, VIndex 100);
    (kw_spe_tolerance, VScalar dbl_1e_9);
    (kw_landmark_ratio, VScalar (1 # 2));
    (kw_nullspace_shift, VScalar dbl_1e_9);
    (kw_klle_shift, VScalar dbl_1e_3);
    (kw_check_connectivity, VBool true);
    (kw_fa_epsilon, VScalar dbl_1e_9);
    (kw_progress_function, VProgress false);       (* NULL *)
    (kw_cancel_function, VCancel None);            (* NULL *)
    (kw_sne_perplexity, VScalar 30);
    (kw_sne_theta, VScalar (1 # 2));
    (kw_squishing_rate, VScalar dbl_0_99) ].

(* documented order of the tests of embed() *)
Definition doc_stages : list stage :=
  [ SCheckDups;                                   (* keyword given twice           *)
    SCheckTypes;                                  (* value of the wrong type       *)
    SMerge;
    SConv kw_method TMethod;                      (* method missing                *)
    SConv kw_progress_function TProgress;
    SConv kw_cancel_function TCancel;
    SNoData;                                      (* empty range                   *)
    SCheck cell_target_dimension;
    SFeatDim;
    SCancel kw_cancel_function;                   (* cancel function returns true  *)
    SNeed kw_method CbKernel CbKernel;            (* missing required callback     *)
    SNeed kw_method CbDistance CbDistance;
    SNeed kw_method CbFeatures CbFeatures;
    SDispatch kw_method ].                        (* validate(), then embed()      *)

(* the stage order of the tree BEFORE repair F27 (no parameters.checkTypes(defaults)): kept for the
   regression theorems *)
Definition is_check_types (st : stage) : bool := match st with SCheckTypes => true | _ => false end.
Definition old_stages (l : list stage) : list stage := filter (fun st => negb (is_check_types st)) l.
Definition old_of (T : tables) : tables :=
  {| t_kwtypes := t_kwtypes T; t_defaults := t_defaults T; t_stages := old_stages (t_stages T);
     t_methods := t_methods T; t_rethrow := t_rethrow T |}.

Definition doc_rethrow : list (sw_exc * exc) :=
  [ (SwWrongValue, WrongValue); (SwWrongType, WrongType); (SwMultiple, Multiple); (SwMissed, Missed) ].

(* one row per method: traits (kernel, distance, features), the cells of validate(), and what
   embed() does up to its first kernel / distance evaluation *)
Record doc_method := {
  dm_id : methid;
  dm_kernel : bool; dm_distance : bool; dm_features : bool;
  dm_cells : list step;
  dm_pre : list step
}.

Definition chk (c : check) : step := ([], BCheck c).
Definition ev (cb : callback) : step := ([], BEval cb).
(* a local method: its first statement is the neighbour search over the callback cb *)
Definition local_on (cb : callback) : list step := [chk cell_num_neighbors; ev cb].
Definition spe_is_local : guard := GIs kw_spe_global_strategy (VBool false) true.

Definition doc_method_table : list doc_method :=
  [ {| dm_id := KLLE;   dm_kernel := true;  dm_distance := false; dm_features := false;
       dm_cells := []; dm_pre := local_on CbKernel |};
    {| dm_id := KLTSA;  dm_kernel := true;  dm_distance := false; dm_features := false;
       dm_cells := [chk cell_td_neighbors]; dm_pre := local_on CbKernel |};
    {| dm_id := DiffusionMap; dm_kernel := false; dm_distance := true; dm_features := false;
       dm_cells := [chk cell_timesteps; chk cell_width]; dm_pre := [ev CbDistance] |};
    {| dm_id := MDS;    dm_kernel := false; dm_distance := true;  dm_features := false;
       dm_cells := []; dm_pre := [ev CbDistance] |};
    {| dm_id := LandmarkMDS; dm_kernel := false; dm_distance := true; dm_features := false;
       dm_cells := [chk cell_landmark_ratio; chk cell_td_landmarks]; dm_pre := [ev CbDistance] |};
    {| dm_id := Isomap; dm_kernel := false; dm_distance := true;  dm_features := false;
       dm_cells := []; dm_pre := local_on CbDistance |};
    {| dm_id := LandmarkIsomap; dm_kernel := false; dm_distance := true; dm_features := false;
       dm_cells := [chk cell_landmark_ratio; chk cell_td_landmarks]; dm_pre := local_on CbDistance |};
    {| dm_id := NPE;    dm_kernel := true;  dm_distance := false; dm_features := true;
       dm_cells := [chk cell_td_features]; dm_pre := local_on CbKernel |};
    {| dm_id := LLTSA;  dm_kernel := true;  dm_distance := false; dm_features := true;
       dm_cells := [chk cell_td_features; chk cell_td_neighbors]; dm_pre := local_on CbKernel |};
    {| dm_id := HLLE;   dm_kernel := true;  dm_distance := false; dm_features := false;
       dm_cells := [chk cell_td_neighbors]; dm_pre := local_on CbKernel |};
    {| dm_id := LaplacianEigenmaps; dm_kernel := false; dm_distance := true; dm_features := false;
       dm_cells := [chk cell_width]; dm_pre := local_on CbDistance |};
    {| dm_id := LPP;    dm_kernel := false; dm_distance := true;  dm_features := true;
       dm_cells := [chk cell_td_features; chk cell_width]; dm_pre := local_on CbDistance |};
    {| dm_id := PCA;    dm_kernel := false; dm_distance := false; dm_features := true;
       dm_cells := [chk cell_td_features]; dm_pre := [ev CbFeatures] |};
    {| dm_id := KernelPCA; dm_kernel := true; dm_distance := false; dm_features := false;
       dm_cells := []; dm_pre := [ev CbKernel] |};
    {| dm_id := RandomProjection; dm_kernel := false; dm_distance := false; dm_features := true;
       dm_cells := []; dm_pre := [ev CbFeatures] |};
    (* SPE searches neighbours only with the local strategy *)
    {| dm_id := SPE;    dm_kernel := false; dm_distance := true;  dm_features := true;
       dm_cells := [chk cell_spe_tolerance; chk cell_spe_updates];
       dm_pre := [([spe_is_local], BCheck cell_num_neighbors); ([spe_is_local], BEval CbDistance);
                  ev CbDistance] |};
    {| dm_id := PassThru; dm_kernel := false; dm_distance := false; dm_features := true;
       dm_cells := []; dm_pre := [ev CbFeatures] |};
    {| dm_id := FactorAnalysis; dm_kernel := false; dm_distance := false; dm_features := true;
       dm_cells := [chk cell_fa_epsilon]; dm_pre := [ev CbFeatures] |};
    {| dm_id := tSNE;   dm_kernel := false; dm_distance := false; dm_features := true;
       dm_cells := [chk cell_perplexity; chk cell_theta; ([theta_positive], BCheck cell_td_two)]; dm_pre := [ev CbFeatures] |};
    (* Manifold Sculpting materialises the feature matrix, then searches neighbours with the
       distance callback (traits: distance and features since repair F13 of property C13) *)
    {| dm_id := ManifoldSculpting; dm_kernel := false; dm_distance := true; dm_features := true;
       dm_cells := [chk cell_td_features; chk cell_squishing];
       dm_pre := [ev CbFeatures; chk cell_num_neighbors; ev CbDistance] |} ].

Definition doc_method_info (d : doc_method) : method_info :=
  {| m_id := dm_id d;
     m_needs_kernel := dm_kernel d; m_needs_distance := dm_distance d;
     m_needs_features := dm_features d;
     m_handled := true;
     m_validate := dm_cells d;
     m_embed := dm_pre d |}.

Definition doc_kwtypes : list (kwid * vtype) :=
  (kw_method, TMethod) :: map (fun p => (fst p, type_of (snd p))) doc_defaults.

Definition doc_tables : tables :=
  {| t_kwtypes := doc_kwtypes;
     t_defaults := doc_defaults;
     t_stages := doc_stages;
     t_methods := map doc_method_info doc_method_table;
     t_rethrow := doc_rethrow |}.

(* ------------------------------------------------------------------ 3. summary of a table *)
Definition is_conv (s : step) : bool := match snd s with BConv _ _ => true | _ => false end.
Definition no_conv (s : step) : bool := negb (is_conv s).

Definition is_kd_cb (cb : callback) : bool :=
  match cb with CbKernel | CbDistance => true | CbFeatures => false end.

Definition cb_eqb (a b : callback) : bool :=
  match a, b with
  | CbKernel, CbKernel | CbDistance, CbDistance | CbFeatures, CbFeatures => true
  | _, _ => false
  end.

(* keep everything up to and including the first unconditional kernel/distance evaluation *)
Fixpoint cut_after_eval (steps : list step) : list step :=
  match steps with
  | [] => []
  | (gs, b) :: rest =>
      match gs, b with
      | [], BEval cb => if is_kd_cb cb then [(gs, b)] else (gs, b) :: cut_after_eval rest
      | _, _ => (gs, b) :: cut_after_eval rest
      end
  end.

(* several statements in a row that call the same callback count once *)
Fixpoint collapse (steps : list step) : list step :=
  match steps with
  | [] => []
  | s :: rest =>
      match s, rest with
      | ([], BEval a), ([], BEval b) :: _ => if cb_eqb a b then collapse rest else s :: collapse rest
      | _, _ => s :: collapse rest
      end
  end.

Definition summarise_steps (steps : list step) : list step :=
  collapse (cut_after_eval (filter no_conv steps)).

Definition summarise_method (m : method_info) : method_info :=
  {| m_id := m_id m;
     m_needs_kernel := m_needs_kernel m; m_needs_distance := m_needs_distance m;
     m_needs_features := m_needs_features m;
     m_handled := m_handled m;
     m_validate := filter no_conv (m_validate m);
     m_embed := summarise_steps (m_embed m) |}.

(* the declared keyword types are not part of the summary: they only type the conversions, and
   `wf` checks every conversion against the defaults directly *)
Definition summarise (T : tables) : tables :=
  {| t_kwtypes := doc_kwtypes;
     t_defaults := t_defaults T;
     t_stages := t_stages T;
     t_methods := map summarise_method (t_methods T);
     t_rethrow := t_rethrow T |}.

(* ------------------------------------------------------------------ 4. well-formed tables *)
Definition conv_safe (k : kwid) (t : vtype) : bool :=
  match pm_lookup k doc_defaults with
  | Some dv => vtype_eqb (type_of dv) t
  | None => false
  end.

Definition numeric (t : vtype) : bool :=
  match t with TIndex | TScalar => true | _ => false end.

Definition step_typed (s : step) : bool :=
  forallb (fun g => pm_mem (g_kw g) doc_defaults) (fst s) &&
  match snd s with
  | BConv k t => conv_safe k t
  | BCheck c => conv_safe (c_kw c) (c_ty c) && numeric (c_ty c)
  | BEval _ => true
  end.

(* once a kernel/distance evaluation may have happened (seen): no check any more, and a callback
   may be used only if it is certainly real (required by the traits, or already used by an
   unconditional statement) *)
Fixpoint late_safe (sure : callback -> bool) (seen : bool) (steps : list step) : bool :=
  match steps with
  | [] => true
  | (gs, b) :: rest =>
      match b with
      | BConv _ _ => late_safe sure seen rest
      | BCheck _ => negb seen && late_safe sure seen rest
      | BEval cb =>
          (negb seen || sure cb) &&
          late_safe (match gs with
                     | [] => fun c => cb_eqb c cb || sure c
                     | _ :: _ => sure
                     end)
                    (seen || is_kd_cb cb) rest
      end
  end.

Definition is_eval (s : step) : bool := match snd s with BEval _ => true | _ => false end.
Definition no_eval (s : step) : bool := negb (is_eval s).

(* validate() only converts and checks (its steps are summarised without the cut) *)
Definition method_ok (m : method_info) : bool :=
  forallb no_eval (m_validate m) &&
  forallb step_typed (m_validate m ++ m_embed m) &&
  late_safe (needs m) false (m_validate m ++ m_embed m).

Record wf (T : tables) : Prop := {
  wf_stages : t_stages T = doc_stages;
  wf_defaults : t_defaults T = doc_defaults;
  wf_rethrow : t_rethrow T = doc_rethrow;
  wf_methods : forallb method_ok (t_methods T) = true
}.

(* ------------------------------------------------------------------ 5. the specification *)
(* the value a keyword has for a request: the supplied one, else the documented default *)
Definition explicit (r : request) (k : kwid) : option value := pm_lookup k (rq_kws r).

Definition effective (r : request) (k : kwid) : option value :=
  match explicit r k with
  | Some v => Some v
  | None => pm_lookup k doc_defaults
  end.

Fixpoint nodupb (l : list kwid) : bool :=
  match l with
  | [] => true
  | k :: t => negb (existsb (Nat.eqb k) t) && nodupb t
  end.

Definition spec_method (r : request) : option method_info :=
  match effective r kw_method with
  | Some (VMethod m) => find_method doc_tables m
  | _ => None
  end.

Inductive clause :=
| CDuplicate                                   (* a keyword given twice                    *)
| CWrongType                                   (* a value of the wrong type                *)
| CMethodMissing                               (* no method                                *)
| CMethodType                                  (* the method keyword holds another type    *)
| CNoData                                      (* empty range                              *)
| CRange (gs : list guard) (c : check)         (* a value outside its documented range     *)
| CCancel                                      (* the cancel function returns true         *)
| CNeeds (cb : callback)                       (* a callback the method's traits require   *)
| CUses (gs : list guard) (cb : callback).     (* a callback the method calls first        *)

Definition exc_of (c : clause) : exc :=
  match c with
  | CDuplicate => Multiple
  | CWrongType | CMethodType => WrongType
  | CMethodMissing => Missed
  | CNoData => NoData
  | CRange _ _ => WrongValue
  | CCancel => Cancelled
  | CNeeds _ | CUses _ _ => Unsupported
  end.

Definition spec_guard (r : request) (g : guard) : bool := guard_on (effective r) g.

(* what the bound expressions of request r refer to *)
Definition spec_env (r : request) : env :=
  {| e_n := rq_n r; e_dim := cur_dim r; e_get := effective r |}.

Definition out_of_range (r : request) (c : check) : bool :=
  match effective r (c_kw c) with
  | Some v =>
      match value_Q v with
      | Some x => negb (pred_holds (spec_env r) (c_ty c) (c_pred c) x)
      | None => true
      end
  | None => true
  end.

Definition violated (r : request) (c : clause) : bool :=
  match c with
  | CDuplicate => negb (nodupb (map fst (rq_kws r)))
  | CWrongType => existsb (wrong_type_vs doc_defaults) (rq_kws r)
  | CMethodMissing => match effective r kw_method with None => true | Some _ => false end
  | CMethodType =>
      match effective r kw_method with
      | Some v => negb (vtype_eqb (type_of v) TMethod)
      | None => false
      end
  | CNoData => Z.eqb (rq_n r) 0
  | CRange gs c => forallb (spec_guard r) gs && out_of_range r c
  | CCancel =>
      match effective r kw_cancel_function with
      | Some (VCancel (Some true)) => true
      | _ => false
      end
  | CNeeds cb =>
      match spec_method r with
      | Some mi => needs mi cb && negb (has_cb r cb)
      | None => false
      end
  | CUses gs cb => forallb (spec_guard r) gs && negb (has_cb r cb)
  end.

Definition clause_of_step (s : step) : list clause :=
  match snd s with
  | BCheck c => [CRange (fst s) c]
  | BEval cb => [CUses (fst s) cb]
  | BConv _ _ => []
  end.

Definition method_clauses (r : request) : list clause :=
  match spec_method r with
  | Some mi => flat_map clause_of_step (m_validate mi ++ m_embed mi)
  | None => []
  end.

(* the documented order *)
Definition documented_order (r : request) : list clause :=
  [ CDuplicate; CWrongType; CMethodMissing; CMethodType; CNoData;
    CRange [] cell_target_dimension; CCancel;
    CNeeds CbKernel; CNeeds CbDistance; CNeeds CbFeatures ] ++ method_clauses r.

(* the first violated clause, if any *)
Definition spec_decide (r : request) : option clause :=
  find (violated r) (documented_order r).

(* the documented outcome class, for the harness: exception of the first violated clause *)
Definition spec_outcome (r : request) : option exc := option_map exc_of (spec_decide r).

(* ------------------------------------------------------------------ 6. documented bodies (wave 2)
   What the members of stichwort::ParametersSet / Parameter are documented to do, in the statement
   language of Validate_Model.v (read from the comments and the shipped code of parameter.hpp):
     check()            throws multiple_parameter_error iff some name was added twice
     checkTypes(ref)    throws wrong_parameter_type_error iff a name that ref knows holds another type
     add(p)             records the name as a duplicate if it is present, then stores p under its name
     merge(pg)          copies the entries of pg whose names are absent; never overwrites
     operator[](name)   the stored parameter, else missed_parameter_error
     (a, b) / (s, p) / (ParametersSet)a   built by add() alone, left to right *)
Definition doc_container : container :=
  {| ct_check := CsIf (CcNot CcDupsEmpty) (CsThrow SwMultiple) CsSkip;
     ct_check_types :=
       CsForEach WThis (CsIf (CcAnd (CcHas WArg KEach) (CcNot CcSameType)) (CsThrow SwWrongType) CsSkip);
     ct_add := CsSeq (CsIf (CcHas WThis KParam) (CsPushDup KParam) CsSkip) (CsAssign KParam);
     ct_merge := CsForEach WArg (CsIf (CcNot (CcHas WThis KEach)) (CsAssign KEach) CsSkip);
     ct_index := CsIf (CcHas WThis KParam) (CsReturnFound KParam) (CsThrow SwMissed);
     ct_comma_set := [CallAdd AParam];
     ct_comma_param := (InitEmpty, [CallAdd AThis; CallAdd AParam]);
     ct_to_set := (InitEmpty, [CallAdd AThis]) |}.

(* what a use P<ty>(args) of predicate number p means for the value x *)
Definition use_meaning (n : env) (u : pred_use) (x : Q) : Prop :=
  match pu_pred u, pu_args u with
  | 0, [] => (0 < x)%Q                                                       (* Positivity *)
  | 1, [] => (0 <= x)%Q                                                      (* NonNegativity *)
  | 2, [l; r] => (bound n (pu_ty u) l <= x /\ x < bound n (pu_ty u) r)%Q     (* InRange *)
  | 3, [l; r] => (bound n (pu_ty u) l <= x /\ x <= bound n (pu_ty u) r)%Q    (* InClosedRange *)
  | _, _ => False
  end.
