(* ====================================================================== *)
(*  Mds_Model_Randomized.v — C05, wave 2: the randomized front-end         *)
(*  (eigendecomposition_impl_randomized) as executed on the matrix MDS /   *)
(*  Kernel PCA hand over.  Definitions only (NO proofs); the loop itself   *)
(*  is c06's executable model Spectral_Randomized.gram_schmidt_thr.        *)
(*    DenseMatrix O(wm.rows(), target_dimension + skip)  <- gaussian_random (oracle: ANY matrix)  *)
(*    DenseMatrix Y = operation(O);            operation = selfadjointView<Upper>() * rhs         *)
(*    for i: for j < i: r = Y.col(i).dot(Y.col(j)); Y.col(i) -= r * Y.col(j);                      *)
(*           norm = Y.col(i).norm();  if (norm < 1e-4) zero columns i..;  Y.col(i) *= 1.f / norm   *)
(*    DenseMatrix B1 = operation(Y);  DenseMatrix B = Y.householderQr().solve(B1);                 *)
(*    DenseSelfAdjointEigenSolver eigenOfB(B);  (Y * eigenOfB.eigenvectors()).rightCols(d)         *)
(*  sqrt (norm), the comparison with 1e-4, the QR solve and the small eigen-solver are ORACLES:   *)
(*  their answers are inputs (s, below, Bs, W/theta).                                             *)
(* ====================================================================== *)
Require Import Arith List Bool.
From TK Require Import Mat_Sums Mat_Core Mds_Model Spectral_Randomized.

Section MdsModelRandomized.
  Context {F : Type} {Fo : FieldOps F}.
  Local Open Scope F_scope.

  (* DenseMatrix Y = operation(O);   operation = selfadjointView<Upper>() * rhs *)
  Definition rand_Y0 (n : nat) (B O : mat F) : mat F := mmul n (seen_randomized B) O.
  (* the Gram-Schmidt loop with its threshold branch, k = target_dimension + skip columns *)
  Definition rand_basis (below : F -> bool) (n k : nat) (B O : mat F) (s : nat -> F) : mat F :=
    gram_schmidt_thr below n (rand_Y0 n B O) k s.
  (* DenseMatrix B1 = operation(Y) *)
  Definition rand_B1 (n : nat) (B Y : mat F) : mat F := mmul n (seen_randomized B) Y.
  (* B = Y.householderQr().solve(B1): a solution Bs of the normal equations *)
  Definition rand_normal_eq (n k : nat) (Y B1 Bs : mat F) : Prop :=
    meq k k (mmul k (mmul n (mtrans Y) Y) Bs) (mmul n (mtrans Y) B1).
  (* (Y * eigenOfB.eigenvectors()) *)
  Definition rand_vectors (k : nat) (Y W : mat F) : mat F := mmul k Y W.
End MdsModelRandomized.
