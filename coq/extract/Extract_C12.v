From Coq Require Import Extraction ExtrOcamlBasic.
From TK Require Import Mat_Qc Equiv_Model Equiv_Spec Equiv_SpecExec.
Extraction "c12_model.ml" mds_matrix_q kpca_matrix_q isomap_matrix_q isomap_pre_f23_q lin_kernel_q sq_dist_q mean_q cov_q
  cov_pre_f8_q project_q center_q perm_rows_q rotate_q translate_q scale_q
  rel_perm_tab_b rel_perm_rows_b rel_eq_tab_b rel_scale_tab_b rel_conj_tab_b rel_affine_vec_b
  rel_scale_vec_b orth_b rel_same_dist_b perm_list_b qz qfrac laplacian_q klle_M_q diffusion_K1_q diffusion_q.
