(* c16_driver.ml — runs the extracted Fibonacci-heap model / spec on histories.
   stdin:  "M cap dn dump" starts a model case, "S cap" a spec case, then one op per line,
           "E" ends the case.  Model ops:  i idx key | d idx key | x | c
           Spec ops carry the observed outputs: i idx key n e | d idx key n e | c n e | x ei ek n e
   stdout: model case: one line per op  "O <ext> <n> <e>[ | <state>]", or "OOB d size" / "FUEL"; then "END"
           spec case:  "SPEC ok" | "SPEC fail <op index>" *)
open C16_model

let rec pos_of_int n = if n = 1 then XH else if n land 1 = 1 then XI (pos_of_int (n lsr 1)) else XO (pos_of_int (n lsr 1))
let z_of_int n = if n = 0 then Z0 else if n > 0 then Zpos (pos_of_int n) else Zneg (pos_of_int (-n))
let rec int_of_pos = function XH -> 1 | XO p -> 2 * int_of_pos p | XI p -> 2 * int_of_pos p + 1
let int_of_z = function Z0 -> 0 | Zpos p -> int_of_pos p | Zneg p -> - (int_of_pos p)
let rec nat_of_int n = if n <= 0 then O else S (nat_of_int (n - 1))
let rec int_of_nat = function O -> 0 | S n -> 1 + int_of_nat n

let rec show_tree b (Node (i, k, m, cs)) =
  Buffer.add_string b (Printf.sprintf "(%d %d %d" (int_of_z i) (int_of_z k) (if m then 1 else 0));
  List.iter (fun c -> Buffer.add_char b ' '; show_tree b c) cs;
  Buffer.add_char b ')'

let show_state h =
  let b = Buffer.create 256 in
  Buffer.add_string b (Printf.sprintf "T%d N%d" (int_of_z h.h_num_trees) (int_of_z h.h_num_nodes));
  List.iter (fun t -> Buffer.add_char b ' '; show_tree b t) h.h_roots;
  Buffer.contents b

let show_ext = function
  | None -> "-"
  | Some None -> "N"
  | Some (Some (i, k)) -> Printf.sprintf "%d:%d" (int_of_z i) (int_of_z k)

let () =
  let mode = ref ' ' and cap = ref 0 and dn = ref 0 and dump = ref false in
  let ops = ref [] and outs = ref [] in
  let finish () =
    let ops_l = List.rev !ops in
    (match !mode with
     | 'M' ->
       let h0 = empty_heap (z_of_int !cap) (nat_of_int !dn) in
       (* step through, printing as we go (no need to build the full list) *)
       let rec go h = function
         | [] -> ()
         | o :: rest ->
           (match step h o with
            | Ok (h', x) ->
              print_string (Printf.sprintf "O %s %d %d" (show_ext x.o_ext) (int_of_z x.o_n) (if x.o_empty then 1 else 0));
              if !dump then (print_string " | "; print_string (show_state h'));
              print_newline ();
              go h' rest
            | OOB (d, s) -> Printf.printf "OOB %d %d\n" (int_of_nat d) (int_of_nat s)
            | OutOfFuel -> print_string "FUEL\n")
       in
       go h0 ops_l; print_string "END\n"
     | 'S' ->
       (match spec_run_b (z_of_int !cap) [] ops_l (List.rev !outs) O with
        | None -> print_string "SPEC ok\n"
        | Some n -> Printf.printf "SPEC fail %d\n" (int_of_nat n))
     | _ -> ());
    ops := []; outs := []
  in
  let mk_out ext n e = { o_ext = ext; o_n = z_of_int n; o_empty = (e = 1) } in
  try
    while true do
      let line = input_line stdin in
      let w = Array.of_list (String.split_on_char ' ' (String.trim line)) in
      let ii k = int_of_string w.(k) in
      if Array.length w > 0 && w.(0) <> "" then
        match w.(0) with
        | "M" -> mode := 'M'; cap := ii 1; dn := ii 2; dump := (ii 3 = 1)
        | "S" -> mode := 'S'; cap := ii 1
        | "E" -> finish ()
        | "Q" -> (* Q cap : the Fibonacci requirement dn_req and the modelled constructor dn_fixed *)
          Printf.printf "Q %d %d %d\n" (ii 1) (int_of_nat (dn_req (z_of_int (ii 1)))) (int_of_nat (dn_fixed (z_of_int (ii 1))))
        | "i" -> ops := Insert (z_of_int (ii 1), z_of_int (ii 2)) :: !ops;
          if !mode = 'S' then outs := mk_out None (ii 3) (ii 4) :: !outs
        | "d" -> ops := Decrease (z_of_int (ii 1), z_of_int (ii 2)) :: !ops;
          if !mode = 'S' then outs := mk_out None (ii 3) (ii 4) :: !outs
        | "c" -> ops := Clear :: !ops;
          if !mode = 'S' then outs := mk_out None (ii 1) (ii 2) :: !outs
        | "x" -> ops := ExtractMin :: !ops;
          if !mode = 'S' then begin
            let r = if ii 1 < 0 then None else Some (z_of_int (ii 1), z_of_int (ii 2)) in
            outs := mk_out (Some r) (ii 3) (ii 4) :: !outs
          end
        | _ -> ()
    done
  with End_of_file -> ()
