From Coq Require Import Extraction ExtrOcamlBasic.
From TK Require Import Dijkstra_Model Dijkstra_Spec Dijkstra_IsoExec Dijkstra_FibC_Model Dijkstra_PQC_Model.
Extraction "c04_model.ml" full_matrix landmark_matrix landmark_matrix_fixed row_fl
  pick_first_min pick_last_min table_w
  sp_row sp_matrix sp_landmarks check_row check_matrix check_landmarks
  iso_current_exec iso_old_exec mds_ref_exec check_mds
  full_matrix_fibc landmark_matrix_fibc full_trace_fibc landmark_trace_fibc full_events_fibc
  full_matrix_pqc landmark_matrix_pqc full_trace_pqc landmark_trace_pqc.
