From Coq Require Import Extraction ExtrOcamlBasic.
From Coq Require Import QArith Qcanon.
From TK Require Import Mat_Sums Mat_Core Mat_Qc Proj_Model Proj_Spec Pca_Model Pca_Spec.
(* the closed Qc instances of the model and of the spec decision procedures: these are the
   functions the theorems of Properties_C06.v (instantiated at Qc) are about *)
Definition c06_cov := @pca_matrix_exec Qc QcOps.
Definition c06_cov_old := @pca_matrix_old_exec Qc QcOps.
(* the expanded form E[xx^T] - mean mean^T shipped between fix F8 and fix F49 (equal to c06_cov over Qc:
   theorem C06_cov_centred_and_expanded; kept so that the check can observe that equality on every exact case) *)
Definition c06_cov_expanded := @pca_matrix_expanded_exec Qc QcOps.
Definition c06_mean := @compute_mean_exec Qc QcOps.
Definition c06_seen_dense := @seen_dense_exec Qc QcOps.
Definition c06_seen_randomized := @seen_randomized_exec Qc QcOps.
Definition c06_spec_cov_dense := cov_seen_dense_b.
Definition c06_spec_cov_randomized := cov_seen_randomized_b.
Definition c06_spec_eig := eig_contract_tol_b.
Definition c06_spec_uncorrelated := uncorrelated_tol_b.
Definition c06_spec_retained := retained_tol_b.
Definition c06_spec_not_better := not_better_tol_b.
Definition c06_spec_output := output_consistent_tol_b.
Extraction "c06_model.ml" c06_cov c06_cov_old c06_cov_expanded c06_mean c06_seen_dense c06_seen_randomized
  c06_spec_cov_dense c06_spec_cov_randomized c06_spec_eig c06_spec_uncorrelated c06_spec_retained
  c06_spec_not_better c06_spec_output Q2Qc this.
