From Coq Require Import Extraction ExtrOcamlBasic.
From TK Require Import Cli_Model Cli_Spec Cli_Argv_Model Cli_Argv_Spec Cli_IntParse_Model Cli.
Extraction "c20_model.ml" cli_decide cli_main gen_tables gen_read_loop gen_read_check gen_mfc mfc_of_shape to_matrix_with read_with spec_decide obs_ok doc_tables
  read_data_fixed read_data_shipped transpose write_matrix cli_decide_argv spec_argv obs_ok_argv gen_options int_parse.
