(* c10_driver.ml — runs the extracted model / specification of property C10.
   One case per stdin line, blank separated.  Rationals are  [-]<binary numerator>/<binary denominator>
   (binary digit strings, so that no big-number library is needed on the OCaml side).
     K <variant 0=before F9|1=after F9|2=after F25|3=after F42 (current)> <npe|lltsa|lpp> N D
       X[D*N, feature major]  nnz (r c v)*nnz  ndv dv*ndv
         -> "ok <lhs D*D> <rhs D*D>"  (row major, full tables)   |  "oob site index size"
     S <npe|lltsa|lpp> N D  X[D*N]  nnz (r c v)*  ndv dv*  lhs[D*D] rhs[D*D]
         -> "spec <s> <f>"  s = spec_construct_b (what the lower-triangle reader sees), f = spec_full_b (the FULL
            tables), both on the tables the IMPLEMENTATION returned
     P <npe|lltsa|lpp> N D  X[D*N]  nnz (r c v)*  ndv dv*
         -> "ref <A D*D> <B D*D>"     (the pencil the property names)
     J N D d  X[D*N, feature major]  P[D*d, row major]
         -> "ok <mean D> <Y N*d row major>"   (compute_mean, project)   |  "oob site index size"
   Anything malformed: "err <what>". *)
open C10_model

let rec nat_of_int n = if n <= 0 then O else S (nat_of_int (n - 1))
let rec int_of_nat = function O -> 0 | S n -> 1 + int_of_nat n

let pos_of_bin (s : string) : positive =
  (* most significant digit first; leading zeros are skipped *)
  let n = String.length s in
  let i = ref 0 in
  while !i < n && s.[!i] = '0' do incr i done;
  if !i >= n then failwith "zero where a positive is needed";
  let p = ref XH in
  incr i;
  while !i < n do
    (match s.[!i] with
     | '0' -> p := XO !p
     | '1' -> p := XI !p
     | _ -> failwith "bad binary digit");
    incr i
  done;
  !p

let rec bin_of_pos = function
  | XH -> "1"
  | XO p -> bin_of_pos p ^ "0"
  | XI p -> bin_of_pos p ^ "1"

let is_zero_bin s = String.length s > 0 && String.for_all (fun c -> c = '0') s

let qc_of_token (t : string) : qc =
  let neg = String.length t > 0 && t.[0] = '-' in
  let t = if neg then String.sub t 1 (String.length t - 1) else t in
  match String.split_on_char '/' t with
  | [a; b] ->
    let num = if is_zero_bin a then Z0 else if neg then Zneg (pos_of_bin a) else Zpos (pos_of_bin a) in
    q2Qc { qnum = num; qden = pos_of_bin b }
  | _ -> failwith "bad rational"

let token_of_qc (x : qc) : string =
  let q = this x in
  let n = match q.qnum with
    | Z0 -> "0"
    | Zpos p -> bin_of_pos p
    | Zneg p -> "-" ^ bin_of_pos p in
  n ^ "/" ^ bin_of_pos q.qden

let meth = function
  | "npe" -> NPE | "lltsa" -> LLTSA | "lpp" -> LPP | _ -> failwith "bad method"

let () =
  try
    while true do
      let line = input_line stdin in
      let w = Array.of_list (List.filter (fun s -> s <> "") (String.split_on_char ' ' (String.trim line))) in
      if Array.length w > 0 then begin
        (try
           let pos = ref 1 in
           let next () = let t = w.(!pos) in incr pos; t in
           let next_int () = int_of_string (next ()) in
           let next_q () = qc_of_token (next ()) in
           let cmd = w.(0) in
           if cmd = "J" then begin
             let n = next_int () in
             let d0 = next_int () in
             let dd = next_int () in
             if n < 0 || d0 < 0 || dd < 0 || n > 4096 || d0 > 512 || dd > 512 then failwith "bad size";
             let xl = List.init d0 (fun _ -> List.init n (fun _ -> next_q ())) in
             let pl = List.init d0 (fun _ -> List.init dd (fun _ -> next_q ())) in
             (match run_project_qc (nat_of_int n) (nat_of_int d0) (nat_of_int dd) xl pl with
              | Ok (m, y) ->
                let buf = Buffer.create 1024 in
                List.iter (fun x -> Buffer.add_char buf ' '; Buffer.add_string buf (token_of_qc x)) m;
                List.iter (List.iter (fun x -> Buffer.add_char buf ' '; Buffer.add_string buf (token_of_qc x))) y;
                print_string ("ok" ^ Buffer.contents buf ^ "\n")
              | OOB (s, i, z) -> Printf.printf "oob %d %d %d\n" (int_of_nat s) (int_of_nat i) (int_of_nat z))
           end else
           let variant = if cmd = "K" then (match next_int () with 0 -> VShipped | 1 -> VF9 | 2 -> VF25 | 3 -> VF42 | _ -> failwith "bad variant") else VF42 in
           let m = meth (next ()) in
           let n = next_int () in
           let d = next_int () in
           if n < 0 || d < 0 || n > 4096 || d > 512 then failwith "bad size";
           let xl = List.init d (fun _ -> List.init n (fun _ -> next_q ())) in
           let nnz = next_int () in
           if nnz < 0 then failwith "bad nnz";
           let wl = List.init nnz (fun _ ->
               let r = next_int () in let c = next_int () in let v = next_q () in
               if r < 0 || c < 0 then failwith "negative index";
               ((nat_of_int r, nat_of_int c), v)) in
           let ndv = next_int () in
           if ndv < 0 then failwith "bad ndv";
           let dvl = List.init ndv (fun _ -> next_q ()) in
           let nn = nat_of_int n and dd = nat_of_int d in
           let show_tables (a, b) =
             let buf = Buffer.create 1024 in
             List.iter (List.iter (fun x -> Buffer.add_char buf ' '; Buffer.add_string buf (token_of_qc x))) a;
             List.iter (List.iter (fun x -> Buffer.add_char buf ' '; Buffer.add_string buf (token_of_qc x))) b;
             Buffer.contents buf in
           match cmd with
           | "K" ->
             (match run_construct_qc variant m nn dd xl wl dvl with
              | Ok t -> print_string ("ok" ^ show_tables t ^ "\n")
              | OOB (s, i, z) -> Printf.printf "oob %d %d %d\n" (int_of_nat s) (int_of_nat i) (int_of_nat z))
           | "S" ->
             let lhs = List.init d (fun _ -> List.init d (fun _ -> next_q ())) in
             let rhs = List.init d (fun _ -> List.init d (fun _ -> next_q ())) in
             (* first flag: what a lower-triangle reader sees; second flag: the FULL tables *)
             Printf.printf "spec %d %d\n" (if spec_construct_b m nn dd xl wl dvl lhs rhs then 1 else 0)
               (if spec_full_b m nn dd xl wl dvl lhs rhs then 1 else 0)
           | "P" ->
             print_string ("ref" ^ show_tables (ref_pencil m nn dd xl wl dvl) ^ "\n")
           | _ -> failwith "bad command"
         with
         | Failure s -> Printf.printf "err %s\n" s
         | Invalid_argument s -> Printf.printf "err %s\n" s
         | Not_found -> print_string "err not_found\n");
        flush stdout
      end
    done
  with End_of_file -> ()
