(* c13_driver.ml — runs the extracted chain/usage model (Chain_Model + Chain_Spec over the GENERATED tables).
   stdin, one request per line:
     Q <method> <order|-> <range|using|matrix>     order is a word over K,D,F ("-" = nothing attached)
     SLOTS <subset of KDF>                          "S slots kernel=.. distance=.. features=.. plain_distance=..
                                                    kernel_distance=.. begin=<0|1> end=<0|1>" (after tapkee::embed)
     SUMMARY                                        per-method tables and every decider of Chain_Spec
     OLD <method> <order|-> <entry>                 same as Q on the tables before the F13 repair
   stdout, one line per Q/OLD request:
     O <OK | MISSED <msg> | DUMMY <slot> <kind> | NOTDISPATCHED | BROKEN <why> | NOMETHOD | INVALID>
       | <allowed calls K:kernel ...> | routes=<0|1> sufficient=<0|1> declared=<KDF subset> uses=<KDF subset>
   SUMMARY prints lines "M <method> declared=.. uses=.. uses_ok=.. refs=..", "R <order> <entry> <0|1>",
   "S <method> <order> <entry> <0|1>" (only failures for R and S), "D dispatch_ok=<0|1>",
   "K <callback class> <has the dummy typedef>", "D callback_classes_ok=<0|1>", "D derefs_ok=<0|1> sites=<n>", "X <file> | <snippet>" for every dereference of a
   data iterator that is not a callback argument, "D adapters_ok=<0|1> classes=<n>", "A <adapter class> <member> <0|1>" for the members of
   every adapter class that fails its decider, "D callsites_ok=<0|1> callsites=<n>", "Y <file> | <snippet>" for every callback call
   whose data argument is not a dereference of a data iterator, "END". *)
open C13_model

let ascii_of_char c =
  let n = Char.code c in
  Ascii (n land 1 <> 0, n land 2 <> 0, n land 4 <> 0, n land 8 <> 0,
         n land 16 <> 0, n land 32 <> 0, n land 64 <> 0, n land 128 <> 0)
let char_of_ascii (Ascii (a, b, c, d, e, f, g, h)) =
  let v x k = if x then k else 0 in
  Char.chr (v a 1 + v b 2 + v c 4 + v d 8 + v e 16 + v f 32 + v g 64 + v h 128)
let to_coq (s : Stdlib.String.t) =
  let rec go i = if i >= String.length s then EmptyString else String (ascii_of_char s.[i], go (i + 1)) in
  go 0
let of_coq s =
  let b = Buffer.create 32 in
  let rec go = function EmptyString -> () | String (a, r) -> Buffer.add_char b (char_of_ascii a); go r in
  go s; Buffer.contents b

let kind_char = function Kern -> 'K' | Dist -> 'D' | Feat -> 'F'
let kinds_str ks = let s = String.concat "" (List.map (fun k -> String.make 1 (kind_char k)) ks) in if s = "" then "-" else s
let parse_order w =
  if w = "-" then Some [] else
  let r = ref (Some []) in
  String.iter (fun c -> match !r, c with
    | Some l, 'K' -> r := Some (l @ [Kern]) | Some l, 'D' -> r := Some (l @ [Dist]) | Some l, 'F' -> r := Some (l @ [Feat])
    | _, _ -> r := None) w;
  !r
let parse_entry = function "range" -> Some ByRange | "using" -> Some ByContainer | "matrix" -> Some ByMatrix | _ -> None
let entry_str = function ByRange -> "range" | ByContainer -> "using" | ByMatrix -> "matrix"

let show_outcome = function
  | Ok -> "OK"
  | Missed m -> "MISSED " ^ of_coq m
  | TouchesDummy (s, k) -> Printf.sprintf "DUMMY %s %c" (of_coq s) (kind_char k)
  | NotDispatched -> "NOTDISPATCHED"
  | Broken w -> "BROKEN " ^ of_coq w

let b01 b = if b then "1" else "0"

let rec show_value = function
  | VUser k -> Printf.sprintf "U:%c" (kind_char k)
  | VDummy k -> Printf.sprintf "dummy:%c" (kind_char k)
  | VEigen k -> Printf.sprintf "eigen:%c" (kind_char k)
  | VWrap (w, v) -> Printf.sprintf "%s(%s)" (of_coq w) (show_value v)
  | VParams -> "params" | VBegin -> "begin" | VEnd -> "end" | VSeq -> "seq" | VMatrix -> "matrix"
  | VOther s -> "other:" ^ of_coq s

(* the slots of the method implementation object when tapkee::embed is handed the callbacks of [subset] and dummies
   elsewhere (the model's counterpart of the harness's SLOTS dump) *)
let slots subset =
  match parse_order subset with
  | None -> print_endline "S invalid"
  | Some ks ->
    let cb k = if List.mem k ks then VUser k else VDummy k in
    (match downstream chain_gen [VBegin; VEnd; cb Kern; cb Dist; cb Feat; VParams] with
     | RObj (_, fs) ->
       let get n = match lookup (to_coq n) fs with Some v -> show_value v | None -> "missing" in
       Printf.printf "S slots kernel=%s distance=%s features=%s plain_distance=%s kernel_distance=%s begin=%s end=%s\n"
         (get "kernel") (get "distance") (get "features") (get "plain_distance") (get "kernel_distance")
         (b01 (get "begin" = "begin")) (b01 (get "end" = "end"))
     | RErr w -> Printf.printf "S error %s\n" (of_coq w)
     | _ -> print_endline "S error")

let query u name order entry =
  match find_method u.u_methods (to_coq name), parse_order order, parse_entry entry with
  | None, _, _ -> print_endline "O NOMETHOD"
  | _, None, _ | _, _, None -> print_endline "O INVALID"
  | Some m, Some o, Some en ->
    if not (valid_chainb o en) then print_endline "O INVALID" else begin
      let out = run_method chain_gen u m o en in
      let calls = may_call chain_gen u m o en in
      let cs = String.concat " " (List.map (fun (k, f) -> Printf.sprintf "%c:%s" (kind_char k) (of_coq f)) calls) in
      Printf.printf "O %s | %s | routes=%s sufficient=%s declared=%s uses=%s\n" (show_outcome out) cs
        (b01 (routes_ok chain_gen o en)) (b01 (sufficient_ok chain_gen u m o en))
        (kinds_str (declared u m)) (kinds_str (uses chain_gen u m))
    end

let summary () =
  let u = uses_gen in
  List.iter (fun m ->
    Printf.printf "M %s declared=%s uses=%s uses_ok=%s dispatched=%s refs=%s\n" (of_coq m.md_name)
      (kinds_str (declared u m)) (kinds_str (uses chain_gen u m)) (b01 (uses_ok chain_gen u m))
      (b01 (List.exists (fun n -> n = m.md_name) u.u_dispatched))
      (String.concat "," (List.map of_coq m.md_refs))) u.u_methods;
  List.iter (fun o -> List.iter (fun en ->
    if valid_chainb o en then begin
      if not (routes_ok chain_gen o en) then Printf.printf "R %s %s 0\n" (kinds_str o) (entry_str en);
      List.iter (fun m ->
        if not (sufficient_ok chain_gen u m o en) then
          Printf.printf "S %s %s %s 0\n" (of_coq m.md_name) (kinds_str o) (entry_str en)) u.u_methods
    end) all_entries) all_orders;
  Printf.printf "D dispatch_ok=%s\n" (b01 (dispatch_ok u));
  List.iter (fun ((n, mk), _) -> Printf.printf "K %s %s\n" (of_coq n) (b01 mk)) u.u_callback_classes;
  Printf.printf "D callback_classes_ok=%s\n" (b01 (callback_classes_ok u));
  Printf.printf "D wrappers_ok=%s\n" (b01 (wrappers_ok chain_gen u));
  Printf.printf "D derefs_ok=%s sites=%d\n" (b01 (derefs_ok u)) (List.length u.u_derefs);
  List.iter (fun ((f, sn), ok) -> if not ok then Printf.printf "X %s | %s\n" (of_coq f) (of_coq sn)) u.u_derefs;
  (* the adapters and the callback call sites (Chain_Adapt_Spec) *)
  let a = adapters_gen in
  Printf.printf "D adapters_ok=%s classes=%d\n" (b01 (adapters_ok a)) (List.length a.ad_classes);
  List.iter (fun c ->
    match family_of c.ac_name with
    | None -> Printf.printf "A %s - 0\n" (of_coq c.ac_name)
    | Some fam ->
      if not (class_ok c) then
        List.iter (fun mb -> Printf.printf "A %s %s %s\n" (of_coq c.ac_name) (of_coq mb.am_name) (b01 (member_ok c fam mb)))
          c.ac_members) a.ad_classes;
  Printf.printf "D callsites_ok=%s callsites=%d\n" (b01 (callsites_ok a)) (List.length a.ad_callsites);
  List.iter (fun ((f, sn), ok) -> if not ok then Printf.printf "Y %s | %s\n" (of_coq f) (of_coq sn)) a.ad_callsites;
  let rec nat_int = function O -> 0 | S n -> 1 + nat_int n in
  Printf.printf "D invoked_ok=%s unresolved=%d\n" (b01 (invoked_ok u)) (nat_int (unresolved_count u));
  print_endline "END"

let () =
  try
    while true do
      let line = input_line stdin in
      match String.split_on_char ' ' (String.trim line) with
      | ["Q"; m; o; e] -> query uses_gen m o e
      | ["OLD"; m; o; e] -> query (uses_before_F13 uses_gen) m o e
      | ["SUMMARY"] -> summary ()
      | ["SLOTS"; sub] -> slots sub
      | [""] -> ()
      | _ -> print_endline "O INVALID"
    done
  with End_of_file -> ()
