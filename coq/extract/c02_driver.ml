(* c02_driver.ml — runs the extracted k-NN spec / models (Knn_*.v, CoverTree_*.v) on one case at a time.
   stdin (line oriented; every index / distance is a decimal integer):
     CASE <N>                     followed by N lines of N integers: the distance table d
     METRIC                       -> "M <0|1>"                         metric_b d N
     F <m> <k> <n>                followed by n lines "r <q> : j j j" (the harness's own output format)
                                  -> "FQ <m> <k> <number of rows failing is_knn_b> <n>"
     ROWS <k> <n>                 followed by n lines "<q> : j j j"    (an implementation's output rows)
                                  -> n lines "R <q> <is_knn_b> | <dists_sorted>"
     NTH <k> <q> : j j j ...      observed std::nth_element result of the brute-force row q (repaired layout)
                                  -> "N <nth_ok_b> | <brute_row_fixed items or ?> | <their dists_sorted>"
     TREE <k> <nnodes>            followed by nnodes lines "n <item> <thr> <hasleft> <hasright>" (preorder dump of
                                  the REAL VP-tree) -> "T <vp_inv_b> <vp_holds_b> <nitems> <vp_shape_b>" then N lines
                                  "S <q> | <vp_search_dists (k+1), farthest first> | <vp_row_fixed k items> | <dists_sorted>"
     CAND <k> <n>                 followed by n lines "<q> : c c c" (candidate list res[q][1..] of the real batch query
                                  called with k+1) -> n lines
                                  "K <q> <cand_complete_b> <cand_exact_b> | <ct_select_fixed items> | <dists_sorted>"
     CT <K> <nnodes>              followed by the preorder dump "t <p> <maxd> <pard> <scale> <nchildren>" of the REAL cover
                                  tree -> "CT <ok> <nrows> inv=.. holds=.. audit=.." then nrows lines "CQ <q> : c c c"
                                  (the model batch query, internal_k = K, run on the real tree)
     BUILD                        -> "BT <nnodes>" then nnodes lines "bt <p> <maxd> <pard> <scale> <nchildren>": the tree
                                  the model of batch_create builds for the samples 0..N-1
     WRAP <m> <k> <n>             m in B V C; followed by n lines "<q> : j j j": the raw table the tree search returned
                                  (rows in sample order; n = 0 for B) -> "W <ok> <fired> <nrows> <all_knn_b of the table>"
                                  then nrows lines "WR <q> : <row> | <dists_sorted>": the extracted find_neighbors_core
                                  (reference nth_element oracle) on the table d as it is - NO metric assumption
     END                          -> "END"
   Anything malformed -> "? ..." *)
open C02_model

let rec pos_of_int n = if n = 1 then XH else if n land 1 = 1 then XI (pos_of_int (n lsr 1)) else XO (pos_of_int (n lsr 1))
let z_of_int n = if n = 0 then Z0 else if n > 0 then Zpos (pos_of_int n) else Zneg (pos_of_int (-n))
let rec int_of_pos = function XH -> 1 | XO p -> 2 * int_of_pos p | XI p -> 2 * int_of_pos p + 1
let int_of_z = function Z0 -> 0 | Zpos p -> int_of_pos p | Zneg p -> - (int_of_pos p)
let nat_of_int n = let rec go acc n = if n <= 0 then acc else go (S acc) (n - 1) in go O n
let int_of_nat n = let rec go acc = function O -> acc | S m -> go (acc + 1) m in go 0 n

exception Bad of string

let toks_of line = List.filter (fun s -> s <> "") (String.split_on_char ' ' (String.trim line))
let ios s = try int_of_string s with _ -> raise (Bad ("int " ^ s))
let b01 b = if b then "1" else "0"
let zl l = String.concat " " (List.map (fun z -> string_of_int (int_of_z z)) l)
let zlo = function None -> "?" | Some l -> zl l

(* the distance table *)
let n_cur = ref 0
let tab : z array array ref = ref [||]
let dfun : dist = fun i j ->
  let a = int_of_z i and b = int_of_z j in
  if a < 0 || b < 0 || a >= !n_cur || b >= !n_cur then Zneg XH else !tab.(a).(b)

(* "<q> : j j j" *)
let parse_row line =
  match toks_of line with
  | q :: ":" :: rest -> (z_of_int (ios q), List.map (fun s -> z_of_int (ios s)) rest)
  | _ -> raise (Bad "row")

(* preorder dump -> vpt *)
let parse_tree lines =
  let rest = ref lines in
  let rec go () =
    match !rest with
    | [] -> raise (Bad "tree: truncated")
    | l :: tl ->
      rest := tl;
      (match toks_of l with
       | ["n"; it; thr; hl; hr] ->
         let left = if ios hl = 1 then go () else E in
         let right = if ios hr = 1 then go () else E in
         Nd (z_of_int (ios it), z_of_int (ios thr), left, right)
       | _ -> raise (Bad "tree: node line"))
  in
  let t = go () in
  if !rest <> [] then raise (Bad "tree: trailing nodes");
  t

(* preorder dump "t <p> <maxd> <pard> <scale> <nchildren>" -> ctree *)
let parse_ctree lines =
  let rest = ref lines in
  let rec go () =
    match !rest with
    | [] -> raise (Bad "ctree: truncated")
    | l :: tl ->
      rest := tl;
      (match toks_of l with
       | ["t"; p; md; pd; sc; nch] ->
         let nch = ios nch in
         if nch < 0 || nch > 100000 then raise (Bad "ctree: child count");
         let rec kids i = if i >= nch then [] else let c = go () in c :: kids (i + 1) in
         let ch = kids 0 in
         CN (z_of_int (ios p), z_of_int (ios md), z_of_int (ios pd), nat_of_int (ios sc), ch)
       | _ -> raise (Bad "ctree: node line"))
  in
  let t = go () in
  if !rest <> [] then raise (Bad "ctree: trailing nodes");
  t

let read_lines n = List.init n (fun _ -> input_line stdin)

let () =
  try
    while true do
      let line = input_line stdin in
      (try
         match toks_of line with
         | [] -> ()
         | ["CASE"; n] ->
           let n = ios n in
           n_cur := n;
           tab := Array.init n (fun _ ->
               let r = Array.of_list (List.map (fun s -> z_of_int (ios s)) (toks_of (input_line stdin))) in
               if Array.length r <> n then raise (Bad "matrix row length");
               r)
         | ["METRIC"] -> Printf.printf "M %s\n" (b01 (metric_b dfun (nat_of_int !n_cur)))
         | ["ROWS"; k; n] ->
           let k = nat_of_int (ios k) in
           let nn = nat_of_int !n_cur in
           List.iter (fun l ->
               try
                 let (q, row) = parse_row l in
                 Printf.printf "R %d %s | %s\n" (int_of_z q) (b01 (is_knn_b dfun nn q k row)) (zl (dists_sorted dfun q row))
               with Bad m -> Printf.printf "R ? 0 | bad %s\n" m)
             (read_lines (ios n))
         | "NTH" :: k :: q :: ":" :: sel ->
           let k = nat_of_int (ios k) in
           let q = z_of_int (ios q) in
           let nn = nat_of_int !n_cur in
           let sel = List.map (fun s -> let j = z_of_int (ios s) in (j, dfun q j)) sel in
           let ok = nth_ok_b k (brute_dists_fixed dfun nn q) sel in
           let row = brute_row_fixed sel k in
           Printf.printf "N %s | %s | %s\n" (b01 ok) (zlo row)
             (match row with None -> "?" | Some r -> zl (dists_sorted dfun q r))
         | ["TREE"; k; nnodes] ->
           let k = nat_of_int (ios k) in
           let nn = nat_of_int !n_cur in
           let t = parse_tree (read_lines (ios nnodes)) in
           Printf.printf "T %s %s %d %s\n" (b01 (vp_inv_b dfun t)) (b01 (vp_holds_b nn t)) (List.length (items t))
             (b01 (vp_shape_b dfun t));
           for q = 0 to !n_cur - 1 do
             let zq = z_of_int q in
             let row = vp_row_fixed dfun t zq k in
             Printf.printf "S %d | %s | %s | %s\n" q (zlo (vp_search_dists dfun t zq (S k))) (zlo row)
               (match row with None -> "?" | Some r -> zl (dists_sorted dfun zq r))
           done
         | ["F"; m; k; n] ->
           (* rows in the harness's own output format ("r <q> : j j j"); answers with one summary line *)
           let kk = nat_of_int (ios k) in
           let nn = nat_of_int !n_cur in
           let nbad = ref 0 in
           List.iter (fun l ->
               match toks_of l with
               | "r" :: q :: ":" :: rest ->
                 (try
                    let q = z_of_int (ios q) in
                    let row = List.map (fun s -> z_of_int (ios s)) rest in
                    if not (is_knn_b dfun nn q kk row) then incr nbad
                  with Bad _ -> incr nbad)
               | _ -> incr nbad)
             (read_lines (ios n));
           Printf.printf "FQ %s %s %d %s\n" m k !nbad n
         | ["CAND"; k; n] ->
           let k = nat_of_int (ios k) in
           let nn = nat_of_int !n_cur in
           List.iter (fun l ->
               try
                 let (q, cands) = parse_row l in
                 let sel = ct_select_fixed dfun (q :: cands) k in
                 Printf.printf "K %d %s %s | %s | %s\n" (int_of_z q)
                   (b01 (cand_complete_b dfun nn q k cands)) (b01 (cand_exact_b dfun nn q k cands))
                   (zlo sel) (match sel with None -> "?" | Some r -> zl (dists_sorted dfun q r))
               with Bad m -> Printf.printf "K ? 0 0 | bad %s |\n" m)
             (read_lines (ios n))
         | ["CT"; kk; nnodes] ->
           (* kk = internal_k = the k passed to k_nearest_neighbor *)
           let kk = nat_of_int (ios kk) in
           let nn = nat_of_int !n_cur in
           let t = parse_ctree (read_lines (ios nnodes)) in
           let inv = ct_inv_b dfun t && leaf100_b t and holds = ct_holds_b nn t in
           if not (inv && holds) then Printf.printf "CT 0 0 inv=%s holds=%s\n" (b01 inv) (b01 holds)
           else begin
             match ct_query false dfun kk (valid_b dfun (leaf_points t) kk) (ct_fuel t) t with
             | None -> Printf.printf "CT 0 0 inv=1 holds=1 query=out-of-fuel\n"
             | Some (rows, ok) ->
               (* audit=0: the hypothesis of ct_query_complete_partial is not met for this query (the bound was
                  not valid in the strengthened form at some read); the rows are still compared *)
               Printf.printf "CT 1 %d inv=1 holds=1 audit=%s\n" (List.length rows) (b01 ok);
               List.iter (fun (q, cands) -> Printf.printf "CQ %d : %s\n" (int_of_z q) (zl cands)) rows
           end
         | ["BUILD"] ->
           (* the model of batch_create on the samples 0..N-1 in order, printed in the format of the harness dump *)
           (match batch_create dfun (nat_of_int (4 * !n_cur + 2000)) (samples (nat_of_int !n_cur)) with
            | None -> print_string "BT 0\n"
            | Some t ->
              let buf = Buffer.create 1024 in
              let cnt = ref 0 in
              let rec pr = function
                | CN (p, md, pd, sc, ch) ->
                  incr cnt;
                  Buffer.add_string buf (Printf.sprintf "bt %d %s %s %d %d\n" (int_of_z p) (string_of_int (int_of_z md))
                                           (string_of_int (int_of_z pd)) (int_of_nat sc) (List.length ch));
                  List.iter pr ch in
              pr t;
              Printf.printf "BT %d\n%s" !cnt (Buffer.contents buf))
         | ["WRAP"; m; k; n] ->
           let k = nat_of_int (ios k) in
           let nn = nat_of_int !n_cur in
           let meth = (match m with "B" -> MBrute | "V" -> MVpTree | "C" -> MCoverTree | _ -> raise (Bad "method")) in
           let raw = List.map (fun l -> snd (parse_row l)) (read_lines (ios n)) in
           (match find_neighbors_core meth raw (sels_ref dfun nn) nn k with
            | None -> print_string "W 0 0 0 0\n"
            | Some (fired, rows) ->
              Printf.printf "W 1 %s %d %s\n" (b01 fired) (List.length rows) (b01 (all_knn_b dfun nn k (samples nn) rows));
              List.iteri (fun q row ->
                  Printf.printf "WR %d : %s | %s\n" q (zl row) (zl (dists_sorted dfun (z_of_int q) row))) rows)
         | ["END"] -> print_string "END\n"
         | _ -> print_string "? unknown\n"
       with Bad m -> Printf.printf "? bad-input %s\n" m);
      flush stdout
    done
  with End_of_file -> ()
