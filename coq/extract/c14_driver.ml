(* c14_driver.ml — runs the extracted model of tapkee::embed's validation path (Validate_Model.exec over
   the GENERATED tables) and the extracted documented specification (Validate_Spec.spec_outcome) on requests.
   stdin, one request per line:
     R <N> <D> <mask> <old> <nkw> { <kwid> <T> <value> }*
       mask bit0 kernel, bit1 distance, bit2 features;  old = 1: use the stage order before repair F27
       T value:  I <int> | S <sign><numerator bits> <denominator bits> | B 0/1 | M id | N id | E id | C id |
                 P 0/1 | X 0/1/2 | O tag
   stdout, one line per request:
     <model outcome> | <trace> | <spec outcome> | <merged map>
       model outcome  done | throw:<exception>
       trace          comma separated: fd (features.dimension()) cn (cancel function called) K D F (a statement
                      evaluating the kernel / distance / features callback)
       spec outcome   none | <exception>
       merged map     kwid=T:value;... of pm_merge(request, DOCUMENTED defaults)  (numbers in binary)
     T  dumps the documented and the generated tables as JSON lines, then END
     P <na> { <kwid> <T> <value> }*na <nd> { <kwid> <T> <value> }*nd     structural probe of the container (wave 2):
       the GENERATED bodies of parameter.hpp (gen_container) interpreted by Validate_Model.run_cstmt on the comma
       expression A and the second set D; one line
         dup=<0|1> ct=<ok|wrong_type> agree=<0|1> | <map of A> | <map of A after merge(D)> | <kwid>=found|missed;...
       agree = 1 iff the walker's own functions (ps_build, pm_merge, wrong_type_vs, pm_lookup) give the same
     B <pred id> <T: I|S> <nargs> { <num bits> <den bits> }*nargs <num bits> <den bits>
       the GENERATED body of predicate number id (gen_predicates) applied to a value: prints 1 / 0 / none *)
open C14_model

let rec pos_of_int n = if n = 1 then XH else if n land 1 = 1 then XI (pos_of_int (n lsr 1)) else XO (pos_of_int (n lsr 1))
let z_of_int n = if n = 0 then Z0 else if n > 0 then Zpos (pos_of_int n) else Zneg (pos_of_int (-n))
let rec nat_of_int n = if n <= 0 then O else S (nat_of_int (n - 1))
let rec int_of_nat = function O -> 0 | S n -> 1 + int_of_nat n

(* binary strings, most significant bit first *)
let pos_of_bits s =
  let n = String.length s in
  let rec go i acc = if i >= n then acc else go (i + 1) (if s.[i] = '1' then XI acc else XO acc) in
  let rec first i = if i < n && s.[i] = '0' then first (i + 1) else i in
  let f = first 0 in
  if f >= n then failwith "zero positive" else go (f + 1) XH
let z_of_bits s =
  let neg = String.length s > 0 && s.[0] = '-' in
  let body = if neg then String.sub s 1 (String.length s - 1) else s in
  if String.for_all (fun c -> c = '0') body then Z0
  else if neg then Zneg (pos_of_bits body) else Zpos (pos_of_bits body)
let rec bits_of_pos p = match p with XH -> "1" | XO q -> bits_of_pos q ^ "0" | XI q -> bits_of_pos q ^ "1"
let bits_of_z = function Z0 -> "0" | Zpos p -> bits_of_pos p | Zneg p -> "-" ^ bits_of_pos p

let exc_name = function
  | NoData -> "no_data" | Unsupported -> "unsupported_method" | NotEnoughMemory -> "not_enough_memory"
  | Cancelled -> "cancelled" | EigenFail -> "eigendecomposition_error" | Missed -> "missed_parameter"
  | WrongValue -> "wrong_parameter" | WrongType -> "wrong_parameter_type" | Multiple -> "multiple_parameter"
  | Escaped _ -> "escaped_stichwort_exception"

let event_name = function
  | EvCall CbKernel -> "K" | EvCall CbDistance -> "D" | EvCall CbFeatures -> "F"
  | EvFeatDim -> "fd" | EvCancelFn -> "cn"

let value_text = function
  | VIndex z -> "I:" ^ bits_of_z z
  | VScalar q -> "S:" ^ bits_of_z q.qnum ^ "/" ^ bits_of_pos q.qden
  | VBool b -> "B:" ^ (if b then "1" else "0")
  | VMethod m -> "M:" ^ string_of_int (int_of_nat m)
  | VNeighbors n -> "N:" ^ string_of_int (int_of_nat n)
  | VEigen n -> "E:" ^ string_of_int (int_of_nat n)
  | VStrategy n -> "C:" ^ string_of_int (int_of_nat n)
  | VProgress b -> "P:" ^ (if b then "1" else "0")
  | VCancel None -> "X:0" | VCancel (Some false) -> "X:1" | VCancel (Some true) -> "X:2"
  | VOther t -> "O:" ^ string_of_int (int_of_nat t)

let parse_value ty v1 v2 =
  match ty with
  | "I" -> VIndex (z_of_int (int_of_string v1))
  | "S" -> VScalar { qnum = z_of_bits v1; qden = pos_of_bits v2 }
  | "B" -> VBool (v1 = "1")
  | "M" -> VMethod (nat_of_int (int_of_string v1))
  | "N" -> VNeighbors (nat_of_int (int_of_string v1))
  | "E" -> VEigen (nat_of_int (int_of_string v1))
  | "C" -> VStrategy (nat_of_int (int_of_string v1))
  | "P" -> VProgress (v1 = "1")
  | "X" -> VCancel (match v1 with "0" -> None | "1" -> Some false | _ -> Some true)
  | "O" -> VOther (nat_of_int (int_of_string v1))
  | _ -> failwith "type tag"

(* ---- dump of a table (documented or generated): one JSON object per line *)
let ty_text = function
  | TIndex -> "I" | TScalar -> "S" | TBool -> "B" | TMethod -> "M" | TNeighbors -> "N" | TEigen -> "E"
  | TStrategy -> "C" | TProgress -> "P" | TCancel -> "X" | TOther _ -> "O"
let cb_text = function CbKernel -> "K" | CbDistance -> "D" | CbFeatures -> "F"
let rec bexpr_json = function
  | BInt z -> "{\"i\":\"" ^ bits_of_z z ^ "\"}"
  | BReal q -> "{\"r\":[\"" ^ bits_of_z q.qnum ^ "\",\"" ^ bits_of_pos q.qden ^ "\"]}"
  | BN -> "\"N\"" | BDim -> "\"D\""
  | BParam (k, t) -> "{\"p\":[" ^ string_of_int (int_of_nat k) ^ ",\"" ^ ty_text t ^ "\"]}"
  | BTrunc a -> "{\"t\":" ^ bexpr_json a ^ "}"
  | BAdd (a, b) -> "{\"+\":[" ^ bexpr_json a ^ "," ^ bexpr_json b ^ "]}"
  | BSub (a, b) -> "{\"-\":[" ^ bexpr_json a ^ "," ^ bexpr_json b ^ "]}"
  | BMul (a, b) -> "{\"*\":[" ^ bexpr_json a ^ "," ^ bexpr_json b ^ "]}"
  | BDiv (a, b) -> "{\"/\":[" ^ bexpr_json a ^ "," ^ bexpr_json b ^ "]}"
let bound_json = function
  | None -> "null"
  | Some (strict, b) -> "[" ^ (if strict then "true" else "false") ^ "," ^ bexpr_json b ^ "]"
let check_json c =
  "{\"kw\":" ^ string_of_int (int_of_nat c.c_kw) ^ ",\"ty\":\"" ^ ty_text c.c_ty ^ "\",\"lo\":" ^
  bound_json c.c_pred.p_lo ^ ",\"hi\":" ^ bound_json c.c_pred.p_hi ^ "}"
let guard_json = function
  | GIs (k, v, pos) -> "{\"is\":[" ^ string_of_int (int_of_nat k) ^ ",\"" ^ value_text v ^ "\"," ^
                       (if pos then "true" else "false") ^ "]}"
  | GGt (k, t, q, pos) -> "{\"gt\":[" ^ string_of_int (int_of_nat k) ^ ",\"" ^ ty_text t ^ "\",[\"" ^
                          bits_of_z q.qnum ^ "\",\"" ^ bits_of_pos q.qden ^ "\"]," ^
                          (if pos then "true" else "false") ^ "]}"
let step_json (gs, b) =
  let g = "[" ^ String.concat "," (List.map guard_json gs) ^ "]" in
  match b with
  | BConv (k, t) -> "{\"g\":" ^ g ^ ",\"conv\":[" ^ string_of_int (int_of_nat k) ^ ",\"" ^ ty_text t ^ "\"]}"
  | BCheck c -> "{\"g\":" ^ g ^ ",\"check\":" ^ check_json c ^ "}"
  | BEval cb -> "{\"g\":" ^ g ^ ",\"eval\":\"" ^ cb_text cb ^ "\"}"
let dump_table name t =
  List.iter (fun st -> match st with
      | SCheck c -> Printf.printf "{\"table\":\"%s\",\"stage_check\":%s}\n" name (check_json c)
      | _ -> ()) t.t_stages;
  List.iter (fun m ->
      Printf.printf "{\"table\":\"%s\",\"method\":%d,\"needs\":[%b,%b,%b],\"validate\":[%s],\"embed\":[%s]}\n"
        name (int_of_nat m.m_id) m.m_needs_kernel m.m_needs_distance m.m_needs_features
        (String.concat "," (List.map step_json m.m_validate))
        (String.concat "," (List.map step_json m.m_embed))) t.t_methods;
  Printf.printf "{\"table\":\"%s\",\"defaults\":\"%s\"}\n" name
    (String.concat ";" (List.map (fun (k, v) -> string_of_int (int_of_nat k) ^ "=" ^ value_text v) t.t_defaults))

let () =
  try
    while true do
      let line = input_line stdin in
      let w = Array.of_list (List.filter (fun s -> s <> "") (String.split_on_char ' ' (String.trim line))) in
      if Array.length w > 0 && w.(0) = "T" then begin
        dump_table "doc" doc_tables; dump_table "gen" gen_tables; print_string "END\n"
      end;
      if Array.length w > 0 && w.(0) = "P" then begin
        (try
          let i = ref 1 in
          let read_list () =
            let n = int_of_string w.(!i) in
            incr i;
            let l = ref [] in
            for _ = 1 to n do
              let kw = int_of_string w.(!i) and ty = w.(!i + 1) in
              if ty = "S" then begin
                l := (nat_of_int kw, parse_value ty w.(!i + 2) w.(!i + 3)) :: !l; i := !i + 4
              end else begin
                l := (nat_of_int kw, parse_value ty w.(!i + 2) "") :: !l; i := !i + 3
              end
            done;
            List.rev !l in
          let la = read_list () in
          let ld = read_list () in
          (* D is built by add() alone: the map of ps_build *)
          let dmap = (ps_build ld).ps_map in
          let map_text m = String.concat ";" (List.map (fun (k, v) -> string_of_int (int_of_nat k) ^ "=" ^ value_text v) m) in
          match comma_expression gen_container la with
          | None -> print_string "STUCK\n"
          | Some a ->
            let w_build = ps_build la in
            let dup = (match run_check gen_container a with CThrown SwMultiple -> "1" | CNormal _ -> "0" | _ -> "stuck") in
            let w_dup = (match w_build.ps_dups with [] -> "0" | _ -> "1") in
            let ct = (match run_check_types gen_container a dmap with
                      | CThrown SwWrongType -> "wrong_type" | CNormal _ -> "ok" | _ -> "stuck") in
            let w_ct = if List.exists (wrong_type_vs dmap) w_build.ps_map then "wrong_type" else "ok" in
            let merged = (match run_merge gen_container a dmap with CNormal g -> Some g.ps_map | _ -> None) in
            let w_merged = pm_merge w_build.ps_map dmap in
            let ids = List.map fst la @ List.map fst ld @ [nat_of_int 777] in
            let look k = (match run_index gen_container a k with
                          | CReturned (_, Some _) -> "found" | CThrown SwMissed -> "missed" | _ -> "stuck") in
            let w_look k = (match pm_lookup k w_build.ps_map with Some _ -> "found" | None -> "missed") in
            let agree = a = w_build && dup = w_dup && ct = w_ct && merged = Some w_merged &&
                        List.for_all (fun k -> look k = w_look k) ids in
            (* wave 4: the set after every route of the harness, through the GENERATED copy constructor / operator= *)
            let routes = String.concat " " (List.filter_map (fun id ->
                if id = 7 then None else
                match route_of_id (nat_of_int id) la with
                | None -> None
                | Some rt ->
                  (match route_set gen_container gen_copying rt a with
                   | None -> Some (Printf.sprintf "rt%d=stuck" id)
                   | Some q ->
                     let d = (match run_check gen_container q with CThrown SwMultiple -> "1" | CNormal _ -> "0" | _ -> "s") in
                     Some (Printf.sprintf "rt%d=%s%s" id d (if q.ps_map = a.ps_map then "1" else "0"))))
              [1; 2; 3; 4; 5; 6; 8; 9; 10]) in
            Printf.printf "dup=%s ct=%s agree=%d %s | %s | %s | %s\n" dup ct (if agree then 1 else 0) routes
              (map_text a.ps_map) (match merged with Some g -> map_text g | None -> "STUCK")
              (String.concat ";" (List.map (fun k -> string_of_int (int_of_nat k) ^ "=" ^ look k) ids))
        with _ -> print_string "BAD-REQUEST\n")
      end;
      if Array.length w > 0 && w.(0) = "B" then begin
        (try
          let id = int_of_string w.(1) in
          let ty = if w.(2) = "I" then TIndex else TScalar in
          let n = int_of_string w.(3) in
          let q j = { qnum = z_of_bits w.(j); qden = pos_of_bits w.(j + 1) } in
          let args = List.init n (fun a -> q (4 + 2 * a)) in
          let x = q (4 + 2 * n) in
          match List.find_opt (fun p -> int_of_nat p.pb_id = id) gen_predicates with
          | None -> print_string "none\n"
          | Some p -> print_string (if body_holds ty args p.pb_conj x then "1\n" else "0\n")
        with _ -> print_string "BAD-REQUEST\n")
      end;
      if Array.length w > 0 && w.(0) = "R" then begin
        try
          let n = int_of_string w.(1) and d = int_of_string w.(2) and mask = int_of_string w.(3) in
          (* field 4: bit0 the stage order of the tree before repair F27; the rest (wave 4): the route number *)
          let old = (int_of_string w.(4)) land 1 = 1 and route = (int_of_string w.(4)) lsr 1
          and nkw = int_of_string w.(5) in
          let i = ref 6 in
          let kws = ref [] in
          for _ = 1 to nkw do
            let kw = int_of_string w.(!i) and ty = w.(!i + 1) in
            if ty = "S" then begin
              kws := (nat_of_int kw, parse_value ty w.(!i + 2) w.(!i + 3)) :: !kws; i := !i + 4
            end else begin
              kws := (nat_of_int kw, parse_value ty w.(!i + 2) "") :: !kws; i := !i + 3
            end
          done;
          let r = { rq_kws = List.rev !kws; rq_n = z_of_int n; rq_dim = z_of_int d;
                    rq_kernel = (mask land 1 <> 0); rq_distance = (mask land 2 <> 0);
                    rq_features = (mask land 4 <> 0) } in
          let tables = if old then old_of gen_tables else gen_tables in
          let via = (if route = 0 then Some (exec tables r) else
                     match route_of_id (nat_of_int route) r.rq_kws with
                     | Some rt -> exec_via gen_container gen_copying rt tables r
                     | None -> None) in
          let (tr, outcome) = (match via with
            | Some (tr, RThrow e) -> (tr, "throw:" ^ exc_name e)
            | Some (tr, RDone _) -> (tr, "done")
            | None -> ([], "stuck")) in
          let spec = match spec_outcome r with None -> "none" | Some e -> exc_name e in
          let merged = pm_merge r.rq_kws (t_defaults doc_tables) in
          let mtxt = String.concat ";" (List.map (fun (k, v) -> string_of_int (int_of_nat k) ^ "=" ^ value_text v) merged) in
          Printf.printf "%s | %s | %s | %s\n" outcome (String.concat "," (List.map event_name tr)) spec mtxt
        with _ -> print_string "BAD-REQUEST\n"
      end
    done
  with End_of_file -> ()
