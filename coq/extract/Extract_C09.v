From Coq Require Import Extraction ExtrOcamlBasic.
From TK Require Import Mat_Qc Lap_Model Lap_Spec Lap_Exec.
Extraction "c09_model.ml" lap_exp_arg dm_exp_arg lap_run lap_spec_run dm_run dm_sqrt_args_run
  dm_spec_run dm_roots_ok le_embed_run dm_embed_run qc_pow le_select_run dm_select_run qz qfrac.
