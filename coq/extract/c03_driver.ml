(* c03_driver.ml — runs the extracted connectivity models / spec oracles, one case per line.
   stdin:
     G <N> <k> <N*k ints>            explicit graph, N lists of k entries
        -> "G <shipped> <fixed> <wf> <uniform> <strong> <from_first>"
           shipped/fixed: result of is_connected / is_connected_fixed: 0 | 1 | OOB:site:idx:size | FUEL
     S <N> (<len> <entries>)*        explicit graph with its own list lengths (the implementation's output)
        -> "S <wf> <uniform> <strong> <from_first> <len_0>"
     H <N> (<len> <entries>)*        explicit graph with its own list lengths (arbitrary Neighbors)
        -> "G <shipped> <fixed> <wf> <uniform> <strong> <from_first>"   (as G)
     X <k> <N> T <n> then n times: <k_j> <N> (<len> <entries>)* 
                                     find_neighbors (current connected.hpp = is_connected_fixed) with the
                                     search replaced by the given table of lists (the implementation's own
                                     lists for every k_j): which k_j the recursion stops at
        -> "X <k'>"   | OOB:... | FUEL      (a k_j missing from the table gives the empty graph -> OOB)
     B <n> <k_1> .. <k_n> <dim> <N> <N*dim ints>
                                     ties of the L1 metric on the points: boundary_free_b for each k_i, tie_free_b
        -> "B <b_1> .. <b_n> <tie_free>"
     F <k> <dim> <N> <N*dim ints>    find_neighbors over the reference exact k-NN search on integer points (L1)
        -> "F <fixed> <shipped>"     each: the k finally used | OOB:... | FUEL
     K <k> <dim> <N> <N*dim ints>    strong connectivity of the exact k-NN graph (no doubling)
        -> "K <kk> <strong> <from_first>"   kk = min(k, N-1)
   Anything else -> "?" *)
open C03_model

let rec pos_of_int n = if n = 1 then XH else if n land 1 = 1 then XI (pos_of_int (n lsr 1)) else XO (pos_of_int (n lsr 1))
let z_of_int n = if n = 0 then Z0 else if n > 0 then Zpos (pos_of_int n) else Zneg (pos_of_int (-n))
let nat_of_int n = let rec go acc n = if n <= 0 then acc else go (S acc) (n - 1) in go O n
let int_of_nat n = let rec go acc = function O -> acc | S m -> go (acc + 1) m in go 0 n

let b01 b = if b then "1" else "0"
let show_res = function
  | COk b -> b01 b
  | COOB (s, i, z) -> Printf.sprintf "OOB:%d:%d:%d" (int_of_nat s) (int_of_nat i) (int_of_nat z)
  | CFuel -> "FUEL"
let show_fn = function
  | COk (k, _) -> string_of_int (int_of_nat k)
  | COOB (s, i, z) -> Printf.sprintf "OOB:%d:%d:%d" (int_of_nat s) (int_of_nat i) (int_of_nat z)
  | CFuel -> "FUEL"

exception Bad

let take_int toks = match !toks with
  | [] -> raise Bad
  | t :: rest -> toks := rest; (try int_of_string t with _ -> raise Bad)

let read_points toks dim n =
  let pts = ref [] in
  for _ = 1 to n do
    let x = take_int toks in
    let y = if dim >= 2 then take_int toks else 0 in
    pts := (z_of_int x, z_of_int y) :: !pts
  done;
  List.rev !pts

let read_row toks len =
  let r = ref [] in
  for _ = 1 to len do
    let v = take_int toks in
    if v < 0 then raise Bad;
    r := nat_of_int v :: !r
  done;
  List.rev !r

let () =
  try
    while true do
      let line = input_line stdin in
      let toks = ref (List.filter (fun s -> s <> "") (String.split_on_char ' ' (String.trim line))) in
      (try
        match !toks with
        | [] -> ()
        | cmd :: rest ->
          toks := rest;
          (match cmd with
           | "G" ->
             let n = take_int toks in
             let k = take_int toks in
             let g = List.init n (fun _ -> read_row toks k) in
             let nn = nat_of_int n in
             Printf.printf "G %s %s %s %s %s %s\n"
               (show_res (is_connected nn g)) (show_res (is_connected_fixed nn g))
               (b01 (wf_b nn g)) (b01 (uniform_b g)) (b01 (strong_b nn g)) (b01 (from_first_b nn g))
           | "H" ->
             let n = take_int toks in
             let g = List.init n (fun _ -> let len = take_int toks in read_row toks len) in
             let nn = nat_of_int n in
             Printf.printf "G %s %s %s %s %s %s\n"
               (show_res (is_connected nn g)) (show_res (is_connected_fixed nn g))
               (b01 (wf_b nn g)) (b01 (uniform_b g)) (b01 (strong_b nn g)) (b01 (from_first_b nn g))
           | "X" ->
             let k = take_int toks in
             let n = take_int toks in
             (match !toks with "T" :: rest -> toks := rest | _ -> raise Bad);
             let nt = take_int toks in
             let table = List.init nt (fun _ ->
               let kj = take_int toks in
               let n' = take_int toks in
               let g = List.init n' (fun _ -> let len = take_int toks in read_row toks len) in
               (kj, g)) in
             let knn kk = try List.assoc (int_of_nat kk) table with Not_found -> [] in
             let nn = nat_of_int n in
             Printf.printf "X %s\n" (show_fn (find_neighbors is_connected_fixed knn nn nn (nat_of_int k) true))
           | "B" ->
             let nk = take_int toks in
             let ks = List.init nk (fun _ -> take_int toks) in
             let dim = take_int toks in
             let n = take_int toks in
             let pts = read_points toks dim n in
             let nn = nat_of_int n in
             let d = pdist pts in
             Printf.printf "B %s %s\n"
               (String.concat " " (List.map (fun k -> b01 (boundary_free_b d nn (nat_of_int k))) ks))
               (b01 (tie_free_b d nn))
           | "S" ->
             let n = take_int toks in
             let g = List.init n (fun _ -> let len = take_int toks in read_row toks len) in
             let nn = nat_of_int n in
             let wf = wf_b nn g in
             let len0 = match g with [] -> -1 | r :: _ -> List.length r in
             if wf then
               Printf.printf "S 1 %s %s %s %d\n" (b01 (uniform_b g)) (b01 (strong_b nn g))
                 (b01 (from_first_b nn g)) len0
             else Printf.printf "S 0 %s 0 0 %d\n" (b01 (uniform_b g)) len0
           | "F" ->
             let k = take_int toks in
             let dim = take_int toks in
             let n = take_int toks in
             let pts = read_points toks dim n in
             let nn = nat_of_int n in
             let knn = knn_brute pts in
             Printf.printf "F %s %s\n"
               (show_fn (find_neighbors is_connected_fixed knn nn nn (nat_of_int k) true))
               (show_fn (find_neighbors is_connected knn nn nn (nat_of_int k) true))
           | "K" ->
             let k = take_int toks in
             let dim = take_int toks in
             let n = take_int toks in
             let pts = read_points toks dim n in
             let nn = nat_of_int n in
             let kk = kseq nn (nat_of_int k) O in
             let g = knn_brute pts kk in
             Printf.printf "K %d %s %s\n" (int_of_nat kk) (b01 (strong_b nn g)) (b01 (from_first_b nn g))
           | _ -> print_string "?\n")
      with Bad -> print_string "? bad-input\n");
      flush stdout
    done
  with End_of_file -> ()
