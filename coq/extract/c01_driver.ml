(* c01_driver.ml — runs the extracted C01 outcome / index-obligation model.
   stdin, one case per line (integers, booleans as 0/1):
     id f6 f7 f12 f21 method N D d k dense scalars_ok L exact K global nupd nbmode [lens...]
   nbmode = U keff : N neighbour lists of length keff (ring entries (i+1+j) mod N)
            L l0 l1 .. l(N-1) : list i has length l_i
            E : no lists
   stdout, one line per case:
     <id> SHAPE rows cols | <id> EXC name | <id> CRASH site idx size | <id> HANG site ; then " S<mask>"
     (src_differs_mask: which table regenerated from the source treats the request differently from the
     model: 1 sizing/index expressions, 2 validate(), 4 eigen slices; 0 = none) ; then " F7" if the
     request lies in the F7 zone *)
open C01_model

let rec pos_of_int n = if n = 1 then XH else if n land 1 = 1 then XI (pos_of_int (n lsr 1)) else XO (pos_of_int (n lsr 1))
let z_of_int n = if n = 0 then Z0 else if n > 0 then Zpos (pos_of_int n) else Zneg (pos_of_int (-n))
let rec int_of_pos = function XH -> 1 | XO p -> 2 * int_of_pos p | XI p -> 2 * int_of_pos p + 1
let int_of_z = function Z0 -> 0 | Zpos p -> int_of_pos p | Zneg p -> - (int_of_pos p)
let rec int_of_nat = function O -> 0 | S n -> 1 + int_of_nat n

let meth_of = function
  | "klle" -> KLLE | "npe" -> NPE | "kltsa" -> KLTSA | "lltsa" -> LLTSA | "hlle" -> HLLE | "la" -> LA
  | "lpp" -> LPP | "dm" -> DM | "isomap" -> ISOMAP | "lisomap" -> LISOMAP | "mds" -> MDS | "lmds" -> LMDS
  | "spe" -> SPE | "kpca" -> KPCA | "pca" -> PCA | "ra" -> RP | "fa" -> FA | "tsne" -> TSNE | "ms" -> MS
  | "passthru" -> PASSTHRU | s -> failwith ("method " ^ s)

let exc_name = function
  | WrongParameter -> "wrong_parameter_error" | WrongParameterType -> "wrong_parameter_type_error"
  | MissedParameter -> "missed_parameter_error" | MultipleParameter -> "multiple_parameter_error"
  | UnsupportedMethod -> "unsupported_method_error" | NotEnoughMemory -> "not_enough_memory_error"
  | Cancelled -> "cancelled_exception" | EigendecompositionFailed -> "eigendecomposition_error"
  | NoData -> "no_data_error"

let () =
  try
    while true do
      let line = String.trim (input_line stdin) in
      if line <> "" then begin
        let w = Array.of_list (List.filter (fun s -> s <> "") (String.split_on_char ' ' line)) in
        let ii k = int_of_string w.(k) in
        let bb k = ii k <> 0 in
        let id = w.(0) in
        (try
          let v = { v_f6 = bb 1; v_f7 = bb 2; v_f12 = bb 3; v_f21 = bb 4 } in
          let n = ii 6 in
          let c = { c_m = meth_of w.(5); c_N = z_of_int n; c_D = z_of_int (ii 7); c_d = z_of_int (ii 8);
                    c_k = z_of_int (ii 9); c_dense = bb 10; c_scalars_ok = bb 11; c_L = z_of_int (ii 12);
                    c_exact = bb 13; c_K = z_of_int (ii 14); c_global = bb 15; c_nupd = z_of_int (ii 16) } in
          let row i len = List.init (max len 0) (fun j -> z_of_int (if n > 0 then (i + 1 + j) mod n else 0)) in
          let nb = match w.(17) with
            | "U" -> let k = ii 18 in List.init (max n 0) (fun i -> row i k)
            | "L" -> List.init (max n 0) (fun i -> row i (ii (18 + i)))
            | _ -> [] in
          let perm = List.init (max n 0) (fun i -> z_of_int i) in
          let rs = List.init (max (ii 16) 0) (fun _ -> Z0) in
          let keff = (match w.(17) with "U" -> ii 18 | "L" -> (if n > 0 then ii 18 else 0) | _ -> max 0 (min (ii 9) (n - 1))) in
          let mask = int_of_z (src_differs_mask c (z_of_int (max keff 0))) in
          let tail = Printf.sprintf " S%d%s" mask (if f7_zone c then " F7" else "") in
          (match outcome_of v c nb perm rs with
           | OShape (r, k) -> Printf.printf "%s SHAPE %d %d%s\n" id (int_of_z r) (int_of_z k) tail
           | OExc e -> Printf.printf "%s EXC %s%s\n" id (exc_name e) tail
           | OCrash (s, i, m) -> Printf.printf "%s CRASH %d %d %d%s\n" id (int_of_nat s) (int_of_z i) (int_of_z m) tail
           | OHang s -> Printf.printf "%s HANG %d%s\n" id (int_of_nat s) tail)
        with Failure m | Invalid_argument m -> Printf.printf "%s BAD %s\n" id m)
      end
    done
  with End_of_file -> ()
