From Coq Require Import Extraction ExtrOcamlBasic.
From Coq Require Import QArith Qcanon.
From TK Require Import Mat_Sums Mat_Core Mat_Qc Proj_Model Proj_Spec.
(* the closed Qc instances of the model and of the spec decision procedures: these are the
   functions the theorems of Properties_C07.v (instantiated at Qc) are about *)
Definition c07_mean := @compute_mean_exec Qc QcOps.
Definition c07_project := @project_exec Qc QcOps.
Definition c07_mpi := @mpi_project_exec Qc QcOps.
Definition c07_tail := @projecting_embed_tail Qc QcOps.
Definition c07_mean_range := @compute_mean_range Qc QcOps.
Definition c07_project_range := @project_range Qc QcOps.
Definition c07_tail_range := @projecting_embed_tail_range Qc QcOps.
Definition c07_spec_output := output_consistent_tol_b.
Definition c07_spec_proj := is_projection_tol_b.
Definition c07_spec_mean := training_mean_tol_b.
Definition c07_spec_affine := affine_tol_b.
(* wave 3: tolerance relative to the output, |y_c - s_c| <= eps * sum_t |P t c| |x t - m t| *)
Definition c07_spec_proj_rel := is_projection_rel_b.
Definition c07_spec_rows_rel := rows_rel_b.
Extraction "c07_model.ml" c07_mean c07_project c07_mpi c07_tail c07_mean_range c07_project_range c07_tail_range
  c07_spec_output c07_spec_proj c07_spec_mean c07_spec_affine c07_spec_proj_rel c07_spec_rows_rel Q2Qc this.
