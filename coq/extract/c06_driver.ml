(* c06_driver.ml — runs the extracted C06 model / spec decision procedures (Qc arithmetic).
   One case per stdin line, one result line per case.  Rationals cross as  [-]HEX/HEX  (numerator,
   denominator; hexadecimal, arbitrary size) or [-]HEX.
     COV    D N <X N*D>                 -> OK <C D*D> | DIM site got want   (current compute_covariance)
     COVOLD D N <X N*D>                 -> OK <C D*D>                       (as shipped before fix F8)
     COVEXP D N <X N*D>                 -> OK <C D*D>                       (expanded form, fix F8 .. fix F49)
     MEAN   D N <X N*D>                 -> OK <m D>
     SEEN dense|randomized D <M D*D>    -> OK <S D*D>        (what the solver front-end sees of M)
     SCOVD N D tol <X N*D> <C D*D>      -> T | F | ILL       (cov_seen_dense_b)
     SCOVR N D tol <X N*D> <C D*D>      -> T | F | ILL       (cov_seen_randomized_b)
     SEIG  D d tol <C D*D> <P D*d> <lam d>      -> T | F | ILL  (eig_contract_tol_b)
     SUNC  N d tol <Y N*d> <lam d>              -> T | F | ILL  (uncorrelated_tol_b)
     SRET  D d tol <C D*D> <P D*d> bound        -> T | F | ILL  (retained_tol_b)
     SNB   D d tol <C D*D> <P D*d> <Q D*d>      -> T | F | ILL  (not_better_tol_b)
     SOUT  N D d tol <X N*D> <Y N*d> <P D*d> <m D>  -> T | F | ILL  (output_consistent_tol_b, C07)
   Any malformed line -> "ERR <reason>". *)
open C06_model

let rec nat_of_int n = if n <= 0 then O else S (nat_of_int (n - 1))
let rec int_of_nat = function O -> 0 | S n -> 1 + int_of_nat n

(* positive <-> hex string, most significant digit first *)
let pos_of_hex (s : string) : positive option =
  (* returns None for zero *)
  let bits = Buffer.create (4 * String.length s) in
  String.iter (fun ch ->
      let v = match ch with
        | '0' .. '9' -> Char.code ch - 48
        | 'a' .. 'f' -> Char.code ch - 87
        | 'A' .. 'F' -> Char.code ch - 55
        | _ -> failwith "bad hex digit" in
      for k = 3 downto 0 do Buffer.add_char bits (if (v lsr k) land 1 = 1 then '1' else '0') done) s;
  let b = Buffer.contents bits in
  let n = String.length b in
  let i = ref 0 in
  while !i < n && b.[!i] = '0' do incr i done;
  if !i >= n then None
  else begin
    let p = ref XH in
    for k = !i + 1 to n - 1 do
      p := if b.[k] = '1' then XI !p else XO !p
    done;
    Some !p
  end

let hex_of_pos (p : positive) : string =
  (* bits, least significant first *)
  let rec lsb p = match p with XH -> [1] | XO q -> 0 :: lsb q | XI q -> 1 :: lsb q in
  let l = Array.of_list (lsb p) in
  let n = Array.length l in
  let nd = (n + 3) / 4 in
  let b = Buffer.create nd in
  for d = nd - 1 downto 0 do
    let v = ref 0 in
    for k = 3 downto 0 do
      let idx = 4 * d + k in
      v := !v * 2 + (if idx < n then l.(idx) else 0)
    done;
    Buffer.add_char b "0123456789abcdef".[!v]
  done;
  Buffer.contents b

let qc_of_string (s : string) : qc =
  let neg, s = if String.length s > 0 && s.[0] = '-' then true, String.sub s 1 (String.length s - 1) else false, s in
  let num, den = match String.index_opt s '/' with
    | Some i -> String.sub s 0 i, String.sub s (i + 1) (String.length s - i - 1)
    | None -> s, "1" in
  let d = match pos_of_hex den with Some p -> p | None -> failwith "zero denominator" in
  let z = match pos_of_hex num with None -> Z0 | Some p -> if neg then Zneg p else Zpos p in
  q2Qc { qnum = z; qden = d }

let string_of_qc (x : qc) : string =
  let q = this x in
  let n = match q.qnum with Z0 -> "0" | Zpos p -> hex_of_pos p | Zneg p -> "-" ^ hex_of_pos p in
  match q.qden with XH -> n | d -> n ^ "/" ^ hex_of_pos d

exception Short
let () =
  try
    while true do
      let line = input_line stdin in
      let toks = Array.of_list (List.filter (fun s -> s <> "") (String.split_on_char ' ' (String.trim line))) in
      let pos = ref 1 in
      let next () = if !pos >= Array.length toks then raise Short else (let t = toks.(!pos) in incr pos; t) in
      let int_ () = int_of_string (next ()) in
      let q_ () = qc_of_string (next ()) in
      let vec n = List.init n (fun _ -> q_ ()) in
      let mat n m = List.init n (fun _ -> vec m) in
      let show_vec v = String.concat " " (List.map string_of_qc v) in
      let show_mat m = String.concat " " (List.map show_vec m) in
      let show_pres f = function
        | POk a -> "OK " ^ f a
        | PDim (s, g, w) -> Printf.sprintf "DIM %d %d %d" (int_of_nat s) (int_of_nat g) (int_of_nat w) in
      let show_ob = function Some true -> "T" | Some false -> "F" | None -> "ILL" in
      let nn = nat_of_int in
      if Array.length toks > 0 then begin
        let out =
          try
            match toks.(0) with
            | "COV" | "COVOLD" | "COVEXP" | "MEAN" ->
              let d = int_ () in let n = int_ () in
              if d < 0 || n < 0 || d > 4096 || n > 100000 then "ERR size" else
              let x = mat n d in
              (match toks.(0) with
               | "COV" -> show_pres show_mat (c06_cov (nn d) x)
               | "COVOLD" -> show_pres show_mat (c06_cov_old (nn d) x)
               | "COVEXP" -> show_pres show_mat (c06_cov_expanded (nn d) x)
               | _ -> show_pres show_vec (c06_mean (nn d) x))
            | "SEEN" ->
              let which = next () in let d = int_ () in let m = mat d d in
              "OK " ^ show_mat (if which = "dense" then c06_seen_dense (nn d) m else c06_seen_randomized (nn d) m)
            | "SCOVD" | "SCOVR" ->
              let n = int_ () in let d = int_ () in let tol = q_ () in
              let x = mat n d in let c = mat d d in
              show_ob ((if toks.(0) = "SCOVD" then c06_spec_cov_dense else c06_spec_cov_randomized) (nn n) (nn d) tol x c)
            | "SEIG" ->
              let dd = int_ () in let d = int_ () in let tol = q_ () in
              let c = mat dd dd in let p = mat dd d in let lam = vec d in
              show_ob (c06_spec_eig (nn dd) (nn d) tol c p lam)
            | "SUNC" ->
              let n = int_ () in let d = int_ () in let tol = q_ () in
              let y = mat n d in let lam = vec d in
              show_ob (c06_spec_uncorrelated (nn n) (nn d) tol y lam)
            | "SRET" ->
              let dd = int_ () in let d = int_ () in let tol = q_ () in
              let c = mat dd dd in let p = mat dd d in let b = q_ () in
              show_ob (c06_spec_retained (nn dd) (nn d) tol c p b)
            | "SNB" ->
              let dd = int_ () in let d = int_ () in let tol = q_ () in
              let c = mat dd dd in let p = mat dd d in let q = mat dd d in
              show_ob (c06_spec_not_better (nn dd) (nn d) tol c p q)
            | "SOUT" ->
              let n = int_ () in let dd = int_ () in let d = int_ () in let tol = q_ () in
              let x = mat n dd in let y = mat n d in let p = mat dd d in let m = vec dd in
              show_ob (c06_spec_output (nn n) (nn dd) (nn d) tol x y p m)
            | c -> "ERR unknown command " ^ c
          with
          | Short -> "ERR short line"
          | Failure m -> "ERR " ^ m
          | Invalid_argument m -> "ERR " ^ m
        in
        print_string out; print_newline ()
      end
    done
  with End_of_file -> ()
