(* c04_driver.ml — runs the extracted Dijkstra / Bellman-Ford / Isomap-centring functions.
   One case per stdin line, whitespace separated tokens; one block of output lines per case,
   closed by "END".

   Graph section (commands M, C):   <N> then for each vertex u: <len> v_1 .. v_len ; then
       W <N*N integers> ; L <nl> lm_1 .. lm_nl
   M <graph>                 model outputs:
        full pq0|pq1|fib0|fib1 <mat>      full_matrix, flavour x (pick_first_min | pick_last_min)
        land pq0|fib0|fib1 <mat>          landmark_matrix_fixed (the CURRENT source, f[landmarks[k]])
        landold fib0 <mat>                landmark_matrix (source before fix F4, f[k])
        sp <mat>, landsp <mat>            Bellman-Ford specification
        full fibc <mat>, land fibc <mat>  Fibonacci flavour over the CONCRETE heap model of C16
        trace fibc <n> 2 u v u v ...      its distance-callback calls (one thread), ltrace fibc likewise
        full pqc <mat>, land pqc <mat>    priority-queue flavour over the CONCRETE binary heap of libstdc++
        trace pqc / ltrace pqc            its distance-callback calls (one thread)
   C <graph> F <N*N obs> [O <nl*N obs>]   spec decision procedures on OBSERVED matrices
        (obs = integer or "inf"):  "full ok|fail", "land ok|fail"
   R <graph> S <src> P <0|1> <fl>          one row (row_fl fl ... src src): "row <1 x N mat>"
   D <graph>                 big graphs: only "full pq0" and "full fibc" (+ "land pq0", "land fibc"): the Dijkstra
                             models, which dijkstra_pq_correct / dijkstra_fib_concrete_correct prove equal to sp
   K <graph> S <src> <N obs> spec decision procedure on ONE observed row: "row ok|fail"  (check_row)
   E <graph>                 "events c0 .. c6": how many decrease_key calls of the concrete-heap run meet each heap
                             situation (dk_class of Dijkstra_FibC_Model.v); also printed by M
   I <n> <n*n integers>      geodesic table -> "cur <qmat>" "old <qmat>" "mds <qmat>"
   J <n> <n*n integers> B <n*n num/den>   "mds ok|fail"     (check_mds on an observed matrix)
   P <graph> [B <N*N num/den>]   the embed() pipeline judged from the MODEL geodesics (wave 4): "sp <mat>" (Bellman-Ford
                             specification on the graph); if every entry is finite also "mds <qmat>" = mds_ref_exec of that
                             table (-1/2 J S J, S = squared lengths of both directions averaged) and, when B is given,
                             "mds ok|fail" = check_mds N (sp table) B
   <mat>  = "<r> <c> e e e ..." (row major, "inf" = None) | "OOB <site> <idx>" | "FUEL"
   <qmat> = "<r> <c> num/den ..." *)
open C04_model

let rec pos_of_int n = if n = 1 then XH else if n land 1 = 1 then XI (pos_of_int (n lsr 1)) else XO (pos_of_int (n lsr 1))
let z_of_int n = if n = 0 then Z0 else if n > 0 then Zpos (pos_of_int n) else Zneg (pos_of_int (-n))
let rec int_of_pos = function XH -> 1 | XO p -> 2 * int_of_pos p | XI p -> 2 * int_of_pos p + 1
let int_of_z = function Z0 -> 0 | Zpos p -> int_of_pos p | Zneg p -> - (int_of_pos p)
let nat_of_int n = let rec go acc k = if k <= 0 then acc else go (S acc) (k - 1) in go O n
let int_of_nat n = let rec go acc = function O -> acc | S m -> go (acc + 1) m in go 0 n

exception Bad of string

type graph = { n : int; nbrs : nat list list; w : z list list; lm : nat list }

(* token stream *)
let toks = ref [||] and pos = ref 0
let peek () = if !pos < Array.length !toks then Some !toks.(!pos) else None
let next () = match peek () with Some t -> incr pos; t | None -> raise (Bad "eof")
let next_int () = let t = next () in try int_of_string t with _ -> raise (Bad ("int " ^ t))
let expect s = let t = next () in if t <> s then raise (Bad ("expected " ^ s ^ " got " ^ t))
let rec times k f = if k <= 0 then [] else let x = f () in x :: times (k - 1) f

let read_graph () =
  let n = next_int () in
  if n < 0 || n > 5000 then raise (Bad "N");
  let nbrs = times n (fun () -> let l = next_int () in times l (fun () -> nat_of_int (next_int ()))) in
  expect "W";
  let w = times n (fun () -> times n (fun () -> z_of_int (next_int ()))) in
  expect "L";
  let nl = next_int () in
  let lm = times nl (fun () -> nat_of_int (next_int ())) in
  { n; nbrs; w; lm }

let read_obs rows cols =
  times rows (fun () -> times cols (fun () ->
      let t = next () in if t = "inf" then None else Some (z_of_int (try int_of_string t with _ -> raise (Bad "obs")))))

let show_mat b = function
  | DOk m ->
    let r = List.length m and c = (match m with [] -> 0 | x :: _ -> List.length x) in
    Buffer.add_string b (Printf.sprintf "%d %d" r c);
    List.iter (List.iter (function None -> Buffer.add_string b " inf"
                                   | Some z -> Buffer.add_string b (Printf.sprintf " %d" (int_of_z z)))) m
  | DOOB (s, i) -> Buffer.add_string b (Printf.sprintf "OOB %d %d" (int_of_nat s) (int_of_nat i))
  | DOutOfFuel -> Buffer.add_string b "FUEL"

let out tag r =
  let b = Buffer.create 1024 in
  Buffer.add_string b tag; Buffer.add_char b ' '; show_mat b r;
  print_string (Buffer.contents b); print_newline ()

let out_trace tag (t : (nat * nat) list) =
  let b = Buffer.create 1024 in
  Buffer.add_string b (Printf.sprintf "%s %d 2" tag (List.length t));
  List.iter (fun (u, v) -> Buffer.add_string b (Printf.sprintf " %d %d" (int_of_nat u) (int_of_nat v))) t;
  print_string (Buffer.contents b); print_newline ()

let out_events g_nbrs w nn =
  let c = Array.make 7 0 in
  List.iter (fun k -> let k = int_of_nat k in if k >= 0 && k < 7 then c.(k) <- c.(k) + 1) (full_events_fibc g_nbrs w nn);
  print_string ("events " ^ String.concat " " (Array.to_list (Array.map string_of_int c))); print_newline ()

let show_qmat tag (m : qc list list) =
  let b = Buffer.create 1024 in
  let r = List.length m and c = (match m with [] -> 0 | x :: _ -> List.length x) in
  Buffer.add_string b (Printf.sprintf "%s %d %d" tag r c);
  List.iter (List.iter (fun x -> let q = this x in
                         Buffer.add_string b (Printf.sprintf " %d/%d" (int_of_z q.qnum) (int_of_pos q.qden)))) m;
  print_string (Buffer.contents b); print_newline ()

let read_ztable n = times n (fun () -> times n (fun () -> z_of_int (next_int ())))

let handle line =
  toks := Array.of_list (List.filter (fun s -> s <> "") (String.split_on_char ' ' (String.trim line)));
  pos := 0;
  match peek () with
  | None -> ()
  | Some cmd ->
    ignore (next ());
    (try
       (match cmd with
        | "M" ->
          let g = read_graph () in
          let w = table_w g.w and nn = nat_of_int g.n in
          out "full pq0" (full_matrix PQ g.nbrs w pick_first_min nn);
          out "full pq1" (full_matrix PQ g.nbrs w pick_last_min nn);
          out "full fib0" (full_matrix FIB g.nbrs w pick_first_min nn);
          out "full fib1" (full_matrix FIB g.nbrs w pick_last_min nn);
          out "sp" (DOk (sp_matrix g.nbrs w nn));
          out "full fibc" (full_matrix_fibc g.nbrs w nn);
          out_trace "trace fibc" (full_trace_fibc g.nbrs w nn);
          out_events g.nbrs w nn;
          out "full pqc" (full_matrix_pqc g.nbrs w nn);
          out_trace "trace pqc" (full_trace_pqc g.nbrs w nn);
          if g.lm <> [] then begin
            out "land pqc" (landmark_matrix_pqc g.nbrs w nn g.lm);
            out_trace "ltrace pqc" (landmark_trace_pqc g.nbrs w nn g.lm)
          end;
          if g.lm <> [] then begin
            out "land pq0" (landmark_matrix_fixed PQ g.nbrs w pick_first_min nn g.lm);
            out "land fib0" (landmark_matrix_fixed FIB g.nbrs w pick_first_min nn g.lm);
            out "land fib1" (landmark_matrix_fixed FIB g.nbrs w pick_last_min nn g.lm);
            out "landold fib0" (landmark_matrix FIB g.nbrs w pick_first_min nn g.lm);
            out "landsp" (DOk (sp_landmarks g.nbrs w nn g.lm));
            out "land fibc" (landmark_matrix_fibc g.nbrs w nn g.lm);
            out_trace "ltrace fibc" (landmark_trace_fibc g.nbrs w nn g.lm)
          end
        | "C" ->
          (* check_matrix nbrs w N obs = mat_eqb obs (sp_matrix nbrs w N) by definition (Dijkstra_Spec.v); the
             specification matrix is computed once and shared by all observed matrices of the line *)
          let g = read_graph () in
          let w = table_w g.w and nn = nat_of_int g.n in
          let sp = lazy (sp_matrix g.nbrs w nn) and lsp = lazy (sp_landmarks g.nbrs w nn g.lm) in
          let rec go () =
            match peek () with
            | Some "F" -> ignore (next ());
              let obs = read_obs g.n g.n in
              print_string (if mat_eqb obs (Lazy.force sp) then "full ok\n" else "full fail\n"); go ()
            | Some "O" -> ignore (next ());
              let obs = read_obs (List.length g.lm) g.n in
              print_string (if mat_eqb obs (Lazy.force lsp) then "land ok\n" else "land fail\n"); go ()
            | _ -> () in
          go ()
        | "D" ->
          let g = read_graph () in
          let w = table_w g.w and nn = nat_of_int g.n in
          out "full pq0" (full_matrix PQ g.nbrs w pick_first_min nn);
          out "full fibc" (full_matrix_fibc g.nbrs w nn);
          out "full pqc" (full_matrix_pqc g.nbrs w nn);
          if g.lm <> [] then begin
            out "land pq0" (landmark_matrix_fixed PQ g.nbrs w pick_first_min nn g.lm);
            out "land fibc" (landmark_matrix_fibc g.nbrs w nn g.lm);
            out "land pqc" (landmark_matrix_pqc g.nbrs w nn g.lm)
          end
        | "E" ->
          let g = read_graph () in
          out_events g.nbrs (table_w g.w) (nat_of_int g.n)
        | "K" ->
          let g = read_graph () in
          let w = table_w g.w and nn = nat_of_int g.n in
          expect "S"; let src = nat_of_int (next_int ()) in
          (match read_obs 1 g.n with
           | [obs] -> print_string (if check_row g.nbrs w nn src obs then "row ok\n" else "row fail\n")
           | _ -> raise (Bad "row"))
        | "R" ->
          let g = read_graph () in
          let w = table_w g.w and nn = nat_of_int g.n in
          expect "S"; let src = nat_of_int (next_int ()) in
          expect "P"; let p = next_int () in
          let fl = if next () = "fib" then FIB else PQ in
          let k = (match g.nbrs with [] -> O | r0 :: _ -> length r0) in
          (match row_fl fl g.nbrs w (if p = 0 then pick_first_min else pick_last_min) nn k src src with
           | DOk r -> out "row" (DOk [r])
           | DOOB (a, b) -> out "row" (DOOB (a, b))
           | DOutOfFuel -> out "row" DOutOfFuel)
        | "I" ->
          let n = next_int () in
          let t = read_ztable n in
          let nn = nat_of_int n in
          show_qmat "cur" (iso_current_exec nn t);
          show_qmat "old" (iso_old_exec nn t);
          show_qmat "mds" (mds_ref_exec nn t)
        | "P" ->
          let g = read_graph () in
          let w = table_w g.w and nn = nat_of_int g.n in
          let sp = sp_matrix g.nbrs w nn in
          out "sp" (DOk sp);
          if List.for_all (List.for_all (fun x -> x <> None)) sp then begin
            let t = List.map (List.map (function Some z -> z | None -> Z0)) sp in
            show_qmat "mds" (mds_ref_exec nn t);
            (match peek () with
             | Some "B" -> ignore (next ());
               let obs = times g.n (fun () -> times g.n (fun () ->
                   let s = next () in
                   match String.split_on_char '/' s with
                   | [a; b] -> (z_of_int (int_of_string a), pos_of_int (int_of_string b))
                   | _ -> raise (Bad "frac"))) in
               print_string (if check_mds nn t obs then "mds ok\n" else "mds fail\n")
             | _ -> ())
          end
        | "J" ->
          let n = next_int () in
          let t = read_ztable n in
          expect "B";
          let obs = times n (fun () -> times n (fun () ->
              let s = next () in
              match String.split_on_char '/' s with
              | [a; b] -> (z_of_int (int_of_string a), pos_of_int (int_of_string b))
              | _ -> raise (Bad "frac"))) in
          print_string (if check_mds (nat_of_int n) t obs then "mds ok\n" else "mds fail\n")
        | _ -> print_string ("BAD command " ^ cmd ^ "\n"))
     with Bad s -> print_string ("BAD " ^ s ^ "\n")
        | Failure s -> print_string ("BAD failure " ^ s ^ "\n"));
    print_string "END\n"

let () =
  try
    while true do
      handle (input_line stdin)
    done
  with End_of_file -> ()
