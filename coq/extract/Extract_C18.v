From Coq Require Import Extraction ExtrOcamlBasic.
From TK Require Import QuadTree_Model QuadTree_Spec QuadTree_SpecExec QuadTree_SpecExec2.
Extraction "c18_model.ml" init insert fill_order forces forces_cells all_indices is_correct depth ncells
           spec_okb struct_okb recom coms cum_consistent auto_root forces_subtrees.
