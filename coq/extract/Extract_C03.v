From Coq Require Import Extraction ExtrOcamlBasic.
From TK Require Import Conn_Model Conn_Spec.
Extraction "c03_model.ml" is_connected is_connected_fixed find_neighbors knn_brute
  wf_b uniform_b strong_b from_first_b relabel kseq tie_free_b boundary_free_b pdist.
