(* c05_driver.ml — runs the extracted C05 model / spec (Mds_Exec.v) on cases from stdin.
   One case per line, one result line per case.  Rationals cross the boundary as
   [-]HEXNUM/HEXDEN (exact).  Matrices are row major.
     D2|MDS|KPCA|CENTER|ISO|SEEND|SEENR|SPECMDS|SPECKPCA n <n*n>        -> "M n n <n*n>"
     EMBED site N d skip <N*N V> <N lam> <N sqrt>       -> "M N d <N*d>" | "NONE"
     VALS  site N d skip <N lam>                        -> "M d 1 <d>"   | "NONE"
     VIEWS site N d skip                                -> "V co cc vo vc" (-1 -1 = out of range) | "NONE"
     FACTOR n d tol <n*n B> <n*d Y> <d lam>             -> "B 1" | "B 0" | "ILL"
     DIST   n d tol <n*d Y> <n*n D2>                    -> "B 1" | "B 0" | "ILL"
     FACTORW n d <n*n B> <n*d Y> <d lam> <d*d T1> <d T2> -> "B 1" | "B 0" | "ILL"   (tolerance per entry)
     RGS    n k thr <n*n A> <n*k O> <k norms>           -> "M n k <n*k>"  basis of the randomized front-end
     RSMALL n k <n*n A> <n*k Y>                         -> "M k k <k*k>"  Y^T (A Y), A read through its upper triangle
     CONTRACT n tol <n*n B> <n*n V> <n lam>             -> "B 1" | "B 0" | "ILL"
   Anything unparsable -> "ERR <why>" (the Python side treats it as a build error). *)
open C05_model

let rec nat_of_int n = if n <= 0 then O else S (nat_of_int (n - 1))
let rec int_of_nat = function O -> 0 | S n -> 1 + int_of_nat n

let hexval c =
  match c with
  | '0' .. '9' -> Char.code c - 48
  | 'a' .. 'f' -> Char.code c - 87
  | 'A' .. 'F' -> Char.code c - 55
  | _ -> failwith "hex digit"

(* most significant bit first *)
let pos_of_hex (s : Stdlib.String.t) : positive option =
  let p = ref None in
  String.iter (fun c ->
      let v = hexval c in
      for k = 3 downto 0 do
        let b = (v lsr k) land 1 = 1 in
        p := (match !p with
            | None -> if b then Some XH else None
            | Some q -> Some (if b then XI q else XO q))
      done) s;
  !p

let hex_of_pos (p : positive) : Stdlib.String.t =
  (* bits least significant first *)
  let rec bits p acc = match p with
    | XH -> List.rev (true :: acc)
    | XO q -> bits q (false :: acc)
    | XI q -> bits q (true :: acc) in
  let lsb = bits p [] in
  let n = List.length lsb in
  let arr = Array.of_list lsb in
  let nd = (n + 3) / 4 in
  let b = Bytes.create nd in
  for i = 0 to nd - 1 do
    let v = ref 0 in
    for k = 0 to 3 do
      let idx = 4 * i + k in
      if idx < n && arr.(idx) then v := !v lor (1 lsl k)
    done;
    Bytes.set b (nd - 1 - i) "0123456789abcdef".[!v]
  done;
  Bytes.to_string b

let q_of_string (s : Stdlib.String.t) : qc =
  let neg = String.length s > 0 && s.[0] = '-' in
  let s = if neg then String.sub s 1 (String.length s - 1) else s in
  let num, den = match String.index_opt s '/' with
    | Some i -> String.sub s 0 i, String.sub s (i + 1) (String.length s - i - 1)
    | None -> s, "1" in
  let d = match pos_of_hex den with Some p -> p | None -> failwith "zero denominator" in
  let z = match pos_of_hex num with
    | None -> Z0
    | Some p -> if neg then Zneg p else Zpos p in
  q2Qc { qnum = z; qden = d }

let string_of_q (x : qc) : Stdlib.String.t =
  let num = match x.qnum with
    | Z0 -> "0"
    | Zpos p -> hex_of_pos p
    | Zneg p -> "-" ^ hex_of_pos p in
  num ^ "/" ^ hex_of_pos x.qden

let out_matrix n m (l : qc list list) =
  let b = Buffer.create 1024 in
  Buffer.add_string b (Printf.sprintf "M %d %d" n m);
  List.iter (fun r -> List.iter (fun x -> Buffer.add_char b ' '; Buffer.add_string b (string_of_q x)) r) l;
  print_endline (Buffer.contents b)

let () =
  try
    while true do
      let line = input_line stdin in
      let w = Array.of_list (List.filter (fun s -> s <> "") (String.split_on_char ' ' (String.trim line))) in
      if Array.length w > 0 then begin
        try
          let pos = ref 1 in
          let next () = let s = w.(!pos) in incr pos; s in
          let int () = int_of_string (next ()) in
          let rat () = q_of_string (next ()) in
          let vecr n = List.init n (fun _ -> rat ()) in
          let matr n m = List.init n (fun _ -> vecr m) in
          let outb = function
            | Some true -> print_endline "B 1"
            | Some false -> print_endline "B 0"
            | None -> print_endline "ILL" in
          (match w.(0) with
           | "D2" | "MDS" | "KPCA" | "CENTER" | "ISO" | "SEEND" | "SEENR" | "SPECMDS" | "SPECKPCA" ->
             let n = int () in
             let l = matr n n in
             let nn = nat_of_int n in
             let r = (match w.(0) with
                 | "D2" -> c05_d2 nn l
                 | "MDS" -> c05_mds nn l
                 | "KPCA" -> c05_kpca nn l
                 | "CENTER" -> c05_center nn l
                 | "ISO" -> c05_isomap nn l
                 | "SEEND" -> c05_seen_dense nn l
                 | "SPECMDS" -> c05_spec_mds nn l
                 | "SPECKPCA" -> c05_spec_kpca nn l
                 | _ -> c05_seen_randomized nn l) in
             out_matrix n n r
           | "EMBED" ->
             let site = int () in let n = int () in let d = int () in let skip = int () in
             let v = matr n n in let lam = vecr n in let sall = vecr n in
             (match c05_embed (nat_of_int site) (nat_of_int n) (nat_of_int d) (nat_of_int skip) v lam sall with
              | Some y -> out_matrix n d y
              | None -> print_endline "NONE")
           | "VALS" ->
             let site = int () in let n = int () in let d = int () in let skip = int () in
             let lam = vecr n in
             (match c05_vals (nat_of_int site) (nat_of_int n) (nat_of_int d) (nat_of_int skip) lam with
              | Some y -> out_matrix d 1 [y]
              | None -> print_endline "NONE")
           | "VIEWS" ->
             let site = int () in let n = int () in let d = int () in let skip = int () in
             (match c05_views (nat_of_int site) (nat_of_int n) (nat_of_int d) (nat_of_int skip) with
              | Some (vc, vv) ->
                let f = function Some (o, c) -> Printf.sprintf "%d %d" (int_of_nat o) (int_of_nat c) | None -> "-1 -1" in
                print_endline ("V " ^ f vc ^ " " ^ f vv)
              | None -> print_endline "NONE")
           | "FACTOR" ->
             let n = int () in let d = int () in let tol = rat () in
             let b = matr n n in let y = matr n d in let lam = vecr d in
             outb (c05_factor (nat_of_int n) (nat_of_int d) tol b y lam)
           | "FACTORW" ->
             let n = int () in let d = int () in
             let b = matr n n in let y = matr n d in let lam = vecr d in
             let t1 = matr d d in let t2 = vecr d in
             outb (c05_factor_w (nat_of_int n) (nat_of_int d) t1 t2 b y lam)
           | "RGS" ->
             let n = int () in let k = int () in let thr = rat () in
             let a = matr n n in let o = matr n k in let s = vecr k in
             out_matrix n k (c05_rgs (nat_of_int n) (nat_of_int k) thr a o s)
           | "RSMALL" ->
             let n = int () in let k = int () in
             let a = matr n n in let y = matr n k in
             out_matrix k k (c05_rsmall (nat_of_int n) (nat_of_int k) a y)
           | "DIST" ->
             let n = int () in let d = int () in let tol = rat () in
             let y = matr n d in let d2 = matr n n in
             outb (c05_dist (nat_of_int n) (nat_of_int d) tol y d2)
           | "CONTRACT" ->
             let n = int () in let tol = rat () in
             let b = matr n n in let v = matr n n in let lam = vecr n in
             outb (c05_contract (nat_of_int n) tol b v lam)
           | _ -> print_endline "ERR unknown-command")
        with
        | Failure m -> print_endline ("ERR " ^ m)
        | Invalid_argument m -> print_endline ("ERR " ^ m)
        | Not_found -> print_endline "ERR not-found"
      end
    done
  with End_of_file -> ()
