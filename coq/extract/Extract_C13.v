From Coq Require Import Extraction ExtrOcamlBasic.
From TK Require Import Chain_Model Chain_Spec Chain Uses Chain_Adapt_Model Chain_Adapt_Spec ChainAdapters.
Extraction "c13_model.ml" chain_gen uses_gen run_method may_call declared uses find_method routes_ok
  sufficient_ok uses_ok dispatch_ok all_orders all_entries valid_chainb uses_before_F13 reach user_chain derefs_ok callback_classes_ok wrappers_ok downstream lookup
  adapters_gen adapters_ok class_ok member_ok family_of callsites_ok invoked_ok unresolved_count.
