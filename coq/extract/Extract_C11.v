From Coq Require Import Extraction ExtrOcamlBasic.
From TK Require Import Landmark_Model Landmark_Spec Landmark_Exec.
Extraction "c11_model.ml" c11_dyadic c11_select c11_landmarks_okb c11_stages c11_lmds_embed
  c11_triangulate c11_lmds_tri_exec c11_lisomap_matrix c11_lisomap_embed
  c11_dist_reproduced_b c11_same_upto_sign_b c11_triangulation_b.
