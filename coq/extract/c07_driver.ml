(* c07_driver.ml — runs the extracted C07 model / spec decision procedures (Qc arithmetic).
   One case per stdin line, one result line per case.  Rationals cross as  [-]HEX/HEX  (numerator,
   denominator; hexadecimal, arbitrary size) or [-]HEX.
     MEAN D N <N*D>                      -> OK <D> | DIM site got want
     PROJ D d N <P D*d> <m D> <X N*D>    -> OK <N*d>
     MPI  D d <P D*d> <m D> <x D>        -> OK <d>
     TAIL D d N <P D*d> <X N*D>          -> OK <m D> <Y N*d>        (mean, then embedding)
     MEANI D N M <ids N> <X M*D>         -> OK <D>                   (iterator range = the listed sample ids)
     PROJI D d N M <ids N> <P D*d> <m D> <X M*D>  -> OK <N*d>
     TAILI D d N M <ids N> <P D*d> <X M*D>        -> OK <m D> <Y N*d>
     SOUT N D d tol <X N*D> <Y N*d> <P D*d> <m D>   -> T | F | ILL  (output_consistent_tol_b)
     SPRJ D d tol <P D*d> <m D> <x D> <y d>         -> T | F | ILL  (is_projection_tol_b)
     SMEA N D tol <X N*D> <m D>                     -> T | F | ILL  (training_mean_tol_b)
     SAFF d tol a <fx d> <fy d> <fz d>              -> T | F | ILL  (affine_tol_b)
     SPRR D d eps <P D*d> <m D> <x D> <y d>         -> T | F | ILL  (is_projection_rel_b: tolerance relative to the
                                                       output, |y_c - s_c| <= eps * sum_t |P t c| |x t - m t|)
     SOUR N D d eps <X N*D> <Y N*d> <P D*d> <m D>   -> T | F | ILL  (rows_rel_b: the same for every row of Y)
   Any malformed line -> "ERR <reason>". *)
open C07_model

let rec nat_of_int n = if n <= 0 then O else S (nat_of_int (n - 1))
let rec int_of_nat = function O -> 0 | S n -> 1 + int_of_nat n

(* positive <-> hex string, most significant digit first *)
let pos_of_hex (s : string) : positive option =
  (* returns None for zero *)
  let bits = Buffer.create (4 * String.length s) in
  String.iter (fun ch ->
      let v = match ch with
        | '0' .. '9' -> Char.code ch - 48
        | 'a' .. 'f' -> Char.code ch - 87
        | 'A' .. 'F' -> Char.code ch - 55
        | _ -> failwith "bad hex digit" in
      for k = 3 downto 0 do Buffer.add_char bits (if (v lsr k) land 1 = 1 then '1' else '0') done) s;
  let b = Buffer.contents bits in
  let n = String.length b in
  let i = ref 0 in
  while !i < n && b.[!i] = '0' do incr i done;
  if !i >= n then None
  else begin
    let p = ref XH in
    for k = !i + 1 to n - 1 do
      p := if b.[k] = '1' then XI !p else XO !p
    done;
    Some !p
  end

let hex_of_pos (p : positive) : string =
  (* bits, least significant first *)
  let rec lsb p = match p with XH -> [1] | XO q -> 0 :: lsb q | XI q -> 1 :: lsb q in
  let l = Array.of_list (lsb p) in
  let n = Array.length l in
  let nd = (n + 3) / 4 in
  let b = Buffer.create nd in
  for d = nd - 1 downto 0 do
    let v = ref 0 in
    for k = 3 downto 0 do
      let idx = 4 * d + k in
      v := !v * 2 + (if idx < n then l.(idx) else 0)
    done;
    Buffer.add_char b "0123456789abcdef".[!v]
  done;
  Buffer.contents b

let qc_of_string (s : string) : qc =
  let neg, s = if String.length s > 0 && s.[0] = '-' then true, String.sub s 1 (String.length s - 1) else false, s in
  let num, den = match String.index_opt s '/' with
    | Some i -> String.sub s 0 i, String.sub s (i + 1) (String.length s - i - 1)
    | None -> s, "1" in
  let d = match pos_of_hex den with Some p -> p | None -> failwith "zero denominator" in
  let z = match pos_of_hex num with None -> Z0 | Some p -> if neg then Zneg p else Zpos p in
  q2Qc { qnum = z; qden = d }

let string_of_qc (x : qc) : string =
  let q = this x in
  let n = match q.qnum with Z0 -> "0" | Zpos p -> hex_of_pos p | Zneg p -> "-" ^ hex_of_pos p in
  match q.qden with XH -> n | d -> n ^ "/" ^ hex_of_pos d

exception Short
let () =
  try
    while true do
      let line = input_line stdin in
      let toks = Array.of_list (List.filter (fun s -> s <> "") (String.split_on_char ' ' (String.trim line))) in
      let pos = ref 1 in
      let next () = if !pos >= Array.length toks then raise Short else (let t = toks.(!pos) in incr pos; t) in
      let int_ () = int_of_string (next ()) in
      let q_ () = qc_of_string (next ()) in
      let vec n = List.init n (fun _ -> q_ ()) in
      let mat n m = List.init n (fun _ -> vec m) in
      let show_vec v = String.concat " " (List.map string_of_qc v) in
      let show_mat m = String.concat " " (List.map show_vec m) in
      let show_pres f = function
        | POk a -> "OK " ^ f a
        | PDim (s, g, w) -> Printf.sprintf "DIM %d %d %d" (int_of_nat s) (int_of_nat g) (int_of_nat w) in
      let show_ob = function Some true -> "T" | Some false -> "F" | None -> "ILL" in
      if Array.length toks > 0 then begin
        let out =
          try
            match toks.(0) with
            | "MEAN" ->
              let d = int_ () in let n = int_ () in
              if d < 0 || n < 0 || d > 4096 || n > 100000 then "ERR size" else
              let x = mat n d in
              show_pres show_vec (c07_mean (nat_of_int d) x)
            | "PROJ" ->
              let dd = int_ () in let d = int_ () in let n = int_ () in
              let p = mat dd d in let m = vec dd in let x = mat n dd in
              show_pres show_mat (c07_project (nat_of_int dd) (nat_of_int d) p m x)
            | "MPI" ->
              let dd = int_ () in let d = int_ () in
              let p = mat dd d in let m = vec dd in let x = vec dd in
              show_pres show_vec (c07_mpi (nat_of_int dd) (nat_of_int d) p m x)
            | "TAIL" ->
              let dd = int_ () in let d = int_ () in let n = int_ () in
              let p = mat dd d in let x = mat n dd in
              (match c07_tail (nat_of_int dd) (nat_of_int d) p x with
               | POk (y, PFMatrix (_, m)) -> "OK " ^ show_vec m ^ " " ^ show_mat y
               | POk (_, PFNone) -> "ERR model returned no projection"
               | PDim (s, g, w) -> Printf.sprintf "DIM %d %d %d" (int_of_nat s) (int_of_nat g) (int_of_nat w))
            | "MEANI" ->
              let d = int_ () in let n = int_ () in let mm = int_ () in
              if d < 0 || n < 0 || mm < 0 || d > 4096 || n > 100000 || mm > 100000 then "ERR size" else
              let ids = List.init n (fun _ -> nat_of_int (int_ ())) in
              let x = mat mm d in
              show_pres show_vec (c07_mean_range (nat_of_int d) x ids)
            | "PROJI" ->
              let dd = int_ () in let d = int_ () in let n = int_ () in let mm = int_ () in
              if dd < 0 || d < 0 || n < 0 || mm < 0 || n > 100000 || mm > 100000 then "ERR size" else
              let ids = List.init n (fun _ -> nat_of_int (int_ ())) in
              let p = mat dd d in let m = vec dd in let x = mat mm dd in
              show_pres show_mat (c07_project_range (nat_of_int dd) (nat_of_int d) p m x ids)
            | "TAILI" ->
              let dd = int_ () in let d = int_ () in let n = int_ () in let mm = int_ () in
              if dd < 0 || d < 0 || n < 0 || mm < 0 || n > 100000 || mm > 100000 then "ERR size" else
              let ids = List.init n (fun _ -> nat_of_int (int_ ())) in
              let p = mat dd d in let x = mat mm dd in
              (match c07_tail_range (nat_of_int dd) (nat_of_int d) p x ids with
               | POk (y, PFMatrix (_, m)) -> "OK " ^ show_vec m ^ " " ^ show_mat y
               | POk (_, PFNone) -> "ERR model returned no projection"
               | PDim (s, g, w) -> Printf.sprintf "DIM %d %d %d" (int_of_nat s) (int_of_nat g) (int_of_nat w))
            | "SOUT" ->
              let n = int_ () in let dd = int_ () in let d = int_ () in let tol = q_ () in
              let x = mat n dd in let y = mat n d in let p = mat dd d in let m = vec dd in
              show_ob (c07_spec_output (nat_of_int n) (nat_of_int dd) (nat_of_int d) tol x y p m)
            | "SPRJ" ->
              let dd = int_ () in let d = int_ () in let tol = q_ () in
              let p = mat dd d in let m = vec dd in let x = vec dd in let y = vec d in
              show_ob (c07_spec_proj (nat_of_int dd) (nat_of_int d) tol p m x y)
            | "SPRR" ->
              let dd = int_ () in let d = int_ () in let eps = q_ () in
              let p = mat dd d in let m = vec dd in let x = vec dd in let y = vec d in
              show_ob (c07_spec_proj_rel (nat_of_int dd) (nat_of_int d) eps p m x y)
            | "SOUR" ->
              let n = int_ () in let dd = int_ () in let d = int_ () in let eps = q_ () in
              let x = mat n dd in let y = mat n d in let p = mat dd d in let m = vec dd in
              show_ob (c07_spec_rows_rel (nat_of_int n) (nat_of_int dd) (nat_of_int d) eps x y p m)
            | "SMEA" ->
              let n = int_ () in let dd = int_ () in let tol = q_ () in
              let x = mat n dd in let m = vec dd in
              show_ob (c07_spec_mean (nat_of_int n) (nat_of_int dd) tol x m)
            | "SAFF" ->
              let d = int_ () in let tol = q_ () in let a = q_ () in
              let fx = vec d in let fy = vec d in let fz = vec d in
              show_ob (c07_spec_affine (nat_of_int d) tol a fx fy fz)
            | c -> "ERR unknown command " ^ c
          with
          | Short -> "ERR short line"
          | Failure m -> "ERR " ^ m
          | Invalid_argument m -> "ERR " ^ m
        in
        print_string out; print_newline ()
      end
    done
  with End_of_file -> ()
