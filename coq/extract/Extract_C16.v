From Coq Require Import Extraction ExtrOcamlBasic.
From TK Require Import FibHeap_Model FibHeap_SpecExec.
Extraction "c16_model.ml" empty_heap step run_states spec_run_b dn_shipped t_rank.
