From Coq Require Import Extraction ExtrOcamlBasic.
From TK Require Import FibHeap_Model FibHeap_SpecExec FibHeap_Dn.
Extraction "c16_model.ml" empty_heap step run_states spec_run_b dn_shipped t_rank dn_req dn_fixed.
