(* Extract_C17.v — what the C17 check runs: the dense algebra of Tsne_Model.v closed at Qc,
   symmetrizeMatrix at V = Q with its specification's decision procedure, the t-SNE VP-tree
   search / neighbour row, the tree-invariant checkers and the k-NN decision procedure. *)
From Coq Require Import Extraction ExtrOcamlBasic.
From Coq Require Import List ZArith QArith Qcanon.
From TK Require Import Mat_Sums Mat_Qc Knn_Spec Tsne_Model Tsne_Vp_Model Tsne_Sym_Model Tsne_Spec.
(* wave 2: the perplexity search in its reduced representation (Tsne_Proof_PerpRed: same result as
   Tsne_Model.perp_loop) and computeGradient on c18's quadtree model (QuadTree(Y, N) = tsne_tree) *)
From TK Require Import Tsne_PerpRed_Model QuadTree_Model QuadTree_SpecExec Tsne_BH_Model.

Definition c17_sqdist_fixed := @sqdist_fixed Qc QcOps.
Definition c17_true_sqdist := @true_sqdist Qc QcOps.
Definition c17_zero_mean := @zero_mean Qc QcOps.
Definition c17_exact_grad := @exact_grad_fixed Qc QcOps.
Definition c17_grad_spec := @grad_spec Qc QcOps.
Definition c17_dense_joint := @dense_joint Qc QcOps.
Definition c17_symmetrize := symmetrize Q Qplus qhalf.
Definition c17_sym_spec_b := sym_spec_b.

Extraction "c17_model.ml"
  Q2Qc this Qred
  c17_sqdist_fixed c17_true_sqdist c17_zero_mean c17_exact_grad c17_grad_spec c17_dense_joint
  c17_symmetrize c17_sym_spec_b
  vp_search_pairs bh_row_pairs vp_inv_b vp_holds_b is_knn_b metric_b
  perp_row_r tsne_tree bh_gradient.
