(* c18_driver.ml — runs the extracted quadtree model / specification.
   Numbers on input are "m:e" (value m * 2^e, m a decimal integer that fits 62 bits), exact.
   Numbers on output are exact rationals "[-]hexnum/hexden".

   stdin, one case per line (blank separated):
     M id fx fuel  x y hw hh  n x0 y0 ... k i0 i1 ...  m th0 ...  r q0 ...  full
        build init(root), insert the k indices in order with the extracted `insert fx fuel`,
        dump the tree, is_correct, all_indices, depth; for every theta and query index print the
        preorder numbers of the cells the extracted forces_subtrees lists (and with full=1 the exact result of
        `forces` from the accumulator (0,0,0)).
     S id  n x0 y0 ...  k i0 ...  <tree>
        <tree> = preorder cells  "L x y hw hh j cnt cum cx cy" | "N x y hw hh cum cx cy" + 4 subtrees
        (j = -1: empty leaf): run struct_okb / cum_consistent on that tree (the dump of the REAL
        tree) and print the exact centres of mass of `recom`.
     A id slack n x0 y0 ...
        the root box of the mean-centred constructor QuadTree(Y, N) in exact arithmetic (auto_root).
   stdout: "C id" first, then the records, then "END". *)
open C18_model

let rec pos_of_int n = if n = 1 then XH else if n land 1 = 1 then XI (pos_of_int (n lsr 1)) else XO (pos_of_int (n lsr 1))
let z_of_int n = if n = 0 then Z0 else if n > 0 then Zpos (pos_of_int n) else Zneg (pos_of_int (-n))
let rec nat_of_int n = if n <= 0 then O else S (nat_of_int (n - 1))
let int_of_nat n = let rec go acc = function O -> acc | S k -> go (acc + 1) k in go 0 n
let rec shift_pos p e = if e <= 0 then p else shift_pos (XO p) (e - 1)

(* m * 2^e *)
let q_of_me m e =
  if m = 0 then { qnum = Z0; qden = XH }
  else if e >= 0 then
    let p = shift_pos (pos_of_int (abs m)) e in
    { qnum = (if m > 0 then Zpos p else Zneg p); qden = XH }
  else qred { qnum = z_of_int m; qden = shift_pos XH (-e) }

let q_of_string s =
  match String.index_opt s ':' with
  | None -> q_of_me (int_of_string s) 0
  | Some k -> q_of_me (int_of_string (String.sub s 0 k))
                (int_of_string (String.sub s (k + 1) (String.length s - k - 1)))

(* positive -> hex *)
let hex_of_pos p =
  let bits = ref [] in          (* least significant first while walking, so cons gives msb first at the end *)
  let rec walk = function
    | XH -> bits := 1 :: !bits
    | XO p -> bits := 0 :: !bits; walk p
    | XI p -> bits := 1 :: !bits; walk p in
  walk p;
  (* !bits is msb first *)
  let l = !bits in
  let n = List.length l in
  let pad = (4 - n mod 4) mod 4 in
  let l = (List.init pad (fun _ -> 0)) @ l in
  let b = Buffer.create (n / 4 + 2) in
  let rec go = function
    | a :: b' :: c :: d :: rest ->
      Buffer.add_char b "0123456789abcdef".[a * 8 + b' * 4 + c * 2 + d]; go rest
    | _ -> () in
  go l; Buffer.contents b

let show_q q =
  let q = qred q in
  let num = match q.qnum with
    | Z0 -> "0" | Zpos p -> hex_of_pos p | Zneg p -> "-" ^ hex_of_pos p in
  num ^ "/" ^ hex_of_pos q.qden

let show_cell c = Printf.sprintf "%s %s %s %s" (show_q c.cx) (show_q c.cy) (show_q c.chw) (show_q c.chh)

let rec dump_tree t =
  match t with
  | Leaf (c, st, cum, com) ->
    let (j, cnt) = match st with None -> (-1, 0) | Some (j, cnt) -> (int_of_nat j, int_of_nat cnt) in
    Printf.printf "c L %s %d %d %d %s %s\n" (show_cell c) j cnt (int_of_nat cum) (show_q (fst com)) (show_q (snd com))
  | Node (c, cum, com, a, b, d, e) ->
    Printf.printf "c N %s -1 0 %d %s %s\n" (show_cell c) (int_of_nat cum) (show_q (fst com)) (show_q (snd com));
    dump_tree a; dump_tree b; dump_tree d; dump_tree e

let zero = { qnum = Z0; qden = XH }

(* preorder numbers (as the two dumps number the cells) of the subtrees returned by the extracted forces_subtrees.
   The list is in preorder and its elements are physically the subtrees of t, so one synchronized walk suffices;
   a summarised subtree is not entered.  (forces_cells computes the same numbers in Coq with Peano naturals, cubic
   in the depth: QuadTree_Proof_Theta.forces_subtrees_cells relates the two lists.) *)
let ids_of_subtrees t subs =
  let rest = ref subs and out = ref [] and n = ref 0 in
  let rec size t = match t with
    | Leaf _ -> 1
    | Node (_, _, _, a, b, c, d) -> 1 + size a + size b + size c + size d in
  let rec walk t =
    let me = !n in
    match !rest with
    | s :: tl when s == t -> out := me :: !out; rest := tl; n := !n + size t
    | _ ->
      (match t with
       | Leaf _ -> incr n
       | Node (_, _, _, a, b, c, d) -> incr n; walk a; walk b; walk c; walk d) in
  walk t;
  (match !rest with [] -> () | _ -> failwith "forces_subtrees: list is not a preorder sublist of the tree");
  List.rev !out

let () =
  try
    while true do
      let line = input_line stdin in
      let w = Array.of_list (List.filter (fun s -> s <> "") (String.split_on_char ' ' (String.trim line))) in
      let pos = ref 0 in
      let next () = let s = w.(!pos) in incr pos; s in
      let nint () = int_of_string (next ()) in
      let nq () = q_of_string (next ()) in
      if Array.length w > 0 then begin
        match next () with
        | "M" ->
          let id = next () in
          let fx = nint () = 1 in
          let fuel = nat_of_int (nint ()) in
          let x = nq () in let y = nq () in let hw = nq () in let hh = nq () in
          let root = { cx = x; cy = y; chw = hw; chh = hh } in
          let n = nint () in
          let data = List.init n (fun _ -> let a = nq () in let b = nq () in (a, b)) in
          let k = nint () in
          let order = List.init k (fun _ -> nint ()) in
          let m = nint () in
          let thetas = List.init m (fun _ -> nq ()) in
          let r = nint () in
          let queries = List.init r (fun _ -> nint ()) in
          let full = nint () = 1 in
          Printf.printf "C %s\n" id;
          let t = ref (init root) in
          let stop = ref false in
          print_string "R";
          List.iter (fun i ->
              if not !stop then
                match insert fx fuel data (nat_of_int i) !t with
                | Done (ok, t') -> t := t'; print_string (if ok then " 1" else " 0")
                | OutOfFuel -> stop := true; print_string " FUEL"
                | OOB j -> stop := true; Printf.printf " OOB%d" (int_of_nat j)) order;
          print_newline ();
          if not !stop then begin
            let t = !t in
            Printf.printf "T %d\n" (int_of_nat (ncells t));
            dump_tree t;
            Printf.printf "OK %d\n" (if is_correct data t then 1 else 0);
            print_string "AI";
            List.iter (fun j -> Printf.printf " %d" (int_of_nat j)) (all_indices t);
            print_newline ();
            Printf.printf "DEPTH %d\n" (int_of_nat (depth t));
            List.iteri (fun ti th ->
                List.iter (fun qi ->
                    match nth_error data (nat_of_int qi) with
                    | None -> Printf.printf "G %d %d OOB\n" ti qi
                    | Some p ->
                      Printf.printf "G %d %d" ti qi;
                      List.iter (fun id -> Printf.printf " %d" id)
                        (ids_of_subtrees t (forces_subtrees p (nat_of_int qi) th t));
                      print_newline ();
                      if full then
                        (match forces data (nat_of_int qi) th t ((zero, zero), zero) with
                         | FDone ((f0, f1), sq) ->
                           Printf.printf "F %d %d %s %s %s\n" ti qi (show_q f0) (show_q f1) (show_q sq)
                         | FOOB _ -> Printf.printf "F %d %d OOB\n" ti qi)) queries) thetas
          end;
          print_string "END\n"
        | "S" ->
          let id = next () in
          let n = nint () in
          let data = List.init n (fun _ -> let a = nq () in let b = nq () in (a, b)) in
          let k = nint () in
          let order = List.init k (fun _ -> nat_of_int (nint ())) in
          let rec parse () =
            let kind = next () in
            let x = nq () in let y = nq () in let hw = nq () in let hh = nq () in
            let c = { cx = x; cy = y; chw = hw; chh = hh } in
            if kind = "L" then begin
              let j = nint () in let cnt = nint () in let cum = nint () in
              let a = nq () in let b = nq () in
              Leaf (c, (if j < 0 then None else Some (nat_of_int j, nat_of_int cnt)), nat_of_int cum, (a, b))
            end else begin
              let cum = nint () in
              let a = nq () in let b = nq () in
              let t1 = parse () in let t2 = parse () in let t3 = parse () in let t4 = parse () in
              Node (c, nat_of_int cum, (a, b), t1, t2, t3, t4)
            end in
          let t = parse () in
          Printf.printf "C %s\n" id;
          Printf.printf "SPEC %d %d\n" (if struct_okb data order t then 1 else 0)
            (if cum_consistent t then 1 else 0);
          print_string "RC";
          List.iter (fun (a, b) -> Printf.printf " %s %s" (show_q a) (show_q b)) (coms (recom data order t));
          print_newline ();
          print_string "END\n"
        | "A" ->
          (* A id slack n x0 y0 ... : the root box QuadTree(Y, N) chooses (exact arithmetic) *)
          let id = next () in
          let slack = nq () in
          let n = nint () in
          let data = List.init n (fun _ -> let a = nq () in let b = nq () in (a, b)) in
          Printf.printf "C %s\n" id;
          (match auto_root slack data (nat_of_int n) with
           | None -> print_string "ROOT none\n"
           | Some c -> Printf.printf "ROOT %s\n" (show_cell c));
          print_string "END\n"
        | _ -> ()
      end
    done
  with End_of_file -> ()
