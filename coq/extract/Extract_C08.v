From Coq Require Import Extraction ExtrOcamlBasic.
From TK Require Import Mat_Sums Mat_Core Mat_Qc Lle_Model Lle_Spec Lle_Exec.
Extraction "c08_model.ml" c08_lle_run c08_ltsa_run c08_hlle_run c08_dense c08_local_gram
  c08_eig_contract_b c08_embedding_verdict c08_matrix_verdict c08_mof c08_vof c08_nbrs_of c08_k_of
  Qcanon.Q2Qc hlle_first_oob hlle_ncols.
