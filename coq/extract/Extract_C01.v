From Coq Require Import Extraction ExtrOcamlBasic.
From TK Require Import Shapes_Model Shapes_Spec Shapes_Src Shapes_SrcTie.
Extraction "c01_model.ml" outcome_of embed_model all_fixed head pre_round2 shipped f7_zone
  kdouble spe_clamp eig_dense hlle_cols src_differs src_differs_mask vp_build cover_sets_access
  perplexity_search.
