(* c08_driver.ml — runs the extracted C08 model / spec functions (coq/Lle_Exec.v).
   One case per stdin line, tokens separated by blanks; one result line per case.
   Rationals are  [-]HEX  or  [-]HEX/HEX  (hexadecimal numerator / denominator).
   Neighbour tables:  N lists, each  len v_1 .. v_len  (decimal).
     LLE  N shift tshift <nbrs> <kern N*N>                 -> OK <N*N rationals> | OOB s i n | SOLVEFAIL i
     LTSA N d rsk shift <nbrs> <E: N blocks of k*k>        -> OK <N*N> | OOB s i n
     HLLE shipped N d <nbrs> <V: N blocks of k*d>          -> OK <N*N> | OOB s i n | SOLVEFAIL i  (Gram-Schmidt column with u.u = 0)
     EIGC N cnt tol <nbrs> <kern N*N> <E: cnt blocks k*k> <lam: cnt blocks k>   -> OK b_0 .. b_{cnt-1}  (1 = contract holds;
          extracted eig_contract_b against the model's centred Gram of samples 0..cnt-1)
     EIGM N tol <M N*N> <E N*N> <lam N>                     -> OK b   (extracted eig_contract_b on a GLOBAL solver call)
     LOCB N <nbrs> <kern N*N>                              -> OK <N blocks k*k>  the matrices the local eigensolver sees (model)
     EMB  N d tol centred opt <M N*N> <Y N*d>              -> V <0|1|2|3>
     MCHK N tol mu <M N*N>                                 -> V <0|1|2>   (1 not symmetric, 2 M 1 <> mu 1)
   Anything unparsable -> "BAD <message>". *)
open C08_model

let rec nat_of_int n = if n <= 0 then O else S (nat_of_int (n - 1))
let rec int_of_nat = function O -> 0 | S n -> 1 + int_of_nat n

let hexval c =
  match c with
  | '0' .. '9' -> Char.code c - 48
  | 'a' .. 'f' -> Char.code c - 87
  | 'A' .. 'F' -> Char.code c - 55
  | _ -> failwith "hex digit"

(* hexadecimal string -> positive option (None = zero) *)
let pos_of_hex (s : string) : positive option =
  let acc = ref None in
  String.iter
    (fun c ->
      let v = hexval c in
      for b = 3 downto 0 do
        let bit = (v lsr b) land 1 = 1 in
        acc :=
          (match !acc with
           | None -> if bit then Some XH else None
           | Some p -> Some (if bit then XI p else XO p))
      done)
    s;
  !acc

let hex_of_pos (p : positive) : string =
  let rec bits p acc = match p with XH -> true :: acc | XO q -> bits q (false :: acc) | XI q -> bits q (true :: acc) in
  (* bits p [] = MSB first *)
  let l = bits p [] in
  let n = List.length l in
  let pad = (4 - n mod 4) mod 4 in
  let l = List.init pad (fun _ -> false) @ l in
  let b = Buffer.create (n / 4 + 2) in
  let rec go = function
    | a :: b1 :: c :: d :: rest ->
      let v = (if a then 8 else 0) + (if b1 then 4 else 0) + (if c then 2 else 0) + if d then 1 else 0 in
      Buffer.add_char b "0123456789abcdef".[v];
      go rest
    | _ -> ()
  in
  go l;
  Buffer.contents b

let q_of_token (t : string) : qc =
  let neg, t = if String.length t > 0 && t.[0] = '-' then (true, String.sub t 1 (String.length t - 1)) else (false, t) in
  let num, den =
    match String.index_opt t '/' with
    | None -> (t, "1")
    | Some i -> (String.sub t 0 i, String.sub t (i + 1) (String.length t - i - 1))
  in
  let d = match pos_of_hex den with Some p -> p | None -> failwith "zero denominator" in
  let n = match pos_of_hex num with None -> Z0 | Some p -> if neg then Zneg p else Zpos p in
  q2Qc { qnum = n; qden = d }

let token_of_q (x : qc) : string =
  let x = this x in
  let d = hex_of_pos x.qden in
  let body n = if d = "1" then n else n ^ "/" ^ d in
  match x.qnum with
  | Z0 -> "0"
  | Zpos p -> body (hex_of_pos p)
  | Zneg p -> "-" ^ body (hex_of_pos p)

exception Bad of string

let () =
  let buf = Buffer.create 65536 in
  try
    while true do
      let line = input_line stdin in
      let toks = Array.of_list (List.filter (fun s -> s <> "") (String.split_on_char ' ' (String.trim line))) in
      let pos = ref 1 in
      let next () =
        if !pos >= Array.length toks then raise (Bad "short line");
        let t = toks.(!pos) in
        incr pos;
        t
      in
      let next_int () = try int_of_string (next ()) with _ -> raise (Bad "int") in
      let next_q () = try q_of_token (next ()) with Bad m -> raise (Bad m) | _ -> raise (Bad "rational") in
      let next_list n f = List.init n (fun _ -> f ()) in
      let next_nbrs n = next_list n (fun () -> let l = next_int () in next_list l (fun () -> nat_of_int (next_int ()))) in
      let next_mat r c = next_list r (fun () -> next_list c next_q) in
      let print_result n = function
        | Ok t ->
          Buffer.clear buf;
          Buffer.add_string buf "OK";
          List.iter (fun row -> List.iter (fun x -> Buffer.add_char buf ' '; Buffer.add_string buf (token_of_q x)) row)
            (c08_dense (nat_of_int n) t);
          print_endline (Buffer.contents buf)
        | OOB (s, i, m) -> Printf.printf "OOB %d %d %d\n%!" (int_of_nat s) (int_of_nat i) (int_of_nat m)
        | SolveFail i -> Printf.printf "SOLVEFAIL %d\n%!" (int_of_nat i)
      in
      (try
         if Array.length toks = 0 then print_endline "BAD empty"
         else
           match toks.(0) with
           | "LLE" ->
             let n = next_int () in
             let shift = next_q () in
             let ts = next_q () in
             let nb = next_nbrs n in
             let kern = c08_mof (next_mat n n) in
             print_result n (c08_lle_run (nat_of_int n) nb kern shift ts)
           | "LTSA" ->
             let n = next_int () in
             let d = next_int () in
             let rsk = next_q () in
             let shift = next_q () in
             let nb = next_nbrs n in
             let k = match nb with [] -> 0 | l :: _ -> List.length l in
             let blocks = Array.of_list (next_list n (fun () -> c08_mof (next_mat k k))) in
             let e i = let j = int_of_nat i in if j < Array.length blocks then blocks.(j) else fun _ _ -> q_of_token "0" in
             print_result n (c08_ltsa_run (nat_of_int n) (nat_of_int d) nb e rsk shift)
           | "HLLE" ->
             let shipped = next_int () <> 0 in
             let n = next_int () in
             let d = next_int () in
             let nb = next_nbrs n in
             let k = match nb with [] -> 0 | l :: _ -> List.length l in
             let blocks = Array.of_list (next_list n (fun () -> c08_mof (next_mat k d))) in
             let v i = let j = int_of_nat i in if j < Array.length blocks then blocks.(j) else fun _ _ -> q_of_token "0" in
             print_result n (c08_hlle_run shipped (nat_of_int n) (nat_of_int d) nb v)
           | "EIGC" ->
             let n = next_int () in
             let cnt = next_int () in
             let tol = next_q () in
             let nb = next_nbrs n in
             let k = match nb with [] -> 0 | l :: _ -> List.length l in
             let kern = c08_mof (next_mat n n) in
             let es = next_list cnt (fun () -> c08_mof (next_mat k k)) in
             let lams = next_list cnt (fun () -> c08_vof (next_list k next_q)) in
             let nbr = c08_nbrs_of nb in
             Buffer.clear buf;
             Buffer.add_string buf "OK";
             List.iteri
               (fun i (e, lam) ->
                 let b = c08_mof (c08_local_gram (nat_of_int k) kern (nbr (nat_of_int i))) in
                 Buffer.add_string buf (if c08_eig_contract_b (nat_of_int k) tol b e lam then " 1" else " 0"))
               (List.combine es lams);
             print_endline (Buffer.contents buf)
           | "EIGM" ->
             let n = next_int () in
             let tol = next_q () in
             let m = c08_mof (next_mat n n) in
             let e = c08_mof (next_mat n n) in
             let lam = c08_vof (next_list n next_q) in
             print_endline (if c08_eig_contract_b (nat_of_int n) tol m e lam then "OK 1" else "OK 0")
           | "LOCB" ->
             let n = next_int () in
             let nb = next_nbrs n in
             let k = match nb with [] -> 0 | l :: _ -> List.length l in
             let kern = c08_mof (next_mat n n) in
             let nbr = c08_nbrs_of nb in
             Buffer.clear buf;
             Buffer.add_string buf "OK";
             for i = 0 to n - 1 do
               List.iter
                 (fun row -> List.iter (fun x -> Buffer.add_char buf ' '; Buffer.add_string buf (token_of_q x)) row)
                 (c08_local_gram (nat_of_int k) kern (nbr (nat_of_int i)))
             done;
             print_endline (Buffer.contents buf)
           | "EMB" ->
             let n = next_int () in
             let d = next_int () in
             let tol = next_q () in
             let centred = next_int () <> 0 in
             let opt = next_q () in
             let m = c08_mof (next_mat n n) in
             let y = c08_mof (next_mat n d) in
             Printf.printf "V %d\n%!"
               (int_of_nat (c08_embedding_verdict (nat_of_int n) (nat_of_int d) tol m y opt centred))
           | "MCHK" ->
             let n = next_int () in
             let tol = next_q () in
             let mu = next_q () in
             let m = c08_mof (next_mat n n) in
             Printf.printf "V %d\n%!" (int_of_nat (c08_matrix_verdict (nat_of_int n) tol m mu))
           | _ -> print_endline "BAD command"
       with
       | Bad m -> print_endline ("BAD " ^ m)
       | Failure m -> print_endline ("BAD " ^ m)
       | Invalid_argument m -> print_endline ("BAD " ^ m));
      flush stdout
    done
  with End_of_file -> ()
