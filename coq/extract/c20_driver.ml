(* c20_driver.ml — runs the extracted CLI model / specification (property C20).
   One request per line on stdin, one answer per line on stdout.  Strings cross as hex.
     D <args>                     model: cli_decide gen_tables args
     S <args>                     specification: spec_decide args
     O <code> <echo> <args>       obs_ok args code echo      -> OK | BAD
     M <contenthex> <args>        cli_main gen_tables gen_read_loop (V = token text, print = identity,
                                  parse = the number recogniser below, library = pass-through)
   <args>  ::= '[' { name ':F' | name ':V:' rawhex ':' (int|'-') ':' (num '/' den|'-') } ']'   (space separated)
   <echo>  ::= '{' { keyword '=' value } '}'                                                    (space separated)
   value   ::= b0 | b1 | i<int> | q<num>/<den> | s<hex> | e<name> | c- | c<code>
   answers ::= EXIT <n> | STUCK | RUN <k=value ...> | <k=value ...>        (D, S)
             | FAIL <n> | STUCK | DONE <hex of the embedding file>                         (M)
     A { readings } argvhex...    model from the raw argv (cxxopts scan + cli_decide gen_tables)
     T { readings } argvhex...    specification from the raw argv
     B <code> <echo> { readings } argvhex...   obs_ok_argv
     I <hex>                      int_parse (model of cxxopts integer_parser<int>)  -> <int> | -
   The INTEGER reading of every option value is computed here by the extracted int_parse; the integer field
   of the <args> / readings syntax is ignored (kept for compatibility). *)
open C20_model

let rec pos_of_int n = if n = 1 then XH else if n land 1 = 1 then XI (pos_of_int (n lsr 1)) else XO (pos_of_int (n lsr 1))
let z_of_int n = if n = 0 then Z0 else if n > 0 then Zpos (pos_of_int n) else Zneg (pos_of_int (-n))
let rec int_of_pos = function XH -> 1 | XO p -> 2 * int_of_pos p | XI p -> 2 * int_of_pos p + 1
let int_of_z = function Z0 -> 0 | Zpos p -> int_of_pos p | Zneg p -> - (int_of_pos p)

let ascii_of_char c =
  let n = Char.code c in
  let b i = (n lsr i) land 1 = 1 in
  Ascii (b 0, b 1, b 2, b 3, b 4, b 5, b 6, b 7)
let char_of_ascii (Ascii (b0, b1, b2, b3, b4, b5, b6, b7)) =
  let v b i = if b then 1 lsl i else 0 in
  Char.chr (v b0 0 + v b1 1 + v b2 2 + v b3 3 + v b4 4 + v b5 5 + v b6 6 + v b7 7)
let coq_of_string (s : String.t) =
  let r = ref EmptyString in
  for i = String.length s - 1 downto 0 do r := String (ascii_of_char s.[i], !r) done; !r
let string_of_coq cs =
  let b = Buffer.create 64 in
  let rec go = function EmptyString -> () | String (a, r) -> Buffer.add_char b (char_of_ascii a); go r in
  go cs; Buffer.contents b

let unhex h =
  let n = String.length h / 2 in
  String.init n (fun i -> Char.chr (int_of_string ("0x" ^ String.sub h (2 * i) 2)))
let hex s =
  let b = Buffer.create (2 * String.length s) in
  String.iter (fun c -> Buffer.add_string b (Printf.sprintf "%02x" (Char.code c))) s; Buffer.contents b

let q_of_string s =
  match String.index_opt s '/' with
  | Some i -> { qnum = z_of_int (int_of_string (String.sub s 0 i));
                qden = pos_of_int (int_of_string (String.sub s (i + 1) (String.length s - i - 1))) }
  | None -> { qnum = z_of_int (int_of_string s); qden = XH }

let parse_arg tok =
  match String.split_on_char ':' tok with
  | [name; "F"] -> (coq_of_string name, AFlag)
  | [name; "V"; raw; _; qd] ->
    let zi' = int_parse (coq_of_string (unhex raw)) in
    let qd' = if qd = "-" then None else Some (q_of_string qd) in
    (coq_of_string name, AVal (coq_of_string (unhex raw), zi', qd'))
  | _ -> failwith ("bad arg " ^ tok)

let show_value = function
  | VBool b -> if b then "b1" else "b0"
  | VInt z -> Printf.sprintf "i%d" (int_of_z z)
  | VDbl q -> Printf.sprintf "q%d/%d" (int_of_z q.qnum) (int_of_pos q.qden)
  | VStr s -> "s" ^ hex (string_of_coq s)
  | VEnum s -> "e" ^ string_of_coq s
  | VChar None -> "c-"
  | VChar (Some a) -> Printf.sprintf "c%d" (Char.code (char_of_ascii a))

let parse_value s =
  let rest = String.sub s 1 (String.length s - 1) in
  match s.[0] with
  | 'b' -> VBool (rest = "1")
  | 'i' -> VInt (z_of_int (int_of_string rest))
  | 'q' -> VDbl (q_of_string rest)
  | 's' -> VStr (coq_of_string (unhex rest))
  | 'e' -> VEnum (coq_of_string rest)
  | 'c' -> if rest = "-" then VChar None else VChar (Some (ascii_of_char (Char.chr (int_of_string rest))))
  | _ -> failwith ("bad value " ^ s)

let show_kvs l = String.concat " " (List.map (fun (k, v) -> string_of_coq k ^ "=" ^ show_value v) l)

let show_outcome = function
  | Exit c -> Printf.sprintf "EXIT %d" (int_of_z c)
  | Stuck -> "STUCK"
  | Run (ps, io) -> "RUN " ^ show_kvs ps ^ " | " ^ show_kvs io

(* the recogniser standing for `istringstream(tok) >> double` (libstdc++): blanks, then the longest prefix
   [+-] digits [. digits] [(e|E) [+-] digits] is handed to strtod, which must consume all of it and not
   overflow; what follows the prefix is ignored ("2.5x" is read, "1e" is not).  The same function as
   checks/c20.py dbl_value, which is compared with the real stream on every run (oracle stream). *)
let is_number (s : String.t) =
  let n = String.length s in
  let blank c = c = ' ' || c = '\t' || c = '\r' || c = '\n' || c = '\011' || c = '\012' in
  let i = ref 0 in
  while !i < n && blank s.[!i] do incr i done;
  let start = !i in
  if !i < n && (s.[!i] = '+' || s.[!i] = '-') then incr i;
  let digits () = let st = !i in while !i < n && s.[!i] >= '0' && s.[!i] <= '9' do incr i done; !i - st in
  let a = digits () in
  let b = if !i < n && s.[!i] = '.' then (incr i; digits ()) else 0 in
  if a + b = 0 then false
  else begin
    let ok = ref true in
    if !i < n && (s.[!i] = 'e' || s.[!i] = 'E') then begin
      incr i;
      if !i < n && (s.[!i] = '+' || s.[!i] = '-') then incr i;
      if digits () = 0 then ok := false
    end;
    !ok && (match float_of_string_opt (String.sub s start (!i - start)) with
            | Some v -> Float.is_finite v
            | None -> (* OCaml wants a digit before the point; ".5" / "+.5" are numbers for strtod *) true)
  end

let parse_tok t = if is_number (string_of_coq t) then Some t else None

(* pass-through "library": embedding = one row per sample = transpose of the feature matrix *)
(* the library validates target_dimension in [1, #samples) for every method, pass-through included; the
   file stream runs with --td 1, so fewer than 2 samples (columns of the feature matrix) is an exception *)
(* nsamples comes from cli_main: a feature matrix without rows (dimension 0) still has N columns; its
   transpose, the embedding, is N empty rows *)
let rec nat_to_int = function O -> 0 | S n -> 1 + nat_to_int n
let passthru _ _ nsamples features =
  let samples = nat_to_int nsamples in
  if samples < 2 then None
  else match features with
    | [] -> Some (List.init samples (fun _ -> []), None)
    | _ -> Some (transpose features, None)

let split_args toks =
  (* toks after the command: '[' args ']' rest *)
  match toks with
  | "[" :: r ->
    let rec go acc = function
      | "]" :: rest -> (List.rev acc, rest)
      | t :: rest -> go (parse_arg t :: acc) rest
      | [] -> failwith "unterminated args" in
    go [] r
  | _ -> failwith "args expected"

let split_echo toks =
  match toks with
  | "{" :: r ->
    let rec go acc = function
      | "}" :: rest -> (List.rev acc, rest)
      | t :: rest ->
        let i = String.index t '=' in
        go ((coq_of_string (String.sub t 0 i), parse_value (String.sub t (i + 1) (String.length t - i - 1))) :: acc) rest
      | [] -> failwith "unterminated echo" in
    go [] r
  | _ -> failwith "echo expected"

(* readings table:  { hex:zi:qd ... }  ('-' = the parser throws; hex '-' = empty string) *)
let split_readings toks =
  match toks with
  | "{" :: r ->
    let rec go acc = function
      | "}" :: rest -> (List.rev acc, rest)
      | t :: rest ->
        (match String.split_on_char ':' t with
         | [h; zi; qd] ->
           let s = if h = "-" then "" else unhex h in
           let zi' = (ignore zi; int_parse (coq_of_string s)) in
           let qd' = if qd = "-" then None else Some (q_of_string qd) in
           go ((s, (zi', qd')) :: acc) rest
         | _ -> failwith ("bad reading " ^ t))
      | [] -> failwith "unterminated readings" in
    go [] r
  | _ -> failwith "readings expected"

let rd_of table = fun cs -> match List.assoc_opt (string_of_coq cs) table with Some r -> r | None -> (None, None)
let argv_of toks = List.map (fun h -> coq_of_string (if h = "-" then "" else unhex h)) toks

let () =
  try
    while true do
      let line = input_line stdin in
      let toks = List.filter (fun t -> t <> "") (String.split_on_char ' ' line) in
      (match toks with
       | "D" :: r -> let (a, _) = split_args r in print_string (show_outcome (cli_decide gen_tables a))
       | "S" :: r -> let (a, _) = split_args r in print_string (show_outcome (spec_decide a))
       | "O" :: code :: r ->
         let (echo, r') = split_echo r in
         let (a, _) = split_args r' in
         print_string (if obs_ok a (z_of_int (int_of_string code)) echo then "OK" else "BAD")
       | "M" :: content :: r ->
         let (a, _) = split_args r in
         let c = if content = "-" then "" else unhex content in
         (match cli_main parse_tok (fun t -> t) passthru gen_tables gen_read_loop gen_read_check a (coq_of_string c) with
          | Done (_, f) -> print_string ("DONE " ^ (let h = hex (string_of_coq f.f_embedding) in if h = "" then "-" else h))
          | Fail c -> print_string (Printf.sprintf "FAIL %d" (int_of_z c))
          | MStuck -> print_string "STUCK")
       | "A" :: r ->
         (* A { readings } tok tok ...     model of the current source from the raw argv *)
         let (rdt, toks') = split_readings r in
         print_string (show_outcome (cli_decide_argv (rd_of rdt) gen_options gen_tables (argv_of toks')))
       | "T" :: r ->
         let (rdt, toks') = split_readings r in
         print_string (show_outcome (spec_argv (rd_of rdt) (argv_of toks')))
       | "B" :: code :: r ->
         (* B code { echo } { readings } tok tok ...    obs_ok from the raw argv *)
         let (echo, r') = split_echo r in
         let (rdt, toks') = split_readings r' in
         print_string (if obs_ok_argv (rd_of rdt) (argv_of toks') (z_of_int (int_of_string code)) echo then "OK" else "BAD")
       | ["I"; h] ->
         (match int_parse (coq_of_string (if h = "-" then "" else unhex h)) with
          | Some z -> print_string (string_of_int (int_of_z z))
          | None -> print_string "-")
       | [] -> print_string "EMPTY"
       | _ -> print_string "ERROR bad request");
      print_newline ()
    done
  with End_of_file -> ()
