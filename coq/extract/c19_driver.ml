(* c19_driver.ml — runs the extracted C19 models (Spe_Model / Spe_Spec / Spe_Exec) on cases from stdin.
   One command block at a time; tokens are separated by blanks; ';' separates the parts of a line.
     SPE old global nupd N T          index model (old = 1: code before F14)
       NB v v v            (N lines, only when global = 0)
       IT f f f ; u u u    (T lines; `from` of the shuffle, numerators of the draws over 2^20)
       -> T lines  "O perm ; idx ; a:b a:b ..."  or one line  "ERR OOB site idx size" | "ERR NOSTREAM s" | "ERR FUEL"
     LOG global N nu k T              spec decision procedure on the implementation's own log
       NB ...              (N lines, only when global = 0)
       L perm ; a:b a:b    (T lines: shuffled array, distance-callback pairs)
       -> "SPEC ok" | "SPEC fail t"
     RP snum sden N D d               random projection on exact rationals
       G n/d n/d ...       (the Gaussian oracle answers)
       X n/d ...           (N lines of D entries)
       -> N lines "ROW n/d ..."  or "ERR ..."
     STEP dim N lam tol P             one batched SPE iteration on exact rationals (lam, tol as n/d)
       PS a:b ...  ;  RT n/d ...  ;  DN n/d ...     (three lines)
       Y n/d ...           (N lines of dim entries)
       -> N lines "ROW n/d ..."
     FA maxiter N D d                 factor analysis with fa_epsilon = 0 on exact rationals; the inverse oracle is
       A n/d ...           (D lines of d entries: initial loading)     an exact Gauss-Jordan elimination whose
       X n/d ...           (N lines of D entries: samples)             contract M * R = I is re-checked on every call
       -> N lines "ROW n/d ..." and "ORACLE calls c bad b singular s"
     LOGD global N nu k T             the same on the SAMPLE IDS the distance callback received (Spe_Spec.spe_log_check_des)
       R id id id          (the id designated by every position of the range handed to embed)
       NB ...              (N lines, only when global = 0)
       L perm ; a:b a:b    (T lines: shuffled array of POSITIONS, (id, id) arguments of the distance callback)
       -> "SPEC ok" | "SPEC fail t"
     RPD snum sden N D d P            random projection on a range (rp_embed_des): G line, R line (N ids = pool rows),
                                      P lines "X n/d ..." (pool, row = sample id)   -> N lines "ROW ..."
     FAD maxiter N D d P              fa_embed_des, fa_epsilon = 0: D lines A, R line, P lines X -> ROW lines + ORACLE line
     FAT rounds N D d P eps           never-stopping trajectory (fa_observe) with fa_epsilon = eps (n/d):
                                      per round "T t", N "ROW" lines (X^T A_t), D "IC" lines (invC_t), "Q n/d"; ORACLE line
     MAXL                             the arguments of the max-distance double loop of spe_embedding on a range
       R id id id          -> "PAIRS a:b a:b ..."
     POLAR M count                    shipped polar method on logged std::rand answers (M = RAND_MAX + 1)
       RS r r r ...        -> count lines "XS x s" (accepted x and radius), "USED m" | "ERR ..."
     SCHED global N maxiter T         the iteration schedule of spe_embedding (Spe_Sched_Model): max_iteration = 0 is the
                                      automatic schedule 2000 + floor(0.04 N N) in binary64 (x 3, local strategy)
                                      -> "ITER n" (spe_iterations) and "SCHED ok" | "SCHED fail" (schedule_check on the
                                         observed number T of shuffles), "DIV d" (divisor of the annealing line)
   every block's answer ends with "END" *)
open C19_model

let rec pos_of_int n = if n = 1 then XH else if n land 1 = 1 then XI (pos_of_int (n lsr 1)) else XO (pos_of_int (n lsr 1))
let z_of_int n = if n = 0 then Z0 else if n > 0 then Zpos (pos_of_int n) else Zneg (pos_of_int (-n))
let rec nat_of_int n = if n <= 0 then O else S (nat_of_int (n - 1))
let rec int_of_nat = function O -> 0 | S n -> 1 + int_of_nat n

(* decimal printing of arbitrarily large positives (results of exact arithmetic may exceed 63 bits) *)
let rec bits_of_pos = function XH -> [1] | XO p -> 0 :: bits_of_pos p | XI p -> 1 :: bits_of_pos p
let dec_of_pos p =
  (* digits little-endian base 10^9 *)
  let base = 1_000_000_000 in
  let bits = List.rev (bits_of_pos p) in
  let acc = ref [0] in
  List.iter (fun b ->
      let carry = ref b in
      acc := List.map (fun d -> let v = 2 * d + !carry in carry := v / base; v mod base) !acc;
      if !carry > 0 then acc := !acc @ [!carry]) bits;
  match List.rev !acc with
  | [] -> "0"
  | hd :: tl -> String.concat "" (string_of_int hd :: List.map (Printf.sprintf "%09d") tl)
let dec_of_z = function Z0 -> "0" | Zpos p -> dec_of_pos p | Zneg p -> "-" ^ dec_of_pos p

(* parsing of possibly large decimal integers *)
let z_of_string s =
  let neg = String.length s > 0 && s.[0] = '-' in
  let s = if neg then String.sub s 1 (String.length s - 1) else s in
  let ten = z_of_int 10 in
  let acc = ref Z0 in
  String.iter (fun c -> acc := Z.add (Z.mul !acc ten) (z_of_int (Char.code c - 48))) s;
  if neg then Z.opp !acc else !acc

let qc_of_string s =
  match String.split_on_char '/' s with
  | [n] -> qc_of (z_of_string n) XH
  | [n; d] -> (match z_of_string d with Zpos p -> qc_of (z_of_string n) p | _ -> failwith "bad denominator")
  | _ -> failwith "bad rational"
let string_of_qc q = dec_of_z (qc_num q) ^ "/" ^ dec_of_pos (qc_den q)
let string_of_q (q : q) = dec_of_z q.qnum ^ "/" ^ dec_of_pos q.qden

let tokens line = List.filter (fun s -> s <> "") (String.split_on_char ' ' (String.trim line))
let rec split_semi acc cur = function
  | [] -> List.rev (List.rev cur :: acc)
  | ";" :: t -> split_semi (List.rev cur :: acc) [] t
  | x :: t -> split_semi acc (x :: cur) t
let parts toks = split_semi [] [] toks
let nats l = List.map (fun s -> nat_of_int (int_of_string s)) l
let pair_of_string s =
  match String.split_on_char ':' s with
  | [a; b] -> (nat_of_int (int_of_string a), nat_of_int (int_of_string b))
  | _ -> failwith "bad pair"
let show_nats l = String.concat " " (List.map (fun n -> string_of_int (int_of_nat n)) l)
let show_pairs l = String.concat " " (List.map (fun (a, b) -> Printf.sprintf "%d:%d" (int_of_nat a) (int_of_nat b)) l)

let read_line_toks () = tokens (input_line stdin)
let expect tag = match read_line_toks () with
  | t :: rest when t = tag -> rest
  | _ -> failwith ("expected " ^ tag)

let two20 = pos_of_int (1 lsl 20)

let read_nbs global n =
  if global then [] else List.init n (fun _ -> nats (expect "NB"))

let print_err = function
  | OOB (s, i, n) -> Printf.printf "ERR OOB %d %d %d\n" (int_of_nat s) (int_of_nat i) (int_of_nat n)
  | NoStream s -> Printf.printf "ERR NOSTREAM %d\n" (int_of_nat s)
  | OutOfFuel -> print_string "ERR FUEL\n"
  | Ok _ -> ()

let () =
  try
    while true do
      match read_line_toks () with
      | [] -> ()
      | "SPE" :: [old; global; nupd; n; t] ->
        let global = (global = "1") and n = int_of_string n and t = int_of_string t in
        let nbs = read_nbs global n in
        let its = List.init t (fun _ ->
            match parts (expect "IT") with
            | [f; u] -> { it_from = nats f;
                          it_us = List.map (fun s -> { qnum = z_of_int (int_of_string s); qden = two20 }) u }
            | [f] -> { it_from = nats f; it_us = [] }
            | _ -> failwith "bad IT line") in
        (match spe_indices (old = "1") global nbs (nat_of_int (int_of_string nupd)) (nat_of_int n) its with
         | Ok outs ->
           List.iter (fun o -> Printf.printf "O %s ; %s ; %s\n" (show_nats o.o_perm) (show_nats o.o_idx)
                         (show_pairs o.o_pairs)) outs
         | e -> print_err e);
        print_string "END\n"
      | "LOG" :: [global; n; nu; k; t] ->
        let global = (global = "1") and n = int_of_string n and t = int_of_string t in
        let nbs = read_nbs global n in
        let log = List.init t (fun _ ->
            match parts (expect "L") with
            | [p; ps] -> (nats p, List.map pair_of_string ps)
            | [p] -> (nats p, [])
            | _ -> failwith "bad L line") in
        (match spe_log_check global (nat_of_int n) (nat_of_int (int_of_string nu))
                 (nat_of_int (int_of_string k)) nbs log with
         | None -> print_string "SPEC ok\n"
         | Some i -> Printf.printf "SPEC fail %d\n" (int_of_nat i));
        print_string "END\n"
      | "RP" :: [sn; sd; n; dd; d] ->
        let n = int_of_string n in
        let s = qc_of_string (sn ^ "/" ^ sd) in
        let g = List.map qc_of_string (expect "G") in
        let x = List.init n (fun _ -> List.map qc_of_string (expect "X")) in
        (match rp_embed_qc s (nat_of_int n) (nat_of_int (int_of_string dd)) (nat_of_int (int_of_string d)) g x with
         | Ok rows -> List.iter (fun r -> print_string ("ROW " ^ String.concat " " (List.map string_of_qc r) ^ "\n")) rows
         | e -> print_err e);
        print_string "END\n"
      | "STEP" :: [dim; n; lam; tol] ->
        let n = int_of_string n in
        let ps = List.map pair_of_string (expect "PS") in
        let rt = List.map qc_of_string (expect "RT") in
        let dn = List.map qc_of_string (expect "DN") in
        let y = List.init n (fun _ -> List.map qc_of_string (expect "Y")) in
        let rows = spe_step_qc (nat_of_int (int_of_string dim)) (nat_of_int n) (qc_of_string lam)
            (qc_of_string tol) ps rt dn y in
        List.iter (fun r -> print_string ("ROW " ^ String.concat " " (List.map string_of_qc r) ^ "\n")) rows;
        print_string "END\n"
      | "FA" :: [maxiter; n; dd; d] ->
        let n = int_of_string n and dd = int_of_string dd in
        let a0 = List.init dd (fun _ -> List.map qc_of_string (expect "A")) in
        let x = List.init n (fun _ -> List.map qc_of_string (expect "X")) in
        let calls = ref 0 and bad = ref 0 and singular = ref 0 in
        let zero = qc_of Z0 XH in
        let inv m mat =
          incr calls;
          match qc_inverse_opt m mat with
          | Some r -> if not (inv_contract_b m mat r) then incr bad; r
          | None -> incr singular; (fun _ _ -> zero) in
        let rows = fa_embed_qc inv (nat_of_int (int_of_string maxiter)) (nat_of_int n) (nat_of_int dd)
            (nat_of_int (int_of_string d)) a0 x in
        List.iter (fun r -> print_string ("ROW " ^ String.concat " " (List.map string_of_qc r) ^ "\n")) rows;
        Printf.printf "ORACLE calls %d bad %d singular %d\n" !calls !bad !singular;
        print_string "END\n"
      | "LOGD" :: [global; n; nu; k; t] ->
        let global = (global = "1") and n = int_of_string n and t = int_of_string t in
        let range = nats (expect "R") in
        let nbs = read_nbs global n in
        let log = List.init t (fun _ ->
            match parts (expect "L") with
            | [p; ps] -> (nats p, List.map pair_of_string ps)
            | [p] -> (nats p, [])
            | _ -> failwith "bad L line") in
        (match spe_log_check_des range global (nat_of_int n) (nat_of_int (int_of_string nu))
                 (nat_of_int (int_of_string k)) nbs log with
         | None -> print_string "SPEC ok\n"
         | Some i -> Printf.printf "SPEC fail %d\n" (int_of_nat i));
        print_string "END\n"
      | "RPD" :: [sn; sd; n; dd; d; p] ->
        let p = int_of_string p in
        let s = qc_of_string (sn ^ "/" ^ sd) in
        let g = List.map qc_of_string (expect "G") in
        let range = nats (expect "R") in
        if List.length range <> int_of_string n then failwith "bad range";
        let x = List.init p (fun _ -> List.map qc_of_string (expect "X")) in
        (match rp_embed_des_qc s (nat_of_int (int_of_string dd)) (nat_of_int (int_of_string d)) g x range with
         | Ok rows -> List.iter (fun r -> print_string ("ROW " ^ String.concat " " (List.map string_of_qc r) ^ "\n")) rows
         | e -> print_err e);
        print_string "END\n"
      | "FAD" :: [maxiter; n; dd; d; p] ->
        let p = int_of_string p and dd = int_of_string dd in
        let a0 = List.init dd (fun _ -> List.map qc_of_string (expect "A")) in
        let range = nats (expect "R") in
        if List.length range <> int_of_string n then failwith "bad range";
        let x = List.init p (fun _ -> List.map qc_of_string (expect "X")) in
        let calls = ref 0 and bad = ref 0 and singular = ref 0 in
        let zero = qc_of Z0 XH in
        let inv m mat =
          incr calls;
          match qc_inverse_opt m mat with
          | Some r -> if not (inv_contract_b m mat r) then incr bad; r
          | None -> incr singular; (fun _ _ -> zero) in
        let rows = fa_embed_des_qc inv (nat_of_int (int_of_string maxiter)) (nat_of_int dd)
            (nat_of_int (int_of_string d)) a0 x range in
        List.iter (fun r -> print_string ("ROW " ^ String.concat " " (List.map string_of_qc r) ^ "\n")) rows;
        Printf.printf "ORACLE calls %d bad %d singular %d\n" !calls !bad !singular;
        print_string "END\n"
      | "FAT" :: [rounds; n; dd; d; p; eps] ->
        let p = int_of_string p and dd = int_of_string dd in
        let a0 = List.init dd (fun _ -> List.map qc_of_string (expect "A")) in
        let range = nats (expect "R") in
        if List.length range <> int_of_string n then failwith "bad range";
        let x = List.init p (fun _ -> List.map qc_of_string (expect "X")) in
        let calls = ref 0 and bad = ref 0 and singular = ref 0 in
        let zero = qc_of Z0 XH in
        let inv m mat =
          incr calls;
          match qc_inverse_opt m mat with
          | Some r -> if not (inv_contract_b m mat r) then incr bad; r
          | None -> incr singular; (fun _ _ -> zero) in
        let obs = fa_observe_qc inv (nat_of_int (int_of_string rounds)) (nat_of_int dd)
            (nat_of_int (int_of_string d)) (qc_of_string eps) a0 x range in
        List.iteri (fun t ((rows, ic), q) ->
            Printf.printf "T %d\n" (t + 1);
            List.iter (fun r -> print_string ("ROW " ^ String.concat " " (List.map string_of_qc r) ^ "\n")) rows;
            List.iter (fun r -> print_string ("IC " ^ String.concat " " (List.map string_of_qc r) ^ "\n")) ic;
            print_string ("Q " ^ string_of_qc q ^ "\n")) obs;
        Printf.printf "ORACLE calls %d bad %d singular %d\n" !calls !bad !singular;
        print_string "END\n"
      | ["MAXL"] ->
        let range = nats (expect "R") in
        print_string ("PAIRS " ^ show_pairs (max_loop_calls range) ^ "\n");
        print_string "END\n"
      | "POLAR" :: [m; count] ->
        let rs = List.map z_of_string (expect "RS") in
        let mpos = (match z_of_string m with Zpos q -> q | _ -> failwith "bad M") in
        (match polar_fill (nat_of_int (List.length rs)) mpos (nat_of_int (int_of_string count)) rs with
         | Ok (l, rest) ->
           List.iter (fun (x, s) -> Printf.printf "XS %s %s\n" (string_of_q x) (string_of_q s)) l;
           Printf.printf "USED %d\n" (List.length rs - List.length rest)
         | e -> print_err e);
        print_string "END\n"
      | "SCHED" :: [global; n; m; t] ->
        let global = (global = "1") in
        let n = nat_of_int (int_of_string n) and m = nat_of_int (int_of_string m) and t = nat_of_int (int_of_string t) in
        Printf.printf "ITER %d\n" (int_of_nat (spe_iterations global n m));
        Printf.printf "DIV %d\n" (int_of_nat (spe_schedule global n m).sc_div);
        print_string (if schedule_check global n m t then "SCHED ok\n" else "SCHED fail\n");
        print_string "END\n"
      | _ -> print_string "BADCMD\nEND\n"
    done
  with End_of_file -> ()
     | Failure m -> Printf.printf "DRIVERFAIL %s\nEND\n" m
     | Stack_overflow -> print_string "DRIVERFAIL stack overflow\nEND\n"
