From Coq Require Import Extraction ExtrOcamlBasic.
From TK Require Import Spe_Model Spe_Spec Spe_Exec Spe_Fa_Exec.
Extraction "c19_model.ml" spe_indices spe_log_check clamp_loop draw draw_old is_perm_b
  rp_embed_qc spe_step_qc qc_of qc_num qc_den fa_embed_qc qc_inverse_opt inv_contract_b.
