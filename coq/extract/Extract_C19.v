From Coq Require Import Extraction ExtrOcamlBasic.
From TK Require Import Spe_Model Spe_Spec Spe_Exec Spe_Fa_Exec Spe_Des_Model Spe_Sched_Model.
Extraction "c19_model.ml" spe_indices spe_log_check spe_log_check_des clamp_loop draw draw_old is_perm_b
  rp_embed_qc rp_embed_des_qc spe_step_qc qc_of qc_num qc_den fa_embed_qc fa_embed_des_qc fa_observe_qc
  qc_inverse_opt inv_contract_b polar_fill max_loop_calls
  spe_iterations schedule_check spe_schedule spe_schedule_split schedule_ok_b.
