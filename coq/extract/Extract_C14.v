From Coq Require Import Extraction ExtrOcamlBasic.
From TK Require Import Validate_Model Validate_Spec Validate.
Extraction "c14_model.ml" exec spec_outcome spec_decide pm_merge gen_tables doc_tables old_of t_defaults
  comma_expression run_check run_check_types run_merge run_index gen_container ps_build wrong_type_vs pm_lookup
  gen_predicates body_holds exec_via route_of_id gen_copying route_set arrives.
