From Coq Require Import Extraction ExtrOcamlBasic.
From Coq Require Import ZArith List.
Import ListNotations.
From TK Require Import Validate_Model Validate_Spec Validate Validate_Float_Points.
Extraction "c14_model.ml" exec spec_outcome spec_decide pm_merge gen_tables doc_tables old_of t_defaults
  comma_expression run_check run_check_types run_merge run_index gen_container ps_build wrong_type_vs pm_lookup
  gen_predicates body_holds.
(* wave 3: the table of the two computed bounds on the doubles that decide them (Validate_Float_Points.float_table),
   evaluated here by vm_compute with Coq's primitive floats and written to c14_float_table_<k>.out (16 chunks of 256
   values of N: Coq's printer overflows its stack on longer lists) next to the extracted model; checks/c14.py reads them
   to generate the float_bound requests and their expected outcomes.  Nothing of it is extracted. *)
Local Open Scope Z_scope.
Set Printing Depth 100000000.
Set Printing Width 200.
Redirect "c14_float_table_00" Eval vm_compute in float_table 1 256.
Redirect "c14_float_table_01" Eval vm_compute in float_table 257 256.
Redirect "c14_float_table_02" Eval vm_compute in float_table 513 256.
Redirect "c14_float_table_03" Eval vm_compute in float_table 769 256.
Redirect "c14_float_table_04" Eval vm_compute in float_table 1025 256.
Redirect "c14_float_table_05" Eval vm_compute in float_table 1281 256.
Redirect "c14_float_table_06" Eval vm_compute in float_table 1537 256.
Redirect "c14_float_table_07" Eval vm_compute in float_table 1793 256.
Redirect "c14_float_table_08" Eval vm_compute in float_table 2049 256.
Redirect "c14_float_table_09" Eval vm_compute in float_table 2305 256.
Redirect "c14_float_table_10" Eval vm_compute in float_table 2561 256.
Redirect "c14_float_table_11" Eval vm_compute in float_table 2817 256.
Redirect "c14_float_table_12" Eval vm_compute in float_table 3073 256.
Redirect "c14_float_table_13" Eval vm_compute in float_table 3329 256.
Redirect "c14_float_table_14" Eval vm_compute in float_table 3585 256.
Redirect "c14_float_table_15" Eval vm_compute in float_table 3841 256.
