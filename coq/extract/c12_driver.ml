(* c12_driver.ml — runs the extracted C12 models and relation checkers; one command per line.
   Numbers are exact rationals "[-]<hex numerator>/<hex denominator>" (denominator optional).
   A table argument is "<rows> <cols> <rows*cols numbers>"; a vector is a 1 x len table; a
   permutation is "<len> <entries>" (decimal).
   Commands -> answers
     MDS n T | KPCAK n T | ISO n T | ISO23 n T (Isomap stage before F23) | CENTER n T  -> "T <rows> <cols> <numbers>"
     LINK n D X | SQD n D X | KPCAX n D X (= KPCAK of LINK)  -> table n x n
     MEAN n D X                                      -> table 1 x D
     COV n D X | COV8 n D X (pre-F8)                 -> table D x D
     PROJ n D d P m X                                -> table n x d
     PERMROWS n D ql X | ROT n D R X | TRANS n D t X | SCALE n D c X  -> table n x D
     RPT n ql M M' | RPR n d ql Y Y' | REQ n m M M' | RSC n m c M M' | RCJ D R C C'
     RAV D R t v v' | RSV D c v v' | ORT D R | RSD n d Y Y' | PLB n ql   -> "B 0" | "B 1"
     LAPM n <nbrs> H   (nbrs = "n (len e_1 .. e_len) x n", H = n x n heat values)
                                                     -> "T n n .. | T 1 n .." (L and D) | "OOB"
     KLLEM n k <nbrs> W shift  (W = n x k local weights) -> table n x n
     DMK1 n K0            -> table n x n  (first normalisation of the diffusion matrix)
     DMM n K0 s           -> table n x n  (diffusion matrix from heat values K0 and sqrt values s, 1 x n)
   anything unparsable -> "?" *)
open C12_model

exception Bad

let nat_of_int n = let rec go acc n = if n <= 0 then acc else go (S acc) (n - 1) in go O n
let int_of_nat n = let rec go acc = function O -> acc | S m -> go (acc + 1) m in go 0 n

let hexval c = match c with
  | '0' .. '9' -> Char.code c - 48
  | 'a' .. 'f' -> Char.code c - 87
  | 'A' .. 'F' -> Char.code c - 55
  | _ -> raise Bad

(* bits, most significant first *)
let bits_of_hex s =
  let l = ref [] in
  String.iter (fun c -> let v = hexval c in
    l := (v land 1 = 1) :: (v land 2 = 2) :: (v land 4 = 4) :: (v land 8 = 8) :: !l) s;
  let rec strip = function false :: r -> strip r | x -> x in
  strip (List.rev !l)

let positive_of_hex s =
  match bits_of_hex s with
  | [] -> raise Bad
  | _ :: rest -> List.fold_left (fun acc b -> if b then XI acc else XO acc) XH rest

let z_of_hex s =
  if s = "" then raise Bad;
  let neg = s.[0] = '-' in
  let body = if neg then String.sub s 1 (String.length s - 1) else s in
  if body = "" then raise Bad;
  match bits_of_hex body with
  | [] -> Z0
  | _ -> let p = positive_of_hex body in if neg then Zneg p else Zpos p

let qc_of_string s =
  match String.index_opt s '/' with
  | None -> qz (z_of_hex s)
  | Some i -> qfrac (z_of_hex (String.sub s 0 i)) (positive_of_hex (String.sub s (i + 1) (String.length s - i - 1)))

let hex_of_positive p =
  (* least significant bit first *)
  let rec bits p acc = match p with XH -> true :: acc | XO r -> bits r (false :: acc) | XI r -> bits r (true :: acc) in
  let msb_first = bits p [] in
  (* bits consed while descending from the least significant end, so the list is MSB first *)
  let n = List.length msb_first in
  let pad = (4 - n mod 4) mod 4 in
  let padded = List.init pad (fun _ -> false) @ msb_first in
  let buf = Buffer.create 16 in
  let rec go = function
    | a :: b :: c :: d :: r ->
      let v = (if a then 8 else 0) + (if b then 4 else 0) + (if c then 2 else 0) + (if d then 1 else 0) in
      Buffer.add_char buf "0123456789abcdef".[v]; go r
    | [] -> ()
    | _ -> raise Bad in
  go padded; Buffer.contents buf

let string_of_qc (x : qc) =
  let q = this x in
  let num = match q.qnum with Z0 -> "0" | Zpos p -> hex_of_positive p | Zneg p -> "-" ^ hex_of_positive p in
  num ^ "/" ^ hex_of_positive q.qden

let take toks = match !toks with [] -> raise Bad | t :: r -> toks := r; t
let take_int toks = try int_of_string (take toks) with Failure _ -> raise Bad
let take_dim toks = let v = take_int toks in if v < 0 || v > 100000 then raise Bad else v
let take_qc toks = qc_of_string (take toks)

let take_table toks =
  let r = take_dim toks in
  let c = take_dim toks in
  List.init r (fun _ -> List.init c (fun _ -> take_qc toks))

let take_vec toks = match take_table toks with [row] -> row | [] -> [] | _ -> raise Bad

let take_perm toks =
  let n = take_dim toks in
  List.init n (fun _ -> let v = take_int toks in if v < 0 then raise Bad else nat_of_int v)

let print_table t =
  let rows = List.length t in
  let cols = match t with [] -> 0 | r :: _ -> List.length r in
  let buf = Buffer.create 256 in
  Buffer.add_string buf (Printf.sprintf "T %d %d" rows cols);
  List.iter (fun r -> List.iter (fun x -> Buffer.add_char buf ' '; Buffer.add_string buf (string_of_qc x)) r) t;
  print_endline (Buffer.contents buf)

let take_nbrs toks =
  let n = take_dim toks in
  List.init n (fun _ -> let len = take_dim toks in
    List.init len (fun _ -> let v = take_int toks in if v < 0 then raise Bad else nat_of_int v))

let table_string t =
  let rows = List.length t in
  let cols = match t with [] -> 0 | r :: _ -> List.length r in
  let buf = Buffer.create 256 in
  Buffer.add_string buf (Printf.sprintf "T %d %d" rows cols);
  List.iter (fun r -> List.iter (fun x -> Buffer.add_char buf ' '; Buffer.add_string buf (string_of_qc x)) r) t;
  Buffer.contents buf

let print_bool b = print_endline (if b then "B 1" else "B 0")

let () =
  try
    while true do
      let line = input_line stdin in
      let toks = ref (List.filter (fun s -> s <> "") (String.split_on_char ' ' (String.trim line))) in
      (try
        match !toks with
        | [] -> print_endline "?"
        | cmd :: rest ->
          toks := rest;
          (match cmd with
           | "MDS" -> let n = take_dim toks in let t = take_table toks in print_table (mds_matrix_q (nat_of_int n) t)
           | "KPCAK" -> let n = take_dim toks in let t = take_table toks in print_table (kpca_matrix_q (nat_of_int n) t)
           | "KPCAX" -> let n = take_dim toks in let d = take_dim toks in let x = take_table toks in
             print_table (kpca_matrix_q (nat_of_int n) (lin_kernel_q (nat_of_int n) (nat_of_int d) x))
           | "ISO" -> let n = take_dim toks in let t = take_table toks in print_table (isomap_matrix_q (nat_of_int n) t)
           | "ISO23" -> let n = take_dim toks in let t = take_table toks in print_table (isomap_pre_f23_q (nat_of_int n) t)
           | "CENTER" -> let n = take_dim toks in let t = take_table toks in print_table (center_q (nat_of_int n) t)
           | "LINK" -> let n = take_dim toks in let d = take_dim toks in let x = take_table toks in
             print_table (lin_kernel_q (nat_of_int n) (nat_of_int d) x)
           | "SQD" -> let n = take_dim toks in let d = take_dim toks in let x = take_table toks in
             print_table (sq_dist_q (nat_of_int n) (nat_of_int d) x)
           | "MEAN" -> let n = take_dim toks in let d = take_dim toks in let x = take_table toks in
             print_table [mean_q (nat_of_int n) (nat_of_int d) x]
           | "COV" -> let n = take_dim toks in let d = take_dim toks in let x = take_table toks in
             print_table (cov_q (nat_of_int n) (nat_of_int d) x)
           | "COV8" -> let n = take_dim toks in let d = take_dim toks in let x = take_table toks in
             print_table (cov_pre_f8_q (nat_of_int n) (nat_of_int d) x)
           | "PROJ" -> let n = take_dim toks in let dd = take_dim toks in let d = take_dim toks in
             let p = take_table toks in let m = take_vec toks in let x = take_table toks in
             print_table (project_q (nat_of_int n) (nat_of_int dd) (nat_of_int d) p m x)
           | "PERMROWS" -> let n = take_dim toks in let d = take_dim toks in let ql = take_perm toks in
             let x = take_table toks in print_table (perm_rows_q (nat_of_int n) (nat_of_int d) ql x)
           | "ROT" -> let n = take_dim toks in let d = take_dim toks in let r = take_table toks in
             let x = take_table toks in print_table (rotate_q (nat_of_int n) (nat_of_int d) r x)
           | "TRANS" -> let n = take_dim toks in let d = take_dim toks in let t = take_vec toks in
             let x = take_table toks in print_table (translate_q (nat_of_int n) (nat_of_int d) t x)
           | "SCALE" -> let n = take_dim toks in let d = take_dim toks in let c = take_qc toks in
             let x = take_table toks in print_table (scale_q (nat_of_int n) (nat_of_int d) c x)
           | "RPT" -> let n = take_dim toks in let ql = take_perm toks in let m = take_table toks in
             let m' = take_table toks in print_bool (rel_perm_tab_b (nat_of_int n) ql m m')
           | "RPR" -> let n = take_dim toks in let d = take_dim toks in let ql = take_perm toks in
             let y = take_table toks in let y' = take_table toks in
             print_bool (rel_perm_rows_b (nat_of_int n) (nat_of_int d) ql y y')
           | "REQ" -> let n = take_dim toks in let m = take_dim toks in let a = take_table toks in
             let b = take_table toks in print_bool (rel_eq_tab_b (nat_of_int n) (nat_of_int m) a b)
           | "RSC" -> let n = take_dim toks in let m = take_dim toks in let c = take_qc toks in
             let a = take_table toks in let b = take_table toks in
             print_bool (rel_scale_tab_b (nat_of_int n) (nat_of_int m) c a b)
           | "RCJ" -> let d = take_dim toks in let r = take_table toks in let c = take_table toks in
             let c' = take_table toks in print_bool (rel_conj_tab_b (nat_of_int d) r c c')
           | "RAV" -> let d = take_dim toks in let r = take_table toks in let t = take_vec toks in
             let v = take_vec toks in let v' = take_vec toks in
             print_bool (rel_affine_vec_b (nat_of_int d) r t v v')
           | "RSV" -> let d = take_dim toks in let c = take_qc toks in let v = take_vec toks in
             let v' = take_vec toks in print_bool (rel_scale_vec_b (nat_of_int d) c v v')
           | "ORT" -> let d = take_dim toks in let r = take_table toks in print_bool (orth_b (nat_of_int d) r)
           | "RSD" -> let n = take_dim toks in let d = take_dim toks in let y = take_table toks in
             let y' = take_table toks in print_bool (rel_same_dist_b (nat_of_int n) (nat_of_int d) y y')
           | "LAPM" -> let n = take_dim toks in let nbl = take_nbrs toks in let h = take_table toks in
             (match laplacian_q (nat_of_int n) nbl h with
              | Ok (l, d) -> print_endline (table_string l ^ " | " ^ table_string [d])
              | OOB -> print_endline "OOB")
           | "KLLEM" -> let n = take_dim toks in let k = take_dim toks in let nbl = take_nbrs toks in
             let w = take_table toks in let shift = take_qc toks in
             print_table (klle_M_q (nat_of_int n) (nat_of_int k) nbl w shift)
           | "DMK1" -> let n = take_dim toks in let k0 = take_table toks in
             print_table (diffusion_K1_q (nat_of_int n) k0)
           | "DMM" -> let n = take_dim toks in let k0 = take_table toks in let sv = take_vec toks in
             print_table (diffusion_q (nat_of_int n) k0 sv)
           | "PLB" -> let n = take_dim toks in let ql = take_perm toks in print_bool (perm_list_b (nat_of_int n) ql)
           | _ -> print_endline "?")
      with Bad | Not_found | Invalid_argument _ -> print_endline "?")
    done
  with End_of_file -> ()
