(* c09_driver.ml — runs the extracted C09 models / spec decision procedures, one case per line.
   Rationals cross the boundary as  [-]HEXNUM/HEXDEN  (exact).  Oracle tables are lists of
   (argument, value) pairs; a lookup that misses raises Missing (reported, never defaulted).
   stdin:
     LAP <n> <w> <n lists: len id*> <n*n dist> <m> <m*(arg val)> <hasimpl> [<n*n L> <n D>]
        -> "LAP OOB site idx size" | "LAP OK <spec:-|0|1> <n*n L> <n D>" | "LAP MISSING <arg>"
     DMQ <n> <w> <n*n dist> <m> <m*(arg val)>
        -> "DMQ <n sqrt-arguments>"
     DM <n> <w> <n*n dist> <m> <exp table> <m2> <sqrt table> <hasimpl: 0 none, 1 spec, 2 no spec> [<n*n M>]
        -> "DM <roots:-|0|1> <spec:-|0|1> <n*n M>"
     SEL <N> <d>   -> "SEL <le: off:cnt | none> <dm cols> <dm vals>"   (dm called with d+1)
     LEE <N> <d> <N*N V>            -> "LEE none" | "LEE <N*d Y>"
     DME <N> <d> <t> <N*N V> <N lam> -> "DME none" | "DME <N*d Y>"   (pow = exact power)
   Anything else -> "?" *)
exception Bad
exception Missing of string

open C09_model

let nat_of_int n = let rec go acc n = if n <= 0 then acc else go (S acc) (n - 1) in go O n
let int_of_nat n = let rec go acc = function O -> acc | S m -> go (acc + 1) m in go 0 n

let hexval c = match c with
  | '0'..'9' -> Char.code c - 48
  | 'a'..'f' -> Char.code c - 87
  | 'A'..'F' -> Char.code c - 55
  | _ -> raise Bad

(* positive from a hex string (msb first); None for zero *)
let pos_of_hex s =
  let p = ref None in
  String.iter (fun c ->
    let v = hexval c in
    for b = 3 downto 0 do
      let bit = (v lsr b) land 1 = 1 in
      p := (match !p with
            | None -> if bit then Some XH else None
            | Some q -> Some (if bit then XI q else XO q))
    done) s;
  !p

let q_of_string s =
  let neg, s = if String.length s > 0 && s.[0] = '-' then true, String.sub s 1 (String.length s - 1) else false, s in
  let num, den = match String.index_opt s '/' with
    | Some i -> String.sub s 0 i, String.sub s (i + 1) (String.length s - i - 1)
    | None -> s, "1" in
  if num = "" || den = "" then raise Bad;
  let d = match pos_of_hex den with Some d -> d | None -> raise Bad in
  let z = match pos_of_hex num with None -> Z0 | Some p -> if neg then Zneg p else Zpos p in
  qfrac z d

let rec bits_of_pos p acc = match p with
  | XH -> '1' :: acc
  | XO q -> bits_of_pos q ('0' :: acc)
  | XI q -> bits_of_pos q ('1' :: acc)

let hex_of_pos p =
  let bits = bits_of_pos p [] in
  let n = List.length bits in
  let pad = (4 - n mod 4) mod 4 in
  let bits = List.init pad (fun _ -> '0') @ bits in
  let b = Buffer.create 16 in
  let rec go = function
    | a :: b1 :: c :: d :: rest ->
      let v = (if a = '1' then 8 else 0) + (if b1 = '1' then 4 else 0) + (if c = '1' then 2 else 0) + (if d = '1' then 1 else 0) in
      Buffer.add_char b "0123456789abcdef".[v]; go rest
    | _ -> () in
  go bits; Buffer.contents b

let string_of_q (x : qc) =
  let x = this x in
  let n = match x.qnum with
    | Z0 -> "0"
    | Zpos p -> hex_of_pos p
    | Zneg p -> "-" ^ hex_of_pos p in
  n ^ "/" ^ hex_of_pos x.qden

let take toks = match !toks with [] -> raise Bad | t :: rest -> toks := rest; t
let take_int toks = try int_of_string (take toks) with _ -> raise Bad
let take_q toks = q_of_string (take toks)
let take_list toks n f = List.init n (fun _ -> f toks)   (* List.init evaluates in order for n < 10_000 *)
let take_mat toks n m = take_list toks n (fun t -> take_list t m take_q)

let take_table toks =
  let m = take_int toks in
  let l = take_list toks m (fun t -> let a = take_q t in let v = take_q t in (a, v)) in
  let h = Hashtbl.create (2 * m + 1) in
  List.iter (fun (a, v) -> Hashtbl.replace h (string_of_q a) v) l;
  fun x -> let k = string_of_q x in
    (match Hashtbl.find_opt h k with Some v -> v | None -> raise (Missing k))

let show_vec v = String.concat " " (List.map string_of_q v)
let show_mat m = String.concat " " (List.map show_vec m)
let b01 b = if b then "1" else "0"

let () =
  try
    while true do
      let line = input_line stdin in
      let toks = ref (List.filter (fun s -> s <> "") (String.split_on_char ' ' (String.trim line))) in
      (try
        match !toks with
        | [] -> ()
        | cmd :: rest ->
          toks := rest;
          (match cmd with
           | "LAP" ->
             let n = take_int toks in
             let w = take_q toks in
             let nbrs = take_list toks n (fun t -> let len = take_int t in
                                           take_list t len (fun t2 -> let v = take_int t2 in
                                                             if v < 0 then raise Bad; nat_of_int v)) in
             let dist = take_mat toks n n in
             let expo = take_table toks in
             let hasimpl = take_int toks in
             let impl = if hasimpl = 1 then
                 (let l = take_mat toks n n in let d = take_list toks n take_q in Some (l, d)) else None in
             let nn = nat_of_int n in
             (match lap_run dist w expo nn nbrs with
              | LOOB (s, a, b) ->
                Printf.printf "LAP OOB %d %d %d\n" (int_of_nat s) (int_of_nat a) (int_of_nat b)
              | LOk (l, d) ->
                let spec = match impl with
                  | None -> "-"
                  | Some (il, id) -> b01 (lap_spec_run dist w expo nn nbrs il id) in
                Printf.printf "LAP OK %s %s %s\n" spec (show_mat l) (show_vec d))
           | "DMQ" ->
             let n = take_int toks in
             let w = take_q toks in
             let dist = take_mat toks n n in
             let expo = take_table toks in
             Printf.printf "DMQ %s\n" (show_vec (dm_sqrt_args_run dist w expo (nat_of_int n)))
           | "DM" ->
             let n = take_int toks in
             let w = take_q toks in
             let dist = take_mat toks n n in
             let expo = take_table toks in
             let m2 = take_int toks in
             let stab = take_list toks m2 (fun t -> let a = take_q t in let v = take_q t in (a, v)) in
             let sh = Hashtbl.create 17 in
             List.iter (fun (a, v) -> Hashtbl.replace sh (string_of_q a) v) stab;
             let sqrto x = let k = string_of_q x in
               (match Hashtbl.find_opt sh k with Some v -> v | None -> raise (Missing k)) in
             let hasimpl = take_int toks in
             let impl = if hasimpl >= 1 then Some (take_mat toks n n) else None in
             let nn = nat_of_int n in
             let m = dm_run dist w expo sqrto nn in
             let args = dm_sqrt_args_run dist w expo nn in
             let s = List.map sqrto args in
             let roots = b01 (dm_roots_ok dist w expo nn s) in
             let spec = match impl with
               | Some im when hasimpl = 1 -> b01 (dm_spec_run dist w expo nn im s)
               | _ -> "-" in
             Printf.printf "DM %s %s %s\n" roots spec (show_mat m)
           | "SEL" ->
             let n = take_int toks in
             let d = take_int toks in
             let sv = function (a, b) -> Printf.sprintf "%d:%d" (int_of_nat a) (int_of_nat b) in
             let le = match le_select_run (nat_of_int n) (nat_of_int d) with Some v -> sv v | None -> "none" in
             let dmc, dmv = match dm_select_run (nat_of_int n) (nat_of_int (d + 1)) with
               | Some (c, v) -> sv c, sv v | None -> "none", "none" in
             Printf.printf "SEL %s %s %s\n" le dmc dmv
           | "LEE" ->
             let n = take_int toks in
             let d = take_int toks in
             let v = take_mat toks n n in
             (match le_embed_run (nat_of_int n) (nat_of_int d) v with
              | None -> print_string "LEE none\n"
              | Some y -> Printf.printf "LEE %s\n" (show_mat y))
           | "DME" ->
             let n = take_int toks in
             let d = take_int toks in
             let t = take_int toks in
             let v = take_mat toks n n in
             let lam = take_list toks n take_q in
             (match dm_embed_run (nat_of_int n) (nat_of_int d) (nat_of_int t) v lam qc_pow with
              | None -> print_string "DME none\n"
              | Some y -> Printf.printf "DME %s\n" (show_mat y))
           | _ -> print_string "?\n")
      with
      | Bad -> print_string "BAD\n"
      | Missing k -> Printf.printf "%s MISSING %s\n" (match !toks with _ -> "ORACLE") k);
      flush stdout
    done
  with End_of_file -> ()
