(* c11_driver.ml — runs the extracted Landmark model / spec (C11) on cases read from stdin.
   One case per line, blank separated.  Numbers: integers, or dyadic rationals "m:e" = m * 2^e
   (m a decimal integer that fits an OCaml int, e an integer) — exactly what a C++ double is.
   Cases (dist is always the full N*N callback table, row major):
     S N count p_0..p_{N-1}                       select_landmarks        -> LM l.. | OOB idx size
     K N count L l_0..l_{L-1}                     landmarks_okb           -> OKB 0|1
     A N L lm.. dist                               front end               -> D2 .. / MU .. / B ..
     T N L d keep(d) lm.. dist V(L*d) lam(d) s(d)  lmds_embed (theorem fn) -> EMB .. | OOB idx size
     X N L d keep(d) lm.. dist V(L*d) lam(d) s(d)  lmds_tri_exec (memoised)-> EMB .. | OOB idx size
     R N L d keep(d) lm.. dist mu(L) first(L*d) second(d)  triangulate alone -> EMB .. / FD .. | OOB ..
       (keep: 0/1 per selected column = outcome of triangulate's null-eigenvalue comparison)
     I N L d G(L*N) U(L*d) q(d)                    landmark isomap, dense  -> B .. / EMB ..
     PD N d tol Y(N*d) dist                        distances reproduced?   -> PD 0|1|?
     PS N d tol Y(N*d) Z(N*d)                      equal up to col. signs? -> PS 0|1|?
     PT N L d tol keep(d) lm.. dist mu(L) YL(L*d) lam(d) EMB(N*d)   triangulation clause -> PT 0|1|?
   Every case's output ends with a line END.  Rationals are printed as [-]hexnum/hexden. *)
module M = C11_model

let rec pos_of_int n =
  if n = 1 then M.XH else if n land 1 = 1 then M.XI (pos_of_int (n lsr 1)) else M.XO (pos_of_int (n lsr 1))
let z_of_int n = if n = 0 then M.Z0 else if n > 0 then M.Zpos (pos_of_int n) else M.Zneg (pos_of_int (-n))
let rec nat_of_int n = if n <= 0 then M.O else M.S (nat_of_int (n - 1))
let rec int_of_nat = function M.O -> 0 | M.S n -> 1 + int_of_nat n

(* positive -> hex string, most significant digit first *)
let hex_of_pos p =
  let rec bits p acc = match p with
    | M.XH -> true :: acc
    | M.XO q -> bits q (false :: acc)
    | M.XI q -> bits q (true :: acc) in
  (* bits returns most significant first *)
  let bl = bits p [] in
  let n = List.length bl in
  let pad = (4 - n mod 4) mod 4 in
  let bl = List.init pad (fun _ -> false) @ bl in
  let b = Buffer.create 16 in
  let rec go = function
    | a :: bb :: c :: d :: rest ->
      let v = (if a then 8 else 0) + (if bb then 4 else 0) + (if c then 2 else 0) + (if d then 1 else 0) in
      Buffer.add_char b "0123456789abcdef".[v]; go rest
    | _ -> () in
  go bl; Buffer.contents b

let show_q (x : M.qc) =
  let q = M.this x in
  let den = hex_of_pos q.M.qden in
  match q.M.qnum with
  | M.Z0 -> "0/1"
  | M.Zpos p -> hex_of_pos p ^ "/" ^ den
  | M.Zneg p -> "-" ^ hex_of_pos p ^ "/" ^ den

let parse_q tok =
  match String.index_opt tok ':' with
  | None -> M.c11_dyadic (z_of_int (int_of_string tok)) M.Z0
  | Some i ->
    let m = int_of_string (String.sub tok 0 i)
    and e = int_of_string (String.sub tok (i + 1) (String.length tok - i - 1)) in
    M.c11_dyadic (z_of_int m) (z_of_int e)

exception Bad of string

let () =
  let out = Buffer.create 65536 in
  let flush_out () = print_string (Buffer.contents out); Buffer.clear out; flush stdout in
  let put_row tag l =
    Buffer.add_string out tag;
    List.iter (fun x -> Buffer.add_char out ' '; Buffer.add_string out (show_q x)) l;
    Buffer.add_char out '\n' in
  let put_mat tag m = put_row tag (List.concat m) in
  let put_emb tag rows =
    Buffer.add_string out tag;
    List.iter (function
        | None -> Buffer.add_string out " NONE"
        | Some r -> List.iter (fun x -> Buffer.add_char out ' '; Buffer.add_string out (show_q x)) r) rows;
    Buffer.add_char out '\n' in
  let put_oob i s = Buffer.add_string out (Printf.sprintf "OOB %d %d\n" (int_of_nat i) (int_of_nat s)) in
  let put_ob tag = function
    | None -> Buffer.add_string out (tag ^ " ?\n")
    | Some true -> Buffer.add_string out (tag ^ " 1\n")
    | Some false -> Buffer.add_string out (tag ^ " 0\n") in
  (try
     while true do
       let line = input_line stdin in
       let toks = Array.of_list (List.filter (fun s -> s <> "") (String.split_on_char ' ' (String.trim line))) in
       if Array.length toks > 0 then begin
         let pos = ref 1 in
         let next () =
           if !pos >= Array.length toks then raise (Bad "short line");
           let t = toks.(!pos) in incr pos; t in
         let int () = int_of_string (next ()) in
         let ints n = List.init n (fun _ -> int ()) in
         let q () = parse_q (next ()) in
         let qs n = List.init n (fun _ -> q ()) in
         let qmat r c = List.init r (fun _ -> qs c) in
         (try
            (match toks.(0) with
             | "S" ->
               let n = int () in let count = int () in
               let p = List.map nat_of_int (ints n) in
               (match M.c11_select p (nat_of_int count) with
                | M.LOk lm ->
                  Buffer.add_string out "LM";
                  List.iter (fun l -> Buffer.add_string out (Printf.sprintf " %d" (int_of_nat l))) lm;
                  Buffer.add_char out '\n'
                | M.LOOB (_, i, s) -> put_oob i s)
             | "K" ->
               let n = int () in let count = int () in let l = int () in
               let lm = List.map nat_of_int (ints l) in
               Buffer.add_string out
                 (if M.c11_landmarks_okb (nat_of_int n) (nat_of_int count) lm then "OKB 1\n" else "OKB 0\n")
             | "A" ->
               let n = int () in let l = int () in
               let lm = List.map nat_of_int (ints l) in
               let dist = qmat n n in
               let ((d2, mu), b) = M.c11_stages lm dist in
               put_mat "D2" d2; put_row "MU" mu; put_mat "B" b
             | ("T" | "X") as mode ->
               let n = int () in let l = int () in let d = int () in
               let keep = List.map (fun x -> x <> 0) (ints d) in
               let lm = List.map nat_of_int (ints l) in
               let dist = qmat n n in
               let v = qmat l d in let lam = qs d in let s = qs d in
               let f = if mode = "T" then M.c11_lmds_embed else M.c11_lmds_tri_exec in
               (match f (nat_of_int n) (nat_of_int d) keep lm dist v lam s with
                | M.LOk rows -> put_emb "EMB" rows
                | M.LOOB (_, i, s) -> put_oob i s)
             | "R" ->
               let n = int () in let l = int () in let d = int () in
               let keep = List.map (fun x -> x <> 0) (ints d) in
               let lm = List.map nat_of_int (ints l) in
               let dist = qmat n n in
               let mu = qs l in let first = qmat l d in let second = qs d in
               (match M.c11_triangulate (nat_of_int n) (nat_of_int d) keep lm dist mu first second with
                | M.LOk (rows, fd) -> put_emb "EMB" rows; put_mat "FD" fd
                | M.LOOB (_, i, s) -> put_oob i s)
             | "I" ->
               let n = int () in let l = int () in let d = int () in
               let g = qmat l n in let u = qmat l d in let qv = qs d in
               put_mat "B" (M.c11_lisomap_matrix (nat_of_int l) (nat_of_int n) g);
               put_mat "EMB" (M.c11_lisomap_embed (nat_of_int n) (nat_of_int l) (nat_of_int d) g u qv)
             | "PD" ->
               let n = int () in let d = int () in let tol = q () in
               let y = qmat n d in let dist = qmat n n in
               put_ob "PD" (M.c11_dist_reproduced_b (nat_of_int n) (nat_of_int d) tol y dist)
             | "PS" ->
               let n = int () in let d = int () in let tol = q () in
               let y = qmat n d in let z = qmat n d in
               put_ob "PS" (M.c11_same_upto_sign_b (nat_of_int n) (nat_of_int d) tol y z)
             | "PT" ->
               let n = int () in let l = int () in let d = int () in let tol = q () in
               let keep = List.map (fun x -> x <> 0) (ints d) in
               let lm = List.map nat_of_int (ints l) in
               let dist = qmat n n in
               let mu = qs l in let yl = qmat l d in let lam = qs d in let emb = qmat n d in
               put_ob "PT" (M.c11_triangulation_b (nat_of_int n) (nat_of_int d) tol keep lm dist mu yl lam emb)
             | _ -> Buffer.add_string out "BADCASE\n")
          with Bad m -> Buffer.add_string out ("BADCASE " ^ m ^ "\n")
             | Failure m -> Buffer.add_string out ("BADCASE " ^ m ^ "\n"));
         Buffer.add_string out "END\n";
         if Buffer.length out > 60000 then flush_out ()
       end
     done
   with End_of_file -> ());
  flush_out ()
