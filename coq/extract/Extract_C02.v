From Coq Require Import Extraction ExtrOcamlBasic.
From TK Require Import Knn_Spec Knn_Brute_Model Knn_VpTree_Model Knn_CoverSel_Model CoverTree_Model CoverTree_Build_Model Knn_Wrapper_Model.
Extraction "c02_model.ml" is_knn_b dists_sorted metric_b samples
  nth_ok_b brute_dists_fixed brute_row_fixed brute_dists brute_row nth_element_ref
  items vp_inv_b vp_shape_b vp_holds_b vp_search vp_search_dists vp_row vp_row_fixed build piv_first nth_sort
  ct_select ct_select_fixed cand_complete_b cand_exact_b
  ct_query valid_b no_audit ct_inv_b ct_holds_b leaf100_b ct_fuel leaf_points batch_create
  find_neighbors_core all_knn_b sels_ref fn_incomplete.
