From Coq Require Import Extraction ExtrOcamlBasic.
From Coq Require Import QArith Qcanon.
From TK Require Import Mat_Sums Mat_Core Mat_Qc Pencil_Model Pencil_Spec.
(* the functions the theorems of Properties_C10.v are about, at the instance Qc *)
Definition run_construct_qc := @run_construct Qc QcOps.
Definition seen_tables_qc := @seen_tables Qc QcOps.
Definition run_project_qc := @run_project Qc QcOps.
Extraction "c10_model.ml" run_construct_qc run_project_qc spec_construct_b spec_full_b ref_pencil seen_tables_qc Q2Qc.
