From Coq Require Import Extraction ExtrOcamlBasic.
From TK Require Import Mat_Sums Mat_Core Mat_Qc Mat_EigSelect EigSelect Mds_Model Mds_Spec Mds_Exec Mds_Exec_Wave2.
Extraction "c05_model.ml" c05_d2 c05_mds c05_kpca c05_center c05_isomap c05_seen_dense c05_seen_randomized c05_spec_mds c05_spec_kpca
  c05_embed c05_vals c05_views c05_factor c05_dist c05_contract c05_factor_w c05_rgs c05_rsmall Qcanon.Q2Qc.
