(* c17_driver.ml — runs the extracted C17 models / decision procedures.
   One case per line: <CMD> <id> <args>; one result line "R <id> ..." per case.
   Rationals are written p/q (or p); integers in decimal.
     DD id N D X[N*D]                      -> sqdist_fixed (N*N) | true_sqdist (N*N)
     ZM id N D X[N*D]                      -> zero_mean (N*D)
     GE id N D P[N*N] Y[N*D]               -> exact_grad_fixed (N*D) | grad_spec (N*D)
     SY id N nnz row[N+1] col[nnz] val[nnz]-> OK row | col | val   or   OOB <array> <index> / UNINIT <index>
     SS id N nnz row col val ne row' col' val'   -> sym_spec_b (input, claimed output): true / false
     VP id N k dist[N*N] <tree>            -> inv=<b> holds=<b> | <row of query 0: i:d ...> | ...   (NONE = None)
                                              tree tokens:  ( item thr L R )   and  -  for NULL
     KN id N K dist[N*N] | l0 ... | l1 ... -> one of t/f per row q = 0..N-1 : is_knn_b dist N q K l_q
     ME id N dist[N*N]                     -> metric_b: true / false
     PR id self perp tol dbl_min K dd[K]   -> perp_row_r with binary64 exp / log as the oracles (self = -1: K-NN overload)
                                              -> found(0/1) beta row[K]   (hex floats)   or   NONE
     GM id N theta slack fuel Y[2N] nnz row[N+1] col[nnz] val[nnz]
                                           -> bh_gradient on tsne_tree slack fuel (QuadTree(Y, N), computeGradient):
                                              OK dC[2N] (hex floats) / NOTREE / FUEL / OOB i / NONE *)
open C17_model

let rec pos_of_int n = if n = 1 then XH else if n land 1 = 1 then XI (pos_of_int (n lsr 1)) else XO (pos_of_int (n lsr 1))
let z_of_int n = if n = 0 then Z0 else if n > 0 then Zpos (pos_of_int n) else Zneg (pos_of_int (-n))
let rec nat_of_int n = if n <= 0 then O else S (nat_of_int (n - 1))
let rec int_of_nat = function O -> 0 | S n -> 1 + int_of_nat n

(* arbitrary precision decimal <-> positive, by repeated halving / doubling of digit strings *)
let pos_of_string (s : string) : positive =
  (* s: decimal digits, value >= 1 *)
  let digits = Array.init (String.length s) (fun i -> Char.code s.[i] - 48) in
  let len = Array.length digits in
  let is_zero () = Array.for_all (fun d -> d = 0) digits in
  let halve () =
    let carry = ref 0 in
    for i = 0 to len - 1 do
      let cur = !carry * 10 + digits.(i) in
      digits.(i) <- cur / 2; carry := cur mod 2
    done; !carry in
  let bits = ref [] in
  while not (is_zero ()) do bits := halve () :: !bits done;
  (* !bits: most significant first *)
  match !bits with
  | [] -> failwith "pos_of_string: zero"
  | _ :: rest -> List.fold_left (fun p b -> if b = 1 then XI p else XO p) XH rest

let string_of_pos (p : positive) : string =
  let rec bits acc = function XH -> 1 :: acc | XO p -> bits (0 :: acc) p | XI p -> bits (1 :: acc) p in
  let bl = bits [] p in   (* most significant first *)
  let digits = ref [0] in (* little endian decimal *)
  List.iter (fun b ->
    let carry = ref b in
    digits := List.map (fun d -> let v = 2 * d + !carry in carry := v / 10; v mod 10) !digits;
    if !carry > 0 then digits := !digits @ [!carry]) bl;
  String.concat "" (List.rev_map string_of_int !digits)

let z_of_string s =
  if s = "0" || s = "-0" then Z0
  else if s.[0] = '-' then Zneg (pos_of_string (String.sub s 1 (String.length s - 1)))
  else Zpos (pos_of_string s)
let string_of_z = function Z0 -> "0" | Zpos p -> string_of_pos p | Zneg p -> "-" ^ string_of_pos p

let q_of_string s : q =
  match String.index_opt s '/' with
  | None -> { qnum = z_of_string s; qden = XH }
  | Some i ->
    let n = z_of_string (String.sub s 0 i) in
    (match z_of_string (String.sub s (i + 1) (String.length s - i - 1)) with
     | Zpos d -> { qnum = n; qden = d }
     | _ -> failwith "bad denominator")
let string_of_q (x : q) =
  let x = qred x in
  if x.qden = XH then string_of_z x.qnum else string_of_z x.qnum ^ "/" ^ string_of_pos x.qden

let qc_of_string s : qc = q2Qc (q_of_string s)

(* ---- binary64 <-> Q (for the exp / log oracles and for printing) ---- *)
let rec bits_of_pos acc = function XH -> 1 :: acc | XO p -> bits_of_pos (0 :: acc) p | XI p -> bits_of_pos (1 :: acc) p
(* p = m * 2^e with m the leading (at most 62) bits; the rest is dropped (sticky bit kept) *)
let mant_exp_of_pos (p : positive) : float * int =
  let bl = bits_of_pos [] p in
  let rec take k acc l = if k = 0 then (acc, l) else match l with [] -> (acc, []) | b :: r -> take (k - 1) (acc * 2 + b) r in
  let (m, rest) = take 61 0 bl in
  let sticky = if List.exists (fun b -> b = 1) rest then 1 else 0 in
  (float_of_int (m * 2 + (if rest = [] then 0 else sticky)), if rest = [] then -1 else List.length rest - 1)
let rec is_pow2 = function XH -> true | XO p -> is_pow2 p | XI _ -> false
let float_of_q (x : q) : float =
  (* a function of the VALUE of x: dyadic x (every number the oracles see) convert the same way in every
     representation (trailing zero bits change neither the leading bits nor the sticky bit); others are reduced *)
  let x = if is_pow2 x.qden then x else qred x in
  let (md, ed) = mant_exp_of_pos x.qden in
  match x.qnum with
  | Z0 -> 0.0
  | Zpos p -> let (mn, en) = mant_exp_of_pos p in ldexp (mn /. md) (en - ed)
  | Zneg p -> let (mn, en) = mant_exp_of_pos p in -. ldexp (mn /. md) (en - ed)
let rec pos_shift p k = if k <= 0 then p else pos_shift (XO p) (k - 1)
let q_of_float (x : float) : q =
  if x = 0.0 then { qnum = Z0; qden = XH }
  else if Float.is_nan x || Float.abs x = Float.infinity then failwith "oracle returned a non-finite value"
  else begin
    let (m, e) = Float.frexp x in
    let mi = ref (Int64.to_int (Int64.of_float (Float.ldexp (Float.abs m) 53))) and e' = ref (e - 53) in
    while !mi land 1 = 0 do mi := !mi lsr 1; e' := !e' + 1 done;
    let num = if !e' >= 0 then pos_shift (pos_of_int !mi) !e' else pos_of_int !mi in
    let den = if !e' >= 0 then XH else pos_shift XH (- !e') in
    { qnum = (if x > 0.0 then Zpos num else Zneg num); qden = den }
  end
(* functions of the VALUE of the argument (float_of_q reduces first) *)
let exp_oracle (x : q) : q = q_of_float (exp (float_of_q x))
let log_oracle (x : q) : q = q_of_float (log (float_of_q x))

let buf_of_array (a : qc array) (cols : int) : qc buf =
  fun n d -> let i = int_of_nat n * cols + int_of_nat d in
    if i < Array.length a then a.(i) else q2Qc { qnum = Z0; qden = XH }

let print_buf (b : qc buf) rows cols =
  for n = 0 to rows - 1 do
    for d = 0 to cols - 1 do
      print_char ' '; print_string (string_of_q (this (b (nat_of_int n) (nat_of_int d))))
    done
  done

let arr_name = function
  | A_row_P -> "row_P" | A_col_P -> "col_P" | A_val_P -> "val_P" | A_row_counts -> "row_counts"
  | A_sym_row_P -> "sym_row_P" | A_sym_col_P -> "sym_col_P" | A_sym_val_P -> "sym_val_P" | A_offset -> "offset"

let int_of_z = function
  | Z0 -> 0
  | Zpos p -> int_of_string (string_of_pos p)
  | Zneg p -> - (int_of_string (string_of_pos p))

let () =
  try
    while true do
      let line = input_line stdin in
      let toks = Array.of_list (List.filter (fun s -> s <> "") (String.split_on_char ' ' line)) in
      if Array.length toks >= 2 then begin
        let cmd = toks.(0) and id = toks.(1) in
        let pos = ref 2 in
        let next () = let t = toks.(!pos) in pos := !pos + 1; t in
        let nexti () = int_of_string (next ()) in
        Printf.printf "R %s" id;
        (try
          (match cmd with
           | "DD" ->
             let n = nexti () in let d = nexti () in
             let x = Array.init (n * d) (fun _ -> qc_of_string (next ())) in
             let xb = buf_of_array x d in
             print_buf (c17_sqdist_fixed (nat_of_int d) xb) n n;
             print_string " |";
             print_buf (c17_true_sqdist (nat_of_int d) xb) n n
           | "ZM" ->
             let n = nexti () in let d = nexti () in
             let x = Array.init (n * d) (fun _ -> qc_of_string (next ())) in
             print_buf (c17_zero_mean (nat_of_int n) (buf_of_array x d)) n d
           | "GE" ->
             let n = nexti () in let d = nexti () in
             let p = Array.init (n * n) (fun _ -> qc_of_string (next ())) in
             let y = Array.init (n * d) (fun _ -> qc_of_string (next ())) in
             let pb = buf_of_array p n and yb = buf_of_array y d in
             print_buf (c17_exact_grad (nat_of_int n) (nat_of_int d) pb yb) n d;
             print_string " |";
             print_buf (c17_grad_spec (nat_of_int n) (nat_of_int d) pb yb) n d
           | "SY" | "SS" ->
             let read_csr () =
               let n = nexti () in let nnz = nexti () in
               let row = List.init (n + 1) (fun _ -> nat_of_int (nexti ())) in
               let col = List.init nnz (fun _ -> nat_of_int (nexti ())) in
               let v = List.init nnz (fun _ -> q_of_string (next ())) in
               (n, { row_P = row; col_P = col; val_P = v }) in
             let (n, p) = read_csr () in
             if cmd = "SY" then
               (match c17_symmetrize p (nat_of_int n) with
                | Ok s ->
                  print_string " OK";
                  List.iter (fun r -> Printf.printf " %d" (int_of_nat r)) s.row_P;
                  print_string " |";
                  List.iter (fun r -> Printf.printf " %d" (int_of_nat r)) s.col_P;
                  print_string " |";
                  List.iter (fun v -> print_char ' '; print_string (string_of_q v)) s.val_P
                | OOB (a, i) -> Printf.printf " OOB %s %d" (arr_name a) (int_of_nat i)
                | Uninit i -> Printf.printf " UNINIT %d" (int_of_nat i))
             else begin
               let ne = nexti () in
               let row = List.init (n + 1) (fun _ -> nat_of_int (nexti ())) in
               let col = List.init ne (fun _ -> nat_of_int (nexti ())) in
               let v = List.init ne (fun _ -> q_of_string (next ())) in
               let s = { row_P = row; col_P = col; val_P = v } in
               print_string (if c17_sym_spec_b (nat_of_int n) p s then " true" else " false")
             end
           | "VP" | "KN" | "ME" ->
             let n = nexti () in
             let k = if cmd = "ME" then 0 else nexti () in
             let tbl = Array.init (n * n) (fun _ -> z_of_string (next ())) in
             let dist : dist = fun a b ->
               let i = int_of_z a and j = int_of_z b in
               if i >= 0 && i < n && j >= 0 && j < n then tbl.(i * n + j) else Z0 in
             if cmd = "ME" then
               print_string (if metric_b dist (nat_of_int n) then " true" else " false")
             else if cmd = "KN" then begin
               (* rows separated by | *)
               let q = ref (-1) and cur = ref [] in
               let flush () =
                 if !q >= 0 then
                   print_string (if is_knn_b dist (nat_of_int n) (z_of_int !q) (nat_of_int k) (List.rev !cur)
                                 then " t" else " f") in
               while !pos < Array.length toks do
                 let t = next () in
                 if t = "|" then (flush (); q := !q + 1; cur := []) else cur := z_of_string t :: !cur
               done;
               flush ()
             end else begin
               let rec parse () : vpt =
                 match next () with
                 | "-" -> E
                 | "(" ->
                   let item = z_of_string (next ()) in
                   let thr = z_of_string (next ()) in
                   let l = parse () in
                   let r = parse () in
                   if next () <> ")" then failwith "tree syntax";
                   Nd (item, thr, l, r)
                 | _ -> failwith "tree syntax" in
               let t = parse () in
               Printf.printf " inv=%b holds=%b" (vp_inv_b dist t) (vp_holds_b (nat_of_int n) t);
               for qi = 0 to n - 1 do
                 print_string " |";
                 (match vp_search_pairs dist t (z_of_int qi) (nat_of_int k) with
                  | None -> print_string " NONE"
                  | Some l -> List.iter (fun (i, d) -> Printf.printf " %s:%s" (string_of_z i) (string_of_z d)) l)
               done
             end
           | "PR" ->
             let self = nexti () in
             let perp = q_of_string (next ()) in
             let tol = q_of_string (next ()) in
             let dmin = q_of_string (next ()) in
             let k = nexti () in
             let dd = List.init k (fun _ -> q_of_string (next ())) in
             let selfo = if self < 0 then None else Some (nat_of_int self) in
             (match perp_row_r exp_oracle log_oracle dmin tol selfo dd perp with
              | (found, Some (beta, row)) ->
                Printf.printf " %d %h" (if found then 1 else 0) (float_of_q beta);
                List.iter (fun v -> Printf.printf " %h" (float_of_q v)) row
              | (_, None) -> print_string " NONE")
           | "GM" ->
             let n = nexti () in
             let theta = q_of_string (next ()) in
             let slack = q_of_string (next ()) in
             let fuel = nexti () in
             let data = List.init n (fun _ -> let x = q_of_string (next ()) in let y = q_of_string (next ()) in (x, y)) in
             let nnz = nexti () in
             let row = Array.init (n + 1) (fun _ -> nexti ()) in
             let col = Array.init nnz (fun _ -> nexti ()) in
             let v = Array.init nnz (fun _ -> q_of_string (next ())) in
             let rows = List.init n (fun r ->
               List.init (max 0 (row.(r + 1) - row.(r))) (fun j -> (nat_of_int col.(row.(r) + j), v.(row.(r) + j)))) in
             (match tsne_tree slack (nat_of_int fuel) data (nat_of_int n) with
              | None -> print_string " NOTREE"
              | Some OutOfFuel -> print_string " FUEL"
              | Some (OOB0 i) -> Printf.printf " OOB %d" (int_of_nat i)
              | Some (Done (_, t)) ->
                (match bh_gradient data rows theta t with
                 | None -> print_string " NONE"
                 | Some g -> print_string " OK";
                   List.iter (fun (a, b) -> Printf.printf " %h %h" (float_of_q a) (float_of_q b)) g))
           | _ -> print_string " BADCASE")
        with e -> print_string (" ERROR " ^ Printexc.to_string e));
        print_newline ()
      end
    done
  with End_of_file -> ()
