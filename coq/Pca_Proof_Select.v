(* ====================================================================== *)
(*  Pca_Proof_Select.v — C06 end to end for the dense path: assemble       *)
(*  (covariance) -> eigen oracle -> select (GENERATED table, T-eig) ->     *)
(*  post-process (project).  For every `largest` dense site of the table   *)
(*  of the tree being checked.                                             *)
(* ====================================================================== *)
Require Import Field Ring Arith Lia List Bool String.
From TK Require Import Mat_Sums Mat_Core Mat_EigSelect EigSelect Mat_EigSelect_Tie
                       Proj_Model Proj_Spec Proj_Proof Pca_Model Pca_Spec Pca_Proof
                       Spectral_KyFan Pca_Proof_Opt Spectral_Randomized.

Section PcaSelect.
  Context {F : Type} {Fo : FieldOps F} {Ff : IsField F} {Fle : OrderedField F}.
  Local Open Scope nat_scope.

  Theorem pca_dense_end_to_end :
    forall b, In b eig_table -> b_largest b = true -> b_base b = BaseN ->
    forall (N D d : nat) (X V : mat F) (Lam : vec F),
      of_nat N <> fzero -> d <= D ->
      full_contract D (cov_spec N X) V Lam ->
      ascending D Lam ->
      exists vc vv,
        eval_ops d 0 D (b_cols b) = Some vc /\ eval_ops d 0 D (b_vals b) = Some vv /\
        let P := select_cols V vc in
        let lam := select_vals Lam vv in
        eig_contract D d (cov_spec N X) P lam /\
        uncorrelated N d (pca_embedding N D X P) lam /\
        (forall Q, meq d d (mmul D (mtrans Q) Q) mI ->
           fle (retained D d (cov_spec N X) Q) (retained D d (cov_spec N X) P)) /\
        retained D d (cov_spec N X) P = sumn d lam.
  Proof.
    intros b Hb Hl Hbase N D d X V Lam HN Hd Hfull Hasc.
    destruct (select_largest b Hb Hl D d Hd) as [Hc [Hv _]].
    rewrite Hbase in Hc, Hv. cbn [base_eval] in Hc, Hv.
    exists (D - d, d), (D - d, d). split; [exact Hc|]. split; [exact Hv|].
    intros P lam.
    assert (Hcon : eig_contract D d (cov_spec N X) P lam)
      by (apply (@select_contract F Fo Ff D d (D - d)); [lia|exact Hfull]).
    split; [exact Hcon|]. split; [exact (pca_uncorrelated N D d X P lam HN Hcon)|].
    split.
    - intros Q HQ. exact (proj1 (pca_variance_optimal N D d X V Q Lam Hd Hfull Hasc HQ)).
    - (* any Q works to extract the equality; use P itself's statement via the identity frame *)
      destruct Hfull as [HVtV [HVVt HCV]].
      unfold P, select_cols, lam, select_vals. cbn [fst].
      rewrite retained_is_quad.
      apply (ky_fan_attained D d (D - d) (cov_spec N X) V Lam); try assumption. lia.
  Qed.
End PcaSelect.

(* ---------------- the randomized path on exact-rank data ---------------- *)
Section PcaRandomized.
  Context {F : Type} {Fo : FieldOps F} {Ff : IsField F}.
  Local Open Scope nat_scope.

  (* PCA uses LargestEigenvalues (skip = 0): the random test matrix O has d columns and
     rightCols(d) keeps all of them.  A = what the randomized front-end sees = cov_spec
     (Pca_Proof.cov_seen_randomized).  s = the norm (sqrt) oracle answers of the Gram-Schmidt loop. *)
  Theorem pca_randomized_path N D d (X O B W : mat F) (lam : vec F) (s : nat -> F) :
    of_nat N <> fzero ->
    let A := cov_spec N X in
    let Y := gram_schmidt D (mmul D A O) d s in
    (forall i, i < d ->
       s i <> fzero /\
       fmul (s i) (s i) = (let Yi := gram_schmidt D (mmul D A O) i s in
                           let col := gs_subtract D Yi i i (fun t => Yi t i) in dot D col col)) ->
    meq D D (mmul d Y (mmul D (mtrans Y) A)) A ->
    meq d d B (mmul D (mtrans Y) (mmul D A Y)) ->
    eig_pairs d d B W lam ->
    let P := mmul d Y W in
    eig_contract D d A P lam /\ uncorrelated N d (pca_embedding N D X P) lam.
  Proof.
    intros HN A Y Hs Hrange HB HW P.
    assert (HY : orthonormal_cols D d Y)
      by (apply cols_orthonormal_is_meq; apply gram_schmidt_orthonormal; exact Hs).
    destruct (randomized_contract D d A Y B W lam HY Hrange HB HW) as [H1 H2].
    assert (Hc : eig_contract D d A P lam) by (split; assumption).
    split; [exact Hc|]. exact (pca_uncorrelated N D d X P lam HN Hc).
  Qed.
End PcaRandomized.

(* pca_embed (the five statements of embed()) is the composition the other theorems are about *)
Section PcaEmbedChain.
  Context {F : Type} {Fo : FieldOps F}.
  Theorem pca_embed_is_composition (N D : nat) (X V : mat F) (v : view) :
    pca_embed N D X V v =
      (pca_embedding N D X (select_cols V v), (select_cols V v, mean_vec N X), pca_matrix N X).
  Proof. reflexivity. Qed.
End PcaEmbedChain.
