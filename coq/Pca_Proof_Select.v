(* ====================================================================== *)
(*  Pca_Proof_Select.v — C06 end to end for the dense path: assemble       *)
(*  (covariance) -> eigen oracle -> select (GENERATED table, T-eig) ->     *)
(*  post-process (project).  For every `largest` dense site of the table   *)
(*  of the tree being checked.                                             *)
(* ====================================================================== *)
Require Import Field Ring Arith Lia List Bool String.
From TK Require Import Mat_Sums Mat_Core Mat_EigSelect EigSelect Mat_EigSelect_Tie
                       Proj_Model Proj_Spec Proj_Proof Pca_Model Pca_Spec Pca_Proof
                       Spectral_KyFan Pca_Proof_Opt.

Section PcaSelect.
  Context {F : Type} {Fo : FieldOps F} {Ff : IsField F} {Fle : OrderedField F}.
  Local Open Scope nat_scope.

  Theorem pca_dense_end_to_end :
    forall b, In b eig_table -> b_largest b = true -> b_base b = BaseN ->
    forall (N D d : nat) (X V : mat F) (Lam : vec F),
      of_nat N <> fzero -> d <= D ->
      full_contract D (cov_spec N X) V Lam ->
      ascending D Lam ->
      exists vc vv,
        eval_ops d 0 D (b_cols b) = Some vc /\ eval_ops d 0 D (b_vals b) = Some vv /\
        let P := select_cols V vc in
        let lam := select_vals Lam vv in
        eig_contract D d (cov_spec N X) P lam /\
        uncorrelated N d (pca_embedding N D X P) lam /\
        (forall Q, meq d d (mmul D (mtrans Q) Q) mI ->
           fle (retained D d (cov_spec N X) Q) (retained D d (cov_spec N X) P)) /\
        retained D d (cov_spec N X) P = sumn d lam.
  Proof.
    intros b Hb Hl Hbase N D d X V Lam HN Hd Hfull Hasc.
    destruct (select_largest b Hb Hl D d Hd) as [Hc [Hv _]].
    rewrite Hbase in Hc, Hv. cbn [base_eval] in Hc, Hv.
    exists (D - d, d), (D - d, d). split; [exact Hc|]. split; [exact Hv|].
    intros P lam.
    assert (Hcon : eig_contract D d (cov_spec N X) P lam)
      by (apply (@select_contract F Fo Ff D d (D - d)); [lia|exact Hfull]).
    split; [exact Hcon|]. split; [exact (pca_uncorrelated N D d X P lam HN Hcon)|].
    split.
    - intros Q HQ. exact (proj1 (pca_variance_optimal N D d X V Q Lam Hd Hfull Hasc HQ)).
    - (* any Q works to extract the equality; use P itself's statement via the identity frame *)
      destruct Hfull as [HVtV [HVVt HCV]].
      unfold P, select_cols, lam, select_vals. cbn [fst].
      rewrite retained_is_quad.
      apply (ky_fan_attained D d (D - d) (cov_spec N X) V Lam); try assumption. lia.
  Qed.
End PcaSelect.
