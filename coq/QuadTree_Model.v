(* QuadTree_Model.v — executable model of tsne::QuadTree / tsne::Cell
   (include/tapkee/external/barnes_hut_sne/quadtree.hpp) as used by
   tsne.hpp (computeGradient / evaluateError: `new QuadTree(Y, N)`, then
   computeNonEdgeForces(n, theta, ...) for every n).  No proofs in this file.

   Numbers: exact rationals `Q` (order regime, genuine division in the centre of
   mass and in the Student-t kernel 1/(1+D)).  Equality of numbers is `Qeq`
   (`==`); `Qred` is applied after the arithmetic steps that would otherwise let
   denominators grow (it does not change the value: `Qred_correct`).  On dyadic
   inputs the containment tests, the child boxes (x -/+ .5*hw, .5*hw), cum_size
   and the stored indices of the C++ are computed without rounding, so model and
   implementation must agree on them exactly; center_of_mass and the forces are
   rounded in the C++ (factors (n-1)/n, 1/n, 1/(1+D)) and agree up to rounding.

   Pointers: a QuadTree object is a tree position; `parent`, `data` and `buff`
   are not represented (`data` is the `list pt` argument; index i is the pair
   data[2i], data[2i+1]).  `index[0]` / `size` of a leaf is `st`:
   None = size 0, Some (j, cnt) = size 1 with index[0] = j.

   cnt is the number of inserts the slot has taken (1 when stored, +1 for every
   exact duplicate absorbed).  The SHIPPED code has no such field (it is a ghost
   here: maintained, never read, when fx = false).  The REPAIRED code
   (fixes/F24_quadtree_duplicate_mass.patch) has it as `count[QT_NODE_CAPACITY]`
   and subdivide() re-inserts index[i] count[i] times so that the mass of the
   absorbed duplicates moves down with the stored point.
   fx = false : shipped code;  fx = true : repaired code. *)
From Coq Require Import List Arith Bool ZArith QArith.
Import ListNotations.
Local Open Scope Q_scope.

Definition pt : Type := (Q * Q)%type.

(* class Cell { x, y, hw, hh } *)
Record cell : Type := mkCell { cx : Q; cy : Q; chw : Q; chh : Q }.

(* a < b on doubles (no NaN in the model) *)
Definition Qltb (a b : Q) : bool := negb (Qle_bool b a).

(* std::max(a, b) = (a < b) ? b : a *)
Definition qmax (a b : Q) : Q := if Qltb a b then b else a.

(* Cell::containsPoint: four strict tests, i.e. a box closed on all four sides *)
Definition contains (c : cell) (p : pt) : bool :=
  if Qltb (fst p) (cx c - chw c) then false        (* x - hw > point[0] *)
  else if Qltb (cx c + chw c) (fst p) then false   (* x + hw < point[0] *)
  else if Qltb (snd p) (cy c - chh c) then false   (* y - hh > point[1] *)
  else if Qltb (cy c + chh c) (snd p) then false   (* y + hh < point[1] *)
  else true.

(* subdivide(): the four child boxes, in the order they are created and tried *)
Definition half : Q := 1 # 2.
Definition nwc (c : cell) : cell :=
  mkCell (Qred (cx c - half * chw c)) (Qred (cy c - half * chh c))
         (Qred (half * chw c)) (Qred (half * chh c)).
Definition nec (c : cell) : cell :=
  mkCell (Qred (cx c + half * chw c)) (Qred (cy c - half * chh c))
         (Qred (half * chw c)) (Qred (half * chh c)).
Definition swc (c : cell) : cell :=
  mkCell (Qred (cx c - half * chw c)) (Qred (cy c + half * chh c))
         (Qred (half * chw c)) (Qred (half * chh c)).
Definition sec (c : cell) : cell :=
  mkCell (Qred (cx c + half * chw c)) (Qred (cy c + half * chh c))
         (Qred (half * chw c)) (Qred (half * chh c)).

(* the duplicate test of insert(): point[d] != data[index[n]*2 + d] for d = 0, 1 *)
Definition pt_eqb (p q : pt) : bool :=
  Qeq_bool (fst p) (fst q) && Qeq_bool (snd p) (snd q).

Definition Qn (n : nat) : Q := inject_Z (Z.of_nat n).

(* online update, n = cum_size after the increment:
   mult1 = (n-1)/n; mult2 = 1/n; com[d] *= mult1; com[d] += mult2 * point[d] *)
Definition com_update (com : pt) (n : nat) (p : pt) : pt :=
  let mult1 := Qn (n - 1) / Qn n in
  let mult2 := 1 / Qn n in
  (Qred (fst com * mult1 + mult2 * fst p), Qred (snd com * mult1 + mult2 * snd p)).

Inductive qt : Type :=
| Leaf (c : cell) (st : option (nat * nat)) (cum : nat) (com : pt)
| Node (c : cell) (cum : nat) (com : pt) (nw ne sw se : qt).

Definition qcell (t : qt) : cell :=
  match t with Leaf c _ _ _ => c | Node c _ _ _ _ _ _ => c end.
Definition qcum (t : qt) : nat :=
  match t with Leaf _ _ n _ => n | Node _ n _ _ _ _ _ => n end.
Definition qcom (t : qt) : pt :=
  match t with Leaf _ _ _ m => m | Node _ _ m _ _ _ _ => m end.

(* init(): is_leaf = true, size = 0, cum_size = 0, center_of_mass = 0 *)
Definition init (c : cell) : qt := Leaf c None 0 (0, 0).

(* Result of insert: the bool the C++ returns together with the (mutated) tree. *)
Inductive res : Type :=
| Done (ok : bool) (t : qt)
| OutOfFuel
| OOB (i : nat).          (* data[2i], data[2i+1] read with i outside the data *)

Inductive res4 : Type :=
| Done4 (ok : bool) (nw ne sw se : qt)
| OutOfFuel4
| OOB4 (i : nat).

(* if (northWest->insert(i)) return true; if (northEast->insert(i)) ... ; return false.
   A child that returns false may still have been mutated (it keeps what it did). *)
Definition route4 (ins : qt -> res) (nw ne sw se : qt) : res4 :=
  match ins nw with
  | OutOfFuel => OutOfFuel4
  | OOB i => OOB4 i
  | Done true nw' => Done4 true nw' ne sw se
  | Done false nw' =>
    match ins ne with
    | OutOfFuel => OutOfFuel4
    | OOB i => OOB4 i
    | Done true ne' => Done4 true nw' ne' sw se
    | Done false ne' =>
      match ins sw with
      | OutOfFuel => OutOfFuel4
      | OOB i => OOB4 i
      | Done true sw' => Done4 true nw' ne' sw' se
      | Done false sw' =>
        match ins se with
        | OutOfFuel => OutOfFuel4
        | OOB i => OOB4 i
        | Done ok se' => Done4 ok nw' ne' sw' se'
        end
      end
    end
  end.

(* subdivide(): move index[0] down `times` times (shipped: once; repaired: count[0]);
   `success` is dropped by the C++ (index[i] = -1 whatever happened). *)
Fixpoint route_times (times : nat) (ins : qt -> res) (nw ne sw se : qt) : res4 :=
  match times with
  | O => Done4 true nw ne sw se
  | S k =>
    match route4 ins nw ne sw se with
    | Done4 _ nw' ne' sw' se' => route_times k ins nw' ne' sw' se'
    | r => r
    end
  end.

(* bool QuadTree::insert(int new_index) *)
Fixpoint insert (fx : bool) (fuel : nat) (data : list pt) (i : nat) (t : qt) {struct fuel} : res :=
  match fuel with
  | O => OutOfFuel
  | S f =>
    match nth_error data i with
    | None => OOB i
    | Some p =>
      if negb (contains (qcell t) p) then Done false t
      else
        match t with
        | Leaf c st cum com =>
          let cum' := S cum in
          let com' := com_update com cum' p in
          match st with
          | None => Done true (Leaf c (Some (i, 1%nat)) cum' com')      (* index[size] = i; size++ *)
          | Some (j, cnt) =>
            match nth_error data j with
            | None => OOB j
            | Some pj =>
              if pt_eqb p pj then Done true (Leaf c (Some (j, S cnt)) cum' com')  (* any_duplicate *)
              else
                (* subdivide(), then route the new index *)
                match route_times (if fx then cnt else 1%nat) (insert fx f data j)
                                  (init (nwc c)) (init (nec c)) (init (swc c)) (init (sec c)) with
                | Done4 _ nw ne sw se =>
                  match route4 (insert fx f data i) nw ne sw se with
                  | Done4 ok nw' ne' sw' se' => Done ok (Node c cum' com' nw' ne' sw' se')
                  | OutOfFuel4 => OutOfFuel
                  | OOB4 k => OOB k
                  end
                | OutOfFuel4 => OutOfFuel
                | OOB4 k => OOB k
                end
            end
          end
        | Node c cum com nw ne sw se =>
          let cum' := S cum in
          let com' := com_update com cum' p in
          match route4 (insert fx f data i) nw ne sw se with
          | Done4 ok nw' ne' sw' se' => Done ok (Node c cum' com' nw' ne' sw' se')
          | OutOfFuel4 => OutOfFuel
          | OOB4 k => OOB k
          end
        end
    end
  end.

(* fill(N) is `for i < N: insert(i)` and drops the returned bool; `fill_order` inserts an
   explicit index sequence (the harness calls the public insert() in that order) and keeps
   the conjunction of the returned bools as a ghost. *)
Fixpoint fill_order (fx : bool) (fuel : nat) (data : list pt) (order : list nat) (t : qt) : res :=
  match order with
  | [] => Done true t
  | i :: rest =>
    match insert fx fuel data i t with
    | Done ok t' =>
      match fill_order fx fuel data rest t' with
      | Done ok' t'' => Done (ok && ok') t''
      | r => r
      end
    | r => r
    end
  end.

Definition fill (fx : bool) (fuel : nat) (data : list pt) (N : nat) (t : qt) : res :=
  fill_order fx fuel data (seq 0 N) t.

(* QuadTree(data, N, x, y, hw, hh) *)
Definition build (fx : bool) (fuel : nat) (data : list pt) (N : nat) (root : cell) : res :=
  fill fx fuel data N (init root).

(* QuadTree(data, N): root box = mean +/- (largest deviation from the mean + slack) per axis;
   slack is the double 1e-5.  N = 0 gives 0/0 in the C++ (NaN box, nothing inserted): None. *)
Definition sum_pts (l : list pt) : pt :=
  fold_left (fun a p => (fst a + fst p, snd a + snd p)) l (0, 0).
Definition min_list (d : pt -> Q) (l : list pt) (init : Q) : Q :=
  fold_left (fun m p => if Qltb (d p) m then d p else m) l init.
Definition max_list (d : pt -> Q) (l : list pt) (init : Q) : Q :=
  fold_left (fun m p => if Qltb m (d p) then d p else m) l init.

Definition auto_root (slack : Q) (data : list pt) (N : nat) : option cell :=
  match firstn N data with
  | [] => None
  | (p0 :: _) as l =>       (* NB: `p0 :: _ as l` would bind l to the tail *)
    let s := sum_pts l in
    let mx := Qred (fst s / Qn N) in
    let my := Qred (snd s / Qn N) in
    (* min_Y = DBL_MAX, max_Y = -DBL_MAX initially: the first point replaces both *)
    let minx := min_list fst l (fst p0) in let maxx := max_list fst l (fst p0) in
    let miny := min_list snd l (snd p0) in let maxy := max_list snd l (snd p0) in
    Some (mkCell mx my (Qred (qmax (maxx - mx) (mx - minx) + slack))
                       (Qred (qmax (maxy - my) (my - miny) + slack)))
  end.

(* ---------- computeNonEdgeForces ---------- *)

Definition sqdist (p q : pt) : Q :=
  (fst p - fst q) * (fst p - fst q) + (snd p - snd q) * (snd p - snd q).

(* std::max(hh, hw) / sqrt(D) < theta  for theta >= 0, sqrt-free:
   max^2 < theta^2 * D  /\  0 < D   (D = 0: the C++ divides by zero, +inf or NaN < theta is
   false, the same branch).  See QuadTree_Proof.summary_sqrt_free. *)
Definition summary_ok (c : cell) (theta D : Q) : bool :=
  let m := qmax (chh c) (chw c) in
  Qltb (m * m) (theta * theta * D) && Qltb 0 D.

(* accumulators neg_f[0], neg_f[1], *sum_Q *)
Definition facc : Type := (Q * Q * Q)%type.

(* Q = 1/(1+D); *sum_Q += cum_size*Q; mult = cum_size*Q*Q; neg_f[d] += mult*buff[d] *)
Definition add_summary (p : pt) (cum : nat) (com : pt) (a : facc) : facc :=
  let D := sqdist p com in
  let q := 1 / (1 + D) in
  let mult := Qn cum * q * q in
  let '(f0, f1, sq) := a in
  (Qred (f0 + mult * (fst p - fst com)), Qred (f1 + mult * (snd p - snd com)), Qred (sq + Qn cum * q)).

Fixpoint forces_at (p : pt) (i : nat) (theta : Q) (t : qt) (a : facc) : facc :=
  match t with
  | Leaf c st cum com =>
    if (cum =? 0)%nat then a
    else if (match st with Some (j, _) => (j =? i)%nat | None => false end) then a
    else add_summary p cum com a                                (* is_leaf *)
  | Node c cum com nw ne sw se =>
    if (cum =? 0)%nat then a
    else if summary_ok c theta (sqdist p com) then add_summary p cum com a
    else forces_at p i theta se
           (forces_at p i theta sw
              (forces_at p i theta ne
                 (forces_at p i theta nw a)))
  end.

Inductive fres : Type :=
| FDone (a : facc)
| FOOB (i : nat).

(* data[point_index*2 + d] is read by every cell that does not return early; the root
   decides whether anything is read at all. *)
Definition forces (data : list pt) (i : nat) (theta : Q) (t : qt) (a : facc) : fres :=
  let early :=
    match t with
    | Leaf _ st cum _ => (cum =? 0)%nat || (match st with Some (j, _) => (j =? i)%nat | None => false end)
    | Node _ cum _ _ _ _ _ => (cum =? 0)%nat
    end in
  if early then FDone a
  else match nth_error data i with
       | None => FOOB i
       | Some p => FDone (forces_at p i theta t a)
       end.

(* ---------- the other public observers ---------- *)

(* getAllIndices: own slot first, then NW, NE, SW, SE *)
Fixpoint all_indices (t : qt) : list nat :=
  match t with
  | Leaf _ None _ _ => []
  | Leaf _ (Some (j, _)) _ _ => [j]
  | Node _ _ _ nw ne sw se => all_indices nw ++ all_indices ne ++ all_indices sw ++ all_indices se
  end.

(* isCorrect: every stored point lies in the box of the cell that stores it *)
Fixpoint is_correct (data : list pt) (t : qt) : bool :=
  match t with
  | Leaf _ None _ _ => true
  | Leaf c (Some (j, _)) _ _ =>
    match nth_error data j with Some p => contains c p | None => false end
  | Node _ _ _ nw ne sw se =>
    is_correct data nw && is_correct data ne && is_correct data sw && is_correct data se
  end.

Fixpoint depth (t : qt) : nat :=
  match t with
  | Leaf _ _ _ _ => 1
  | Node _ _ _ nw ne sw se => S (Nat.max (Nat.max (depth nw) (depth ne)) (Nat.max (depth sw) (depth se)))
  end.
