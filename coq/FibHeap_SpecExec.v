(* FibHeap_SpecExec.v — executable form of the abstract specification of
   FibHeap_Model.v, run (extracted) by the C16 check on the outputs of the REAL
   heap, plus a canonical printer-friendly view of model states. *)
From Coq Require Import List ZArith Bool.
From TK Require Import FibHeap_Model.
Import ListNotations.
Local Open Scope Z_scope.

(* one abstract step checked against an observed output; None = the observed
   output is not allowed by the specification *)
Definition spec_extract_b (m : amap) (r : option (Z * Z)) : option amap :=
  match r with
  | None => match m with [] => Some [] | _ => None end
  | Some (i, k) =>
    match a_get i m with
    | Some k' =>
      if Z.eqb k' k && forallb (fun p => Z.leb k (snd p)) m then Some (a_remove i m) else None
    | None => None
    end
  end.

Definition spec_step_b (cap : Z) (m : amap) (o : op) (x : out) : option amap :=
  let m' :=
    match o with
    | Insert i k => match o_ext x with None => Some (spec_insert cap i k m) | Some _ => None end
    | Decrease i k => match o_ext x with None => Some (spec_decrease cap i k m) | Some _ => None end
    | Clear => match o_ext x with None => Some [] | Some _ => None end
    | ExtractMin => match o_ext x with Some r => spec_extract_b m r | None => None end
    end in
  match m' with
  | Some m1 =>
    if Z.eqb (o_n x) (Z.of_nat (length m1)) && Bool.eqb (o_empty x) (Nat.eqb (length m1) 0)
    then Some m1 else None
  | None => None
  end.

(* index of the first operation whose observed output the specification rejects *)
Fixpoint spec_run_b (cap : Z) (m : amap) (ops : list op) (xs : list out) (n : nat) : option nat :=
  match ops, xs with
  | [], [] => None
  | o :: ops', x :: xs' =>
    match spec_step_b cap m o x with
    | Some m1 => spec_run_b cap m1 ops' xs' (S n)
    | None => Some n
    end
  | _, _ => Some n
  end.

(* states after every operation (for the structural comparison) *)
Fixpoint run_states (h : heap) (ops : list op) : list (res (heap * out)) :=
  match ops with
  | [] => []
  | o :: ops' =>
    match step h o with
    | Ok (h', x) => Ok (h', x) :: run_states h' ops'
    | OOB d s => [OOB d s]
    | OutOfFuel => [OutOfFuel]
    end
  end.
