(* Shapes_Proof_Term.v — C01 strand 3: fuel bounds for the data-dependent loops modelled in
   Shapes_Model.v, and the two non-termination theorems behind finding F20. *)
From Coq Require Import ZArith List Bool Lia QArith Qpower Qround Lqa.
From TK Require Import Shapes_Model.
Open Scope Z_scope.

(* ---------------------------------------------------------------- k-doubling of find_neighbors *)
Lemma kdouble_fuel N conn : conn (N - 1) = true ->
  forall fuel k, 1 <= k -> Z.of_nat fuel > N - 1 - Z.min k (N - 1) ->
  exists k', kdouble fuel N k conn = Some k' /\ conn k' = true /\ Z.min k (N - 1) <= k' <= N - 1.
Proof.
  intros Hc. induction fuel as [|fuel IH]; intros k Hk Hf; [exfalso; lia|].
  cbn [kdouble]. destruct (N - 1 <? k) eqn:E.
  - rewrite Hc. exists (N - 1). repeat split; try assumption; lia.
  - apply Z.ltb_ge in E. destruct (conn k) eqn:Ck.
    + exists k. repeat split; try assumption; lia.
    + assert (k <> N - 1) by (intros ->; congruence).
      destruct (IH (2 * k)) as (k' & R & C & B); [lia|lia|].
      exists k'. repeat split; try assumption; lia.
Qed.

(* fuel N suffices: the recursion of find_neighbors ends after at most N - k doublings, provided the
   complete graph (k = N - 1) passes the connectivity test *)
Theorem kdouble_terminates N k conn :
  1 <= N -> 1 <= k -> conn (N - 1) = true ->
  exists k', kdouble (Z.to_nat N) N k conn = Some k' /\ conn k' = true /\
             Z.min k (N - 1) <= k' <= N - 1.
Proof. intros HN Hk Hc. apply kdouble_fuel; try assumption. lia. Qed.

(* the list length find_neighbors ends with satisfies what inputs_wf asks of it *)
Corollary kdouble_bounds N k conn :
  3 <= k < N -> conn (N - 1) = true ->
  exists keff, kdouble (Z.to_nat N) N k conn = Some keff /\ conn keff = true /\ k <= keff /\ keff < N.
Proof.
  intros Hk Hc. destruct (kdouble_terminates N k conn ltac:(lia) ltac:(lia) Hc) as (k' & R & C & B).
  exists k'. repeat split; try assumption; lia.
Qed.

(* without that guarantee (e.g. neighbour lists that are too short) it never ends *)
Theorem kdouble_refuted N k :
  forall fuel, kdouble fuel N k (fun _ => false) = None.
Proof. intros fuel. revert k. induction fuel as [|fuel IH]; intros k; cbn; [reflexivity|apply IH]. Qed.

(* ---------------------------------------------------------------- SPE clamp *)
Theorem spe_clamp_terminates N nupd :
  exists nu, spe_clamp 2 N nupd = Some nu /\ nu <= nupd /\ (nupd <= N / 2 \/ nu = N / 2) /\
             (0 <= N -> nu <= N / 2 /\ 2 * nu <= N).
Proof.
  exists (if N / 2 <? nupd then N / 2 else nupd). cbn [spe_clamp].
  destruct (N / 2 <? nupd) eqn:E.
  - rewrite Z.ltb_irrefl. apply Z.ltb_lt in E. split; [reflexivity|].
    pose proof (Z.mul_div_le N 2 ltac:(lia)). lia.
  - apply Z.ltb_ge in E. split; [reflexivity|].
    pose proof (Z.mul_div_le N 2 ltac:(lia)). lia.
Qed.

(* ---------------------------------------------------------------- ManifoldSculpting, step 3a *)
Open Scope Q_scope.

(* F20(a): the shipped loop.  When rescaling does not raise the average neighbour distance to
   the initial one (preserved coordinates of all neighbours equal: avg is constant), no fuel is
   enough. *)
Theorem ms_rescale_refuted (avg : nat -> Q) (c : Q) varies :
  (forall n, avg n < c) -> forall fuel n, ms_rescale fuel false varies avg c n = None.
Proof.
  intros H. induction fuel as [|fuel IH]; intros n; cbn [ms_rescale]; [reflexivity|].
  cbn [andb]. destruct (Qle_bool c (avg n)) eqn:E.
  - apply Qle_bool_iff in E. specialize (H n). lra.
  - cbn [negb]. apply IH.
Qed.

(* the repaired loop does not start when the preserved coordinates carry no distance *)
Theorem ms_rescale_guarded_constant avg c fuel n :
  ms_rescale (S fuel) true false avg c n = Some n.
Proof. reflexivity. Qed.

(* ... and otherwise stops as soon as the average reaches the initial one *)
Theorem ms_rescale_terminates guarded avg c :
  forall m n, (n <= m)%nat -> c <= avg m ->
  exists n', ms_rescale (S (m - n)) guarded true avg c n = Some n' /\ (n' <= m)%nat.
Proof.
  intros m n Hnm Hm. remember (m - n)%nat as gap eqn:G. revert n Hnm G.
  induction gap as [|gap IH]; intros n Hnm G.
  - assert (n = m) by lia. subst n. exists m. cbn [ms_rescale].
    apply Qle_bool_iff in Hm. rewrite Hm. destruct guarded; cbn; split; auto.
  - cbn [ms_rescale]. destruct (Qle_bool c (avg n)) eqn:E.
    + exists n. destruct guarded; cbn; split; auto; lia.
    + destruct (IH (S n)) as (n' & R & B); [lia|lia|].
      exists n'. replace ((if guarded then true else true) && negb false)%bool with true
        by (destruct guarded; reflexivity).
      split; [exact R|lia].
Qed.

(* the average after m rescalings is at least t * r^m (t = average distance inside the preserved
   coordinates, r = 1/squishing_rate > 1): a geometric sequence reaches every bound *)
Lemma bernoulli (r : Q) (m : nat) : 1 <= r -> 1 + inject_Z (Z.of_nat m) * (r - 1) <= r ^ (Z.of_nat m).
Proof.
  intros Hr. induction m as [|m IH].
  - change (inject_Z (Z.of_nat 0)) with 0. change (r ^ Z.of_nat 0) with 1. lra.
  - rewrite Nat2Z.inj_succ. unfold Z.succ.
    assert (Hnz : ~ r == 0) by lra.
    rewrite Qpower_plus by exact Hnz. rewrite inject_Z_plus.
    change (r ^ 1) with r.
    assert (HM : 0 <= inject_Z (Z.of_nat m)).
    { change 0 with (inject_Z 0). rewrite <- Zle_Qle. lia. }
    change (inject_Z 1) with 1.
    set (P := r ^ Z.of_nat m) in *. set (M := inject_Z (Z.of_nat m)) in *.
    assert (HMr : 0 <= M * (r - 1)) by nra.
    assert (HP1 : 1 <= P) by lra.
    assert (HPr : 1 * (r - 1) <= P * (r - 1)) by nra.
    lra.
Qed.

Theorem geometric_reaches (t r c : Q) : 0 < t -> 1 < r -> exists m : nat, c <= t * r ^ (Z.of_nat m).
Proof.
  intros Ht Hr.
  set (a := c / (t * (r - 1))).
  exists (Z.to_nat (Qceiling a)).
  pose proof (bernoulli r (Z.to_nat (Qceiling a)) ltac:(lra)) as B.
  assert (Ha : a <= inject_Z (Z.of_nat (Z.to_nat (Qceiling a)))).
  { eapply Qle_trans; [apply Qle_ceiling|]. rewrite <- Zle_Qle. lia. }
  assert (Hp : 0 < t * (r - 1)) by nra.
  assert (Hc : c == a * (t * (r - 1))) by (unfold a; field; lra).
  set (M := inject_Z (Z.of_nat (Z.to_nat (Qceiling a)))) in *.
  set (P := r ^ Z.of_nat (Z.to_nat (Qceiling a))) in *.
  assert (a * (t * (r - 1)) <= M * (t * (r - 1))) by nra.
  nra.
Qed.

Close Scope Q_scope.

(* ---------------------------------------------------------------- ManifoldSculpting, hill climbing *)
(* F20(b): `if (new_error >= old_error)` is false when the error is NaN (0/0 cosine between
   coincident samples), so a NaN error counts as progress on every round: no fuel is enough *)
Theorem ms_adjust_nan_refuted :
  forall fuel pos rounds, ms_adjust fuel false (fun _ => None) pos rounds = None.
Proof.
  induction fuel as [|fuel IH]; intros pos rounds; cbn; [reflexivity|apply IH].
Qed.

(* with `!(new_error < old_error)` a NaN error ends the loop after one round *)
Theorem ms_adjust_nan_repaired fuel pos rounds :
  ms_adjust (S fuel) true (fun _ => None) pos rounds = Some (S rounds).
Proof. reflexivity. Qed.

(* on finite errors the two comparisons agree, so the repair changes nothing else *)
Theorem no_progress_same_on_finite (x y : Q) :
  no_progress true (Some x) (Some y) = no_progress false (Some x) (Some y).
Proof.
  unfold no_progress, flt, fge. destruct (Qle_bool y x); reflexivity.
Qed.

(* partial: termination of the repaired hill climbing on finite errors needs that the error cannot
   decrease forever; here: errors bounded below on a grid 1/q is NOT modelled. What is proved is
   that every round that continues strictly decreases the error. *)
Theorem ms_adjust_step_decreases_partial (err : Z -> option Q) pos e0 e1 :
  err pos = Some e0 -> err (pos + 1) = Some e1 ->
  no_progress true (err (pos + 1)) (err pos) = false -> (e1 < e0)%Q.
Proof.
  intros H0 H1. rewrite H0, H1. unfold no_progress, flt.
  destruct (Qle_bool e0 e1) eqn:E; cbn; [discriminate|]. intros _.
  destruct (Qlt_le_dec e1 e0) as [L|L]; [exact L|].
  apply Qle_bool_iff in L. congruence.
Qed.
