(* Shapes_Proof_Term.v — C01 strand 3: fuel bounds for the data-dependent loops modelled in
   Shapes_Model.v, and the two non-termination theorems behind finding F20. *)
From Coq Require Import ZArith List Bool Lia QArith Qpower Qround Lqa.
From TK Require Import Shapes_Model.
Open Scope Z_scope.

(* ---------------------------------------------------------------- k-doubling of find_neighbors *)
Lemma kdouble_fuel N conn : conn (N - 1) = true ->
  forall fuel k, 1 <= k -> Z.of_nat fuel > N - 1 - Z.min k (N - 1) ->
  exists k', kdouble fuel N k conn = Some k' /\ conn k' = true /\ Z.min k (N - 1) <= k' <= N - 1.
Proof.
  intros Hc. induction fuel as [|fuel IH]; intros k Hk Hf; [exfalso; lia|].
  cbn [kdouble]. destruct (N - 1 <? k) eqn:E.
  - rewrite Hc. exists (N - 1). repeat split; try assumption; lia.
  - apply Z.ltb_ge in E. destruct (conn k) eqn:Ck.
    + exists k. repeat split; try assumption; lia.
    + assert (k <> N - 1) by (intros ->; congruence).
      destruct (IH (2 * k)) as (k' & R & C & B); [lia|lia|].
      exists k'. repeat split; try assumption; lia.
Qed.

(* fuel N suffices: the recursion of find_neighbors ends after at most N - k doublings, provided the
   complete graph (k = N - 1) passes the connectivity test *)
Theorem kdouble_terminates N k conn :
  1 <= N -> 1 <= k -> conn (N - 1) = true ->
  exists k', kdouble (Z.to_nat N) N k conn = Some k' /\ conn k' = true /\
             Z.min k (N - 1) <= k' <= N - 1.
Proof. intros HN Hk Hc. apply kdouble_fuel; try assumption. lia. Qed.

(* the list length find_neighbors ends with satisfies what inputs_wf asks of it *)
Corollary kdouble_bounds N k conn :
  3 <= k < N -> conn (N - 1) = true ->
  exists keff, kdouble (Z.to_nat N) N k conn = Some keff /\ conn keff = true /\ k <= keff /\ keff < N.
Proof.
  intros Hk Hc. destruct (kdouble_terminates N k conn ltac:(lia) ltac:(lia) Hc) as (k' & R & C & B).
  exists k'. repeat split; try assumption; lia.
Qed.

(* without that guarantee (e.g. neighbour lists that are too short) it never ends *)
Theorem kdouble_refuted N k :
  forall fuel, kdouble fuel N k (fun _ => false) = None.
Proof. intros fuel. revert k. induction fuel as [|fuel IH]; intros k; cbn; [reflexivity|apply IH]. Qed.

(* ---------------------------------------------------------------- SPE clamp *)
Theorem spe_clamp_terminates N nupd :
  exists nu, spe_clamp 2 N nupd = Some nu /\ nu <= nupd /\ (nupd <= N / 2 \/ nu = N / 2) /\
             (0 <= N -> nu <= N / 2 /\ 2 * nu <= N).
Proof.
  exists (if N / 2 <? nupd then N / 2 else nupd). cbn [spe_clamp].
  destruct (N / 2 <? nupd) eqn:E.
  - rewrite Z.ltb_irrefl. apply Z.ltb_lt in E. split; [reflexivity|].
    pose proof (Z.mul_div_le N 2 ltac:(lia)). lia.
  - apply Z.ltb_ge in E. split; [reflexivity|].
    pose proof (Z.mul_div_le N 2 ltac:(lia)). lia.
Qed.

(* ---------------------------------------------------------------- ManifoldSculpting, step 3a *)
Open Scope Q_scope.

(* F20(a): the shipped loop.  When rescaling does not raise the average neighbour distance to
   the initial one (preserved coordinates of all neighbours equal: avg is constant), no fuel is
   enough. *)
Theorem ms_rescale_refuted (avg : nat -> Q) (c : Q) varies :
  (forall n, avg n < c) -> forall fuel n, ms_rescale fuel false varies avg c n = None.
Proof.
  intros H. induction fuel as [|fuel IH]; intros n; cbn [ms_rescale]; [reflexivity|].
  cbn [andb]. destruct (Qle_bool c (avg n)) eqn:E.
  - apply Qle_bool_iff in E. specialize (H n). lra.
  - cbn [negb]. apply IH.
Qed.

(* the repaired loop does not start when the preserved coordinates carry no distance *)
Theorem ms_rescale_guarded_constant avg c fuel n :
  ms_rescale (S fuel) true false avg c n = Some n.
Proof. reflexivity. Qed.

(* ... and otherwise stops as soon as the average reaches the initial one *)
Theorem ms_rescale_terminates guarded avg c :
  forall m n, (n <= m)%nat -> c <= avg m ->
  exists n', ms_rescale (S (m - n)) guarded true avg c n = Some n' /\ (n' <= m)%nat.
Proof.
  intros m n Hnm Hm. remember (m - n)%nat as gap eqn:G. revert n Hnm G.
  induction gap as [|gap IH]; intros n Hnm G.
  - assert (n = m) by lia. subst n. exists m. cbn [ms_rescale].
    apply Qle_bool_iff in Hm. rewrite Hm. destruct guarded; cbn; split; auto.
  - cbn [ms_rescale]. destruct (Qle_bool c (avg n)) eqn:E.
    + exists n. destruct guarded; cbn; split; auto; lia.
    + destruct (IH (S n)) as (n' & R & B); [lia|lia|].
      exists n'. replace ((if guarded then true else true) && negb false)%bool with true
        by (destruct guarded; reflexivity).
      split; [exact R|lia].
Qed.

(* the average after m rescalings is at least t * r^m (t = average distance inside the preserved
   coordinates, r = 1/squishing_rate > 1): a geometric sequence reaches every bound *)
Lemma bernoulli (r : Q) (m : nat) : 1 <= r -> 1 + inject_Z (Z.of_nat m) * (r - 1) <= r ^ (Z.of_nat m).
Proof.
  intros Hr. induction m as [|m IH].
  - change (inject_Z (Z.of_nat 0)) with 0. change (r ^ Z.of_nat 0) with 1. lra.
  - rewrite Nat2Z.inj_succ. unfold Z.succ.
    assert (Hnz : ~ r == 0) by lra.
    rewrite Qpower_plus by exact Hnz. rewrite inject_Z_plus.
    change (r ^ 1) with r.
    assert (HM : 0 <= inject_Z (Z.of_nat m)).
    { change 0 with (inject_Z 0). rewrite <- Zle_Qle. lia. }
    change (inject_Z 1) with 1.
    set (P := r ^ Z.of_nat m) in *. set (M := inject_Z (Z.of_nat m)) in *.
    assert (HMr : 0 <= M * (r - 1)) by nra.
    assert (HP1 : 1 <= P) by lra.
    assert (HPr : 1 * (r - 1) <= P * (r - 1)) by nra.
    lra.
Qed.

Theorem geometric_reaches (t r c : Q) : 0 < t -> 1 < r -> exists m : nat, c <= t * r ^ (Z.of_nat m).
Proof.
  intros Ht Hr.
  set (a := c / (t * (r - 1))).
  exists (Z.to_nat (Qceiling a)).
  pose proof (bernoulli r (Z.to_nat (Qceiling a)) ltac:(lra)) as B.
  assert (Ha : a <= inject_Z (Z.of_nat (Z.to_nat (Qceiling a)))).
  { eapply Qle_trans; [apply Qle_ceiling|]. rewrite <- Zle_Qle. lia. }
  assert (Hp : 0 < t * (r - 1)) by nra.
  assert (Hc : c == a * (t * (r - 1))) by (unfold a; field; lra).
  set (M := inject_Z (Z.of_nat (Z.to_nat (Qceiling a)))) in *.
  set (P := r ^ Z.of_nat (Z.to_nat (Qceiling a))) in *.
  assert (a * (t * (r - 1)) <= M * (t * (r - 1))) by nra.
  nra.
Qed.

Close Scope Q_scope.

(* ---------------------------------------------------------------- ManifoldSculpting, hill climbing *)
(* F20(b): `if (new_error >= old_error)` is false when the error is NaN (0/0 cosine between
   coincident samples), so a NaN error counts as progress on every round: no fuel is enough *)
Theorem ms_adjust_nan_refuted :
  forall fuel pos rounds, ms_adjust fuel false (fun _ => None) pos rounds = None.
Proof.
  induction fuel as [|fuel IH]; intros pos rounds; cbn; [reflexivity|apply IH].
Qed.

(* with `!(new_error < old_error)` a NaN error ends the loop after one round *)
Theorem ms_adjust_nan_repaired fuel pos rounds :
  ms_adjust (S fuel) true (fun _ => None) pos rounds = Some (S rounds).
Proof. reflexivity. Qed.

(* on finite errors the two comparisons agree, so the repair changes nothing else *)
Theorem no_progress_same_on_finite (x y : Q) :
  no_progress true (Some x) (Some y) = no_progress false (Some x) (Some y).
Proof.
  unfold no_progress, flt, fge. destruct (Qle_bool y x); reflexivity.
Qed.

(* partial: termination of the repaired hill climbing on finite errors needs that the error cannot
   decrease forever; here: errors bounded below on a grid 1/q is NOT modelled. What is proved is
   that every round that continues strictly decreases the error. *)
Theorem ms_adjust_step_decreases_partial (err : Z -> option Q) pos e0 e1 :
  err pos = Some e0 -> err (pos + 1) = Some e1 ->
  no_progress true (err (pos + 1)) (err pos) = false -> (e1 < e0)%Q.
Proof.
  intros H0 H1. rewrite H0, H1. unfold no_progress, flt.
  destruct (Qle_bool e0 e1) eqn:E; cbn; [discriminate|]. intros _.
  destruct (Qlt_le_dec e1 e0) as [L|L]; [exact L|].
  apply Qle_bool_iff in L. congruence.
Qed.

(* ================================================================ wave 2: the remaining loops *)
(* ---------------------------------------------------------------- counters with a cap *)
Lemma count_until_reaches p : forall m n, (n <= m)%nat -> p m = true ->
  exists n', count_until (S (m - n)) p n = Some n' /\ (n <= n' <= m)%nat /\ p n' = true.
Proof.
  intros m n Hnm Hm. remember (m - n)%nat as gap eqn:G. revert n Hnm G.
  induction gap as [|gap IH]; intros n Hnm G.
  - assert (n = m) by lia. subst n. exists m. cbn [count_until]. rewrite Hm. repeat split; auto.
  - cbn [count_until]. destruct (p n) eqn:E.
    + exists n. repeat split; auto; lia.
    + destruct (IH (S n)) as (n' & R & B & P); [lia|lia|]. exists n'. repeat split; auto; lia.
Qed.

Lemma count_until_more_fuel p : forall fuel n r, count_until fuel p n = Some r ->
  forall extra, count_until (fuel + extra) p n = Some r.
Proof.
  induction fuel as [|fuel IH]; intros n r E extra; cbn [count_until] in *; [discriminate|].
  cbn [Nat.add count_until]. destruct (p n); [exact E|]. apply IH. exact E.
Qed.

(* the perplexity bisection of t-SNE makes at most 200 passes whatever the data (NaN included) *)
Theorem perplexity_search_terminates found_at :
  exists it, perplexity_search 201 found_at = Some it /\ (it <= 200)%nat.
Proof.
  unfold perplexity_search.
  destruct (count_until_reaches (fun i => found_at i || (200 <=? i)%nat) 200 0 ltac:(lia)) as (n' & R & B & _).
  - apply orb_true_iff. right. reflexivity.
  - exists n'. split; [exact R|lia].
Qed.

(* without the cap there are oracles (an entropy that is NaN: the test never succeeds) that need any fuel *)
Theorem perplexity_search_uncapped_refuted : forall fuel n,
  count_until fuel (fun _ => false) n = None.
Proof. induction fuel as [|fuel IH]; intros n; cbn; [reflexivity|apply IH]. Qed.

(* the EM loop of factor analysis makes at most max_iteration passes *)
Theorem fa_loop_terminates max_iter conv_at :
  exists it, fa_loop (S max_iter) max_iter conv_at = Some it /\ (it <= max_iter)%nat.
Proof.
  unfold fa_loop.
  destruct (count_until_reaches (fun i => (max_iter <=? i)%nat || ((1 <? i)%nat && conv_at i)) max_iter 0
              ltac:(lia)) as (n' & R & B & _).
  - apply orb_true_iff. left. apply Nat.leb_refl.
  - rewrite Nat.sub_0_r in R. exists n'. split; [exact R|lia].
Qed.

(* ---------------------------------------------------------------- quadtree depth on distinct points *)
Open Scope Q_scope.
Theorem qt_depth_terminates (w delta : Q) : 0 < delta ->
  exists m t, qt_depth (S m) w delta = Some t /\ (t <= m)%nat.
Proof.
  intros Hd. destruct (geometric_reaches delta 2 (2 * w + 1) Hd ltac:(lra)) as (m & Hm).
  exists m. unfold qt_depth.
  destruct (count_until_reaches (fun t => negb (Qle_bool (delta * 2 ^ Z.of_nat t) (2 * w))) m 0%nat
              ltac:(lia)) as (n' & R & B & _).
  - apply negb_true_iff. destruct (Qle_bool (delta * 2 ^ Z.of_nat m) (2 * w)) eqn:E; [|reflexivity].
    apply Qle_bool_iff in E. lra.
  - rewrite Nat.sub_0_r in R. exists n'. split; [exact R|lia].
Qed.

(* coincident points (delta = 0) would subdivide for ever: this is what the count[] slots of F24 absorb *)
Theorem qt_depth_coincident_refuted (w : Q) : 0 <= w -> forall fuel, qt_depth fuel w 0 = None.
Proof.
  intros Hw fuel. unfold qt_depth. generalize 0%nat.
  induction fuel as [|fuel IH]; intros n; cbn [count_until]; [reflexivity|].
  assert (E : Qle_bool (0 * 2 ^ Z.of_nat n) (2 * w) = true) by (apply Qle_bool_iff; lra).
  rewrite E. cbn [negb]. apply IH.
Qed.
Close Scope Q_scope.

(* ---------------------------------------------------------------- loops with a decreasing measure *)
Theorem iter_fuel_measure {St : Type} (step : St -> option St) (g : St -> Z) :
  (forall s s', step s = Some s' -> 0 <= g s' < g s) ->
  forall fuel s n, 0 <= g s -> (Z.to_nat (g s) < fuel)%nat ->
  exists s' n', iter_fuel fuel step s n = Some (s', n') /\ step s' = None /\
                (n' <= n + Z.to_nat (g s))%nat.
Proof.
  intros H. induction fuel as [|fuel IH]; intros s n Hg Hf; [lia|].
  cbn [iter_fuel]. destruct (step s) as [s1|] eqn:E.
  - destruct (H s s1 E) as [H0 H1].
    destruct (IH s1 (S n) H0 ltac:(lia)) as (s' & n' & R & N & B).
    exists s', n'. repeat split; auto. lia.
  - exists s, n. repeat split; auto. lia.
Qed.

(* cover tree, k_nearest_neighbor: current_scale rises by one per descent and max_scale never exceeds the
   deepest scale of the tree, so the descent ends after at most deepest - current_scale + 2 rounds *)
Theorem ct_descend_terminates grow deepest :
  (forall cs ms, ms <= deepest -> grow cs ms <= deepest) ->
  forall cs ms, ms <= deepest ->
  exists st n, iter_fuel (S (Z.to_nat (deepest + 1 - cs))) (ct_descend_step grow) (cs, ms) 0 = Some (st, n) /\
               (n <= Z.to_nat (deepest + 1 - cs))%nat.
Proof.
  intros Hg.
  assert (G : forall fuel cs ms n, ms <= deepest -> (Z.to_nat (deepest + 1 - cs) < fuel)%nat ->
              exists st n', iter_fuel fuel (ct_descend_step grow) (cs, ms) n = Some (st, n') /\
                            (n' <= n + Z.to_nat (deepest + 1 - cs))%nat).
  { induction fuel as [|fuel IH]; intros cs ms n Hm Hf; [lia|].
    cbn [iter_fuel ct_descend_step]. destruct (ms <? cs) eqn:E.
    - exists (cs, ms), n. split; [reflexivity|lia].
    - apply Z.ltb_ge in E.
      destruct (IH (cs + 1) (grow cs ms) (S n) (Hg cs ms Hm) ltac:(lia)) as (st & n' & R & B).
      exists st, n'. split; [exact R|lia]. }
  intros cs ms Hm. destruct (G (S (Z.to_nat (deepest + 1 - cs))) cs ms 0%nat Hm ltac:(lia)) as (st & n & R & B).
  exists st, n. split; [exact R|lia].
Qed.

(* cover tree, batch_insert: next_scale = min(max_scale - 1, get_scale(max_dist)) strictly decreases; with
   the scales of the remaining distances between lo (get_scale of the smallest non-zero distance) and the
   current max_scale (split keeps the points within base^max_scale) the chain of self-children has at
   most max - lo + 2 nodes *)
Theorem bi_chain_terminates g lo :
  (forall m s, g m = Some s -> lo <= s <= m) ->
  forall fuel top max, (Z.to_nat (max - lo + 1) < fuel)%nat ->
  exists l, bi_chain fuel top max g = Some l /\ (length l <= Z.to_nat (max - lo + 1) + 1)%nat.
Proof.
  intros Hlo. induction fuel as [|fuel IH]; intros top max Hf; [lia|].
  cbn [bi_chain]. destruct (g max) as [s|] eqn:E.
  - specialize (Hlo max s E).
    destruct (IH top (Z.min (max - 1) s) ltac:(lia)) as (l & R & B).
    rewrite R. exists ((top - max) :: l). split; [reflexivity|]. cbn [length]. lia.
  - exists (cons (Z.max 100 (top - max)) nil). split; [reflexivity|]. cbn [length]. lia.
Qed.

(* ManifoldSculpting hill climbing (after F20): every sweep that continues strictly lowers old_error,
   a non-negative finite double; with e = the ordinal of that double the loop makes at most e + 1 sweeps.
   (NaN errors end the loop at once: c01_ms_adjust_nan_repaired.) *)
Theorem ms_sweeps_terminate (improve : Z -> option Z) :
  (forall e e', improve e = Some e' -> 0 <= e' < e) ->
  forall e, 0 <= e ->
  exists e' n, iter_fuel (S (Z.to_nat e)) (ms_sweep_step improve) e 0 = Some (e', n) /\
               improve e' = None /\ (n <= Z.to_nat e)%nat.
Proof.
  intros H e He.
  destruct (iter_fuel_measure (ms_sweep_step improve) (fun x => x) H (S (Z.to_nat e)) e 0%nat He ltac:(lia))
    as (e' & n & R & N & B).
  exists e', n. repeat split; auto.
Qed.
