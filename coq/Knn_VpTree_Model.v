(* Knn_VpTree_Model.v — executable model of tapkee_internal::VantagePointTree
   (include/tapkee/neighbors/vptree.hpp) and of find_neighbors_vptree_impl
   (neighbors.hpp).  No proofs in this file.

   Tree.     `Nd item thr l r` is a `Node` (item = items[node->index] - begin); E is NULL.
             A leaf is `Nd x 0 E E` (constructor defaults).
   search.   Mirrors `search(Node*, target, k, heap)` statement by statement:
             strict `distance < tau` admission; pop when the heap already holds k;
             push; `tau = heap.top().distance` only when the heap holds k; early return
             at a leaf; the two orders of the pruning tests; `tau` is a member, so the
             second test reads the value left by the first recursive call.
   heap.     std::priority_queue<HeapItem> is a list kept sorted by decreasing distance:
             top = head, pop = tail.  Which of several equally distant maxima is popped
             is unspecified in the C++; the model makes one fixed choice (the theorems only speak about distances and membership, the
             correspondence compares distance lists).
   tau.      `option Z`: None is the initial std::numeric_limits<double>::max().
             Assumption (harness inputs obey it): distances are far below DBL_MAX, so
             `distance - DBL_MAX <= threshold` and `distance + DBL_MAX >= threshold`
             are true and `distance < DBL_MAX` is true.
   k = 0.    `heap.size() == k` holds for the empty heap and `heap.pop()` on an empty
             priority_queue is undefined: vp_search returns None.
   build.    buildFromPoints with two ORACLES passed as functions of the call's
             (lower, upper), which identify a call uniquely within one build:
             piv lower upper      = i - lower for the `i` drawn from uniform_random()
             nth lower upper vp l = what std::nth_element leaves in items[lower+1, upper)
                                    (vp = items[lower] after the swap, l = that range before)
             contracts: piv in range, nth_ok_vp (see below).
   wrappers. vp_row = shipped find_neighbors_vptree_impl (search k+1, erase the query by
             value); vp_row_fixed = fixes/F01_knn_exclude_query.patch (additionally drop
             the first = farthest entry when k+1 entries are left). *)
From Coq Require Import List ZArith Bool Permutation.
From TK Require Import Knn_Spec.
Import ListNotations.
Local Open Scope Z_scope.

Inductive vpt : Type := E | Nd (item : Z) (thr : Z) (l r : vpt).

Fixpoint items (t : vpt) : list Z :=
  match t with E => [] | Nd i _ l r => i :: items l ++ items r end.

Definition hitem := (Z * Z)%type.             (* HeapItem: (item, distance) *)
Definition state := (list hitem * option Z)%type.   (* heap, tau *)

Fixpoint hpush (x : hitem) (h : list hitem) : list hitem :=
  match h with
  | [] => [x]
  | y :: r => if snd y <=? snd x then x :: y :: r else y :: hpush x r
  end.

Definition lt_tau (x : Z) (tau : option Z) : bool :=
  match tau with None => true | Some t => x <? t end.          (* distance < tau *)
Definition sub_le (x : Z) (tau : option Z) (thr : Z) : bool :=
  match tau with None => true | Some t => x - t <=? thr end.   (* (distance - tau) <= threshold *)
Definition add_ge (x : Z) (tau : option Z) (thr : Z) : bool :=
  match tau with None => true | Some t => x + t >=? thr end.   (* (distance + tau) >= threshold *)

Definition visit (k : nat) (it dq : Z) (st : state) : state :=
  let '(h, tau) := st in
  if lt_tau dq tau then
    let h1 := if Nat.eqb (length h) k then tl h else h in
    let h2 := hpush (it, dq) h1 in
    let tau2 := if Nat.eqb (length h2) k
                then match h2 with (_, dd) :: _ => Some dd | [] => tau end
                else tau in
    (h2, tau2)
  else st.

Fixpoint search (d : dist) (t : vpt) (q : Z) (k : nat) (st : state) : state :=
  match t with
  | E => st
  | Nd it thr l r =>
      let dq := d it q in
      let st1 := visit k it dq st in
      match l, r with
      | E, E => st1
      | _, _ =>
          if dq <? thr then
            let st2 := if sub_le dq (snd st1) thr then search d l q k st1 else st1 in
            if add_ge dq (snd st2) thr then search d r q k st2 else st2
          else
            let st2 := if add_ge dq (snd st1) thr then search d r q k st1 else st1 in
            if sub_le dq (snd st2) thr then search d l q k st2 else st2
      end
  end.

(* public search(target, k): results are popped farthest first *)
Definition vp_search (d : dist) (t : vpt) (q : Z) (k : nat) : option (list Z) :=
  match t with
  | E => Some []
  | _ => if Nat.eqb k 0 then None
         else Some (map fst (fst (search d t q k ([], None))))
  end.

(* the distances that go with vp_search's result (for the correspondence) *)
Definition vp_search_dists (d : dist) (t : vpt) (q : Z) (k : nat) : option (list Z) :=
  match t with
  | E => Some []
  | _ => if Nat.eqb k 0 then None
         else Some (map snd (fst (search d t q k ([], None))))
  end.

Definition drop_q (q : Z) (l : list Z) : list Z := filter (fun j => negb (j =? q)) l.

(* shipped find_neighbors_vptree_impl, one row *)
Definition vp_row (d : dist) (t : vpt) (q : Z) (k : nat) : option (list Z) :=
  match vp_search d t q (k + 1) with
  | None => None
  | Some l => Some (drop_q q l)
  end.

(* repaired wrapper, one row *)
Definition vp_row_fixed (d : dist) (t : vpt) (q : Z) (k : nat) : option (list Z) :=
  match vp_search d t q (k + 1) with
  | None => None
  | Some l => let l' := drop_q q l in
              Some (if Nat.ltb k (length l') then tl l' else l')
  end.

(* ---------- invariant of a built tree, boolean checker for dumped real trees -------- *)

Fixpoint vp_inv (d : dist) (t : vpt) : Prop :=
  match t with
  | E => True
  | Nd i thr l r =>
      (forall x, In x (items l) -> d i x <= thr) /\
      (forall x, In x (items r) -> thr <= d i x) /\
      vp_inv d l /\ vp_inv d r
  end.

Fixpoint vp_inv_b (d : dist) (t : vpt) : bool :=
  match t with
  | E => true
  | Nd i thr l r =>
      forallb (fun x => d i x <=? thr) (items l) &&
      forallb (fun x => thr <=? d i x) (items r) &&
      vp_inv_b d l && vp_inv_b d r
  end.

(* what buildFromPoints does beyond vp_inv (checked on dumped real trees; tie only, no theorem uses it):
   with s = upper - lower items at a node, median = (upper + lower) / 2 puts s/2 - 1 items into the inner
   child, and the threshold is the distance to items[median] = the closest item of the outer part; a
   node without children keeps the constructor's threshold 0 *)
Fixpoint vp_shape_b (d : dist) (t : vpt) : bool :=
  match t with
  | E => true
  | Nd i thr l r =>
      match l, r with
      | E, E => thr =? 0
      | _, _ =>
          let s := S (length (items l) + length (items r)) in
          Nat.eqb (length (items l)) (Nat.div s 2 - 1) &&
          match items r with
          | [] => false
          | x :: xs => thr =? fold_right (fun y m => Z.min (d i y) m) (d i x) xs
          end &&
          vp_shape_b d l && vp_shape_b d r
      end
  end.

(* the tree holds exactly the samples 0..N-1, each once *)
Definition vp_holds_b (N : nat) (t : vpt) : bool :=
  nodup_b (items t) && Nat.eqb (length (items t)) N &&
  forallb (fun x => (0 <=? x) && (x <? Z.of_nat N)) (items t).

(* ---------- build ---------- *)

Inductive bres : Type := Built (t : vpt) | BOutOfFuel | BOOB.

Fixpoint upd (j : nat) (x : Z) (l : list Z) : list Z :=
  match l, j with
  | [], _ => []
  | _ :: r, O => x :: r
  | y :: r, S j' => y :: upd j' x r
  end.

(* std::swap(items[lower], items[lower + i]) on the sub-array starting at lower *)
Definition swap0 (i : nat) (l : list Z) : option (list Z) :=
  match l with
  | [] => None
  | x :: r =>
      match i with
      | O => Some l
      | S j => match nth_error r j with
               | None => None
               | Some y => Some (y :: upd j x r)
               end
      end
  end.

(* Contract of std::nth_element(items+lower+1, items+median, items+upper,
   DistanceComparator(callback, items[lower])) with m = median - (lower+1):
   a permutation; no element before position m is farther from the vantage point than
   the m-th, none after it is closer.  (For the kernel flavour the comparator is
   -2k(p,a)+k(a,a) < -2k(p,b)+k(b,b); Knn_VpTree_Proof.kernel_comparator shows that it
   orders like the induced distance.) *)
Definition nth_ok_vp (d : dist) (vp : Z) (m : nat) (orig res : list Z) : Prop :=
  Permutation orig res /\
  match skipn m res with
  | [] => True
  | p :: after =>
      (forall x, In x (firstn m res) -> d vp x <= d vp p) /\
      (forall y, In y after -> d vp p <= d vp y)
  end.

Fixpoint build (d : dist) (piv : nat -> nat -> nat) (nth : nat -> nat -> Z -> list Z -> list Z)
               (fuel : nat) (lower : nat) (its : list Z) : bres :=
  match fuel with
  | O => BOutOfFuel
  | S f =>
      match its with
      | [] => Built E                               (* upper == lower *)
      | [x] => Built (Nd x 0 E E)                   (* upper - lower == 1 *)
      | _ =>
          let upper := (lower + length its)%nat in
          match swap0 (piv lower upper) its with
          | None | Some [] => BOOB
          | Some (vp :: rest) =>
              let median := Nat.div (upper + lower) 2 in
              let m := (median - (lower + 1))%nat in
              let rest' := nth lower upper vp rest in
              match nth_error rest' m with
              | None => BOOB
              | Some med =>
                  match build d piv nth f (lower + 1) (firstn m rest'),
                        build d piv nth f median (skipn m rest') with
                  | Built l, Built r => Built (Nd vp (d vp med) l r)
                  | BOOB, _ | _, BOOB => BOOB
                  | _, _ => BOutOfFuel
                  end
              end
          end
      end
  end.

(* reference oracles for execution: always the first element as pivot, a stable sort *)
Definition piv_first (lower upper : nat) : nat := O.
Definition nth_sort (d : dist) (lower upper : nat) (vp : Z) (l : list Z) : list Z :=
  isort_by (d vp) l.
