(* Dijkstra_Proof_PQ.v — the priority-queue flavour (lazy deletion) computes
   shortest-path weights, for every graph and every admissible choice of the
   minimum. *)
From Coq Require Import List ZArith Bool Arith Lia.
From TK Require Import Dijkstra_Model Dijkstra_Spec Dijkstra_Proof_Base Dijkstra_Proof_Core.
Import ListNotations.
Local Open Scope Z_scope.

Section PQ.
  Variable nbrs : list (list nat).
  Variable w : nat -> nat -> Z.
  Variable pick : list entry -> option entry.
  Variables N K : nat.
  Variable k : nat.
  Hypothesis Hwf : wf_graph nbrs N K.
  Hypothesis Hnn : nonneg_w nbrs w.
  Hypothesis Hpick : pick_ok pick.
  Hypothesis Hk : (k < N)%nat.

  Notation inv_core := (inv_core nbrs w N k).

  (* every queue entry is an upper bound of the current tentative distance *)
  Definition heap_pq (st : dstate) : Prop :=
    forall v d, In (v, d) (d_heap st) -> exists d', D st v = Some d' /\ d' <= d.

  Definition inv_pq (st : dstate) : Prop := inv_core (fun _ _ => False) st /\ heap_pq st.

  (* inside the for-loop over the neighbours of u *)
  Definition mid (u : nat) (du : Z) (ws : list nat) (st : dstate) : Prop :=
    inv_core (fun x v => x = u /\ In v ws) st /\ heap_pq st /\
    Sd st u = true /\ D st u = Some du /\
    (forall x dx, Sd st x = true -> D st x = Some dx -> dx <= du).

  Lemma mid_skip : forall u du v ws st,
      mid u du (v :: ws) st ->
      (exists dv, D st v = Some dv /\ dv <= du + w u v) ->
      mid u du ws st.
  Proof.
    intros u du v ws st (HI & HH & Hsu & Hdu & Hmax) (dv & Hdv & Hle).
    split; [|repeat split; assumption].
    destruct HI as [H1 H2 H3 H4 H5 H6 H7 H8]. constructor; auto.
    intros x v' dx Hsx He Hdx.
    destruct (H5 x v' dx Hsx He Hdx) as [[-> [<-|Hin]]|Hr].
    - right. exists dv. split; [assumption|]. rewrite Hdu in Hdx. inversion Hdx; subst. assumption.
    - left. split; [reflexivity|assumption].
    - right. assumption.
  Qed.

  Lemma D_upd_eq : forall st v x s f h, (v < N)%nat -> length (d_dist st) = N ->
      D (mkD (upd (d_dist st) v x) s f h) v = x.
  Proof. intros. unfold D; cbn [d_dist]. apply nth_upd_eq. lia. Qed.

  Lemma D_upd_neq : forall st v y x s f h, v <> y ->
      D (mkD (upd (d_dist st) v x) s f h) y = D st y.
  Proof. intros. unfold D; cbn [d_dist]. apply nth_upd_neq. assumption. Qed.

  Lemma mid_relax : forall u du v ws st,
      mid u du (v :: ws) st -> edge nbrs u v -> Sd st v = false ->
      lt_inf (du + w u v) (D st v) = true ->
      mid u du ws (mkD (upd (d_dist st) v (Some (du + w u v))) (d_s st)
                       (upd (d_f st) v true) ((v, du + w u v) :: d_heap st)).
  Proof.
    intros u du v ws st (HI & HH & Hsu & Hdu & Hmax) He Hsv Hlt.
    set (nd := du + w u v) in *.
    set (st2 := mkD (upd (d_dist st) v (Some nd)) (d_s st) (upd (d_f st) v true)
                    ((v, nd) :: d_heap st)).
    pose proof (Hnn u v He) as Hw.
    destruct (edge_lt nbrs N K Hwf u v He) as [HuN HvN].
    destruct HI as [H1 H2 H3 H4 H5 H6 H7 H8].
    assert (Huv : v <> u) by (intros ->; congruence).
    assert (HDv : D st2 v = Some nd) by (apply D_upd_eq; assumption).
    assert (HDo : forall y, v <> y -> D st2 y = D st y) by (intros; apply D_upd_neq; assumption).
    assert (HS : forall y, Sd st2 y = Sd st y) by reflexivity.
    assert (Hdu0 : 0 <= du).
    { destruct (H4 u du Hdu) as (n & HP & _). eapply pathn_nonneg; eauto. }
    assert (Hlt' : forall d, D st v = Some d -> nd < d).
    { intros d Hd. rewrite Hd in Hlt. cbn in Hlt. apply Z.ltb_lt. assumption. }
    assert (Hvk : v <> k).
    { intros ->. specialize (Hlt' 0 H3). lia. }
    split; [|split; [|split; [|split]]].
    - constructor.
      + cbn [st2 d_dist]. rewrite upd_length. assumption.
      + assumption.
      + rewrite HDo by assumption. assumption.
      + intros y d Hd. destruct (Nat.eq_dec v y) as [<-|Hne].
        * rewrite HDv in Hd. inversion Hd; subst d.
          destruct (H4 u du Hdu) as (n & HP & Hn).
          exists (S n). split; [constructor; assumption|].
          rewrite HS, Hsv. cbn [st2 d_s]. rewrite Hsu in Hn. cbn [b2n] in *. lia.
        * rewrite HDo in Hd by assumption. apply H4. assumption.
      + intros x v' dx Hsx He' Hdx.
        assert (Hxv : v <> x) by (intros <-; rewrite HS in Hsx; congruence).
        rewrite HDo in Hdx by assumption.
        destruct (Nat.eq_dec v v') as [<-|Hne].
        * right. exists nd. split; [assumption|].
          destruct (H5 x v dx Hsx He' Hdx) as [[-> _]|(dv & Hdv & Hle)].
          -- rewrite Hdu in Hdx. inversion Hdx; subst dx. unfold nd. lia.
          -- specialize (Hlt' dv Hdv). lia.
        * rewrite HDo by assumption.
          destruct (H5 x v' dx Hsx He' Hdx) as [[-> [Heq|Hin]]|Hr].
          -- contradiction.
          -- left. split; [reflexivity|assumption].
          -- right. assumption.
      + intros x Hsx. assert (Hxv : v <> x) by (intros <-; rewrite HS in Hsx; congruence).
        rewrite HDo by assumption. apply H6. assumption.
      + intros y d HyN Hsy Hd. destruct (Nat.eq_dec v y) as [<-|Hne].
        * rewrite HDv in Hd. inversion Hd; subst d. left; reflexivity.
        * rewrite HDo in Hd by assumption. right. apply H7; assumption.
      + intros x dx y d Hsx Hdx Hin.
        assert (Hxv : v <> x) by (intros <-; rewrite HS in Hsx; congruence).
        rewrite HDo in Hdx by assumption.
        destruct Hin as [Heq|Hin].
        * inversion Heq; subst y d. specialize (Hmax x dx Hsx Hdx). unfold nd. lia.
        * eapply H8; eauto.
    - intros y d [Heq|Hin].
      + inversion Heq; subst y d. exists nd. split; [assumption|unfold nd; lia].
      + destruct (HH y d Hin) as (d' & Hd' & Hle). destruct (Nat.eq_dec v y) as [<-|Hne].
        * exists nd. split; [assumption|]. specialize (Hlt' d' Hd'). lia.
        * exists d'. rewrite HDo by assumption. auto.
    - assumption.
    - rewrite HDo by assumption. assumption.
    - intros x dx Hsx Hdx.
      assert (Hxv : v <> x) by (intros <-; rewrite HS in Hsx; congruence).
      rewrite HDo in Hdx by assumption. eapply Hmax; eauto.
  Qed.

  Lemma relax_pq_mid : forall u du ws st,
      (forall v, In v ws -> edge nbrs u v) -> mid u du ws st ->
      exists st', relax_pq w u ws st = DOk st' /\ mid u du [] st' /\
                  d_s st' = d_s st /\
                  (length (d_heap st') <= length (d_heap st) + length ws)%nat.
  Proof.
    intros u du ws; induction ws as [|v ws IH]; intros st Hed Hmid.
    - exists st. split; [reflexivity | split; [exact Hmid | split; [reflexivity | cbn; lia]]].
    - assert (He : edge nbrs u v) by (apply Hed; left; reflexivity).
      assert (Hed' : forall v', In v' ws -> edge nbrs u v') by (intros; apply Hed; right; assumption).
      destruct (edge_lt nbrs N K Hwf u v He) as [HuN HvN].
      pose proof Hmid as (HI & HH & Hsu & Hdu & Hmax).
      pose proof (ic_len_d _ _ _ _ _ _ HI) as HLd. pose proof (ic_len_s _ _ _ _ _ _ HI) as HLs.
      assert (Es : nth_error (d_s st) v = Some (Sd st v))
        by (apply nth_error_nth_some; lia).
      assert (Edu : nth_error (d_dist st) u = Some (Some du)).
      { rewrite <- Hdu. apply nth_error_nth_some. lia. }
      assert (Edv : nth_error (d_dist st) v = Some (D st v))
        by (apply nth_error_nth_some; lia).
      cbn [relax_pq]. rewrite Es. destruct (Sd st v) eqn:Esv.
      + (* already settled: skipped; the edge is relaxed because u is the latest settled *)
        destruct (ic_fin _ _ _ _ _ _ HI v Esv) as (dv & Hdv).
        assert (Hm' : mid u du ws st).
        { eapply mid_skip; eauto. exists dv. split; [assumption|].
          specialize (Hmax v dv Esv Hdv). specialize (Hnn u v He). lia. }
        destruct (IH st Hed' Hm') as (st' & R & M & S1 & L). exists st'.
        split; [exact R | split; [exact M | split; [exact S1 | cbn [length]; lia]]].
      + rewrite Edu, Edv. destruct (lt_inf (du + w u v) (D st v)) eqn:Elt.
        * pose proof (mid_relax u du v ws st Hmid He Esv Elt) as Hm'.
          destruct (IH _ Hed' Hm') as (st' & R & M & S1 & L). exists st'.
          split; [exact R | split; [exact M | split; [exact S1 | cbn [length d_heap] in *; lia]]].
        * assert (Hm' : mid u du ws st).
          { eapply mid_skip; eauto. destruct (D st v) as [dv|]; cbn in Elt; [|discriminate].
            exists dv. split; [reflexivity|]. apply Z.ltb_ge in Elt. assumption. }
          destruct (IH st Hed' Hm') as (st' & R & M & S1 & L). exists st'.
          split; [exact R | split; [exact M | split; [exact S1 | cbn [length]; lia]]].
  Qed.

  (* re-expanding an already settled vertex changes nothing *)
  Lemma relax_pq_noop : forall u du ws st,
      length (d_dist st) = N -> length (d_s st) = N -> (u < N)%nat ->
      D st u = Some du ->
      (forall v, In v ws -> (v < N)%nat /\
                            (Sd st v = true \/ exists dv, D st v = Some dv /\ dv <= du + w u v)) ->
      relax_pq w u ws st = DOk st.
  Proof.
    intros u du ws st HLd HLs HuN Hdu; induction ws as [|v ws IH]; intros Hall; [reflexivity|].
    destruct (Hall v (or_introl eq_refl)) as [HvN Hv].
    assert (Es : nth_error (d_s st) v = Some (Sd st v)) by (apply nth_error_nth_some; lia).
    assert (Edu : nth_error (d_dist st) u = Some (Some du)).
    { rewrite <- Hdu. apply nth_error_nth_some. lia. }
    assert (Edv : nth_error (d_dist st) v = Some (D st v)) by (apply nth_error_nth_some; lia).
    assert (IH' : relax_pq w u ws st = DOk st) by (apply IH; intros; apply Hall; right; assumption).
    cbn [relax_pq]. rewrite Es. destruct (Sd st v) eqn:Esv; [assumption|].
    rewrite Edu, Edv. destruct Hv as [Hv|(dv & Hdv & Hle)]; [discriminate|].
    rewrite Hdv. cbn [lt_inf]. destruct (Z.ltb (du + w u v) dv) eqn:E; [|assumption].
    apply Z.ltb_lt in E. lia.
  Qed.

  Definition measure_pq (st : dstate) : nat :=
    (length (d_heap st) + K * (N - count_true (d_s st)))%nat.

  Lemma step_pq_ok : forall st, inv_pq st ->
      match step_pq nbrs w pick K st with
      | None => True
      | Some r => exists st', r = DOk st' /\ inv_pq st' /\ (measure_pq st' < measure_pq st)%nat
      end.
  Proof.
    intros st [HI HH]. unfold step_pq.
    destruct (d_heap st) as [|e0 h0] eqn:Eh; [exact I|].
    assert (Hnonempty : d_heap st <> []) by (rewrite Eh; discriminate).
    rewrite <- Eh.
    destruct (Hpick (d_heap st) Hnonempty) as (u & d & Ep & Hin & Hmin). rewrite Ep.
    pose proof (ic_len_d _ _ _ _ _ _ HI) as HLd. pose proof (ic_len_s _ _ _ _ _ _ HI) as HLs.
    destruct (HH u d Hin) as (du & Hdu & Hle).
    assert (HuN : (u < N)%nat) by (eapply D_lt; eauto).
    assert (Edu : nth_error (d_dist st) u = Some (Some du)).
    { rewrite <- Hdu. apply nth_error_nth_some. lia. }
    rewrite Edu. cbn [gt_inf].
    pose proof (remove_one_length (u, d) (d_heap st) Hin) as Hlen.
    set (heap' := remove_one (u, d) (d_heap st)) in *.
    assert (Hsub : forall x, In x heap' -> In x (d_heap st)) by (apply remove_one_incl).
    destruct (Z.ltb du d) eqn:Estale.
    - (* stale entry: continue *)
      eexists. split; [reflexivity|]. split.
      + split.
        * destruct HI as [H1 H2 H3 H4 H5 H6 H7 H8]. constructor; auto.
          -- intros v dv HvN Hsv Hdv. cbn [d_heap].
             pose proof (H7 v dv HvN Hsv Hdv) as Hv.
             destruct (remove_one_other (u, d) _ _ Hv) as [Heq|Hr]; [|assumption].
             inversion Heq; subst v dv. unfold D in Hdu, Hdv; cbn [d_dist] in Hdv.
             rewrite Hdu in Hdv. inversion Hdv; subst. apply Z.ltb_lt in Estale. lia.
          -- intros x dx y e Hsx Hdx Hy. eapply H8; [exact Hsx | exact Hdx | apply Hsub; exact Hy].
        * intros v e Hv. apply HH. apply Hsub. assumption.
      + unfold measure_pq; cbn [d_heap d_s]. lia.
    - apply Z.ltb_ge in Estale. assert (d = du) by lia. subst d.
      destruct (nbr_row_ok nbrs N K Hwf u HuN) as (row & Erow & Enr).
      unfold expand. rewrite Enr.
      assert (Hrow_edge : forall v, In v row -> edge nbrs u v).
      { intros v Hv. exists row. auto. }
      assert (Hrow_len : length row = K) by (apply (wf_row nbrs N K Hwf u row Erow)).
      destruct (Sd st u) eqn:Esu.
      + (* u was settled before: nothing can be relaxed *)
        assert (Hs_same : upd (d_s st) u true = d_s st).
        { eapply upd_same; [lia | exact Esu]. }
        rewrite Hs_same.
        set (st1 := mkD (d_dist st) (d_s st) (upd (d_f st) u false) heap').
        assert (Hnoop : relax_pq w u row st1 = DOk st1).
        { apply (relax_pq_noop u du); auto.
          intros v Hv. destruct (edge_lt nbrs N K Hwf u v (Hrow_edge v Hv)) as [_ HvN].
          split; [assumption|]. right.
          destruct (ic_closed _ _ _ _ _ _ HI u v du Esu (Hrow_edge v Hv) Hdu) as [[]|Hr]. exact Hr. }
        rewrite Hnoop. eexists. split; [reflexivity|]. split.
        * split.
          -- destruct HI as [H1 H2 H3 H4 H5 H6 H7 H8]. constructor; auto.
             ++ intros v dv HvN Hsv Hdv. cbn [st1 d_heap].
                pose proof (H7 v dv HvN Hsv Hdv) as Hv.
                destruct (remove_one_other (u, du) _ _ Hv) as [Heq|Hr]; [|assumption].
                inversion Heq; subst v dv. unfold Sd in *; cbn [st1 d_s] in Hsv. congruence.
             ++ intros x dx y e Hsx Hdx Hy. eapply H8; [exact Hsx | exact Hdx | apply Hsub; exact Hy].
          -- intros v e Hv. apply HH. apply Hsub. assumption.
        * unfold measure_pq; cbn [st1 d_heap d_s]. lia.
      + (* u becomes settled *)
        set (st1 := mkD (d_dist st) (upd (d_s st) u true) (upd (d_f st) u false) heap').
        assert (Hcount : count_true (d_s st1) = S (count_true (d_s st))).
        { cbn [st1 d_s]. apply count_true_upd_false_true; [lia | exact Esu]. }
        assert (HSu : Sd st1 u = true).
        { unfold Sd; cbn [st1 d_s]. apply nth_upd_eq. lia. }
        assert (HSo : forall y, u <> y -> Sd st1 y = Sd st y).
        { intros y Hy. unfold Sd; cbn [st1 d_s]. apply nth_upd_neq. assumption. }
        assert (HDs : forall y, D st1 y = D st y) by reflexivity.
        assert (Hmid : mid u du row st1).
        { destruct HI as [H1 H2 H3 H4 H5 H6 H7 H8].
          split; [|split; [|split; [|split]]].
          - constructor.
            + assumption.
            + cbn [st1 d_s]. rewrite upd_length. assumption.
            + assumption.
            + intros v dv Hdv. rewrite HDs in Hdv. destruct (H4 v dv Hdv) as (n & HP & Hn).
              exists n. split; [assumption|]. rewrite Hcount.
              destruct (Nat.eq_dec u v) as [<-|Hne].
              * rewrite HSu. rewrite Esu in Hn. cbn [b2n] in *. lia.
              * rewrite HSo by assumption. lia.
            + intros x v dx Hsx He Hdx. destruct (Nat.eq_dec u x) as [<-|Hne].
              * left. split; [reflexivity|]. destruct He as (row' & Er' & Hv').
                rewrite Erow in Er'. inversion Er'; subst row'. assumption.
              * rewrite HSo in Hsx by assumption. rewrite HDs in *.
                destruct (H5 x v dx Hsx He Hdx) as [[]|Hr]. right. exact Hr.
            + intros x Hsx. destruct (Nat.eq_dec u x) as [<-|Hne].
              * exists du. assumption.
              * rewrite HSo in Hsx by assumption. apply H6. assumption.
            + intros v dv HvN Hsv Hdv. destruct (Nat.eq_dec u v) as [<-|Hne]; [congruence|].
              rewrite HSo in Hsv by assumption. rewrite HDs in Hdv. cbn [st1 d_heap].
              pose proof (H7 v dv HvN Hsv Hdv) as Hv.
              destruct (remove_one_other (u, du) _ _ Hv) as [Heq|Hr]; [|assumption].
              inversion Heq; congruence.
            + intros x dx y e Hsx Hdx Hy. rewrite HDs in Hdx. cbn [st1 d_heap] in Hy.
              apply Hsub in Hy. destruct (Nat.eq_dec u x) as [<-|Hne].
              * rewrite Hdu in Hdx. inversion Hdx; subst dx. eapply Hmin; eauto.
              * rewrite HSo in Hsx by assumption. eapply H8; eauto.
          - intros v e Hv. cbn [st1 d_heap] in Hv. apply HH. apply Hsub. assumption.
          - assumption.
          - assumption.
          - intros x dx Hsx Hdx. rewrite HDs in Hdx. destruct (Nat.eq_dec u x) as [<-|Hne].
            + rewrite Hdu in Hdx. inversion Hdx; lia.
            + rewrite HSo in Hsx by assumption. eapply H8; eauto. }
        destruct (relax_pq_mid u du row st1 Hrow_edge Hmid) as (st' & R & M & S1 & L).
        fold st1. rewrite R. exists st'. split; [reflexivity|].
        destruct M as (HI' & HH' & _). split.
        * split; [|assumption].
          eapply inv_core_weaken; [|exact HI']. intros x v [_ []].
        * unfold measure_pq. rewrite S1, Hcount. cbn [st1 d_heap] in L.
          pose proof (count_true_lt_of_false (d_s st) u ltac:(lia) Esu) as Hc.
          rewrite HLs in Hc. rewrite Hrow_len in L.
          assert (K * (N - S (count_true (d_s st))) + K = K * (N - count_true (d_s st)))%nat by nia.
          lia.
  Qed.

  Lemma init_pq : forall f, inv_pq (mkD (upd (repeat None N) k (Some 0)) (repeat false N) f [(k, 0)]).
  Proof.
    intros f. split.
    - apply init_core; assumption.
    - intros v d [Heq|[]]. inversion Heq; subst v d. exists 0. split; [|lia].
      unfold D; cbn [d_dist]. apply nth_upd_eq. rewrite repeat_length. assumption.
  Qed.

  (* the row computed for source k: for every queue choice and every fidx *)
  Theorem row_pq_is_sp : forall fidx, (fidx < N)%nat ->
      exists row, row_pq nbrs w pick N K k fidx = DOk row /\ length row = N /\
                  forall v, (v < N)%nat ->
                    is_sp nbrs w k v (nth v row None) /\
                    (forall d, nth v row None = Some d ->
                               exists n, pathn nbrs w k v d n /\ (n <= N)%nat).
  Proof.
    intros fidx Hf. unfold row_pq, row_of, init_state.
    apply Nat.ltb_lt in Hk as Hk'. apply Nat.ltb_lt in Hf as Hf'. rewrite Hk', Hf'.
    set (st0 := mkD (upd (repeat None N) k (Some 0)) (repeat false N)
                    (upd (repeat false N) fidx true) [(k, 0)]).
    destruct (loop_rule inv_pq measure_pq (step_pq nbrs w pick K) step_pq_ok
                        (fuel_of N K) st0 (init_pq _)) as (st' & EL & [HI HH] & Hend).
    { unfold measure_pq, fuel_of; cbn [st0 d_heap d_s length].
      rewrite count_true_repeat_false. nia. }
    rewrite EL. exists (d_dist st'). split; [reflexivity|]. split.
    - apply (ic_len_d _ _ _ _ _ _ HI).
    - assert (Hh : d_heap st' = []).
      { unfold step_pq in Hend. destruct (d_heap st'); [reflexivity|discriminate]. }
      intros v Hv. apply (final_core nbrs w N K k Hwf Hnn Hk st' HI Hh v Hv).
  Qed.
End PQ.
