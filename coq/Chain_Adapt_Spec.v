(* Chain_Adapt_Spec.v — what C13 demands of the callback adapters and of the call sites of callbacks, with boolean
   decision procedures (vm_compute inside coqc for the theorems; extracted for the check).

   ADAPTERS.  "Embedding ... with precomputed kernel / distance matrices ... give the same embedding" as
   hand-written callbacks returning the same values: the adapter called with (a, b) must answer the entry (a, b) of
   the matrix the caller supplied -- [spec_value] -- for EVERY pair, in the order given.  For tapkee's eigen adapters
   the supplied object is the feature matrix: kernel(a, b) = <col a, col b>, distance(a, b) = |col a - col b|,
   vector(i) = col i, dimension() = rows.

   CALL SITES.  "embedding a sequence of objects instead of indices": what a routine hands to a callback must be
   the data object itself, i.e. a dereference of the data iterator -- never a position / loop counter (which
   type-checks when the objects happen to be integers).  [callsites_ok]: every data argument of every callback call
   is a dereference of a data iterator.  (The converse direction -- every dereference goes into a callback -- is
   Chain_Spec.derefs_ok.) *)
From Coq Require Import List String Bool ZArith QArith.
From TK Require Import Chain_Model Chain_Spec Chain_Adapt_Model.
Local Close Scope Q_scope.
Import ListNotations.
Local Open Scope string_scope.

Inductive adapter_family :=
| FPreKernel | FPreDistance | FEigKernel | FEigDistance | FEigFeatures.

Definition all_families : list adapter_family := [FPreKernel; FPreDistance; FEigKernel; FEigDistance; FEigFeatures].

Definition family_class (fam : adapter_family) : string :=
  match fam with
  | FPreKernel => "precomputed_kernel_callback"
  | FPreDistance => "precomputed_distance_callback"
  | FEigKernel => "eigen_kernel_callback"
  | FEigDistance => "eigen_distance_callback"
  | FEigFeatures => "eigen_features_callback"
  end.

(* the member function(s) tapkee's code calls on an object of that family: the role *)
Definition family_roles (fam : adapter_family) : list string :=
  match fam with
  | FPreKernel | FEigKernel => ["kernel"]
  | FPreDistance | FEigDistance => ["distance"]
  | FEigFeatures => ["vector"; "dimension"]
  end.

Definition family_of (n : string) : option adapter_family :=
  find (fun fam => String.eqb (family_class fam) n) all_families.

(* what member [m] of an adapter of family [fam] holding the caller's matrix in field [F] must answer for the
   index arguments [ps] *)
Definition spec_value (fam : adapter_family) (F : string) (m : string) (ps : list Z) : option aval :=
  match fam, ps with
  | FPreKernel, [a; b] => if String.eqb m "kernel" then Some (XEntry F a b) else None
  | FPreDistance, [a; b] => if String.eqb m "distance" then Some (XEntry F a b) else None
  | FEigKernel, [a; b] =>
    if String.eqb m "kernel" || String.eqb m "operator()" then Some (XDot (XCol F a) (XCol F b)) else None
  | FEigDistance, [a; b] =>
    if String.eqb m "distance" || String.eqb m "operator()" then Some (XNormDiff (XCol F a) (XCol F b)) else None
  | FEigFeatures, [i] => if String.eqb m "vector" then Some (XCol F i) else None
  | FEigFeatures, [] => if String.eqb m "dimension" then Some (XRows F) else None
  | _, _ => None
  end.

(* the meaning of a symbolic scalar answer in a concrete world: [M f r c] is the entry (r, c) of the matrix the object
   holds in field f (any rational matrix; binary64 values are rationals) *)
Definition denote_entry (M : string -> Z -> Z -> Q) (v : aval) : option Q :=
  match v with XEntry f r c => Some (M f r c) | _ => None end.

(* ------------------------------------------------------------------ the decision procedure *)
(* the expression that IS the specification, in the table language *)
Definition want_expr (fam : adapter_family) (F : string) (m : string) : option (nat * bool * aexpr) :=
  match fam with
  | FPreKernel => if String.eqb m "kernel" then Some (2, false, AEntry F (APar 0) (APar 1)) else None
  | FPreDistance => if String.eqb m "distance" then Some (2, false, AEntry F (APar 0) (APar 1)) else None
  | FEigKernel =>
    if String.eqb m "kernel" || String.eqb m "operator()"
    then Some (2, false, ADot (ACol F (APar 0)) (ACol F (APar 1))) else None
  | FEigDistance =>
    if String.eqb m "distance" || String.eqb m "operator()"
    then Some (2, false, ANormDiff (ACol F (APar 0)) (ACol F (APar 1))) else None
  | FEigFeatures =>
    if String.eqb m "vector" then Some (1, true, ACol F (APar 0))
    else if String.eqb m "dimension" then Some (0, false, ARows F) else None
  end.

Definition cmp_eqb (a b : cmp) : bool :=
  match a, b with
  | CLe, CLe | CLt, CLt | CGe, CGe | CGt, CGt | CEq, CEq | CNe, CNe => true
  | _, _ => false
  end.

Fixpoint aexpr_eqb (x y : aexpr) : bool :=
  match x, y with
  | APar i, APar j => Nat.eqb i j
  | AEntry f r c, AEntry g r' c' => String.eqb f g && aexpr_eqb r r' && aexpr_eqb c c'
  | ACol f c, ACol g c' => String.eqb f g && aexpr_eqb c c'
  | ADot u v, ADot u' v' => aexpr_eqb u u' && aexpr_eqb v v'
  | ANormDiff u v, ANormDiff u' v' => aexpr_eqb u u' && aexpr_eqb v v'
  | ARows f, ARows g => String.eqb f g
  | ACond o i j t e, ACond o' i' j' t' e' =>
    cmp_eqb o o' && Nat.eqb i i' && Nat.eqb j j' && aexpr_eqb t t' && aexpr_eqb e e'
  | AForward m, AForward m' => String.eqb m m'
  | AOpaque s, AOpaque s' => String.eqb s s'
  | _, _ => false
  end.

(* the truth value of  p_i op p_j  for a member of TWO index parameters whose arguments compare as [r]
   (r = p_0 ?= p_1) *)
Definition region_says (op : cmp) (i j : nat) (r : comparison) : option bool :=
  match i, j with
  | 0, 0 | 1, 1 => Some (cmp_of op Eq)
  | 0, 1 => Some (cmp_of op r)
  | 1, 0 => Some (cmp_of op (CompOpp r))
  | _, _ => None
  end.

(* resolve every conditional by the region, replace a forwarded call by [inl m] *)
Fixpoint resolve (inl : string -> aexpr) (r : comparison) (e : aexpr) : aexpr :=
  match e with
  | APar i => APar i
  | AEntry f x y => AEntry f (resolve inl r x) (resolve inl r y)
  | ACol f x => ACol f (resolve inl r x)
  | ADot u v => ADot (resolve inl r u) (resolve inl r v)
  | ANormDiff u v => ANormDiff (resolve inl r u) (resolve inl r v)
  | ARows f => ARows f
  | ACond op i j t e' =>
    match region_says op i j r with
    | Some true => resolve inl r t
    | Some false => resolve inl r e'
    | None => AOpaque "condition on a parameter the member does not have"
    end
  | AForward m => inl m
  | AOpaque s => AOpaque s
  end.

Definition no_inline : string -> aexpr := fun _ => AOpaque "nested forwarding".

Definition inline_of (ms : list amember) (r : comparison) (m : string) : aexpr :=
  match find_amember ms m with
  | Some mb =>
    if Nat.eqb (am_arity mb) 2 && negb (am_out mb) then resolve no_inline r (am_body mb)
    else AOpaque "forwarding to a member of another shape"
  | None => AOpaque "forwarding to an unknown member"
  end.

(* when the two arguments are equal the two parameters name the same index *)
Fixpoint collapse (e : aexpr) : aexpr :=
  match e with
  | APar 1 => APar 0
  | APar i => APar i
  | AEntry f x y => AEntry f (collapse x) (collapse y)
  | ACol f x => ACol f (collapse x)
  | ADot u v => ADot (collapse u) (collapse v)
  | ANormDiff u v => ANormDiff (collapse u) (collapse v)
  | ARows f => ARows f
  | ACond op i j t e' => ACond op i j (collapse t) (collapse e')
  | AForward m => AForward m
  | AOpaque s => AOpaque s
  end.

Definition norm_region (r : comparison) (e : aexpr) : aexpr :=
  match r with Eq => collapse e | _ => e end.

Definition member_ok (c : aclass) (fam : adapter_family) (mb : amember) : bool :=
  match want_expr fam (ac_field c) (am_name mb) with
  | None => false
  | Some (n, out, want) =>
    Nat.eqb (am_arity mb) n && Bool.eqb (am_out mb) out &&
    match n with
    | 2 => forallb (fun r => aexpr_eqb (norm_region r (resolve (inline_of (ac_members c) r) r (am_body mb)))
                                       (norm_region r want)) [Lt; Eq; Gt]
    | _ => aexpr_eqb (am_body mb) want         (* no pair to compare: the body must be the specification *)
    end
  end.

Definition class_ok (c : aclass) : bool :=
  match family_of (ac_name c) with
  | Some fam => forallb (member_ok c fam) (ac_members c) &&
                forallb (fun role => existsb (fun mb => String.eqb (am_name mb) role) (ac_members c))
                        (family_roles fam)
  | None => false
  end.

Definition adapters_ok (t : adapt_tables) : bool :=
  forallb class_ok (ad_classes t) &&
  forallb (fun fam => existsb (fun c => String.eqb (ac_name c) (family_class fam)) (ad_classes t)) all_families.

(* ------------------------------------------------------------------ call sites *)
Definition callsites_ok (t : adapt_tables) : bool := forallb (fun s => snd s) (ad_callsites t).

(* ------------------------------------------------------------------ what the routines do with a callback they are passed *)
(* md_invoked (translate/t_use.py) lists, per slot a method refers to, the member functions reached on that object by
   following it through the routines it is passed to (free functions, member functions, constructor -> field,
   functor temporaries).  A direct slot (kernel / distance / features) may only see the member function of its own
   role; a wrapper slot (plain_distance / kernel_distance) may only see the members the wrapper class has -- each of
   which forwards to the role function of the slot (wrappers_forward_to_own_role).  "?..." marks what the translator
   could not follow (none in the shipped tree; counted in the evidence). *)
Definition unresolved (f : string) : bool := starts_with "?" f.

Definition wrapper_member_name (f : string) : string := if String.eqb f "()" then "operator()" else f.

Definition is_wrapper_slot (s : string) : bool := String.eqb s "plain_distance" || String.eqb s "kernel_distance".

Definition wrapper_of_slot (s : string) : string :=
  if String.eqb s "plain_distance" then "PlainDistance" else "KernelDistance".

Definition allowed_on_slot (u : uses_tables) (s f : string) : bool :=
  if is_wrapper_slot s then
    match find_wrapper (u_wrappers u) (wrapper_of_slot s) with
    | Some tb => existsb (fun mc => String.eqb (fst mc) (wrapper_member_name f)) tb
    | None => false
    end
  else
    match slot_role s with
    | Some r => String.eqb f (role_function r)
    | None => false
    end.

Definition invoked_ok (u : uses_tables) : bool :=
  forallb (fun m => forallb (fun sf => forallb (fun f => unresolved f || allowed_on_slot u (fst sf) f) (snd sf))
                            (md_invoked m)) (u_methods u).

Definition unresolved_count (u : uses_tables) : nat :=
  List.length (filter unresolved (flat_map (fun m => flat_map (fun sf => snd sf) (md_invoked m)) (u_methods u))).

(* ------------------------------------------------------------------ the seeded edit (regression) *)
(* "a kernel / distance matrix is symmetric: read its upper triangle only":
      return (a <= b) ? M(a, b) : M(b, a);                                                            *)
Definition upper_triangle_body (F : string) : aexpr :=
  ACond CLe 0 1 (AEntry F (APar 0) (APar 1)) (AEntry F (APar 1) (APar 0)).

Definition upper_triangle_class (n F m : string) : aclass :=
  {| ac_name := n; ac_field := F;
     ac_members := [ {| am_name := m; am_arity := 2; am_out := false; am_body := upper_triangle_body F |} ] |}.
