(* ====================================================================== *)
(*  Proj_Proof_Pure.v — C07, wave 4: the projection function is a         *)
(*  FUNCTION of its argument.  All copies of a ProjectingFunction share    *)
(*  one implementation object; calls made at the same time interleave.     *)
(*   (a) non-interference, any state types: if no step of any call writes  *)
(*       the shared object, every interleaving leaves the object as it is  *)
(*       and gives every call exactly what it gets running alone;          *)
(*   (b) the shipped call is such a call, and alone it returns             *)
(*       P^T (x - m) = mpi_project_exec;                                   *)
(*   (c) the preallocated-member-buffer rewrite returns the same value     *)
(*       when calls do not overlap, and is refuted under interleaving      *)
(*       (Qc witness: a call returns the image of ANOTHER call's vector).  *)
(* ====================================================================== *)
Require Import Arith Lia List Bool QArith Qcanon.
From TK Require Import Mat_Sums Mat_Core Mat_Qc Proj_Model Proj_Spec Proj_Proof.
Import ListNotations.

Section NonInterference.
  Variables (S L : Type).

  Definition readonly_step (f : S -> L -> S * L) : Prop := forall s l, fst (f s l) = s.
  Definition readonly_thread (t : thread S L) : Prop := Forall readonly_step (t_prog t).

  Lemma step_thread_readonly s t :
    readonly_thread t -> fst (step_thread s t) = s /\ readonly_thread (snd (step_thread s t)).
  Proof.
    unfold readonly_thread, step_thread. intros H. destruct (t_prog t) as [|f r] eqn:E.
    - cbn [fst snd]. rewrite E. split; [reflexivity|constructor].
    - inversion H as [|f' r' Hf Hr]; subst. cbn [fst snd t_prog]. split; [apply Hf|exact Hr].
  Qed.

  Lemma nth_error_set_nth_eq {A} (l : list A) i a t :
    nth_error l i = Some t -> nth_error (set_nth l i a) i = Some a.
  Proof.
    revert i. induction l as [|x r IH]; intros [|j] H; cbn in *; try discriminate; [reflexivity|].
    apply IH. exact H.
  Qed.

  Lemma nth_error_set_nth_neq {A} (l : list A) i j a :
    i <> j -> nth_error (set_nth l i a) j = nth_error l j.
  Proof.
    revert i j. induction l as [|x r IH]; intros [|i] [|j] H; cbn; try reflexivity; [lia|].
    apply IH. lia.
  Qed.

  Lemma Forall_set_nth {A} (Q : A -> Prop) (l : list A) i a :
    Forall Q l -> Q a -> Forall Q (set_nth l i a).
  Proof.
    revert i. induction l as [|x r IH]; intros i Hl Ha; [destruct i; constructor|].
    inversion Hl; subst. destruct i; cbn; constructor; auto.
  Qed.

  Lemma Forall_nth_error {A} (Q : A -> Prop) (l : list A) i t :
    Forall Q l -> nth_error l i = Some t -> Q t.
  Proof. intros H E. rewrite Forall_forall in H. apply H. eapply nth_error_In. exact E. Qed.

  Lemma run_alone_readonly n s t :
    readonly_thread t -> fst (run_alone n s t) = s.
  Proof.
    revert s t. induction n as [|k IH]; intros s t H; [reflexivity|]. cbn [run_alone].
    destruct (step_thread_readonly s t H) as [E R]. rewrite E. apply IH. exact R.
  Qed.

  (* (a) *)
  Theorem readonly_calls_do_not_interfere :
    forall (sched : list nat) (s : S) (ts : list (thread S L)),
      Forall readonly_thread ts ->
      fst (run sched s ts) = s /\
      forall i t, nth_error ts i = Some t ->
        nth_error (snd (run sched s ts)) i = Some (snd (run_alone (count_occ Nat.eq_dec sched i) s t)).
  Proof.
    induction sched as [|k r IH]; intros s ts Hts.
    - cbn. split; [reflexivity|]. intros i t H. exact H.
    - cbn [run]. destruct (nth_error ts k) as [tk|] eqn:Ek.
      + pose proof (Forall_nth_error _ _ _ _ Hts Ek) as Hk.
        destruct (step_thread_readonly s tk Hk) as [Es Rk]. rewrite Es.
        assert (Hts' : Forall readonly_thread (set_nth ts k (snd (step_thread s tk))))
          by (apply Forall_set_nth; assumption).
        destruct (IH s _ Hts') as [A B]. split; [exact A|].
        intros i t Hi. cbn [count_occ]. destruct (Nat.eq_dec k i) as [->|Hne].
        * rewrite Ek in Hi. injection Hi as <-.
          rewrite (B i (snd (step_thread s tk)) (nth_error_set_nth_eq _ _ _ _ Ek)).
          cbn [run_alone]. rewrite Es. reflexivity.
        * apply B. rewrite nth_error_set_nth_neq by exact Hne. exact Hi.
      + destruct (IH s ts Hts) as [A B]. split; [exact A|].
        intros i t Hi. cbn [count_occ]. destruct (Nat.eq_dec k i) as [->|Hne].
        * rewrite Ek in Hi. discriminate.
        * apply B. exact Hi.
  Qed.
End NonInterference.

Lemma run_alone_finished {S L : Type} n (s : S) (t : thread S L) :
  t_prog t = [] -> run_alone n s t = (s, t).
Proof.
  revert s t. induction n as [|k IH]; intros s t H; [reflexivity|]. cbn [run_alone].
  unfold step_thread. rewrite H. cbn [fst snd]. apply IH. exact H.
Qed.

Section Shipped.
  Context {F : Type} {Fo : FieldOps F}.

  Definition call_of (prog : list (mpi_object F -> call_local F -> mpi_object F * call_local F)) (x : list F)
    : thread (mpi_object F) (call_local F) :=
    {| t_prog := prog; t_loc := {| cl_arg := x; cl_result := None |} |}.

  (* (b) the shipped call writes nothing ... *)
  Lemma shipped_call_readonly D d x : readonly_thread _ _ (call_of (shipped_call D d) x).
  Proof. unfold readonly_thread, call_of, shipped_call. cbn. constructor; [intros s l; reflexivity|constructor]. Qed.

  (* ... and alone it returns what the model of MatrixProjectionImplementation::project returns *)
  Lemma shipped_call_alone D d (o : mpi_object F) x :
    cl_result (t_loc (snd (run_alone 1 o (call_of (shipped_call D d) x)))) =
      Some (ptrans_mul D d (ob_P o) (zip_sub x (ob_m o))).
  Proof. reflexivity. Qed.

  (* any number of calls, any interleaving: the object is unchanged and every finished call has P^T (x - m) *)
  Theorem shipped_calls_any_interleaving :
    forall D d (o : mpi_object F) (xs : list (list F)) (sched : list nat),
      fst (run sched o (map (call_of (shipped_call D d)) xs)) = o /\
      forall i x, nth_error xs i = Some x -> (count_occ Nat.eq_dec sched i >= 1)%nat ->
        exists t, nth_error (snd (run sched o (map (call_of (shipped_call D d)) xs))) i = Some t /\
          cl_result (t_loc t) = Some (ptrans_mul D d (ob_P o) (zip_sub x (ob_m o))).
  Proof.
    intros D d o xs sched.
    assert (H : Forall (readonly_thread _ _) (map (call_of (shipped_call D d)) xs)).
    { rewrite Forall_forall. intros t Ht. apply in_map_iff in Ht. destruct Ht as [x [<- _]].
      apply shipped_call_readonly. }
    destruct (readonly_calls_do_not_interfere _ _ sched o _ H) as [A B]. split; [exact A|].
    intros i x Hx Hc. eexists. split.
    - apply B. rewrite nth_error_map, Hx. reflexivity.
    - destruct (count_occ Nat.eq_dec sched i) as [|n]; [lia|]. cbn [run_alone].
      rewrite run_alone_finished by reflexivity. reflexivity.
  Qed.

  (* (c) the buffered rewrite, calls not overlapping: the same value *)
  Lemma buffered_call_alone D d (o : mpi_object F) x :
    cl_result (t_loc (snd (run_alone 2 o (call_of (buffered_call D d) x)))) =
      Some (ptrans_mul D d (ob_P o) (zip_sub x (ob_m o))).
  Proof. reflexivity. Qed.
End Shipped.

(* (c) ... and refuted under interleaving: two calls, schedule write_0 write_1 read_0 read_1 *)
Definition bw_obj : mpi_object Qc := {| ob_P := [[Q2Qc 1]]; ob_m := [Q2Qc 0]; ob_buf := [Q2Qc 0] |}.
Definition bw_x0 : list Qc := [Q2Qc 1].
Definition bw_x1 : list Qc := [Q2Qc 2].

Theorem buffered_calls_interfere_refuted :
  exists t0,
    nth_error (snd (run [0; 1; 0; 1]%nat bw_obj (map (call_of (buffered_call 1%nat 1%nat)) [bw_x0; bw_x1]))) 0%nat = Some t0 /\
    cl_result (t_loc t0) = Some [Q2Qc 2] /\
    cl_result (t_loc (snd (run_alone 2%nat bw_obj (call_of (buffered_call 1%nat 1%nat) bw_x0)))) = Some [Q2Qc 1] /\
    [Q2Qc 2] <> [Q2Qc 1].
Proof.
  eexists. split; [reflexivity|]. split; [vm_compute; reflexivity|]. split; [vm_compute; reflexivity|].
  intros H. injection H as H. discriminate H.
Qed.
