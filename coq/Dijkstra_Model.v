(* Dijkstra_Model.v — executable model of
     tapkee_internal::compute_shortest_distances_matrix   (both overloads)
     include/tapkee/routines/isomap.hpp, under both heap configurations
       TAPKEE_USE_PRIORITY_QUEUE   (std::priority_queue, lazy deletion)  -> *_pq
       TAPKEE_USE_FIBONACCI_HEAP   (fibonacci_heap, decrease_key)        -> *_fib
   (the matrix Isomap hands to the eigensolver is modelled in Dijkstra_IsoModel.v).
   No proofs in this file.

   Numbers.  Dijkstra only adds and compares: edge weights are integers (Z); any
   finite set of dyadic doubles scales to integers, and the harness serves an
   integer-valued table so double arithmetic is exact.  Infinity
   (std::numeric_limits<double>::max() in the code) is `None`, never a number.

   Heaps.  The priority queue is a bag of (vertex,key) pairs; `pick` returns
   SOME entry of minimal key (std::priority_queue does not specify which one
   among equal keys; the theorems hold for every `pick` meeting `pick_ok`).
   The Fibonacci heap is the abstract indexed map of property C16
   (insert: no-op when the index is stored; decrease_key: no-op when the index is
   not stored or the new key is larger; extract_min: some entry of minimal key).

   The two overloads differ textually only in the source vertex (`k` vs
   `landmarks[k]`) and in the statement after the first insertion, `f[k] = true`,
   which the landmark overload copies literally: it sets the frontier flag of
   vertex k (the ROW index), not of vertex landmarks[k].  Both are parameters
   (`src`, `fidx`) of the single-row functions below. *)
From Coq Require Import List ZArith Bool Arith.
Import ListNotations.
Local Open Scope Z_scope.

Inductive dres (A : Type) : Type :=
| DOk (a : A)
| DOOB (site : nat) (idx : nat)   (* out-of-range access: which statement, which index *)
| DOutOfFuel.
Arguments DOk {A} a.
Arguments DOOB {A} site idx.
Arguments DOutOfFuel {A}.

(* sites of DOOB *)
Definition site_n_neighbors := 0%nat.  (* neighbors[0] with no rows            *)
Definition site_src         := 1%nat.  (* shortest_distances(k, src), src >= N *)
Definition site_fidx        := 2%nat.  (* f[fidx], fidx >= N                   *)
Definition site_min_item    := 3%nat.  (* shortest_distances(k, min_item)      *)
Definition site_nbr_row     := 4%nat.  (* neighbors[min_item]                  *)
Definition site_nbr_col     := 5%nat.  (* neighbors[min_item][i], i >= size    *)
Definition site_w           := 6%nat.  (* s[w] / shortest_distances(k,w), w >= N *)
Definition site_pick        := 7%nat.  (* queue non-empty but returned nothing *)
Definition site_landmark    := 8%nat.  (* landmarks[k]                         *)

(* ---------- extended non-negative reals: None = +infinity ---------- *)
(* dist < shortest_distances(k,w) *)
Definition lt_inf (d : Z) (o : option Z) : bool :=
  match o with None => true | Some e => Z.ltb d e end.
(* min_item_d > shortest_distances(k,min_item) *)
Definition gt_inf (d : Z) (o : option Z) : bool :=
  match o with None => false | Some e => Z.ltb e d end.

Fixpoint upd {A : Type} (l : list A) (i : nat) (x : A) : list A :=
  match l, i with
  | [], _ => []
  | _ :: t, O => x :: t
  | h :: t, S j => h :: upd t j x
  end.

(* ---------- the two queues ---------- *)
Definition entry : Type := (nat * Z)%type.

Definition entry_eqb (a b : entry) : bool :=
  Nat.eqb (fst a) (fst b) && Z.eqb (snd a) (snd b).

(* remove one occurrence (pop of the element that top() returned) *)
Fixpoint remove_one (p : entry) (h : list entry) : list entry :=
  match h with
  | [] => []
  | q :: t => if entry_eqb p q then t else q :: remove_one p t
  end.

(* a concrete choice used for execution: first entry of minimal key *)
Fixpoint pick_first_min_aux (best : entry) (h : list entry) : entry :=
  match h with
  | [] => best
  | q :: t => if Z.ltb (snd q) (snd best) then pick_first_min_aux q t
              else pick_first_min_aux best t
  end.
Definition pick_first_min (h : list entry) : option entry :=
  match h with [] => None | q :: t => Some (pick_first_min_aux q t) end.
(* another valid choice: last entry of minimal key (used to exercise choice independence) *)
Fixpoint pick_last_min_aux (best : entry) (h : list entry) : entry :=
  match h with
  | [] => best
  | q :: t => if Z.leb (snd q) (snd best) then pick_last_min_aux q t
              else pick_last_min_aux best t
  end.
Definition pick_last_min (h : list entry) : option entry :=
  match h with [] => None | q :: t => Some (pick_last_min_aux q t) end.

(* abstract fibonacci_heap interface (the spec map of C16) *)
Definition fh_stored (i : nat) (h : list entry) : bool :=
  existsb (fun q => Nat.eqb (fst q) i) h.
(* insert(index,key): `if (nodes[index]->index != -1) return;` *)
Definition fh_insert (i : nat) (key : Z) (h : list entry) : list entry :=
  if fh_stored i h then h else (i, key) :: h.
(* decrease_key(index,key): returns when not stored or `key > nodes[index]->key` *)
Definition fh_decrease (i : nat) (key : Z) (h : list entry) : list entry :=
  map (fun q => if Nat.eqb (fst q) i then (if Z.ltb (snd q) key then q else (i, key)) else q) h.
(* extract_min removes the returned index *)
Definition fh_remove (i : nat) (h : list entry) : list entry :=
  filter (fun q => negb (Nat.eqb (fst q) i)) h.

Record dstate : Type := mkD {
  d_dist : list (option Z);   (* shortest_distances(k, .) *)
  d_s : list bool;            (* s[] *)
  d_f : list bool;            (* f[] *)
  d_heap : list entry }.

Section Run.
  Variable nbrs : list (list nat).     (* Neighbors *)
  Variable w : nat -> nat -> Z.        (* callback.distance(begin[u], begin[v]) *)
  Variable pick : list entry -> option entry.
  Variable N : nat.                    (* end - begin *)
  Variable K : nat.                    (* n_neighbors = neighbors[0].size() *)

  (* ----- priority-queue flavour: inner for-loop over the neighbours of u ----- *)
  Fixpoint relax_pq (u : nat) (ws : list nat) (st : dstate) : dres dstate :=
    match ws with
    | [] => DOk st
    | v :: ws' =>
      match nth_error (d_s st) v with
      | None => DOOB site_w v
      | Some true => relax_pq u ws' st                       (* if (s[w] == false) *)
      | Some false =>
        match nth_error (d_dist st) u, nth_error (d_dist st) v with
        | Some (Some du), Some dv =>
          let nd := du + w u v in
          if lt_inf nd dv                                     (* if (dist < shortest_distances(k,w)) *)
          then relax_pq u ws'
                 (mkD (upd (d_dist st) v (Some nd)) (d_s st)
                      (upd (d_f st) v true) ((v, nd) :: d_heap st))
          else relax_pq u ws' st
        | Some None, Some _ => relax_pq u ws' st              (* max()+x < anything is false *)
        | None, _ => DOOB site_min_item u
        | _, None => DOOB site_w v
        end
      end
    end.

  (* ----- Fibonacci flavour ----- *)
  Fixpoint relax_fib (u : nat) (ws : list nat) (st : dstate) : dres dstate :=
    match ws with
    | [] => DOk st
    | v :: ws' =>
      match nth_error (d_s st) v with
      | None => DOOB site_w v
      | Some true => relax_fib u ws' st
      | Some false =>
        match nth_error (d_dist st) u, nth_error (d_dist st) v, nth_error (d_f st) v with
        | Some (Some du), Some dv, Some fv =>
          let nd := du + w u v in
          if lt_inf nd dv
          then if fv                                          (* if (f[w]) *)
               then relax_fib u ws'
                      (mkD (upd (d_dist st) v (Some nd)) (d_s st) (d_f st)
                           (fh_decrease v nd (d_heap st)))
               else relax_fib u ws'
                      (mkD (upd (d_dist st) v (Some nd)) (d_s st)
                           (upd (d_f st) v true) (fh_insert v nd (d_heap st)))
          else relax_fib u ws' st
        | Some None, Some _, Some _ => relax_fib u ws' st
        | None, _, _ => DOOB site_min_item u
        | _, _, _ => DOOB site_w v
        end
      end
    end.

  (* neighbors[min_item][i] for i < n_neighbors *)
  Definition nbr_row (u : nat) : dres (list nat) :=
    match nth_error nbrs u with
    | None => DOOB site_nbr_row u
    | Some row => if Nat.ltb (length row) K then DOOB site_nbr_col (length row)
                  else DOk (firstn K row)
    end.

  (* s[min_item] = true; f[min_item] = false; then the for-loop *)
  Definition expand (relax : nat -> list nat -> dstate -> dres dstate)
             (u : nat) (dist : list (option Z)) (s f : list bool) (heap : list entry)
    : dres dstate :=
    match nbr_row u with
    | DOk ws => relax u ws (mkD dist (upd s u true) (upd f u false) heap)
    | DOOB a b => DOOB a b
    | DOutOfFuel => DOutOfFuel
    end.

  (* one iteration of `while (!heap.empty())`; None = loop exits *)
  Definition step_pq (st : dstate) : option (dres dstate) :=
    match d_heap st with
    | [] => None
    | _ :: _ =>
      Some match pick (d_heap st) with
           | None => DOOB site_pick 0
           | Some (u, d) =>
             let heap' := remove_one (u, d) (d_heap st) in           (* heap.pop() *)
             match nth_error (d_dist st) u with
             | None => DOOB site_min_item u
             | Some du =>
               if gt_inf d du                                         (* stale: continue *)
               then DOk (mkD (d_dist st) (d_s st) (d_f st) heap')
               else expand relax_pq u (d_dist st) (d_s st) (d_f st) heap'
             end
           end
    end.

  Definition step_fib (st : dstate) : option (dres dstate) :=
    match d_heap st with
    | [] => None
    | _ :: _ =>
      Some match pick (d_heap st) with
           | None => DOOB site_pick 0
           | Some (u, _) =>                                           (* extract_min(tmp) *)
             match nth_error (d_s st) u with
             | None => DOOB site_min_item u
             | Some _ =>
               expand relax_fib u (d_dist st) (d_s st) (d_f st) (fh_remove u (d_heap st))
             end
           end
    end.

  Fixpoint loop (step : dstate -> option (dres dstate)) (fuel : nat) (st : dstate)
    : dres dstate :=
    match fuel with
    | O => DOutOfFuel
    | S fuel' =>
      match step st with
      | None => DOk st
      | Some (DOk st') => loop step fuel' st'
      | Some (DOOB a b) => DOOB a b
      | Some DOutOfFuel => DOutOfFuel
      end
    end.

  (* every iteration pops one entry; at most 1 + N*K entries are ever pushed *)
  Definition fuel_of : nat := (N * K + N + 2)%nat.

  (* the body of the `for (k ...)` loop up to the while loop:
     fill row with infinity, s and f with false; row[src] = 0; insert (src,0); f[fidx] = true *)
  Definition init_state (src fidx : nat) : dres dstate :=
    if Nat.ltb src N then
      if Nat.ltb fidx N then
        DOk (mkD (upd (repeat None N) src (Some 0)) (repeat false N)
                 (upd (repeat false N) fidx true) [(src, 0)])
      else DOOB site_fidx fidx
    else DOOB site_src src.

  Definition row_of (step : dstate -> option (dres dstate)) (src fidx : nat)
    : dres (list (option Z)) :=
    match init_state src fidx with
    | DOk st0 =>
      match loop step fuel_of st0 with
      | DOk st => DOk (d_dist st)
      | DOOB a b => DOOB a b
      | DOutOfFuel => DOutOfFuel
      end
    | DOOB a b => DOOB a b
    | DOutOfFuel => DOutOfFuel
    end.

  Definition row_pq := row_of step_pq.
  Definition row_fib := row_of step_fib.
End Run.

Fixpoint sequence {A : Type} (l : list (dres A)) : dres (list A) :=
  match l with
  | [] => DOk []
  | DOk a :: t => match sequence t with
                  | DOk r => DOk (a :: r) | DOOB x y => DOOB x y | DOutOfFuel => DOutOfFuel
                  end
  | DOOB x y :: _ => DOOB x y
  | DOutOfFuel :: _ => DOutOfFuel
  end.

Inductive flavour : Type := PQ | FIB.

Definition row_fl (fl : flavour) nbrs w pick N K src fidx : dres (list (option Z)) :=
  match fl with
  | PQ => row_pq nbrs w pick N K src fidx
  | FIB => row_fib nbrs w pick N K src fidx
  end.

(* first overload: for (k = 0; k < N; k++) — source k, `f[k] = true` *)
Definition full_matrix (fl : flavour) (nbrs : list (list nat)) (w : nat -> nat -> Z)
           (pick : list entry -> option entry) (N : nat) : dres (list (list (option Z))) :=
  match nbrs with
  | [] => DOOB site_n_neighbors 0
  | r0 :: _ =>
    sequence (map (fun k => row_fl fl nbrs w pick N (length r0) k k) (seq 0 N))
  end.

(* second overload as shipped: source landmarks[k], `f[k] = true` *)
Definition landmark_matrix (fl : flavour) (nbrs : list (list nat)) (w : nat -> nat -> Z)
           (pick : list entry -> option entry) (N : nat) (lm : list nat)
  : dres (list (list (option Z))) :=
  match nbrs with
  | [] => DOOB site_n_neighbors 0
  | r0 :: _ =>
    sequence (map (fun k => match nth_error lm k with
                            | None => DOOB site_landmark k
                            | Some src => row_fl fl nbrs w pick N (length r0) src k
                            end) (seq 0 (length lm)))
  end.

(* second overload after fixes/F04_landmark_frontier_flag.patch: `f[landmarks[k]] = true` *)
Definition landmark_matrix_fixed (fl : flavour) (nbrs : list (list nat)) (w : nat -> nat -> Z)
           (pick : list entry -> option entry) (N : nat) (lm : list nat)
  : dres (list (list (option Z))) :=
  match nbrs with
  | [] => DOOB site_n_neighbors 0
  | r0 :: _ =>
    sequence (map (fun k => match nth_error lm k with
                            | None => DOOB site_landmark k
                            | Some src => row_fl fl nbrs w pick N (length r0) src src
                            end) (seq 0 (length lm)))
  end.

(* ---------- one OpenMP thread: f, s and the heap are allocated once per thread and
   reused for every k the schedule gives it.  `run_thread` threads the leftover
   (s, f) of the previous row into the next one exactly as the code does: the first
   inner loop overwrites every cell, and the heap is empty at loop exit (and cleared). *)
Definition refill {A : Type} (x : A) (old : list A) (N : nat) : list A :=
  (* for (j = 0; j < N; j++) a[j] = x;   on an array of length N *)
  fold_left (fun a j => upd a j x) (seq 0 N) old.

(* ---------- table-driven distance callback used by the extraction ---------- *)
Definition table_w (t : list (list Z)) (u v : nat) : Z :=
  nth v (nth u t []) 0.
