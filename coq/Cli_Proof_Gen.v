(* ====================================================================== *)
(*  Cli_Proof_Gen.v — property C20 at the GENERATED tables                 *)
(*  (coq/gen/Cli.v, regenerated from src/cli/main.cpp and src/cli/util.hpp *)
(*  of the working tree by translate/t_cli.py on every run).               *)
(*  The tables are finite: equality with the documented ones by evaluation.*)
(* ====================================================================== *)
From Coq Require Import String Ascii List ZArith QArith Bool Arith Lia Permutation.
From TK Require Import Cli_Model Cli_Spec Cli_Argv_Model Cli_Argv_Spec Cli_Proof_Decide Cli_Proof_Main Cli_Proof_Exit
  Cli_Proof_Argv Cli_Proof_Perm Cli_Proof_Files Cli_Proof_Pre Cli_Proof_Shape Cli.
Import ListNotations.
Local Close Scope Q_scope.
Local Open Scope string_scope.

(* the generated tables are the documented ones, up to the ORDER of the early-exit tests (which is
   irrelevant: every exit returns the same code, Cli_Proof_Perm.first_exit_perm) *)
Lemma gen_tables_fields : with_exits gen_tables doc_exits = doc_tables.
Proof. vm_compute. reflexivity. Qed.

Lemma gen_exits_perm : Permutation doc_exits gen_exits.
Proof. apply perm_b_sound. vm_compute. reflexivity. Qed.

Lemma gen_tables_shape : gen_tables = with_exits doc_tables gen_exits.
Proof. rewrite <- gen_tables_fields. reflexivity. Qed.

Lemma gen_catch_code : catch_code gen_tables = catch_code doc_tables.
Proof. reflexivity. Qed.

Lemma gen_options_doc : gen_options = doc_options.
Proof. vm_compute. reflexivity. Qed.

Lemma gen_decide_doc : forall a, cli_decide gen_tables a = cli_decide doc_tables a.
Proof.
  intro a. unfold cli_decide. rewrite gen_tables_shape.
  change (t_options (with_exits doc_tables gen_exits)) with (t_options doc_tables).
  apply decide_view_exits_perm; [exact gen_exits_perm|apply doc_exits_uniform].
Qed.

Lemma gen_tables_all :
  with_exits gen_tables doc_exits = doc_tables /\ Permutation doc_exits gen_exits /\
  gen_read_loop = doc_read_loop /\ gen_precompute = doc_precompute.
Proof.
  split; [exact gen_tables_fields|]. split; [exact gen_exits_perm|]. split; vm_compute; reflexivity.
Qed.

(* line by line: every generated kwargs line is the documented line for that keyword and every
   documented keyword is bound (the tables are equal, so membership transfers) *)
Lemma gen_wiring_eq : gen_wiring = doc_wiring.
Proof. vm_compute. reflexivity. Qed.

Lemma gen_wiring_lines : forall kv, In kv gen_wiring <-> In kv doc_wiring.
Proof. rewrite gen_wiring_eq. tauto. Qed.

Theorem gen_decide_spec : forall a, cli_decide gen_tables a = spec_decide a.
Proof. intro a. rewrite gen_decide_doc. apply cli_decide_spec. Qed.

Theorem gen_wiring_sem : forall a ps io, cli_decide gen_tables a = Run ps io ->
  run_facts (args_ok doc_options a) (view_of a) ps io.
Proof. intros a ps io H. rewrite gen_decide_spec in H. apply spec_run_inv. exact H. Qed.

Theorem gen_spe_local : forall a ps io, cli_decide gen_tables a = Run ps io ->
  assoc "spe_global_strategy" ps = Some (VBool (negb (flag (view_of a) ["spe-local"]))).
Proof. intros a ps io H. exact (rf_spe _ _ _ _ (gen_wiring_sem a ps io H)). Qed.

Theorem gen_exit_codes : forall a,
  bad_input (view_of a) \/ args_ok doc_options a = false \/ flag (view_of a) ["h"; "help"] = true ->
  cli_decide gen_tables a = Exit 1%Z.
Proof.
  intros a H. rewrite gen_decide_spec. unfold spec_decide.
  destruct H as [H|[H|H]].
  - apply spec_exit_codes. exact H.
  - rewrite H. reflexivity.
  - unfold spec_view. rewrite H. destruct (args_ok doc_options a); reflexivity.
Qed.

Theorem gen_never_stuck : forall a, cli_decide gen_tables a <> Stuck.
Proof. intro a. rewrite gen_decide_spec. apply spec_never_stuck. Qed.

Theorem gen_outcomes : forall a,
  cli_decide gen_tables a = Exit 1%Z \/ exists ps io, cli_decide gen_tables a = Run ps io.
Proof. intro a. rewrite gen_decide_spec. apply spec_total. Qed.

Section GenMain.
  Variable V : Type.
  Variable parse : string -> option V.
  Variable print : V -> string.
  Variable lib : list (string * value) -> bool -> nat -> list (list V)
                 -> option (list (list V) * option (list (list V) * list V)).

  Definition gen_main := cli_main V parse print lib gen_tables gen_read_loop gen_read_check.

  Lemma gen_read_loop_doc : gen_read_loop = LoopGetline.
  Proof. vm_compute. reflexivity. Qed.

  Lemma gen_read_check_doc : gen_read_check = CheckEveryRow.
  Proof. vm_compute. reflexivity. Qed.

  Lemma gen_main_doc : forall a content,
    gen_main a content = cli_main V parse print lib doc_tables LoopGetline CheckEveryRow a content.
  Proof.
    intros a content. unfold gen_main, cli_main.
    rewrite gen_decide_doc, gen_catch_code, gen_read_loop_doc, gen_read_check_doc.
    reflexivity.
  Qed.

  Theorem gen_main_run : forall a content ps io,
    cli_decide gen_tables a = Run ps io ->
    let g := view_of a in
    exists ds, str_of g ["d"; "delimiter"] "," = Some ds /\
    gen_main a content =
    match read_data_fixed V parse (delim_char ds) content with
    | RWrong _ => Fail 1%Z
    | RMat file =>
      match lib ps (flag g ["precompute"])
                (if negb (flag g ["transpose-input"]) then length file else width V file)
                (if negb (flag g ["transpose-input"]) then transpose V file else file) with
      | None => Fail 1%Z
      | Some (E, proj) =>
        let out := write_matrix V print (delim_char ds)
                                (if flag g ["transpose-output"] then transpose V E else E) in
        match (if flag g ["opmat"; "output-projection-matrix-file"]
                  && flag g ["opmean"; "output-projection-mean-file"] then proj else None) with
        | Some (pm, mean) =>
          Done 0%Z {| f_embedding := out;
                      f_matrix := Some (write_matrix V print (delim_char ds) pm);
                      f_mean := Some (write_vector V print mean) |}
        | None => Done 0%Z {| f_embedding := out; f_matrix := None; f_mean := None |}
        end
      end
    end.
  Proof.
    intros a content ps io H. rewrite gen_main_doc. rewrite gen_decide_doc in H.
    exact (cli_main_run V parse print lib a content ps io H).
  Qed.

  Theorem gen_main_unequal_rows : forall a content,
    (forall d, exists i, read_data_fixed V parse d content = RWrong i) ->
    exists c, gen_main a content = Fail c /\ c <> 0%Z.
  Proof. intros a content H. rewrite gen_main_doc. exact (cli_main_unequal_rows V parse print lib a content H). Qed.

  (* the same from the file's own rows: whatever the delimiter the options select, some non-empty line holds
     a different number of parsable tokens than the first *)
  Theorem gen_main_ragged_rows : forall a content,
    (forall d, exists r0 rows i r,
        parse_rows V parse d (lines_fixed content) = r0 :: rows /\
        nth_error (r0 :: rows) i = Some r /\ length r <> length r0) ->
    exists c, gen_main a content = Fail c /\ c <> 0%Z.
  Proof.
    intros a content H. apply gen_main_unequal_rows. intro d.
    destruct (H d) as [r0 [rows [i [r [Hrows [Hn Hl]]]]]].
    destruct (to_matrix_unequal V r0 rows i r Hn Hl) as [k [Hk _]].
    exists k. unfold read_data_fixed. rewrite Hrows. exact Hk.
  Qed.

  Theorem gen_main_cases : forall a content,
    (exists c, gen_main a content = Fail c /\ c <> 0%Z) \/
    (exists out, gen_main a content = Done 0%Z out).
  Proof. intros a content. rewrite gen_main_doc. exact (cli_main_cases V parse print lib a content). Qed.
End GenMain.

Theorem gen_defaults : forall ps io, cli_decide gen_tables [] = Run ps io ->
  assoc "nullspace_shift" ps = Some (VDbl (1 # 1000000000)) /\
  assoc "spe_tolerance" ps = Some (VDbl (1 # 100000)) /\
  assoc "fa_epsilon" ps = Some (VDbl (1 # 100000)) /\
  assoc "num_neighbors" ps = Some (VInt 10) /\
  assoc "spe_global_strategy" ps = Some (VBool true).
Proof. intros ps io H. rewrite gen_decide_doc in H. exact (defaults_are_literals ps io H). Qed.

(* complete characterisation of the exit status before the library is called *)
Theorem gen_exit_iff : forall a,
  cli_decide gen_tables a = Exit 1%Z <->
  (args_ok doc_options a = false \/ flag (view_of a) ["h"; "help"] = true \/
   bad_input (view_of a) \/ bad_strategy (view_of a)).
Proof. intro a. rewrite gen_decide_spec. apply spec_exit_iff. Qed.

(* a command line cxxopts accepts, without --help and without any of the invalid inputs, reaches the library *)
Theorem gen_valid_runs : forall a,
  args_ok doc_options a = true -> flag (view_of a) ["h"; "help"] = false ->
  ~ bad_input (view_of a) -> ~ bad_strategy (view_of a) ->
  exists ps io, cli_decide gen_tables a = Run ps io.
Proof.
  intros a Hok Hh Hb Hs.
  destruct (gen_outcomes a) as [H|H]; [|exact H].
  exfalso. apply gen_exit_iff in H. destruct H as [H|[H|[H|H]]]; congruence || tauto.
Qed.

(* from the real argv: scanning the canonical spelling of an abstract command line and interpreting the
   generated tables is the documented function of that command line *)
Theorem gen_argv_concretize : forall rd a, Forall (wf_arg rd gen_options) a ->
  cli_decide_argv rd gen_options gen_tables (concretize a) = spec_decide a.
Proof.
  intros rd a H. rewrite (decide_argv_concretize rd gen_options gen_tables a H). apply gen_decide_spec.
Qed.

(* ... and for EVERY argv the generated tables behind cxxopts' scanner are the documented behaviour *)
Theorem gen_argv_spec : forall rd argv,
  cli_decide_argv rd gen_options gen_tables argv = spec_argv rd argv.
Proof.
  intros rd argv. unfold cli_decide_argv, spec_argv.
  rewrite gen_options_doc.
  destruct (scan rd doc_options argv []); [apply gen_decide_spec|].
  rewrite gen_catch_code. reflexivity.
Qed.

(* ---- the shape tables of util.hpp (read_data's length test, matrix_from_callback's loops) ---- *)
Lemma gen_shapes : gen_read_loop = LoopGetline /\ gen_read_check = CheckEveryRow /\ gen_mfc = MfcLoops InitUninit 0.
Proof. vm_compute. auto. Qed.

(* the length test read from the source rejects every ragged matrix, whatever the lengths add up to *)
Theorem gen_unequal_rows : forall (V : Type) (r0 : list V) rows i r,
  nth_error (r0 :: rows) i = Some r -> length r <> length r0 ->
  exists k, to_matrix_with V gen_read_check (r0 :: rows) = Some (RWrong k).
Proof.
  intros V r0 rows i r Hn Hl. destruct gen_shapes as [_ [-> _]].
  exact (every_row_rejects_ragged V r0 rows i r Hn Hl).
Qed.

(* ... for the file itself: any content one of whose non-empty lines has a different number of parsable
   tokens than the first makes main() fail, whatever the options *)
Theorem gen_read_ragged : forall (V : Type) (parse : string -> option V) d content r0 rows i r,
  parse_rows V parse d (lines_fixed content) = r0 :: rows ->
  nth_error (r0 :: rows) i = Some r -> length r <> length r0 ->
  exists k, read_with V parse gen_read_loop gen_read_check d content = Some (RWrong k).
Proof.
  intros V parse d content r0 rows i r Hrows Hn Hl.
  destruct gen_shapes as [-> [-> _]]. cbn [read_with lines_with]. rewrite Hrows.
  exact (every_row_rejects_ragged V r0 rows i r Hn Hl).
Qed.

(* the loops read from the source fill every cell with cb(min, max) *)
Theorem gen_mfc_value : forall (S : Type) (cb : nat -> nat -> S) (zero : S) N a b t,
  a < N -> b < N -> mfc_of_shape S cb zero gen_mfc N = Some t ->
  t a b = Some (cb (Nat.min a b) (Nat.max a b)).
Proof.
  intros S cb zero N a b t Ha Hb H. destruct gen_shapes as [_ [_ Hm]]. rewrite Hm in H.
  exact (mfc_doc_shape_value S cb zero N a b t Ha Hb H).
Qed.
