(* Chain_Proof.v — proofs for property C13 (model: Chain_Model.v, spec: Chain_Spec.v, tables: gen/Chain.v
   and gen/Uses.v regenerated from the working tree by translate/t_chain.py and translate/t_use.py).

   Two kinds of statement:
   * GENERIC lemmas, for every table whatsoever (induction): the boolean deciders of Chain_Spec are sound
     for the Prop-level statements; what the outcome [Ok] of the model means.
   * CLOSED theorems about the generated tables: the domain (16 attachment orders x 3 entry points x 20
     methods) is finite, it is enumerated COMPLETELY ([all_orders_complete] shows that the enumeration
     misses no duplicate-free order), and the decider is run by vm_compute. *)
From Coq Require Import List String Bool Arith Lia.
From TK Require Import Chain_Model Chain_Spec Chain Uses.
Import ListNotations.
Local Open Scope string_scope.

(* ------------------------------------------------------------------ deciders are sound *)
Lemma kind_eqb_eq : forall a b, kind_eqb a b = true <-> a = b.
Proof. intros a b; destruct a, b; simpl; split; intro H; try reflexivity; discriminate. Qed.

Lemma kmem_In : forall k l, kmem k l = true <-> In k l.
Proof.
  intros k l; induction l as [|x r IH]; simpl.
  - split; [discriminate | tauto].
  - rewrite orb_true_iff, IH, kind_eqb_eq. split; intros [H|H]; auto.
Qed.

Lemma nodupb_NoDup : forall l, nodupb l = true <-> NoDup l.
Proof.
  induction l as [|x r IH]; simpl.
  - split; [constructor | reflexivity].
  - rewrite andb_true_iff, negb_true_iff, IH. split.
    + intros [Hm Hn]. constructor; [|exact Hn]. rewrite <- kmem_In. rewrite Hm. discriminate.
    + intro H. inversion H as [|? ? Hx Hr]; subst. split; [|exact Hr].
      destruct (kmem x r) eqn:E; [|reflexivity]. apply kmem_In in E. contradiction.
Qed.

Lemma kinds_incl_iff : forall a b, kinds_incl a b = true <-> (forall k, In k a -> In k b).
Proof.
  induction a as [|x r IH]; intro b; simpl.
  - split; [intros _ k [] | reflexivity].
  - rewrite andb_true_iff, kmem_In, IH. split.
    + intros [Hx Hr] k [E|Hk]; [subst; exact Hx | apply Hr; exact Hk].
    + intro H. split; [apply H; left; reflexivity | intros k Hk; apply H; right; exact Hk].
Qed.

Lemma value_eqb_eq : forall a b, value_eqb a b = true -> a = b.
Proof.
  induction a as [ | k | k | k | | | | | w v IH | s]; intros b H; destruct b; simpl in H; try discriminate;
    try reflexivity.
  - apply kind_eqb_eq in H; subst; reflexivity.
  - apply kind_eqb_eq in H; subst; reflexivity.
  - apply kind_eqb_eq in H; subst; reflexivity.
  - apply andb_true_iff in H as [Hw Hv]. apply String.eqb_eq in Hw. apply IH in Hv. subst; reflexivity.
  - apply String.eqb_eq in H; subst; reflexivity.
Qed.

Lemma values_eqb_eq : forall a b, values_eqb a b = true -> a = b.
Proof.
  induction a as [|x r IH]; intros [|y s] H; simpl in H; try discriminate; [reflexivity|].
  apply andb_true_iff in H as [Hx Hr]. apply value_eqb_eq in Hx. apply IH in Hr. subst; reflexivity.
Qed.

Lemma slots_match_sound : forall want have, slots_match want have = true ->
  forall n v, In (n, v) want -> lookup n have = Some v.
Proof.
  induction want as [|[n0 v0] r IH]; intros have H n v Hin; simpl in *; [contradiction|].
  destruct (lookup n0 have) as [v'|] eqn:E; [|discriminate].
  apply andb_true_iff in H as [Hv Hr].
  destruct Hin as [Heq|Hin].
  - inversion Heq; subst. apply value_eqb_eq in Hv. subst. exact E.
  - apply IH; assumption.
Qed.

Lemma outcome_eqb_eq : forall a b, outcome_eqb a b = true -> a = b.
Proof.
  intros a b H; destruct a, b; simpl in H; try discriminate; try reflexivity.
  - apply String.eqb_eq in H; subst; reflexivity.
  - apply andb_true_iff in H as [Hs Hk]. apply String.eqb_eq in Hs. apply kind_eqb_eq in Hk. subst; reflexivity.
  - apply String.eqb_eq in H; subst; reflexivity.
Qed.

(* ------------------------------------------------------------------ the enumeration of orders is complete *)
Lemma nodup_kinds_short : forall l : list kind, NoDup l -> List.length l <= 3.
Proof.
  intros l H. change 3 with (List.length all_kinds).
  apply NoDup_incl_length; [exact H|]. intros k _. destruct k; simpl; auto.
Qed.

Fixpoint order_mem (o : list kind) (os : list (list kind)) : bool :=
  match os with [] => false | x :: r => kinds_eqb o x || order_mem o r end.

Lemma kinds_eqb_eq : forall a b, kinds_eqb a b = true -> a = b.
Proof.
  induction a as [|x r IH]; intros [|y s] H; simpl in H; try discriminate; [reflexivity|].
  apply andb_true_iff in H as [Hx Hr]. apply kind_eqb_eq in Hx. apply IH in Hr. subst; reflexivity.
Qed.

Lemma order_mem_In : forall o os, order_mem o os = true -> In o os.
Proof.
  induction os as [|x r IH]; simpl; [discriminate|].
  intro H. apply orb_true_iff in H as [H|H]; [left; symmetry; apply kinds_eqb_eq; exact H | right; auto].
Qed.

Lemma all_orders_complete_b : forall o, List.length o <= 3 -> nodupb o = true -> order_mem o all_orders = true.
Proof.
  intros o Hlen Hnd.
  destruct o as [|a [|b [|c [|d r]]]]; [ | | | | simpl in Hlen; lia];
    try destruct a; try destruct b; try destruct c;
    first [ reflexivity | (vm_compute in Hnd; discriminate Hnd) ].
Qed.

Lemma all_orders_complete : forall o, NoDup o -> In o all_orders.
Proof.
  intros o H. apply order_mem_In. apply all_orders_complete_b.
  - apply nodup_kinds_short; exact H.
  - apply nodupb_NoDup; exact H.
Qed.

Lemma all_entries_complete : forall en, In en all_entries.
Proof. destruct en; simpl; auto. Qed.

Lemma valid_chain_b : forall o en, valid_chain o en -> valid_chainb o en = true.
Proof.
  intros o en [Hnd Hiff]. unfold valid_chainb. apply andb_true_iff. split; [apply nodupb_NoDup; exact Hnd|].
  destruct o as [|x r].
  - assert (E : en = ByMatrix) by (apply Hiff; reflexivity). subst. reflexivity.
  - destruct en; simpl; try reflexivity. exfalso. assert (E : x :: r = []) by (apply Hiff; reflexivity). discriminate.
Qed.

(* from "the decider holds on the whole enumeration" to "for every valid chain" *)
Lemma over_all_chains : forall (P : list kind -> entry -> bool),
  forallb (fun o => forallb (fun en => if valid_chainb o en then P o en else true) all_entries) all_orders = true ->
  forall o en, valid_chain o en -> P o en = true.
Proof.
  intros P H o en Hv.
  rewrite forallb_forall in H. specialize (H o (all_orders_complete o (proj1 Hv))).
  rewrite forallb_forall in H. specialize (H en (all_entries_complete en)).
  rewrite (valid_chain_b o en Hv) in H. exact H.
Qed.

(* ------------------------------------------------------------------ ROUTING *)
Definition routes (t : chain_tables) (order : list kind) (en : entry) : Prop :=
  user_chain t order en = REmbed (expected_embed_args order en) /\
  exists cls slots, reach t order en = RObj cls slots /\
    forall n v, In (n, v) (expected_slots (supplied order en)) -> lookup n slots = Some v.

(* generic: for EVERY table the decider implies the statement *)
Lemma routes_ok_sound : forall t order en, routes_ok t order en = true -> routes t order en.
Proof.
  intros t order en H. unfold routes_ok in H.
  destruct (user_chain t order en) as [? ?|args|?|] eqn:Eu; try discriminate.
  apply andb_true_iff in H as [Ha Hs].
  apply values_eqb_eq in Ha. subst args.
  destruct (reach t order en) as [cls slots|?|?|] eqn:Er; try discriminate.
  split; [exact Eu|]. exists cls, slots. split; [exact Er|].
  apply slots_match_sound; exact Hs.
Qed.

Lemma all_routes_ok_gen : all_routes_ok chain_gen = true.
Proof. vm_compute. reflexivity. Qed.

Theorem chain_routes_proof : forall order en, valid_chain order en -> routes chain_gen order en.
Proof.
  intros order en Hv. apply routes_ok_sound.
  exact (over_all_chains (routes_ok chain_gen) all_routes_ok_gen order en Hv).
Qed.

(* generic: for EVERY chain table, if the decider holds on the enumeration then every valid chain routes *)
Theorem all_routes_ok_sound : forall t, all_routes_ok t = true ->
  forall order en, valid_chain order en -> routes t order en.
Proof.
  intros t H order en Hv. apply routes_ok_sound.
  exact (over_all_chains (routes_ok t) H order en Hv).
Qed.

(* ------------------------------------------------------------------ what [Ok] means, for every table *)
Lemma first_dummy_ref_none : forall slots refs, first_dummy_ref slots refs = None ->
  forall s, In s refs -> exists v, lookup s slots = Some v /\ value_is_dummy v = false.
Proof.
  induction refs as [|x r IH]; intros H s Hin; simpl in *; [contradiction|].
  destruct (lookup x slots) as [v|] eqn:E; [|discriminate].
  destruct (value_is_dummy v) eqn:Ed.
  - destruct (value_kind v); discriminate.
  - destruct Hin as [<-|Hin]; [exists v; auto | apply IH; assumption].
Qed.

Lemma first_guard_none : forall u m slots gs, first_guard u m slots gs = None ->
  forall fld slot msg, In (fld, slot, msg) gs ->
  exists b v, method_field u m fld = Some b /\ lookup slot slots = Some v /\ (b = true -> value_is_dummy v = false).
Proof.
  induction gs as [|[[f s] g] r IH]; intros H fld slot msg Hin; simpl in *; [contradiction|].
  destruct (method_field u m f) as [b|] eqn:Ef; [|discriminate].
  destruct (lookup s slots) as [v|] eqn:El; [|discriminate].
  destruct (b && value_is_dummy v) eqn:Eb; [discriminate|].
  destruct Hin as [Heq|Hin].
  - inversion Heq; subst. exists b, v. repeat split; auto.
    intro Hb; subst b. simpl in Eb. exact Eb.
  - eapply IH; eauto.
Qed.

Lemma first_dummy_ref_not_ok : forall slots refs, first_dummy_ref slots refs <> Some Ok.
Proof.
  induction refs as [|x r IH]; simpl; [discriminate|].
  destruct (lookup x slots) as [v|]; [|discriminate].
  destruct (value_is_dummy v); [destruct (value_kind v); discriminate | exact IH].
Qed.

Lemma first_guard_not_ok : forall u m slots gs, first_guard u m slots gs <> Some Ok.
Proof.
  induction gs as [|[[f s] g] r IH]; simpl; [discriminate|].
  destruct (method_field u m f) as [b|]; [|discriminate].
  destruct (lookup s slots) as [v|]; [|discriminate].
  destruct (b && value_is_dummy v); [discriminate | exact IH].
Qed.

(* The model says Ok  ==>  the method is dispatched, no slot its code (or the base constructor,
   unguarded) refers to holds a dummy, and every guard whose needs_<k> flag is set saw a real callback. *)
Theorem ok_touches_no_dummy_proof : forall u m slots, run_method_on u m slots = Ok ->
  In (md_name m) (u_dispatched u) /\
  (forall s, In s (md_refs m) \/ In s (u_base_unguarded u) ->
     exists v, lookup s slots = Some v /\ value_is_dummy v = false) /\
  (forall fld slot msg, In (fld, slot, msg) (u_guards u) ->
     exists b v, method_field u m fld = Some b /\ lookup slot slots = Some v /\
                 (b = true -> value_is_dummy v = false)).
Proof.
  intros u m slots H. unfold run_method_on in H.
  destruct (first_dummy_ref slots (u_base_unguarded u)) eqn:Eb.
  { subst o. exfalso. eapply first_dummy_ref_not_ok; eauto. }
  destruct (first_guard u m slots (u_guards u)) eqn:Eg.
  { subst o. exfalso. eapply first_guard_not_ok; eauto. }
  destruct (existsb (String.eqb (md_name m)) (u_dispatched u)) eqn:Ed; simpl in H; [|discriminate].
  destruct (first_dummy_ref slots (md_refs m)) eqn:Er.
  { subst o. exfalso. eapply first_dummy_ref_not_ok; eauto. }
  split; [|split].
  - apply existsb_exists in Ed as [x [Hin Heq]]. apply String.eqb_eq in Heq. subst. exact Hin.
  - intros s [Hs|Hs]; [exact (first_dummy_ref_none _ _ Er s Hs) | exact (first_dummy_ref_none _ _ Eb s Hs)].
  - intros fld slot msg Hin. exact (first_guard_none _ _ _ _ Eg fld slot msg Hin).
Qed.

(* ------------------------------------------------------------------ USAGE *)
Lemma all_uses_ok_gen : forallb (uses_ok chain_gen uses_gen) (u_methods uses_gen) = true.
Proof. vm_compute. reflexivity. Qed.

Theorem uses_subset_needs_proof : forall m, In m (u_methods uses_gen) ->
  incl (uses chain_gen uses_gen m) (declared uses_gen m).
Proof.
  intros m Hm. pose proof all_uses_ok_gen as H. rewrite forallb_forall in H. specialize (H m Hm).
  unfold uses_ok in H. intros k Hk. eapply kinds_incl_iff; eauto.
Qed.

Lemma dispatch_ok_gen : dispatch_ok uses_gen = true.
Proof. vm_compute. reflexivity. Qed.

Theorem dispatch_complete_proof :
  (forall m, In m (u_methods uses_gen) -> In (md_name m) (u_dispatched uses_gen)) /\
  (forall n, In n (u_dispatched uses_gen) -> exists m, In m (u_methods uses_gen) /\ md_name m = n).
Proof.
  pose proof dispatch_ok_gen as H. unfold dispatch_ok in H. apply andb_true_iff in H as [H1 H2].
  rewrite forallb_forall in H1, H2. split.
  - intros m Hm. specialize (H1 m Hm). apply existsb_exists in H1 as [x [Hin Heq]].
    apply String.eqb_eq in Heq. subst. exact Hin.
  - intros n Hn. specialize (H2 n Hn). apply existsb_exists in H2 as [m [Hin Heq]].
    apply String.eqb_eq in Heq. exists m. auto.
Qed.

(* ------------------------------------------------------------------ SUFFICIENCY *)
Lemma all_sufficient_ok_gen : all_sufficient_ok chain_gen uses_gen = true.
Proof. vm_compute. reflexivity. Qed.

Lemma all_sufficient_ok_sound : forall t u, all_sufficient_ok t u = true ->
  forall m order en, In m (u_methods u) -> valid_chain order en -> sufficient_ok t u m order en = true.
Proof.
  intros t u H m order en Hm Hv. unfold all_sufficient_ok in H.
  rewrite forallb_forall in H. specialize (H m Hm).
  exact (over_all_chains (sufficient_ok t u m) H order en Hv).
Qed.

(* generic: for EVERY pair of tables the sufficiency decider implies the two Prop-level statements *)
Theorem all_sufficient_ok_meaning : forall t u, all_sufficient_ok t u = true ->
  forall m order en, In m (u_methods u) -> valid_chain order en ->
  ((en = ByMatrix \/ forall k, In k (declared u m) -> In k order) -> run_method t u m order en = Ok) /\
  (en <> ByMatrix -> (exists k, In k (declared u m) /\ ~ In k order) ->
     exists msg, run_method t u m order en = Missed msg).
Proof.
  intros t u Hall m order en Hm Hv.
  pose proof (all_sufficient_ok_sound t u Hall m order en Hm Hv) as H. unfold sufficient_ok in H. split.
  - intro Hsup. destruct en.
    + destruct Hsup as [E|Hs]; [discriminate|]. apply kinds_incl_iff in Hs. rewrite Hs in H. apply outcome_eqb_eq; exact H.
    + destruct Hsup as [E|Hs]; [discriminate|]. apply kinds_incl_iff in Hs. rewrite Hs in H. apply outcome_eqb_eq; exact H.
    + apply outcome_eqb_eq; exact H.
  - intros Hne [k [Hd Hn]].
    assert (Hf : kinds_incl (declared u m) order = false).
    { destruct (kinds_incl (declared u m) order) eqn:E; [|reflexivity].
      exfalso. apply Hn. eapply kinds_incl_iff; eauto. }
    destruct en; try (exfalso; apply Hne; reflexivity); rewrite Hf in H;
      destruct (run_method t u m order _) eqn:Eo; simpl in H; try discriminate; eauto.
Qed.

Lemma sufficient_at : forall m order en, In m (u_methods uses_gen) -> valid_chain order en ->
  sufficient_ok chain_gen uses_gen m order en = true.
Proof. exact (all_sufficient_ok_sound chain_gen uses_gen all_sufficient_ok_gen). Qed.

Theorem declared_sufficient_proof : forall m order en, In m (u_methods uses_gen) -> valid_chain order en ->
  (en = ByMatrix \/ forall k, In k (declared uses_gen m) -> In k order) ->
  run_method chain_gen uses_gen m order en = Ok.
Proof.
  intros m order en Hm Hv Hsup. pose proof (sufficient_at m order en Hm Hv) as H. unfold sufficient_ok in H.
  destruct en.
  - destruct Hsup as [E|Hs]; [discriminate|]. apply kinds_incl_iff in Hs. rewrite Hs in H. apply outcome_eqb_eq; exact H.
  - destruct Hsup as [E|Hs]; [discriminate|]. apply kinds_incl_iff in Hs. rewrite Hs in H. apply outcome_eqb_eq; exact H.
  - apply outcome_eqb_eq; exact H.
Qed.

Theorem missing_declared_refused_proof : forall m order en, In m (u_methods uses_gen) -> valid_chain order en ->
  en <> ByMatrix -> (exists k, In k (declared uses_gen m) /\ ~ In k order) ->
  exists msg, run_method chain_gen uses_gen m order en = Missed msg.
Proof.
  intros m order en Hm Hv Hne [k [Hd Hn]]. pose proof (sufficient_at m order en Hm Hv) as H. unfold sufficient_ok in H.
  assert (Hf : kinds_incl (declared uses_gen m) order = false).
  { destruct (kinds_incl (declared uses_gen m) order) eqn:E; [|reflexivity].
    exfalso. apply Hn. eapply kinds_incl_iff; eauto. }
  destruct en; try (exfalso; apply Hne; reflexivity); rewrite Hf in H;
    destruct (run_method chain_gen uses_gen m order _) eqn:Eo; simpl in H; try discriminate; eauto.
Qed.

(* ------------------------------------------------------------------ who may be called *)
Definition call_allowed (u : uses_tables) (m : method_decl) (order : list kind) (en : entry) (c : kind * string)
  : bool :=
  let (k, f) := c in
  (* only objects the caller supplied (or tapkee's own eigen callbacks in the matrix form) ... *)
  (entry_eqb en ByMatrix || kmem k order) &&
  (* ... only of declared kinds, except that the base constructor asks a supplied features callback for
     its dimension ... *)
  (kmem k (declared u m) || (kind_eqb k Feat && String.eqb f "dimension")) &&
  (* ... and only through the member function of its own role *)
  (String.eqb f (role_function k) || (kind_eqb k Feat && String.eqb f "dimension")).

Definition all_calls_allowed (t : chain_tables) (u : uses_tables) : bool :=
  forallb (fun m =>
    forallb (fun o => forallb (fun en =>
      if valid_chainb o en then forallb (call_allowed u m o en) (may_call t u m o en) else true) all_entries)
      all_orders) (u_methods u).

Lemma all_calls_allowed_gen : all_calls_allowed chain_gen uses_gen = true.
Proof. vm_compute. reflexivity. Qed.

Lemma call_allowed_sound : forall u m order en k f, call_allowed u m order en (k, f) = true ->
  (en = ByMatrix \/ In k order) /\
  (In k (declared u m) \/ (k = Feat /\ f = "dimension")) /\
  (f = role_function k \/ (k = Feat /\ f = "dimension")).
Proof.
  intros u m order en k f H. unfold call_allowed in H.
  apply andb_true_iff in H as [H12 H3]. apply andb_true_iff in H12 as [H1 H2].
  split; [|split].
  - apply orb_true_iff in H1 as [H1|H1]; [left; destruct en; try discriminate; reflexivity | right; apply kmem_In; exact H1].
  - apply orb_true_iff in H2 as [H2|H2]; [left; apply kmem_In; exact H2|].
    right. apply andb_true_iff in H2 as [Ha Hb]. apply kind_eqb_eq in Ha. apply String.eqb_eq in Hb. auto.
  - apply orb_true_iff in H3 as [H3|H3]; [left; apply String.eqb_eq; exact H3|].
    right. apply andb_true_iff in H3 as [Ha Hb]. apply kind_eqb_eq in Ha. apply String.eqb_eq in Hb. auto.
Qed.

Lemma all_calls_allowed_sound : forall t u, all_calls_allowed t u = true ->
  forall m order en c, In m (u_methods u) -> valid_chain order en -> In c (may_call t u m order en) ->
  call_allowed u m order en c = true.
Proof.
  intros t u H m order en c Hm Hv Hin. unfold all_calls_allowed in H.
  rewrite forallb_forall in H. specialize (H m Hm).
  pose proof (over_all_chains (fun o e => forallb (call_allowed u m o e) (may_call t u m o e)) H order en Hv) as H'.
  cbv beta in H'. rewrite forallb_forall in H'. exact (H' c Hin).
Qed.

Theorem only_declared_called_proof : forall m order en k f, In m (u_methods uses_gen) -> valid_chain order en ->
  In (k, f) (may_call chain_gen uses_gen m order en) ->
  (en = ByMatrix \/ In k order) /\
  (In k (declared uses_gen m) \/ (k = Feat /\ f = "dimension")) /\
  (f = role_function k \/ (k = Feat /\ f = "dimension")).
Proof.
  intros m order en k f Hm Hv Hin. apply call_allowed_sound.
  exact (all_calls_allowed_sound chain_gen uses_gen all_calls_allowed_gen m order en (k, f) Hm Hv Hin).
Qed.

(* ------------------------------------------------------------------ callback classes, dereference sites *)
Lemma find_class3_In : forall cs n mk ms, find_class3 cs n = Some (mk, ms) -> In (n, mk, ms) cs.
Proof.
  induction cs as [|[[c mk0] ms0] r IH]; intros n mk ms H; simpl in H; [discriminate|].
  destruct (String.eqb c n) eqn:E.
  - inversion H; subst. apply String.eqb_eq in E. subst. left; reflexivity.
  - right. apply IH; exact H.
Qed.

(* generic: what the decider says, for every table *)
Lemma callback_classes_ok_sound : forall u, callback_classes_ok u = true ->
  (forall k, exists ms, In (dummy_class k, true, ms) (u_callback_classes u) /\ ms <> [] /\
                        forall f th, In (f, th) ms -> th = true) /\
  (forall n mk ms, In (n, mk, ms) (u_callback_classes u) -> starts_with "dummy_" n = false ->
                   mk = false /\ forall f th, In (f, th) ms -> th = false).
Proof.
  intros u H. unfold callback_classes_ok in H. apply andb_true_iff in H as [H1 H2]. split.
  - intro k. rewrite forallb_forall in H1.
    assert (Hk : In k all_kinds) by (destruct k; simpl; auto). specialize (H1 k Hk).
    destruct (find_class3 (u_callback_classes u) (dummy_class k)) as [[mk ms]|] eqn:E; [|discriminate].
    destruct mk; [|discriminate]. apply andb_true_iff in H1 as [Hne Hall].
    exists ms. split; [apply find_class3_In; exact E|]. split.
    + destruct ms; [discriminate | discriminate].
    + intros f th Hin. rewrite forallb_forall in Hall. exact (Hall (f, th) Hin).
  - intros n mk ms Hin Hnd. rewrite forallb_forall in H2. specialize (H2 (n, mk, ms) Hin). simpl in H2.
    rewrite Hnd in H2. apply andb_true_iff in H2 as [Hm Hall]. split.
    + destruct mk; [discriminate | reflexivity].
    + intros f th Hf. rewrite forallb_forall in Hall. specialize (Hall (f, th) Hf). simpl in Hall.
      destruct th; [discriminate | reflexivity].
Qed.

Lemma callback_classes_ok_gen : callback_classes_ok uses_gen = true.
Proof. vm_compute. reflexivity. Qed.

Theorem dummies_marked_and_throw_proof :
  (forall k, exists ms, In (dummy_class k, true, ms) (u_callback_classes uses_gen) /\ ms <> [] /\
                        forall f th, In (f, th) ms -> th = true) /\
  (forall n mk ms, In (n, mk, ms) (u_callback_classes uses_gen) -> starts_with "dummy_" n = false ->
                   mk = false /\ forall f th, In (f, th) ms -> th = false).
Proof. exact (callback_classes_ok_sound uses_gen callback_classes_ok_gen). Qed.

Lemma find_wrapper_In : forall ws w tb, find_wrapper ws w = Some tb -> In (w, tb) ws.
Proof.
  induction ws as [|[n t0] r IH]; intros w tb H; simpl in H; [discriminate|].
  destruct (String.eqb n w) eqn:E.
  - inversion H; subst. apply String.eqb_eq in E. subst. left; reflexivity.
  - right. apply IH; exact H.
Qed.

(* generic: the meaning of the decider for one initialiser  slot := W(e) *)
Lemma wrapper_init_ok_sound : forall u slot w e, wrapper_init_ok u (slot, EWrap w e) = true ->
  exists tb r, In (w, tb) (u_wrappers u) /\ slot_role slot = Some r /\ tb <> [] /\
    forall member calls, In (member, calls) tb -> calls <> [] /\ forall f, In f calls -> f = role_function r.
Proof.
  intros u slot w e H. simpl in H.
  destruct (find_wrapper (u_wrappers u) w) as [tb|] eqn:Ew; [|discriminate].
  destruct (slot_role slot) as [r|] eqn:Er; [|discriminate].
  apply andb_true_iff in H as [H2 H3].
  exists tb, r. split; [apply find_wrapper_In; exact Ew|]. split; [reflexivity|]. split.
  - destruct tb; [discriminate | discriminate].
  - intros member calls Hin. rewrite forallb_forall in H3. specialize (H3 (member, calls) Hin). simpl in H3.
    apply andb_true_iff in H3 as [Hne Hall]. split.
    + destruct calls; [discriminate | discriminate].
    + intros f Hf. rewrite forallb_forall in Hall. specialize (Hall f Hf). apply String.eqb_eq in Hall. auto.
Qed.

Lemma wrappers_ok_gen : wrappers_ok chain_gen uses_gen = true.
Proof. vm_compute. reflexivity. Qed.

Theorem wrappers_forward_to_own_role_proof : forall c slot w e,
  find_class (t_classes chain_gen) (t_impl_class chain_gen) = Some c ->
  In (slot, EWrap w e) (c_inits c) ->
  exists tb r, In (w, tb) (u_wrappers uses_gen) /\ slot_role slot = Some r /\ tb <> [] /\
    forall member calls, In (member, calls) tb -> calls <> [] /\ forall f, In f calls -> f = role_function r.
Proof.
  intros c slot w e Hc Hin. pose proof wrappers_ok_gen as H. unfold wrappers_ok in H. rewrite Hc in H.
  rewrite forallb_forall in H. specialize (H (slot, EWrap w e) Hin).
  exact (wrapper_init_ok_sound uses_gen slot w e H).
Qed.

Lemma derefs_ok_gen : derefs_ok uses_gen = true.
Proof. vm_compute. reflexivity. Qed.

Theorem deref_only_into_callbacks_proof : forall file snippet into_callback,
  In (file, snippet, into_callback) (u_derefs uses_gen) -> into_callback = true.
Proof.
  intros file snippet b Hin. pose proof derefs_ok_gen as H. unfold derefs_ok in H.
  rewrite forallb_forall in H. exact (H (file, snippet, b) Hin).
Qed.

(* ------------------------------------------------------------------ regression: the tree before the F13 repair *)
Lemma find_method_In : forall ms n m, find_method ms n = Some m -> In m ms /\ md_name m = n.
Proof.
  induction ms as [|x r IH]; intros n m H; simpl in H; [discriminate|].
  destruct (String.eqb (md_name x) n) eqn:E.
  - inversion H; subst. apply String.eqb_eq in E. split; [left; reflexivity | exact E].
  - destruct (IH n m H) as [Hin Hn]. split; [right; exact Hin | exact Hn].
Qed.

Theorem uses_refuted_before_F13_proof :
  exists m, In m (u_methods (uses_before_F13 uses_gen)) /\
    md_name m = "ManifoldSculpting" /\
    declared (uses_before_F13 uses_gen) m = [Feat] /\
    ~ incl (uses chain_gen (uses_before_F13 uses_gen) m) (declared (uses_before_F13 uses_gen) m) /\
    exists slot, run_method chain_gen (uses_before_F13 uses_gen) m [Feat] ByRange = TouchesDummy slot Dist.
Proof.
  assert (H : exists m, find_method (u_methods (uses_before_F13 uses_gen)) "ManifoldSculpting" = Some m /\
      declared (uses_before_F13 uses_gen) m = [Feat] /\
      kinds_incl (uses chain_gen (uses_before_F13 uses_gen) m) (declared (uses_before_F13 uses_gen) m) = false /\
      exists slot, run_method chain_gen (uses_before_F13 uses_gen) m [Feat] ByRange = TouchesDummy slot Dist).
  { eexists. split; [vm_compute; reflexivity|]. split; [vm_compute; reflexivity|].
    split; [vm_compute; reflexivity|]. eexists. vm_compute. reflexivity. }
  destruct H as [m [Hf [Hd [Hi Hr]]]]. exists m.
  destruct (find_method_In _ _ _ Hf) as [Hin Hn].
  split; [exact Hin|]. split; [exact Hn|]. split; [exact Hd|]. split; [|exact Hr].
  intro Hincl. assert (Ht : kinds_incl (uses chain_gen (uses_before_F13 uses_gen) m)
                                       (declared (uses_before_F13 uses_gen) m) = true).
  { apply kinds_incl_iff. exact Hincl. }
  rewrite Hi in Ht. discriminate.
Qed.

(* ------------------------------------------------------------------ non-vacuity witnesses (searched, not positional:
   they survive a reordering of the method table or of the initialiser list) *)
Definition is_nil {A} (l : list A) : bool := match l with [] => true | _ => false end.

Lemma kinds_incl_false : forall a b, kinds_incl a b = false -> exists k, In k a /\ ~ In k b.
Proof.
  induction a as [|x r IH]; intros b H; simpl in H; [discriminate|].
  destruct (kmem x b) eqn:E; simpl in H.
  - destruct (IH b H) as [k [Hk Hn]]. exists k. split; [right; exact Hk | exact Hn].
  - exists x. split; [left; reflexivity|]. intro Hin. apply kmem_In in Hin. rewrite Hin in E. discriminate.
Qed.

Lemma full_order_valid : valid_chain [Kern; Dist; Feat] ByRange.
Proof. split; [repeat constructor; simpl; intuition discriminate | split; discriminate]. Qed.

Lemma single_order_valid : forall k, valid_chain [k] ByRange.
Proof. intro k. split; [repeat constructor; simpl; tauto | split; discriminate]. Qed.

Lemma witness_uses : exists m, In m (u_methods uses_gen) /\ uses chain_gen uses_gen m <> [].
Proof.
  assert (H : existsb (fun m => negb (is_nil (uses chain_gen uses_gen m))) (u_methods uses_gen) = true)
    by (vm_compute; reflexivity).
  apply existsb_exists in H as [m [Hm Hb]]. exists m. split; [exact Hm|].
  intro E. rewrite E in Hb. discriminate.
Qed.

Lemma witness_sufficient : exists m order,
  In m (u_methods uses_gen) /\ valid_chain order ByRange /\ (forall k, In k (declared uses_gen m) -> In k order).
Proof.
  destruct (u_methods uses_gen) as [|m r] eqn:E; [vm_compute in E; discriminate|].
  exists m, [Kern; Dist; Feat]. split; [left; reflexivity|]. split; [exact full_order_valid|].
  intros k _. destruct k; simpl; auto.
Qed.

Lemma witness_missing : exists m order,
  In m (u_methods uses_gen) /\ valid_chain order ByRange /\ ByRange <> ByMatrix /\
  (exists k, In k (declared uses_gen m) /\ ~ In k order).
Proof.
  assert (H : existsb (fun m => negb (kinds_incl (declared uses_gen m) [Kern]) ||
                               negb (kinds_incl (declared uses_gen m) [Dist])) (u_methods uses_gen) = true)
    by (vm_compute; reflexivity).
  apply existsb_exists in H as [m [Hm Hb]]. exists m.
  apply orb_true_iff in Hb as [Hb|Hb]; apply negb_true_iff in Hb; apply kinds_incl_false in Hb.
  - exists [Kern]. split; [exact Hm|]. split; [apply single_order_valid|]. split; [discriminate | exact Hb].
  - exists [Dist]. split; [exact Hm|]. split; [apply single_order_valid|]. split; [discriminate | exact Hb].
Qed.

Lemma witness_ok : exists m slots, In m (u_methods uses_gen) /\ run_method_on uses_gen m slots = Ok.
Proof.
  destruct (reach chain_gen [Kern; Dist; Feat] ByRange) as [cls slots| | |] eqn:E; try (vm_compute in E; discriminate).
  assert (H : existsb (fun m => outcome_eqb (run_method chain_gen uses_gen m [Kern; Dist; Feat] ByRange) Ok)
                      (u_methods uses_gen) = true) by (vm_compute; reflexivity).
  apply existsb_exists in H as [m [Hm Hb]]. exists m, slots. split; [exact Hm|].
  apply outcome_eqb_eq in Hb. unfold run_method in Hb. rewrite E in Hb. exact Hb.
Qed.

Lemma witness_called : exists m c,
  In m (u_methods uses_gen) /\ In c (may_call chain_gen uses_gen m [Kern; Dist; Feat] ByRange).
Proof.
  assert (H : existsb (fun m => negb (is_nil (may_call chain_gen uses_gen m [Kern; Dist; Feat] ByRange)))
                      (u_methods uses_gen) = true) by (vm_compute; reflexivity).
  apply existsb_exists in H as [m [Hm Hb]]. exists m.
  destruct (may_call chain_gen uses_gen m [Kern; Dist; Feat] ByRange) as [|c r]; [discriminate|].
  exists c. split; [exact Hm | left; reflexivity].
Qed.

Lemma witness_derefs : u_derefs uses_gen <> [] /\ u_deref_files uses_gen <> [].
Proof. split; vm_compute; discriminate. Qed.

Definition is_wrap_init (i : string * expr) : bool := match i with (_, EWrap _ _) => true | _ => false end.

Lemma witness_wrappers : exists c slot w e,
  find_class (t_classes chain_gen) (t_impl_class chain_gen) = Some c /\ In (slot, EWrap w e) (c_inits c).
Proof.
  destruct (find_class (t_classes chain_gen) (t_impl_class chain_gen)) as [c|] eqn:E; [|vm_compute in E; discriminate].
  assert (H : existsb is_wrap_init (c_inits c) = true).
  { revert E. vm_compute. intro E. inversion E. reflexivity. }
  apply existsb_exists in H as [[slot e] [Hin Hb]].
  destruct e; try discriminate. exists c, slot, w, e. split; [reflexivity | exact Hin].
Qed.
