(* ====================================================================== *)
(*  Proj_Model.v — executable model of tapkee's projection machinery (C07) *)
(*  mirrors, step by step,                                                 *)
(*    routines/pca.hpp   compute_mean, project                             *)
(*    projection.hpp     MatrixProjectionImplementation::project,          *)
(*                       ProjectingFunction, unimplementedProjectingFunction*)
(*    methods/{pca,random_projection,neighborhood_preserving_embedding,    *)
(*             linear_local_tangent_space_alignment,                       *)
(*             locality_preserving_projections}.hpp   the tail of embed(): *)
(*         mean_vector = compute_mean(begin, end, features, dim);          *)
(*         projecting_function(new MatrixProjectionImplementation(P, mean)) *)
(*         return TapkeeOutput(project(P, mean, begin, end, features, dim), *)
(*                             projecting_function);                       *)
(*  Algebra regime (DESIGN 1.1): abstract field operations, run at Qc.     *)
(*  The projection matrix P is whatever the method computed before (eigen   *)
(*  oracle, Gaussian stream): an INPUT of this model.                      *)
(*  Samples: X i t = feature t of sample i (what callback.vector(i, .)     *)
(*  writes); lists: one inner list per sample.  P: D rows, d columns.      *)
(*  Eigen asserts on a size mismatch (undefined behaviour with NDEBUG);    *)
(*  the list models return the distinguished `PDim site got want` then.    *)
(*  NO proofs in this file.                                                *)
(* ====================================================================== *)
Require Import Arith List Bool.
From TK Require Import Mat_Sums Mat_Core.
Import ListNotations.

Inductive pres (A : Type) : Type :=
| POk (a : A)
| PDim (site got want : nat).   (* a size mismatch Eigen would assert on *)
Arguments POk {A} a.
Arguments PDim {A} site got want.

Section ProjModel.
  Context {F : Type} {Fo : FieldOps F}.
  Local Open Scope F_scope.

  (* ---------------- function level (what the theorems are about) -------- *)
  (* compute_mean: (sum of the samples) / (end - begin) *)
  Definition mean_vec (N : nat) (X : mat F) : vec F :=
    fun t => sumn N (fun i => X i t) / of_nat N.

  (* MatrixProjectionImplementation::project:  proj_mat.transpose() * (vec - mean_vec) *)
  Definition mpi_project (D : nat) (P : mat F) (m x : vec F) : vec F :=
    fun c => sumn D (fun t => P t c * (x t - m t)).

  (* routines/pca.hpp project(): row (iter - begin) = P^T * (current_vector - mean_vector) *)
  Definition project_mat (D : nat) (P : mat F) (m : vec F) (X : mat F) : mat F :=
    fun i c => sumn D (fun t => P t c * (X i t - m t)).

  (* ---------------- list level (the loops, as executed) ---------------- *)
  Fixpoint zip_add (a b : list F) : list F :=
    match a, b with
    | x :: a', y :: b' => (x + y) :: zip_add a' b'
    | _, _ => []
    end.
  Fixpoint zip_sub (a b : list F) : list F :=
    match a, b with
    | x :: a', y :: b' => (x - y) :: zip_sub a' b'
    | _, _ => []
    end.

  (* for (iter = begin; iter != end; ++iter) { callback.vector( *iter, cur); mean += cur; } *)
  Fixpoint mean_acc (D : nat) (acc : list F) (Xs : list (list F)) : pres (list F) :=
    match Xs with
    | [] => POk acc
    | x :: r =>
        if Nat.eqb (length x) D then mean_acc D (zip_add acc x) r
        else PDim 1 (length x) D
    end.

  (* DenseVector mean = Zero(dimension); <loop>; mean.array() /= (end - begin); *)
  Definition compute_mean_exec (D : nat) (Xs : list (list F)) : pres (list F) :=
    match mean_acc D (repeat 0 D) Xs with
    | POk s => POk (map (fun a => a / of_nat (length Xs)) s)
    | PDim a b c => PDim a b c
    end.

  (* P^T * v  for P given as D rows of d entries *)
  Definition ptrans_mul (D d : nat) (P : list (list F)) (v : list F) : list F :=
    tab d (fun c => sumn D (fun t => mof P t c * vof v t)).

  (* MatrixProjectionImplementation(P, m).project(x) *)
  Definition mpi_project_exec (D d : nat) (P : list (list F)) (m x : list F) : pres (list F) :=
    if negb (wf_matb D d P) then PDim 2 (length P) D
    else if negb (Nat.eqb (length m) D) then PDim 3 (length m) D
    else if negb (Nat.eqb (length x) D) then PDim 4 (length x) D
    else POk (ptrans_mul D d P (zip_sub x m)).

  (* project(P, m, begin, end, callback, dimension):
       embedding = Zero(end - begin, P.cols());
       for iter: callback.vector( *iter, cur); sub = cur - m; embedding.row(iter-begin) = P^T * sub *)
  Fixpoint project_rows (D d : nat) (P : list (list F)) (m : list F) (Xs : list (list F))
    : pres (list (list F)) :=
    match Xs with
    | [] => POk []
    | x :: r =>
        if negb (Nat.eqb (length x) D) then PDim 4 (length x) D
        else match project_rows D d P m r with
             | POk rows => POk (ptrans_mul D d P (zip_sub x m) :: rows)
             | PDim a b c => PDim a b c
             end
    end.

  Definition project_exec (D d : nat) (P : list (list F)) (m : list F) (Xs : list (list F))
    : pres (list (list F)) :=
    if negb (wf_matb D d P) then PDim 2 (length P) D
    else if negb (Nat.eqb (length m) D) then PDim 3 (length m) D
    else project_rows D d P m Xs.

  (* ---------------- the value a method returns ---------------- *)
  (* ProjectingFunction: a shared_ptr that is null (default constructor, what
     unimplementedProjectingFunction() returns) or owns a MatrixProjectionImplementation *)
  Inductive projecting_function : Type :=
  | PFNone
  | PFMatrix (proj_mat : list (list F)) (mean_vec : list F).

  (* ProjectingFunction::operator(): implementation->project(vec); a null implementation is
     a null-pointer dereference, modelled as None *)
  Definition pf_apply (D d : nat) (pf : projecting_function) (x : list F) : option (pres (list F)) :=
    match pf with
    | PFNone => None
    | PFMatrix P m => Some (mpi_project_exec D d P m x)
    end.

  (* tail of embed() of the five projecting methods (P computed before, in whatever way) *)
  Definition projecting_embed_tail (D d : nat) (P : list (list F)) (Xs : list (list F))
    : pres (list (list F) * projecting_function) :=
    match compute_mean_exec D Xs with
    | PDim a b c => PDim a b c
    | POk mean_vector =>
        let projecting_function := PFMatrix P mean_vector in
        match project_exec D d P mean_vector Xs with
        | PDim a b c => PDim a b c
        | POk embedding => POk (embedding, projecting_function)
        end
    end.

  (* ---------------- the iterator range [begin, end) ---------------- *)
  (* [begin, end) is a sequence of SAMPLE IDS (any sub-range, offset block or permutation of the
     caller's data set, not necessarily 0..n-1); every loop above is
        for (iter = begin; iter != end; ++iter) { callback.vector( *iter, cur); ... row (iter - begin) ... }
     so the k-th sample processed is feature vector number ids[k] of the data set `Xall`.  An id
     outside the data set is an out-of-bounds read of the caller's storage: distinguished result
     `PDim 5 id (length Xall)`, never a default vector. *)
  Fixpoint gather_exec (Xall : list (list F)) (ids : list nat) : pres (list (list F)) :=
    match ids with
    | [] => POk []
    | id :: r =>
        match nth_error Xall id with
        | None => PDim 5 id (length Xall)
        | Some x =>
            match gather_exec Xall r with
            | POk rows => POk (x :: rows)
            | PDim a b c => PDim a b c
            end
        end
    end.

  Definition compute_mean_range (D : nat) (Xall : list (list F)) (ids : list nat) : pres (list F) :=
    match gather_exec Xall ids with
    | POk Xs => compute_mean_exec D Xs
    | PDim a b c => PDim a b c
    end.

  Definition project_range (D d : nat) (P : list (list F)) (m : list F)
             (Xall : list (list F)) (ids : list nat) : pres (list (list F)) :=
    match gather_exec Xall ids with
    | POk Xs => project_exec D d P m Xs
    | PDim a b c => PDim a b c
    end.

  Definition projecting_embed_tail_range (D d : nat) (P : list (list F))
             (Xall : list (list F)) (ids : list nat) : pres (list (list F) * projecting_function) :=
    match gather_exec Xall ids with
    | POk Xs => projecting_embed_tail D d P Xs
    | PDim a b c => PDim a b c
    end.

  (* ---------------- project() computed block by block ---------------- *)
  (* a rewrite of the loop of project() that handles the samples in consecutive blocks
     (any block sizes; e.g. to turn the work into matrix-matrix products) *)
  Fixpoint project_blocks (D d : nat) (P : list (list F)) (m : list F) (blocks : list (list (list F)))
    : pres (list (list F)) :=
    match blocks with
    | [] => POk []
    | b :: r =>
        match project_rows D d P m b with
        | PDim a b' c => PDim a b' c
        | POk rows =>
            match project_blocks D d P m r with
            | POk rest => POk (rows ++ rest)
            | PDim a b' c => PDim a b' c
            end
        end
    end.

  (* scaling of lists (used to STATE scale equivariance at the level of the executed loops) *)
  Definition lscale (s : F) (l : list F) : list F := map (fun a => s * a) l.
  Definition mlscale (s : F) (L : list (list F)) : list (list F) := map (lscale s) L.

  (* ---------------- the "hoisted mean" rewrite (NOT the shipped code) ---------------- *)
  (* a rewrite of MatrixProjectionImplementation that precomputes projected_mean = P^T * mean in the
     constructor and evaluates project(x) = P^T * x - projected_mean.  Modelled so that the theorem
     `project_hoisted_mean_equal` can say what such a rewrite is over an exact field (the same function)
     and hence where it can differ from the shipped expression: only in rounding, by eps*|P|^T(|x|+|m|),
     which is NOT relative to the output |P|^T|x - m| (data with a large common offset). *)
  Definition mpi_project_hoisted (D : nat) (P : mat F) (m x : vec F) : vec F :=
    fun c => sumn D (fun t => P t c * x t) - sumn D (fun t => P t c * m t).

  Definition mpi_project_hoisted_exec (D d : nat) (P : list (list F)) (m x : list F) : pres (list F) :=
    if negb (wf_matb D d P) then PDim 2 (length P) D
    else if negb (Nat.eqb (length m) D) then PDim 3 (length m) D
    else if negb (Nat.eqb (length x) D) then PDim 4 (length x) D
    else POk (zip_sub (ptrans_mul D d P x) (ptrans_mul D d P m)).

  (* translation of lists (used to STATE offset invariance at the level of the executed loops):
     every sample moved by the same offset vector o *)
  Definition ltrans (o l : list F) : list F := zip_add l o.
  Definition mltrans (o : list F) (L : list (list F)) : list (list F) := map (ltrans o) L.

  (* tail of embed() of the other fifteen *)
  Definition nonprojecting_embed_tail (embedding : list (list F))
    : pres (list (list F) * projecting_function) :=
    POk (embedding, PFNone).

  (* ---------------- wave 4: the returned implementation as an OBJECT shared by all copies ---------------- *)
  (* ProjectingFunction / TapkeeOutput copies share ONE MatrixProjectionImplementation through a shared_ptr.  An
     application may apply its copies from several threads at once; a call is then a sequence of atomic steps on
     (the object's members, the call's own locals), and calls interleave (model: `run` below).
     Shipped code: project() reads proj_mat / mean_vec and writes nothing: one step, the members are left as they
     are (what the generated table gen/Proj.v `mpi_purity` records: no non-local write, no static, no mutable).
     The "preallocated member buffer" rewrite (NOT the shipped code) has a third member centered_vec and two
     steps: centered_vec = vec - mean_vec;  return proj_mat.transpose() * centered_vec. *)
  Record mpi_object : Type := { ob_P : list (list F); ob_m : list F; ob_buf : list F }.

  (* the local state of a call: its argument and, at the end, its result *)
  Record call_local : Type := { cl_arg : list F; cl_result : option (list F) }.

  Definition shipped_call (D d : nat) : list (mpi_object -> call_local -> mpi_object * call_local) :=
    [fun o l => (o, {| cl_arg := cl_arg l;
                       cl_result := Some (ptrans_mul D d (ob_P o) (zip_sub (cl_arg l) (ob_m o))) |})].

  Definition buffered_call (D d : nat) : list (mpi_object -> call_local -> mpi_object * call_local) :=
    [fun o l => ({| ob_P := ob_P o; ob_m := ob_m o; ob_buf := zip_sub (cl_arg l) (ob_m o) |}, l);
     fun o l => (o, {| cl_arg := cl_arg l; cl_result := Some (ptrans_mul D d (ob_P o) (ob_buf o)) |})].

End ProjModel.

(* ---------------- interleaved execution of calls on a shared object (any state types) ---------------- *)
Section Interleave.
  Variables (S L : Type).

  Record thread : Type := { t_prog : list (S -> L -> S * L); t_loc : L }.

  Definition step_thread (s : S) (t : thread) : S * thread :=
    match t_prog t with
    | [] => (s, t)
    | f :: r => (fst (f s (t_loc t)), {| t_prog := r; t_loc := snd (f s (t_loc t)) |})
    end.

  Fixpoint set_nth {A : Type} (l : list A) (i : nat) (a : A) : list A :=
    match l, i with
    | [], _ => []
    | _ :: r, 0 => a :: r
    | x :: r, Datatypes.S j => x :: set_nth r j a
    end.

  (* the schedule names, step by step, the thread that moves next (a name outside the team is skipped) *)
  Fixpoint run (sched : list nat) (s : S) (ts : list thread) : S * list thread :=
    match sched with
    | [] => (s, ts)
    | i :: r =>
        match nth_error ts i with
        | None => run r s ts
        | Some t => run r (fst (step_thread s t)) (set_nth ts i (snd (step_thread s t)))
        end
    end.

  (* the same thread running alone for n steps *)
  Fixpoint run_alone (n : nat) (s : S) (t : thread) : S * thread :=
    match n with
    | 0 => (s, t)
    | Datatypes.S k => run_alone k (fst (step_thread s t)) (snd (step_thread s t))
    end.
End Interleave.

Arguments t_prog {S L} _.
Arguments t_loc {S L} _.
Arguments Build_thread {S L} _ _.
Arguments step_thread {S L} _ _.
Arguments run {S L} _ _ _.
Arguments run_alone {S L} _ _ _.

Arguments projecting_function F : clear implicits.
Arguments mpi_object F : clear implicits.
Arguments call_local F : clear implicits.
