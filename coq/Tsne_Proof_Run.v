(* Tsne_Proof_Run.v — "... and symmetrises them into a joint distribution that sums to one", Barnes-Hut branch:
   whatever the stored values are, after the normalisation loop of run() they sum to one (if their sum is not
   zero; with sparse_symmetrise the stored values are those of (P + P^T)/2). *)
From Coq Require Import List QArith Lqa.
From TK Require Import Tsne_Run_Model Tsne_Proof_Perp.
Import ListNotations.
Local Open Scope Q_scope.

Theorem sparse_normalise_sums_to_one_thm : forall vals,
  ~ sparse_total vals == 0 -> sparse_total (sparse_normalise vals) == 1.
Proof.
  intros vals Hs. unfold sparse_normalise, sparse_total in *. cbv zeta.
  rewrite fold_left_qsum. rewrite fold_left_qsum in Hs.
  rewrite qsum_map_div.
  - rewrite fold_left_qsum. field. intros H. apply Hs. rewrite H. reflexivity.
  - rewrite fold_left_qsum. exact Hs.
Qed.

(* entries keep their proportions: symmetric stays symmetric, zero stays zero *)
Theorem sparse_normalise_entry_thm : forall vals i v,
  nth_error vals i = Some v -> nth_error (sparse_normalise vals) i = Some (v / sparse_total vals).
Proof.
  intros vals i v H. unfold sparse_normalise. cbv zeta. rewrite nth_error_map, H. reflexivity.
Qed.

Example sparse_normalise_nonvacuous : ~ sparse_total [1 # 4; 1 # 4; 1 # 2] == 0.
Proof. intros H. vm_compute in H. discriminate. Qed.
