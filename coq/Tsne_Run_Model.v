(* Tsne_Run_Model.v — the normalisation of the sparse joint similarities in TSNE::run (Barnes-Hut branch),
   after symmetrizeMatrix.  No proofs here.
       ScalarType sum_P = .0;
       for (int i = 0; i < row_P[N]; i++) sum_P += val_P[i];
       for (int i = 0; i < row_P[N]; i++) val_P[i] /= sum_P;
   Numbers: Q (exact); the sum is the left fold from 0 in storage order, as the loop. *)
From Coq Require Import List QArith.
Import ListNotations.
Local Open Scope Q_scope.

Definition sparse_total (vals : list Q) : Q := fold_left Qplus vals 0.

Definition sparse_normalise (vals : list Q) : list Q :=
  let s := sparse_total vals in map (fun v => v / s) vals.
