(* ====================================================================== *)
(*  Lle_Proof_Scale.v — C08 does not depend on the unit of length          *)
(*  (wave 2: seeded change C08_1 replaced KLLE's relative regulariser      *)
(*  trace_shift * trace by max(trace_shift * trace, 1e-10))                *)
(*                                                                         *)
(*  kscale c kern = the kernel table multiplied by c (data multiplied by   *)
(*  sqrt c for a linear kernel).                                           *)
(*    lle_C_reg_scale        the system ldlt() sees scales by c            *)
(*    lle_gram_seen_scale    ... at the level of the per-thread buffer     *)
(*    lle_weight_row_scale   the sum-to-one weight rows (solutions of      *)
(*                           C_reg x = 1, normalised) are THE SAME for     *)
(*                           kern and for c * kern  (c <> 0, both ways)    *)
(*    center_matrix_scale, local_centered_gram_scale                       *)
(*                           the matrix the local eigensolver sees scales  *)
(*    eig_contract_scale     (E, lam) meets the solver contract for B iff  *)
(*                           (E, c lam) meets it for c B                   *)
(*    local_contract_scale   hence the same eigenvector matrices E i are   *)
(*                           valid oracle answers for kern and c * kern;   *)
(*                           ltsa_model / hlle_model take nothing else     *)
(*                           from the data, so their matrices are equal    *)
(*  and, for the curved-HLLE exact stream of the check:                    *)
(*    diag_cov_eigvec        B = Xc Xc^T with diagonal covariance Xc^T Xc  *)
(*                           = diag s  ->  B (Xc e_t) = s_t (Xc e_t): the  *)
(*                           centred coordinate columns ARE eigenvectors   *)
(*  The check runs the entrywise and the end-to-end streams on copies of   *)
(*  its inputs scaled by 2^-60 .. 2^60 (exact in binary64): by these       *)
(*  theorems the property's matrix is unchanged, so any absolute threshold *)
(*  in the routines is a concrete mismatch.                                *)
(* ====================================================================== *)
Require Import Field Ring Arith Lia List Bool.
From TK Require Import Mat_Sums Mat_Core Lle_Model Lle_Spec Lle_Proof_Triplets Lle_Proof_Lle.
Import ListNotations.

Section Scale.
  Context {F : Type} {Fo : FieldOps F} {Ff : IsField F}.
  Add Field LleScaleField : (@Fth F Fo Ff).
  Local Open Scope F_scope.
  Local Notation vec := (Mat_Core.vec F).
  Local Notation mat := (Mat_Core.mat F).

  Definition kscale (c : F) (kern : mat) : mat := fun a b => c * kern a b.

  Lemma fdiv_def (x y : F) : x / y = x * / y.
  Proof. apply (Fdiv_def (@Fth F Fo Ff)). Qed.

  (* ---------------- KLLE ---------------- *)
  Lemma lle_C_scale c (kern : mat) nb i a b :
    lle_C (kscale c kern) nb i a b = c * lle_C kern nb i a b.
  Proof. unfold lle_C, kscale. ring. Qed.

  Lemma lle_C_reg_scale k c (kern : mat) ts nb i a b :
    lle_C_reg k (kscale c kern) ts nb i a b = c * lle_C_reg k kern ts nb i a b.
  Proof.
    unfold lle_C_reg. rewrite lle_C_scale.
    rewrite (sumn_ext k (fun t => lle_C (kscale c kern) nb i t t) (fun t => c * lle_C kern nb i t t))
      by (intros; apply lle_C_scale).
    rewrite sumn_mul_l. destruct (Nat.eqb a b); ring.
  Qed.

  (* the buffer ldlt() reads, whatever it held before in either run *)
  Lemma lle_gram_seen_scale k c (kern : mat) ts nb i (prev prev' : mat) a b :
    (forall a b, a < k -> b < k -> kern (nb a) (nb b) = kern (nb b) (nb a)) ->
    a < k -> b < k ->
    read_upper (lle_gram k (kscale c kern) ts nb i prev') a b =
    c * read_upper (lle_gram k kern ts nb i prev) a b.
  Proof.
    intros Hsym Ha Hb.
    rewrite (lle_gram_seen k kern ts nb i prev a b Hsym Ha Hb).
    rewrite (lle_gram_seen k (kscale c kern) ts nb i prev' a b); try assumption.
    - apply lle_C_reg_scale.
    - intros a' b' Ha' Hb'. unfold kscale. rewrite (Hsym a' b' Ha' Hb'). reflexivity.
  Qed.

  (* the property's weight row of sample i: a solution of the regularised local system,
     normalised to sum one *)
  Definition lle_weight_row (k : nat) (kern : mat) (ts : F) (nb : nat -> nat) (i : nat) (w : vec) : Prop :=
    exists x : vec,
      (forall a, a < k -> mv k (lle_C_reg k kern ts nb i) x a = 1) /\
      sumn k x <> 0 /\
      (forall a, a < k -> w a = x a / sumn k x).

  Lemma sumn_div k (x : vec) c : sumn k (fun t => x t / c) = sumn k x / c.
  Proof.
    rewrite (sumn_ext k _ (fun t => x t * / c)) by (intros; apply fdiv_def).
    rewrite sumn_mul_r. symmetry. apply fdiv_def.
  Qed.

  Theorem lle_weight_row_scale k c (kern : mat) ts nb i (w : vec) :
    c <> 0 ->
    (lle_weight_row k kern ts nb i w <-> lle_weight_row k (kscale c kern) ts nb i w).
  Proof.
    intros Hc. split.
    - intros [x [Hx [Hs Hw]]]. exists (fun t => x t / c). split; [|split].
      + intros a Ha. rewrite <- (Hx a Ha). unfold mv. apply sumn_ext. intros t _.
        rewrite lle_C_reg_scale. field. exact Hc.
      + rewrite sumn_div. intros K. apply Hs.
        replace (sumn k x) with (sumn k x / c * c) by (field; exact Hc). rewrite K. ring.
      + intros a Ha. rewrite (Hw a Ha), sumn_div. field. split; assumption.
    - intros [x [Hx [Hs Hw]]]. exists (fun t => c * x t). split; [|split].
      + intros a Ha. rewrite <- (Hx a Ha). unfold mv. apply sumn_ext. intros t _.
        rewrite lle_C_reg_scale. ring.
      + rewrite sumn_mul_l. intros K. apply Hs.
        replace (sumn k x) with (c * sumn k x / c) by (field; exact Hc). rewrite K. field. exact Hc.
      + intros a Ha. rewrite (Hw a Ha), sumn_mul_l. field. split; assumption.
  Qed.

  (* ---------------- KLTSA / HLLE: the local eigenproblem ---------------- *)
  Lemma local_gram_scale c (kern : mat) nb a b :
    local_gram (kscale c kern) nb a b = c * local_gram kern nb a b.
  Proof. unfold local_gram, read_upper, kscale. destruct (Nat.leb a b); reflexivity. Qed.

  Lemma center_matrix_scale k c (M M' : mat) i j :
    (forall a b, a < k -> b < k -> M' a b = c * M a b) -> i < k -> j < k ->
    center_matrix k M' i j = c * center_matrix k M i j.
  Proof.
    intros H Hi Hj. unfold center_matrix, grandmean, colmean, totsum, colsum.
    rewrite (H i j Hi Hj).
    rewrite (sumn_ext k (fun a => sumn k (fun b => M' a b)) (fun a => c * sumn k (fun b => M a b))).
    2:{ intros a Ha. rewrite <- sumn_mul_l. apply sumn_ext. intros b Hb. apply H; assumption. }
    rewrite (sumn_ext k (fun a => M' a j) (fun a => c * M a j)) by (intros a Ha; apply H; assumption).
    rewrite (sumn_ext k (fun a => M' a i) (fun a => c * M a i)) by (intros a Ha; apply H; assumption).
    rewrite !sumn_mul_l, !fdiv_def. ring.
  Qed.

  Lemma local_centered_gram_scale k c (kern : mat) nb a b :
    a < k -> b < k ->
    local_centered_gram k (kscale c kern) nb a b = c * local_centered_gram k kern nb a b.
  Proof.
    intros Ha Hb. unfold local_centered_gram, read_lower.
    destruct (Nat.leb b a);
      apply center_matrix_scale; try assumption; intros; apply local_gram_scale.
  Qed.

  Theorem eig_contract_scale k c (B B' E : mat) (lam : vec) :
    (forall a b, a < k -> b < k -> B' a b = c * B a b) ->
    eig_contract k B E lam -> eig_contract k B' E (fun t => c * lam t).
  Proof.
    intros HB [HO HR]. split; [exact HO|].
    intros i j Hi Hj.
    rewrite (mmul_ext_l k B' (mscale c B) E i j) by (intros t Ht; apply HB; assumption).
    rewrite mmul_mscale_l, (HR i j Hi Hj).
    rewrite !mmul_diag_r by assumption. ring.
  Qed.

  Theorem eig_contract_unscale k c (B B' E : mat) (lam : vec) :
    c <> 0 ->
    (forall a b, a < k -> b < k -> B' a b = c * B a b) ->
    eig_contract k B' E (fun t => c * lam t) -> eig_contract k B E lam.
  Proof.
    intros Hc HB [HO HR]. split; [exact HO|].
    intros i j Hi Hj. pose proof (HR i j Hi Hj) as H.
    rewrite (mmul_ext_l k B' (mscale c B) E i j) in H by (intros t Ht; apply HB; assumption).
    rewrite mmul_mscale_l in H. rewrite !mmul_diag_r in * by assumption.
    replace (mmul k B E i j) with (c * mmul k B E i j / c) by (field; exact Hc).
    rewrite H. field. exact Hc.
  Qed.

  (* the oracle answers of the local solver for kern are oracle answers for c * kern (and back):
     tangent_weight_matrix and hessian_weight_matrix use nothing else of the data *)
  Theorem local_contract_scale k c (kern : mat) nb (E : mat) (lam : vec) :
    c <> 0 ->
    (eig_contract k (local_centered_gram k kern nb) E lam <->
     eig_contract k (local_centered_gram k (kscale c kern) nb) E (fun t => c * lam t)).
  Proof.
    intros Hc. split.
    - apply eig_contract_scale. intros; apply local_centered_gram_scale; assumption.
    - apply eig_contract_unscale; [exact Hc|]. intros; apply local_centered_gram_scale; assumption.
  Qed.

  (* ---------------- curved data with an exact local eigenproblem ---------------- *)
  Theorem diag_cov_eigvec k D (B Xc : mat) (s : vec) t a :
    meq k k B (mmul D Xc (mtrans Xc)) ->
    (forall u v, u < D -> v < D ->
        sumn k (fun b => Xc b u * Xc b v) = if Nat.eqb u v then s u else 0) ->
    t < D -> a < k ->
    sumn k (fun b => B a b * Xc b t) = s t * Xc a t.
  Proof.
    intros HB Hcov Ht Ha.
    rewrite (sumn_ext k _ (fun b => sumn D (fun u => Xc a u * (Xc b u * Xc b t)))).
    2:{ intros b Hb. rewrite (HB a b Ha Hb). unfold mmul, mtrans.
        rewrite <- sumn_mul_r. apply sumn_ext. intros; ring. }
    rewrite sumn_swap.
    rewrite (sumn_ext D _ (fun u => (Xc a u * s u) * delta u t)).
    2:{ intros u Hu. rewrite sumn_mul_l, (Hcov u t Hu Ht), ind_delta. ring. }
    rewrite (sumn_delta_r D t (fun u => Xc a u * s u)) by assumption. ring.
  Qed.
End Scale.
