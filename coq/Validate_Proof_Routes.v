(* Validate_Proof_Routes.v — property C14, wave 4: the state of a ParametersSet is map + duplicate record, and
   every C++ route a set can take from the comma expression to tapkee::embed (copy construction, copy
   assignment into a fresh / previously used set, self-assignment, kwargs[], the chain interface, the receiver
   of merge()) hands embed() the duplicate record the expression built.

   H. generic: for every `copying` C whose copy constructor and operator= cover BOTH members (copying_ok, a
      boolean the generated description is evaluated against), copying is the identity on sets, whatever the
      target held before; hence routes without merge() deliver the set itself and routes with merge() deliver
      the same duplicate record and keep every explicit value.
   I. instantiation at gen_copying / gen_container (regenerated from the source on every run).
   J. regression: the copy-and-swap operator= that exchanges only the map (seeded change C14_4) loses the record on
      assignment into a fresh set and keeps a stale record on assignment into a used one. *)
From Coq Require Import ZArith QArith List Bool Arith.
Import ListNotations.
From TK Require Import Validate_Model Validate_Spec Validate_Proof Validate_Proof_Bodies Validate.

(* ================================================================== H. generic *)
Definition covers_both (fs : list cfield) : bool := has_field FMap fs && has_field FDups fs.

Definition copying_ok (C : copying) : bool :=
  covers_both (cy_ctor C) &&
  match cy_assign C with AsFields fs => covers_both fs | AsCopySwap fs => covers_both fs end.

Lemma take_both : forall fs t o, covers_both fs = true -> take_fields fs t o = o.
Proof.
  intros fs t o H. unfold covers_both in H. apply andb_prop in H. destruct H as [Hm Hd].
  unfold take_fields. rewrite Hm, Hd. now destruct o.
Qed.

Lemma copy_construct_id : forall C o, copying_ok C = true -> copy_construct C o = o.
Proof.
  intros C o H. unfold copying_ok in H. apply andb_prop in H. destruct H as [Hc _].
  unfold copy_construct. now apply take_both.
Qed.

Lemma assign_id : forall C t o, copying_ok C = true -> assign C t o = o.
Proof.
  intros C t o H. pose proof (copy_construct_id C o H) as Hcc.
  unfold copying_ok in H. apply andb_prop in H. destruct H as [_ Ha].
  unfold assign. destruct (cy_assign C) as [fs|fs].
  - now apply take_both.
  - rewrite Hcc. now apply take_both.
Qed.

(* a route without merge() delivers the set itself *)
Lemma route_set_merge_free : forall K C rt s,
  copying_ok C = true -> merge_free rt = true -> route_set K C rt s = Some s.
Proof.
  intros K C rt s H. induction rt as [|r IH|old r IH|r IH|r IH|r IH|d r IH]; intros MF; cbn [merge_free] in MF;
    cbn [route_set]; try (rewrite (IH MF); cbn [option_map]).
  - reflexivity.
  - now rewrite copy_construct_id.
  - now rewrite assign_id.
  - now rewrite assign_id.
  - now rewrite !copy_construct_id.
  - now rewrite !copy_construct_id.
  - discriminate.
Qed.

Lemma arrives_merge_free : forall K C rt s,
  copying_ok C = true -> merge_free rt = true -> arrives K C rt s = Some s.
Proof.
  intros K C rt s H MF. unfold arrives. rewrite route_set_merge_free by auto. cbn. now rewrite copy_construct_id.
Qed.

(* every route (merge() included, with the documented merge): the set arrives, with the duplicate record of the
   expression and with every value the expression set *)
Lemma route_set_keeps : forall C rt s,
  copying_ok C = true ->
  exists q, route_set gen_container C rt s = Some q /\ ps_dups q = ps_dups s /\
            forall k v, pm_lookup k (ps_map s) = Some v -> pm_lookup k (ps_map q) = Some v.
Proof.
  intros C rt s H. induction rt as [|r IH|old r IH|r IH|r IH|r IH|d r IH]; cbn [route_set].
  - exists s. auto.
  - destruct IH as [q [E [D L]]]. rewrite E. cbn. rewrite copy_construct_id by auto. eauto.
  - destruct IH as [q [E [D L]]]. rewrite E. cbn. rewrite assign_id by auto. eauto.
  - destruct IH as [q [E [D L]]]. rewrite E. cbn. rewrite assign_id by auto. eauto.
  - destruct IH as [q [E [D L]]]. rewrite E. cbn. rewrite !copy_construct_id by auto. eauto.
  - destruct IH as [q [E [D L]]]. rewrite E. cbn. rewrite !copy_construct_id by auto. eauto.
  - destruct IH as [q [E [D L]]]. rewrite E. rewrite gen_merge.
    eexists. split; [reflexivity|]. cbn [ps_dups ps_map]. split; [exact D|].
    intros k v Lk. apply merge_keeps. now apply L.
Qed.

Lemma arrives_keeps : forall C rt s,
  copying_ok C = true ->
  exists q, arrives gen_container C rt s = Some q /\ ps_dups q = ps_dups s /\
            forall k v, pm_lookup k (ps_map s) = Some v -> pm_lookup k (ps_map q) = Some v.
Proof.
  intros C rt s H. destruct (route_set_keeps C rt s H) as [q [E [D L]]].
  exists q. unfold arrives. rewrite E. cbn. rewrite copy_construct_id by auto. auto.
Qed.

(* ================================================================== I. the generated description *)
Lemma gen_copying_ok : copying_ok gen_copying = true.
Proof. vm_compute. reflexivity. Qed.

Lemma gen_copy_construct : forall o, copy_construct gen_copying o = o.
Proof. intros o. apply copy_construct_id. exact gen_copying_ok. Qed.

(* assignment copies BOTH members and nothing of the target survives *)
Lemma gen_assign : forall t o, assign gen_copying t o = o.
Proof. intros t o. apply assign_id. exact gen_copying_ok. Qed.

Lemma gen_route_reports_duplicates : forall rt kws s,
  comma_expression gen_container kws = Some s ->
  exists q, arrives gen_container gen_copying rt s = Some q /\
            (run_check gen_container q = CThrown SwMultiple <-> nodupb (map fst kws) = false).
Proof.
  intros rt kws s E. destruct (arrives_keeps gen_copying rt s gen_copying_ok) as [q [A [D _]]].
  exists q. split; [exact A|]. rewrite <- (gen_duplicates_found kws s E). rewrite !gen_check, D.
  destruct (ps_dups s); split; intros X; try discriminate X; reflexivity.
Qed.

Lemma gen_route_keeps_values : forall rt kws s k v,
  comma_expression gen_container kws = Some s -> pm_lookup k (ps_map s) = Some v ->
  exists q, arrives gen_container gen_copying rt s = Some q /\ pm_lookup k (ps_map q) = Some v.
Proof.
  intros rt kws s k v _ Lk. destruct (arrives_keeps gen_copying rt s gen_copying_ok) as [q [A [_ L]]].
  exists q. auto.
Qed.

(* embed() on the set that arrives by a merge-free route is embed() on the expression: same trace, same outcome *)
Lemma gen_exec_via : forall rt r,
  merge_free rt = true -> exec_via gen_container gen_copying rt gen_tables r = Some (exec gen_tables r).
Proof.
  intros rt r MF. unfold exec_via. rewrite gen_comma_expression.
  rewrite arrives_merge_free by (auto using gen_copying_ok). reflexivity.
Qed.

Lemma gen_harness_routes_merge_free : forall id self rt,
  route_of_id id self = Some rt -> id <> 8%nat -> merge_free rt = true.
Proof.
  intros id self rt H N.
  do 11 (destruct id as [|id]; [cbn in H; inversion H; subst; try reflexivity; now elim N|]).
  discriminate.
Qed.

(* ================================================================== J. regression: seeded change C14_4 *)
Definition swap_map_only : copying := {| cy_ctor := [FMap; FDups]; cy_assign := AsCopySwap [FMap] |}.

Definition dup_expr : list (kwid * value) := [(1%nat, VMethod 5%nat); (4%nat, VIndex 6); (4%nat, VIndex 5)].
Definition valid_expr : list (kwid * value) := [(1%nat, VMethod 16%nat); (5%nat, VIndex 2)].

Lemma swap_map_only_not_ok : copying_ok swap_map_only = false.
Proof. reflexivity. Qed.

(* ParametersSet q; q = (method = Isomap, num_neighbors = 6, num_neighbors = 5): check() passes *)
Lemma swap_map_only_loses_duplicates :
  nodupb (map fst dup_expr) = false /\
  exists q, arrives gen_container swap_map_only (RtAssign ps_empty RtDirect) (ps_build dup_expr) = Some q /\
            run_check gen_container q = CNormal q.
Proof. split; [reflexivity|]. eexists. split; vm_compute; reflexivity. Qed.

(* a variable that held a duplicated expression is re-assigned a valid one: check() throws *)
Lemma swap_map_only_keeps_stale_duplicates :
  nodupb (map fst valid_expr) = true /\
  exists q, arrives gen_container swap_map_only (RtAssign (ps_build used_with_duplicate) RtDirect)
                    (ps_build valid_expr) = Some q /\
            run_check gen_container q = CThrown SwMultiple.
Proof. split; [reflexivity|]. eexists. split; vm_compute; reflexivity. Qed.

(* copy construction, kwargs[] and the chain interface are not affected by it *)
Lemma swap_map_only_copy_routes_fine : forall s,
  arrives gen_container swap_map_only (RtChain (RtKwargs (RtCopy RtDirect))) s = Some s.
Proof. intros [m d]. reflexivity. Qed.
