(* Dijkstra_IsoOptimal.v — why the d LARGEST eigenpairs: Ky Fan's maximum principle over Qc.
   For a symmetric B with a full orthonormal eigenbasis (B V = V diag(L), V^T V = I, V V^T = I,
   L ascending) and ANY n x d matrix W with orthonormal columns,
        sum_j  w_j^T B w_j   <=   sum of the d largest eigenvalues  =  value at the columns Isomap returns.
   With B = -1/2 J S J this is the variational characterisation of the classical-MDS subspace (the
   d-dimensional subspace retaining the most of the doubly-centred inner products).  Algebra regime, closed at
   Qc (the order of Qc is used; everything else is Mat_Sums / Mat_Core). *)
From Coq Require Import Field Ring List ZArith Arith Lia Qcanon.
From TK Require Import Mat_Sums Mat_Core Mat_Qc.
Import ListNotations.

Add Field IsoOptimalQc : (@Fth Qc QcOps QcField).
Local Open Scope F_scope.

(* Qcle with its arguments read in F_scope (Qcle itself binds Qc_scope, whose `*` is Qcmult, not the
   library's fmul: `ring` would not see through the mixture) *)
Definition qle (x y : Qc) : Prop := Qcle x y.
Arguments qle (x y)%F_scope.
Notation "x <=q y" := (qle x y) (at level 70, no associativity).

(* ---------- order facts at Qc, phrased with the library's field operations ---------- *)
Lemma q_le_refl : forall x : Qc, x <=q x.
Proof. intros; apply Qcle_refl. Qed.

Lemma q_le_trans : forall x y z : Qc, x <=q y -> y <=q z -> x <=q z.
Proof. intros x y z. apply Qcle_trans. Qed.

Lemma q_le_antisym : forall x y : Qc, x <=q y -> y <=q x -> x = y.
Proof. intros x y. apply Qcle_antisym. Qed.

Lemma q_add_le : forall a b c d : Qc, a <=q b -> c <=q d -> (a + c) <=q (b + d).
Proof. intros. apply Qcplus_le_compat; assumption. Qed.

Lemma q_mul_le_r : forall x y z : Qc, x <=q y -> 0 <=q z -> (x * z) <=q (y * z).
Proof. intros. apply Qcmult_le_compat_r; assumption. Qed.

Lemma q_sub_nonneg : forall a b : Qc, a <=q b <-> 0 <=q (b - a).
Proof.
  intros a b. unfold qle. split; intros H.
  - apply Qcle_minus_iff in H. exact H.
  - apply Qcle_minus_iff. exact H.
Qed.

Lemma q_sq_nonneg : forall x : Qc, 0 <=q (x * x).
Proof.
  intros x. destruct (Qclt_le_dec x 0) as [Hneg|Hpos].
  - assert (H : 0 <=q (- x)).
    { apply Qclt_le_weak in Hneg. apply Qcopp_le_compat in Hneg. unfold qle.
      replace (0 : Qc) with (- (0 : Qc)) by ring. exact Hneg. }
    replace (x * x) with ((- x) * (- x)) by ring.
    replace (0 : Qc) with (0 * (- x)) by ring. apply q_mul_le_r; assumption.
  - replace (0 : Qc) with (0 * x) by ring. apply q_mul_le_r; [exact Hpos | exact Hpos].
Qed.

Lemma sumn_nonneg : forall n (f : nat -> Qc), (forall i, (i < n)%nat -> 0 <=q f i) -> 0 <=q sumn n f.
Proof.
  induction n as [|n IH]; intros f H; cbn [sumn]; [apply q_le_refl|].
  replace (0 : Qc) with (0 + 0) by ring. apply q_add_le; [apply IH; intros; apply H; lia | apply H; lia].
Qed.

Lemma sumn_le : forall n (f g : nat -> Qc), (forall i, (i < n)%nat -> f i <=q g i) -> sumn n f <=q sumn n g.
Proof.
  induction n as [|n IH]; intros f g H; cbn [sumn]; [apply q_le_refl|].
  apply q_add_le; [apply IH; intros; apply H; lia | apply H; lia].
Qed.

Lemma sumn_nonneg_zero : forall n (f : nat -> Qc), (forall i, (i < n)%nat -> 0 <=q f i) -> sumn n f = 0 ->
    forall i, (i < n)%nat -> f i = 0.
Proof.
  induction n as [|n IH]; intros f H Hs i Hi; [lia|]. cbn [sumn] in Hs.
  assert (H1 : 0 <=q sumn n f) by (apply sumn_nonneg; intros; apply H; lia).
  assert (H2 : 0 <=q f n) by (apply H; lia).
  assert (E1 : sumn n f = 0).
  { apply q_le_antisym; [|exact H1]. replace (sumn n f) with (0 - f n) by (rewrite <- Hs; ring).
    apply (proj2 (q_sub_nonneg _ _)). replace (0 - (0 - f n)) with (f n) by ring. exact H2. }
  destruct (Nat.eq_dec i n) as [->|Hne].
  - rewrite E1 in Hs. rewrite <- Hs. ring.
  - apply (IH f); [intros; apply H; lia | exact E1 | lia].
Qed.

(* ---------- the weighted-sum inequality at the heart of Ky Fan's principle ---------- *)
Lemma weighted_sum_le_top : forall n d (L c : nat -> Qc), (d <= n)%nat ->
    (forall a b, (a <= b)%nat -> (b < n)%nat -> L a <=q L b) ->
    (forall m, (m < n)%nat -> 0 <=q c m) -> (forall m, (m < n)%nat -> c m <=q 1) ->
    sumn n c = of_nat d ->
    sumn n (fun m => L m * c m) <=q sumn d (fun j => L (n - d + j)%nat).
Proof.
  intros n d L c Hd Hasc Hc0 Hc1 Hsum.
  destruct d as [|d'].
  - (* no column: every weight is zero *)
    cbn [sumn]. cbn [of_nat] in Hsum.
    rewrite (sumn_ext n _ (fun _ => 0)).
    + rewrite sumn_zero. apply q_le_refl.
    + intros m Hm. rewrite (sumn_nonneg_zero n c Hc0 Hsum m Hm). ring.
  - set (d := S d') in *. set (p := (n - d)%nat).
    assert (Hp : (p < n)%nat) by (unfold p, d; lia).
    assert (Enp : n = (p + d)%nat) by (unfold p; lia).
    set (ls := L p).
    (* split both sums at p *)
    assert (Hsplit : forall f : nat -> Qc, sumn n f = sumn p f + sumn d (fun j => f (p + j)%nat)).
    { intros f. rewrite Enp at 1. apply sumn_split. }
    rewrite (Hsplit (fun m => L m * c m)).
    rewrite (Hsplit c) in Hsum.
    (* low part: L m c m <= ls c m ; high part: L (p+j) c (p+j) <= L (p+j) - ls (1 - c (p+j)) *)
    assert (Hlow : sumn p (fun m => L m * c m) <=q sumn p (fun m => ls * c m)).
    { apply sumn_le. intros m Hm. apply q_mul_le_r; [apply Hasc; lia | apply Hc0; lia]. }
    assert (Hhigh : sumn d (fun j => L (p + j)%nat * c (p + j)%nat) <=q
                    sumn d (fun j => L (p + j)%nat - ls * (1 - c (p + j)%nat))).
    { apply sumn_le. intros j Hj. apply (proj2 (q_sub_nonneg _ _)).
      replace (L (p + j)%nat - ls * (1 - c (p + j)%nat) - L (p + j)%nat * c (p + j)%nat)
        with ((L (p + j)%nat - ls) * (1 - c (p + j)%nat)) by ring.
      replace (0 : Qc) with (0 * (1 - c (p + j)%nat)) by ring.
      apply q_mul_le_r.
      - apply (proj1 (q_sub_nonneg _ _)). apply Hasc; lia.
      - apply (proj1 (q_sub_nonneg _ _)). apply Hc1. lia. }
    eapply q_le_trans; [apply q_add_le; [exact Hlow | exact Hhigh]|].
    (* the bound collapses: ls * (sum c - d) = 0 *)
    rewrite sumn_mul_l, sumn_sub, sumn_mul_l, sumn_sub, sumn_const.
    replace (ls * sumn p c + (sumn d (fun j => L (p + j)%nat) - ls * (of_nat d * 1 - sumn d (fun j => c (p + j)%nat))))
      with (sumn d (fun j => L (p + j)%nat) + ls * (sumn p c + sumn d (fun j => c (p + j)%nat) - of_nat d)) by ring.
    rewrite Hsum. replace (of_nat d - of_nat d) with (0 : Qc) by ring.
    replace (sumn d (fun j => L (p + j)%nat) + ls * 0) with (sumn d (fun j => L (p + j)%nat)) by ring.
    apply q_le_refl.
Qed.

(* ---------- bilinear expansion of a sum of products of linear combinations ---------- *)
Lemma bilinear_expand : forall n p q (x y : nat -> Qc) (A Bm : nat -> nat -> Qc),
    sumn n (fun i => sumn p (fun a => x a * A i a) * sumn q (fun b => y b * Bm i b)) =
    sumn p (fun a => sumn q (fun b => x a * y b * sumn n (fun i => A i a * Bm i b))).
Proof.
  intros n p q x y A Bm.
  rewrite (sumn_ext n _ (fun i => sumn p (fun a => sumn q (fun b => (x a * A i a) * (y b * Bm i b)))))
    by (intros i _; apply sumn_mul_sumn).
  rewrite sumn_swap. apply sumn_ext. intros a _.
  rewrite sumn_swap. apply sumn_ext. intros b _.
  rewrite <- sumn_mul_l. apply sumn_ext. intros i _. ring.
Qed.

Lemma sumn_delta_diag : forall n (x y : nat -> Qc),
    sumn n (fun a => sumn n (fun b => x a * y b * delta a b)) = sumn n (fun a => x a * y a).
Proof.
  intros n x y. apply sumn_ext. intros a Ha.
  rewrite (sumn_ext n _ (fun b => delta a b * (x a * y b))) by (intros; ring).
  apply (sumn_delta_l n a (fun b => x a * y b) Ha).
Qed.

Section KyFan.
  Variables n d : nat.
  Variable B V : mat Qc.          (* n x n *)
  Variable L : vec Qc.
  Variable W : mat Qc.            (* n x d, any orthonormal frame *)
  Hypothesis Hd : (d <= n)%nat.
  Hypothesis Heig : forall i j, (i < n)%nat -> (j < n)%nat ->
      sumn n (fun t => B i t * V t j) = L j * V i j.
  Hypothesis Horth : forall a b, (a < n)%nat -> (b < n)%nat -> sumn n (fun t => V t a * V t b) = delta a b.
  Hypothesis Hcomp : forall a b, (a < n)%nat -> (b < n)%nat -> sumn n (fun m => V a m * V b m) = delta a b.
  Hypothesis Hasc : forall a b, (a <= b)%nat -> (b < n)%nat -> L a <=q L b.
  Hypothesis HW : forall a b, (a < d)%nat -> (b < d)%nat -> sumn n (fun t => W t a * W t b) = delta a b.

  (* w^T B w *)
  Definition quad (w : vec Qc) : Qc := sumn n (fun i => sumn n (fun t => w i * (B i t * w t))).
  (* coordinate of w along eigenvector m *)
  Definition proj (m : nat) (w : vec Qc) : Qc := sumn n (fun a => w a * V a m).

  (* B = V diag(L) V^T inside the box *)
  Lemma B_spectral : forall i t, (i < n)%nat -> (t < n)%nat ->
      B i t = sumn n (fun m => L m * (V i m * V t m)).
  Proof.
    intros i t Hi Ht.
    rewrite <- (sumn_delta_r n t (fun k => B i k) Ht).
    rewrite (sumn_ext n _ (fun k => sumn n (fun m => B i k * (V k m * V t m)))).
    2:{ intros k Hk. rewrite <- (Hcomp k t Hk Ht). rewrite sumn_mul_l. reflexivity. }
    rewrite sumn_swap. apply sumn_ext. intros m Hm.
    rewrite (sumn_ext n _ (fun k => (B i k * V k m) * V t m)) by (intros; ring).
    rewrite sumn_mul_r, (Heig i m Hi Hm). ring.
  Qed.

  Lemma quad_spectral : forall w, quad w = sumn n (fun m => L m * (proj m w * proj m w)).
  Proof.
    intros w. unfold quad.
    rewrite (sumn_ext n _ (fun i => sumn n (fun t => sumn n (fun m => L m * ((w i * V i m) * (w t * V t m)))))).
    2:{ intros i Hi. apply sumn_ext. intros t Ht. rewrite (B_spectral i t Hi Ht).
        rewrite <- sumn_mul_r, <- sumn_mul_l. apply sumn_ext. intros m _. ring. }
    (* bring m outside *)
    rewrite (sumn_ext n _ (fun i => sumn n (fun m => sumn n (fun t => L m * ((w i * V i m) * (w t * V t m))))))
      by (intros i _; apply sumn_swap).
    rewrite sumn_swap. apply sumn_ext. intros m _.
    unfold proj. rewrite sumn_mul_sumn, <- sumn_mul_l. apply sumn_ext. intros i _.
    rewrite <- sumn_mul_l. apply sumn_ext. intros t _. ring.
  Qed.

  Lemma parseval : forall w, sumn n (fun m => proj m w * proj m w) = sumn n (fun a => w a * w a).
  Proof.
    intros w. unfold proj.
    rewrite (bilinear_expand n n n w w (fun m a => V a m) (fun m b => V b m)).
    rewrite (sumn_ext n _ (fun a => sumn n (fun b => w a * w b * delta a b))).
    - apply sumn_delta_diag.
    - intros a Ha. apply sumn_ext. intros b Hb. rewrite (Hcomp a b Ha Hb). reflexivity.
  Qed.

  (* weight of eigen-direction m in the frame W *)
  Definition cw (m : nat) : Qc := sumn d (fun j => proj m (mcol W j) * proj m (mcol W j)).

  Lemma cw_nonneg : forall m, 0 <=q cw m.
  Proof. intros m. apply sumn_nonneg. intros j _. apply q_sq_nonneg. Qed.

  Lemma cw_sum : sumn n cw = of_nat d.
  Proof.
    unfold cw. rewrite sumn_swap.
    rewrite (sumn_ext d _ (fun _ => 1)).
    - rewrite sumn_const. ring.
    - intros j Hj. rewrite parseval. unfold mcol. rewrite (HW j j Hj Hj). unfold delta. rewrite Nat.eqb_refl. reflexivity.
  Qed.

  (* Bessel's inequality for the unit vector v_m against the orthonormal columns of W *)
  Lemma cw_le_1 : forall m, (m < n)%nat -> cw m <=q 1.
  Proof.
    intros m Hm. unfold cw.
    set (a := fun j => proj m (mcol W j)).
    set (r := fun i => V i m - sumn d (fun j => a j * W i j)).
    assert (Hr : 0 <=q sumn n (fun i => r i * r i)) by (apply sumn_nonneg; intros; apply q_sq_nonneg).
    assert (E : sumn n (fun i => r i * r i) = 1 - sumn d (fun j => a j * a j)).
    { unfold r.
      rewrite (sumn_ext n _ (fun i => V i m * V i m
                                       - (V i m * sumn d (fun j => a j * W i j) + V i m * sumn d (fun j => a j * W i j))
                                       + sumn d (fun j => a j * W i j) * sumn d (fun l => a l * W i l)))
        by (intros; ring).
      rewrite sumn_add, sumn_sub, sumn_add.
      rewrite (Horth m m Hm Hm). unfold delta. rewrite Nat.eqb_refl.
      (* cross term *)
      assert (Ecross : sumn n (fun i => V i m * sumn d (fun j => a j * W i j)) = sumn d (fun j => a j * a j)).
      { rewrite (sumn_ext n _ (fun i => sumn d (fun j => a j * (W i j * V i m))))
          by (intros i _; rewrite <- sumn_mul_l; apply sumn_ext; intros; ring).
        rewrite sumn_swap. apply sumn_ext. intros j _. rewrite sumn_mul_l. unfold a at 2, proj, mcol. reflexivity. }
      (* square term *)
      assert (Esq : sumn n (fun i => sumn d (fun j => a j * W i j) * sumn d (fun l => a l * W i l))
                    = sumn d (fun j => a j * a j)).
      { rewrite (bilinear_expand n d d a a W W).
        rewrite (sumn_ext d _ (fun j => sumn d (fun l => a j * a l * delta j l))).
        - apply sumn_delta_diag.
        - intros j Hj. apply sumn_ext. intros l Hl. rewrite (HW j l Hj Hl). reflexivity. }
      rewrite Ecross, Esq. ring. }
    rewrite E in Hr. apply (proj2 (q_sub_nonneg _ _)). exact Hr.
  Qed.

  (* the retained form of ANY orthonormal d-frame is at most the sum of the d largest eigenvalues *)
  Theorem ky_fan_upper : sumn d (fun j => quad (mcol W j)) <=q sumn d (fun j => L (n - d + j)%nat).
  Proof.
    rewrite (sumn_ext d _ (fun j => sumn n (fun m => L m * (proj m (mcol W j) * proj m (mcol W j)))))
      by (intros j _; apply quad_spectral).
    rewrite sumn_swap.
    rewrite (sumn_ext n _ (fun m => L m * cw m)) by (intros m _; unfold cw; rewrite sumn_mul_l; reflexivity).
    apply weighted_sum_le_top; [exact Hd | exact Hasc | intros; apply cw_nonneg | exact cw_le_1 | exact cw_sum].
  Qed.

  (* ... and the frame made of eigenvectors attains the corresponding eigenvalues *)
  Lemma quad_eigvec : forall m, (m < n)%nat -> quad (mcol V m) = L m.
  Proof.
    intros m Hm. unfold quad, mcol.
    rewrite (sumn_ext n _ (fun i => V i m * (L m * V i m))).
    2:{ intros i Hi. rewrite sumn_mul_l. rewrite (Heig i m Hi Hm). reflexivity. }
    rewrite (sumn_ext n _ (fun i => L m * (V i m * V i m))) by (intros; ring).
    rewrite sumn_mul_l, (Horth m m Hm Hm). unfold delta. rewrite Nat.eqb_refl. ring.
  Qed.

  Theorem ky_fan_attained :
      sumn d (fun j => quad (mcol V (n - d + j)%nat)) = sumn d (fun j => L (n - d + j)%nat).
  Proof. apply sumn_ext. intros j Hj. apply quad_eigvec. lia. Qed.
End KyFan.

(* ---------- applied to Isomap: the subspace embed() returns retains the most ---------- *)
From TK Require Import Dijkstra_IsoModel Dijkstra_Proof_Iso Dijkstra_IsoEmbed Dijkstra_IsoSelect.

Section IsomapOptimal.
  Variables n d : nat.
  Variable G : mat Qc.             (* geodesics, symmetric or not *)
  Variable Vf : mat Qc.            (* full eigenvector matrix returned by the dense solver *)
  Variable Lf : vec Qc.
  Variable W : mat Qc.             (* any competitor: n x d with orthonormal columns *)
  Hypothesis Hn : n <> 0%nat.
  Hypothesis Hd : (d <= n)%nat.
  Hypothesis Heig : forall i j, (i < n)%nat -> (j < n)%nat ->
      sumn n (fun t => seen_by_dense (iso_fixed n G) i t * Vf t j) = Lf j * Vf i j.
  Hypothesis Horth : forall a b, (a < n)%nat -> (b < n)%nat -> sumn n (fun t => Vf t a * Vf t b) = delta a b.
  Hypothesis Hcomp : forall a b, (a < n)%nat -> (b < n)%nat -> sumn n (fun m => Vf a m * Vf b m) = delta a b.
  Hypothesis Hasc : forall a b, (a <= b)%nat -> (b < n)%nat -> Lf a <=q Lf b.
  Hypothesis HW : forall a b, (a < d)%nat -> (b < d)%nat -> sumn n (fun t => W t a * W t b) = delta a b.

  Lemma Heig_mds : forall i j, (i < n)%nat -> (j < n)%nat ->
      sumn n (fun t => mds_ref n G i t * Vf t j) = Lf j * Vf i j.
  Proof.
    intros i j Hi Hj. rewrite <- (Heig i j Hi Hj). apply sumn_ext. intros t Ht.
    rewrite (seen_is_mds n G Hn i t Hi Ht). reflexivity.
  Qed.

  (* sum_j w_j^T (-1/2 J S J) w_j over ANY orthonormal d-frame is at most its value at the columns that
     eigendecomposition_impl_dense selects (rightCols(d)), which is the sum of the d largest eigenvalues *)
  Theorem isomap_subspace_optimal :
      sumn d (fun j => quad n (mds_ref n G) (mcol W j)) <=q
      sumn d (fun j => quad n (mds_ref n G) (mcol (sel_cols n d Vf) j)) /\
      sumn d (fun j => quad n (mds_ref n G) (mcol (sel_cols n d Vf) j)) = sumn d (fun j => sel_vals n d Lf j).
  Proof.
    assert (E : sumn d (fun j => quad n (mds_ref n G) (mcol (sel_cols n d Vf) j)) =
                sumn d (fun j => sel_vals n d Lf j)).
    { apply sumn_ext. intros j Hj. unfold sel_vals.
      change (mcol (sel_cols n d Vf) j) with (mcol Vf (n - d + j)%nat).
      apply (quad_eigvec n (mds_ref n G) Vf Lf Heig_mds Horth). lia. }
    split; [|exact E]. rewrite E.
    apply (ky_fan_upper n d (mds_ref n G) Vf Lf W Hd Heig_mds Horth Hcomp Hasc HW).
  Qed.
End IsomapOptimal.

(* non-vacuity: the four-sample instance again (Hadamard basis: rows are orthonormal too); competitor =
   the constant unit column, which retains 0 < 4 *)
Example isomap_optimal_contract_satisfiable :
    let n := 4%nat in let d := 1%nat in let W : mat Qc := fun _ _ => qfrac 1 2 in
    n <> 0%nat /\ (d <= n)%nat /\
    (forall i j, (i < n)%nat -> (j < n)%nat ->
        sumn n (fun t => seen_by_dense (iso_fixed n emb_G) i t * emb_Vf t j) = emb_Lf j * emb_Vf i j) /\
    (forall a b, (a < n)%nat -> (b < n)%nat -> sumn n (fun t => emb_Vf t a * emb_Vf t b) = delta a b) /\
    (forall a b, (a < n)%nat -> (b < n)%nat -> sumn n (fun m => emb_Vf a m * emb_Vf b m) = delta a b) /\
    (forall a b, (a <= b)%nat -> (b < n)%nat -> emb_Lf a <=q emb_Lf b) /\
    (forall a b, (a < d)%nat -> (b < d)%nat -> sumn n (fun t => W t a * W t b) = delta a b) /\
    sumn d (fun j => quad n (mds_ref n emb_G) (mcol W j)) = qz 0 /\
    sumn d (fun j => sel_vals n d emb_Lf j) = qz 4.
Proof.
  cbv zeta. split; [discriminate|]. split; [lia|].
  split; [|split; [|split; [|split; [|split; [|split]]]]].
  - intros i j Hi Hj.
    destruct i as [|[|[|[|i]]]]; try lia; destruct j as [|[|[|[|j]]]]; try lia;
      apply Qc_is_canon; vm_compute; reflexivity.
  - intros a b Ha Hb.
    destruct a as [|[|[|[|a]]]]; try lia; destruct b as [|[|[|[|b]]]]; try lia;
      apply Qc_is_canon; vm_compute; reflexivity.
  - intros a b Ha Hb.
    destruct a as [|[|[|[|a]]]]; try lia; destruct b as [|[|[|[|b]]]]; try lia;
      apply Qc_is_canon; vm_compute; reflexivity.
  - intros a b Hab Hb. unfold qle.
    destruct a as [|[|[|[|a]]]]; try lia; destruct b as [|[|[|[|b]]]]; try lia;
      vm_compute; discriminate.
  - intros a b Ha Hb. assert (a = 0%nat) by lia. assert (b = 0%nat) by lia. subst.
    apply Qc_is_canon. vm_compute. reflexivity.
  - apply Qc_is_canon. vm_compute. reflexivity.
  - apply Qc_is_canon. vm_compute. reflexivity.
Qed.
