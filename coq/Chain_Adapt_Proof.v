(* Chain_Adapt_Proof.v — soundness of the deciders of Chain_Adapt_Spec.v for EVERY table, and the theorems about
   the generated table (coq/gen/ChainAdapters.v).  The statements hold for all index arguments (Z): the decider
   splits the plane of argument pairs into the three regions a < b, a = b, a > b, in each of which every
   conditional of the fragment is decided, and compares the resolved body with the specification. *)
From Coq Require Import List String Bool ZArith QArith Lia.
From TK Require Import Chain_Model Chain_Spec Chain_Adapt_Model Chain_Adapt_Spec ChainAdapters Uses.
Local Close Scope Q_scope.
Import ListNotations.
Local Open Scope string_scope.

(* ------------------------------------------------------------------ small facts *)
Lemma cmp_eqb_eq : forall a b, cmp_eqb a b = true -> a = b.
Proof. destruct a, b; simpl; intros H; try discriminate; reflexivity. Qed.

Lemma aexpr_eqb_eq : forall x y, aexpr_eqb x y = true -> x = y.
Proof.
  induction x as [i|f r IHr c IHc|f c IHc|u IHu v IHv|u IHu v IHv|f|o i j t IHt e IHe|m|s];
    destruct y; simpl; intros H; try discriminate.
  - apply Nat.eqb_eq in H. subst. reflexivity.
  - apply andb_prop in H. destruct H as [H Hc]. apply andb_prop in H. destruct H as [Hf Hr].
    apply String.eqb_eq in Hf. subst. rewrite (IHr _ Hr), (IHc _ Hc). reflexivity.
  - apply andb_prop in H. destruct H as [Hf Hc]. apply String.eqb_eq in Hf. subst.
    rewrite (IHc _ Hc). reflexivity.
  - apply andb_prop in H. destruct H as [Hu Hv]. rewrite (IHu _ Hu), (IHv _ Hv). reflexivity.
  - apply andb_prop in H. destruct H as [Hu Hv]. rewrite (IHu _ Hu), (IHv _ Hv). reflexivity.
  - apply String.eqb_eq in H. subst. reflexivity.
  - apply andb_prop in H. destruct H as [H He]. apply andb_prop in H. destruct H as [H Ht].
    apply andb_prop in H. destruct H as [H Hj]. apply andb_prop in H. destruct H as [Ho Hi].
    apply cmp_eqb_eq in Ho. apply Nat.eqb_eq in Hi. apply Nat.eqb_eq in Hj. subst.
    rewrite (IHt _ Ht), (IHe _ He). reflexivity.
  - apply String.eqb_eq in H. subst. reflexivity.
  - apply String.eqb_eq in H. subst. reflexivity.
Qed.

Lemma nth_error_two_none : forall (a b : Z) i, nth_error [a; b] (S (S i)) = None.
Proof. intros a b i. simpl. destruct i; reflexivity. Qed.

Lemma region_says_correct : forall a b op i j,
  match region_says op i j (a ?= b)%Z with
  | Some t => exists x y, nth_error [a; b] i = Some x /\ nth_error [a; b] j = Some y /\ cmp_holds op x y = t
  | None => nth_error [a; b] i = None \/ nth_error [a; b] j = None
  end.
Proof.
  intros a b op i j. unfold cmp_holds.
  destruct i as [|[|i]]; destruct j as [|[|j]]; cbn [region_says].
  - exists a, a. repeat split. rewrite Z.compare_refl. reflexivity.
  - exists a, b. repeat split.
  - right. apply nth_error_two_none.
  - exists b, a. repeat split. rewrite (Z.compare_antisym a b). reflexivity.
  - exists b, b. repeat split. rewrite Z.compare_refl. reflexivity.
  - right. apply nth_error_two_none.
  - left. apply nth_error_two_none.
  - left. apply nth_error_two_none.
  - left. apply nth_error_two_none.
Qed.

(* ------------------------------------------------------------------ resolving conditionals and forwarding *)
Lemma resolve_sound : forall self inl a b,
  (forall m, self m [a; b] = aeval no_self [a; b] (inl m)) ->
  forall e, aeval self [a; b] e = aeval no_self [a; b] (resolve inl (a ?= b)%Z e).
Proof.
  intros self inl a b Hself.
  induction e as [i|f r IHr c IHc|f c IHc|u IHu v IHv|u IHu v IHv|f|o i j t IHt e IHe|m|s];
    cbn [aeval resolve].
  - reflexivity.
  - rewrite IHr, IHc. reflexivity.
  - rewrite IHc. reflexivity.
  - rewrite IHu, IHv. reflexivity.
  - rewrite IHu, IHv. reflexivity.
  - reflexivity.
  - pose proof (region_says_correct a b o i j) as R.
    destruct (region_says o i j (a ?= b)%Z) as [t'|].
    + destruct R as [x [y [Hi [Hj Hc]]]]. rewrite Hi, Hj, Hc.
      destruct t'; assumption.
    + cbn [aeval]. destruct R as [Hn|Hn]; rewrite Hn.
      * reflexivity.
      * destruct (nth_error [a; b] i); reflexivity.
  - apply Hself.
  - reflexivity.
Qed.

Lemma inline_of_sound : forall ms a b m,
  self_of ms m [a; b] = aeval no_self [a; b] (inline_of ms (a ?= b)%Z m).
Proof.
  intros ms a b m. unfold self_of, inline_of.
  destruct (find_amember ms m) as [mb|]; [|reflexivity].
  cbn [List.length Nat.eqb]. rewrite andb_true_r.
  destruct (Nat.eqb (am_arity mb) 2 && negb (am_out mb)); [|reflexivity].
  apply resolve_sound. intros m'. reflexivity.
Qed.

Lemma collapse_sound : forall a e, aeval no_self [a; a] e = aeval no_self [a; a] (collapse e).
Proof.
  intros a.
  induction e as [i|f r IHr c IHc|f c IHc|u IHu v IHv|u IHu v IHv|f|o i j t IHt e IHe|m|s];
    cbn [aeval collapse].
  - destruct i as [|[|i]]; reflexivity.
  - rewrite IHr, IHc. reflexivity.
  - rewrite IHc. reflexivity.
  - rewrite IHu, IHv. reflexivity.
  - rewrite IHu, IHv. reflexivity.
  - reflexivity.
  - destruct (nth_error [a; a] i); [|reflexivity].
    destruct (nth_error [a; a] j); [|reflexivity].
    destruct (cmp_holds o z z0); assumption.
  - reflexivity.
  - reflexivity.
Qed.

Lemma norm_region_sound : forall a b e,
  aeval no_self [a; b] e = aeval no_self [a; b] (norm_region (a ?= b)%Z e).
Proof.
  intros a b e. destruct (a ?= b)%Z eqn:C; cbn [norm_region]; try reflexivity.
  apply Z.compare_eq in C. subst. apply collapse_sound.
Qed.

(* a body of two index parameters that the three-region test accepts computes what the wanted expression does *)
Lemma two_param_ok : forall c mb want,
  am_arity mb = 2 ->
  forallb (fun r => aexpr_eqb (norm_region r (resolve (inline_of (ac_members c) r) r (am_body mb)))
                              (norm_region r want)) [Lt; Eq; Gt] = true ->
  forall a b, run_member c mb [a; b] = aeval no_self [a; b] want.
Proof.
  intros c mb want Har Hall a b.
  unfold run_member. rewrite Har. cbn [List.length Nat.eqb].
  rewrite (resolve_sound (self_of (ac_members c)) (inline_of (ac_members c) (a ?= b)%Z) a b
             (fun m => inline_of_sound (ac_members c) a b m)).
  rewrite norm_region_sound. rewrite (norm_region_sound a b want).
  assert (E : aexpr_eqb (norm_region (a ?= b)%Z
                 (resolve (inline_of (ac_members c) (a ?= b)%Z) (a ?= b)%Z (am_body mb)))
                 (norm_region (a ?= b)%Z want) = true).
  { cbn [forallb] in Hall.
    apply andb_prop in Hall. destruct Hall as [HLt Hall].
    apply andb_prop in Hall. destruct Hall as [HEq Hall].
    apply andb_prop in Hall. destruct Hall as [HGt _].
    destruct (a ?= b)%Z; assumption. }
  apply aexpr_eqb_eq in E. rewrite E. reflexivity.
Qed.

Lemma list_len2 : forall (ps : list Z), List.length ps = 2 -> exists a b, ps = [a; b].
Proof.
  intros ps H. destruct ps as [|a [|b [|c r]]]; simpl in H; try discriminate. exists a, b. reflexivity.
Qed.

Lemma list_len1 : forall (ps : list Z), List.length ps = 1 -> exists a, ps = [a].
Proof.
  intros ps H. destruct ps as [|a [|b r]]; simpl in H; try discriminate. exists a. reflexivity.
Qed.

Lemma list_len0 : forall (ps : list Z), List.length ps = 0 -> ps = [].
Proof. intros ps H. destruct ps; simpl in H; [reflexivity|discriminate]. Qed.

Definition member_meets_spec (c : aclass) (fam : adapter_family) (mb : amember) : Prop :=
  forall ps, List.length ps = am_arity mb ->
    exists v, spec_value fam (ac_field c) (am_name mb) ps = Some v /\ run_member c mb ps = v.

Lemma member_ok_sound : forall c fam mb, member_ok c fam mb = true -> member_meets_spec c fam mb.
Proof.
  intros c fam mb H ps Hlen. unfold member_ok in H.
  destruct fam; cbn [want_expr] in H.
  - (* precomputed kernel *)
    destruct (String.eqb (am_name mb) "kernel") eqn:Hn; [|discriminate].
    apply andb_prop in H. destruct H as [H H2]. apply andb_prop in H. destruct H as [Har _].
    apply Nat.eqb_eq in Har. rewrite Har in Hlen. destruct (list_len2 _ Hlen) as [a [b ->]].
    cbn [spec_value]. rewrite Hn. eexists. split; [reflexivity|].
    rewrite (two_param_ok c mb _ Har H2 a b). reflexivity.
  - destruct (String.eqb (am_name mb) "distance") eqn:Hn; [|discriminate].
    apply andb_prop in H. destruct H as [H H2]. apply andb_prop in H. destruct H as [Har _].
    apply Nat.eqb_eq in Har. rewrite Har in Hlen. destruct (list_len2 _ Hlen) as [a [b ->]].
    cbn [spec_value]. rewrite Hn. eexists. split; [reflexivity|].
    rewrite (two_param_ok c mb _ Har H2 a b). reflexivity.
  - destruct (String.eqb (am_name mb) "kernel" || String.eqb (am_name mb) "operator()") eqn:Hn; [|discriminate].
    apply andb_prop in H. destruct H as [H H2]. apply andb_prop in H. destruct H as [Har _].
    apply Nat.eqb_eq in Har. rewrite Har in Hlen. destruct (list_len2 _ Hlen) as [a [b ->]].
    cbn [spec_value]. rewrite Hn. eexists. split; [reflexivity|].
    rewrite (two_param_ok c mb _ Har H2 a b). reflexivity.
  - destruct (String.eqb (am_name mb) "distance" || String.eqb (am_name mb) "operator()") eqn:Hn; [|discriminate].
    apply andb_prop in H. destruct H as [H H2]. apply andb_prop in H. destruct H as [Har _].
    apply Nat.eqb_eq in Har. rewrite Har in Hlen. destruct (list_len2 _ Hlen) as [a [b ->]].
    cbn [spec_value]. rewrite Hn. eexists. split; [reflexivity|].
    rewrite (two_param_ok c mb _ Har H2 a b). reflexivity.
  - destruct (String.eqb (am_name mb) "vector") eqn:Hn.
    + apply andb_prop in H. destruct H as [H H2]. apply andb_prop in H. destruct H as [Har _].
      apply Nat.eqb_eq in Har. rewrite Har in Hlen. destruct (list_len1 _ Hlen) as [a ->].
      apply aexpr_eqb_eq in H2.
      cbn [spec_value]. rewrite Hn. eexists. split; [reflexivity|].
      unfold run_member. rewrite Har, H2. reflexivity.
    + destruct (String.eqb (am_name mb) "dimension") eqn:Hd; [|discriminate].
      apply andb_prop in H. destruct H as [H H2]. apply andb_prop in H. destruct H as [Har _].
      apply Nat.eqb_eq in Har. rewrite Har in Hlen. rewrite (list_len0 _ Hlen).
      apply aexpr_eqb_eq in H2.
      cbn [spec_value]. rewrite Hd. eexists. split; [reflexivity|].
      unfold run_member. rewrite Har, H2. reflexivity.
Qed.

Lemma family_of_class : forall fam, family_of (family_class fam) = Some fam.
Proof. destruct fam; reflexivity. Qed.

Lemma family_of_inv : forall n fam, family_of n = Some fam -> n = family_class fam.
Proof.
  intros n fam H. unfold family_of in H. apply find_some in H. destruct H as [_ H].
  apply String.eqb_eq in H. symmetry. exact H.
Qed.

(* ------------------------------------------------------------------ the decider is sound for every table *)
Theorem adapters_ok_sound : forall t, adapters_ok t = true ->
  (forall c mb, In c (ad_classes t) -> In mb (ac_members c) ->
     exists fam, family_of (ac_name c) = Some fam /\ member_meets_spec c fam mb) /\
  (forall fam role, In role (family_roles fam) ->
     exists c mb, In c (ad_classes t) /\ ac_name c = family_class fam /\ In mb (ac_members c) /\ am_name mb = role).
Proof.
  intros t H. unfold adapters_ok in H. apply andb_prop in H. destruct H as [Hc Hf].
  rewrite forallb_forall in Hc. rewrite forallb_forall in Hf.
  split.
  - intros c mb Inc Inm. specialize (Hc c Inc). unfold class_ok in Hc.
    destruct (family_of (ac_name c)) as [fam|] eqn:Hfam; [|discriminate].
    exists fam. split; [reflexivity|].
    apply andb_prop in Hc. destruct Hc as [Hm _]. rewrite forallb_forall in Hm.
    apply member_ok_sound. apply Hm. exact Inm.
  - intros fam role Inr.
    assert (Infam : In fam all_families) by (destruct fam; simpl; tauto).
    specialize (Hf fam Infam). apply existsb_exists in Hf. destruct Hf as [c [Inc Hn]].
    apply String.eqb_eq in Hn.
    specialize (Hc c Inc). unfold class_ok in Hc. rewrite Hn, family_of_class in Hc.
    apply andb_prop in Hc. destruct Hc as [_ Hr]. rewrite forallb_forall in Hr.
    specialize (Hr role Inr). apply existsb_exists in Hr. destruct Hr as [mb [Inm Hmn]].
    apply String.eqb_eq in Hmn.
    exists c, mb. repeat split; assumption.
Qed.

(* ------------------------------------------------------------------ the generated table *)
Lemma adapters_gen_ok : adapters_ok adapters_gen = true.
Proof. vm_compute. reflexivity. Qed.

Theorem adapters_return_supplied_value_proof : forall c mb,
  In c (ad_classes adapters_gen) -> In mb (ac_members c) ->
  exists fam, family_of (ac_name c) = Some fam /\
    forall ps, List.length ps = am_arity mb ->
      exists v, spec_value fam (ac_field c) (am_name mb) ps = Some v /\ run_member c mb ps = v.
Proof. exact (proj1 (adapters_ok_sound adapters_gen adapters_gen_ok)). Qed.

Theorem adapters_complete_proof : forall fam role, In role (family_roles fam) ->
  exists c mb, In c (ad_classes adapters_gen) /\ ac_name c = family_class fam /\
               In mb (ac_members c) /\ am_name mb = role.
Proof. exact (proj2 (adapters_ok_sound adapters_gen adapters_gen_ok)). Qed.

(* the statement in the words of the property, for the two precomputed-matrix adapters: called with (a, b) the
   adapter answers the entry (a, b) -- in that order -- of the matrix it was constructed from *)
Theorem precomputed_returns_entry_proof : forall fam, fam = FPreKernel \/ fam = FPreDistance ->
  exists c mb role, In c (ad_classes adapters_gen) /\ ac_name c = family_class fam /\ In mb (ac_members c) /\
    family_roles fam = [role] /\ am_name mb = role /\
    forall a b : Z, run_member c mb [a; b] = XEntry (ac_field c) a b.
Proof.
  intros fam Hfam.
  assert (exists role, family_roles fam = [role]) as [role Hrole]
    by (destruct Hfam; subst; eexists; reflexivity).
  destruct (adapters_complete_proof fam role) as [c [mb [Inc [Hn [Inm Hm]]]]].
  { rewrite Hrole. left. reflexivity. }
  exists c, mb, role. repeat split; try assumption.
  intros a b.
  destruct (adapters_return_supplied_value_proof c mb Inc Inm) as [fam' [Hf Hs]].
  rewrite Hn, family_of_class in Hf. inversion Hf. subst fam'.
  assert (Har : am_arity mb = 2).
  { destruct (Nat.eq_dec (am_arity mb) 2) as [E|E]; [exact E|].
    exfalso.
    destruct (Hs (repeat 0%Z (am_arity mb)) (repeat_length _ _)) as [v [Hv _]].
    destruct Hfam; subst fam; cbn [spec_value] in Hv;
      destruct (am_arity mb) as [|[|[|n]]]; cbn [repeat] in Hv; try discriminate; apply E; reflexivity. }
  destruct (Hs [a; b]) as [v [Hv Hr]]. { rewrite Har. reflexivity. }
  rewrite Hr. subst role.
  destruct Hfam; subst fam; cbn [family_roles] in Hrole; inversion Hrole as [Hname];
    cbn [spec_value] in Hv; rewrite <- Hname in Hv; cbn in Hv; inversion Hv; reflexivity.
Qed.

Theorem precomputed_returns_matrix_value_proof : forall fam, fam = FPreKernel \/ fam = FPreDistance ->
  exists c mb, In c (ad_classes adapters_gen) /\ ac_name c = family_class fam /\ In mb (ac_members c) /\
    In (am_name mb) (family_roles fam) /\
    forall (M : string -> Z -> Z -> Q) (a b : Z),
      denote_entry M (run_member c mb [a; b]) = Some (M (ac_field c) a b).
Proof.
  intros fam Hfam.
  destruct (precomputed_returns_entry_proof fam Hfam) as [c [mb [role [Inc [Hn [Inm [Hr [Hm Hrun]]]]]]]].
  exists c, mb. repeat split; try assumption.
  - rewrite Hr, Hm. left. reflexivity.
  - intros M a b. rewrite Hrun. reflexivity.
Qed.

Lemma callsites_ok_sound : forall t, callsites_ok t = true ->
  forall file snippet ok, In (file, snippet, ok) (ad_callsites t) -> ok = true.
Proof.
  intros t H file snippet ok Hin. unfold callsites_ok in H. rewrite forallb_forall in H.
  exact (H _ Hin).
Qed.

Theorem callbacks_fed_dereferenced_data_proof : forall file snippet ok,
  In (file, snippet, ok) (ad_callsites adapters_gen) -> ok = true.
Proof. apply callsites_ok_sound. vm_compute. reflexivity. Qed.

Lemma witness_adapters : ad_classes adapters_gen <> [] /\ ad_callsites adapters_gen <> [].
Proof. split; vm_compute; discriminate. Qed.

(* ------------------------------------------------------------------ routines invoke the role function only *)
Lemma invoked_ok_sound : forall u, invoked_ok u = true ->
  forall m s fs f, In m (u_methods u) -> In (s, fs) (md_invoked m) -> In f fs ->
    unresolved f = true \/ allowed_on_slot u s f = true.
Proof.
  intros u H m s fs f Hm Hs Hf. unfold invoked_ok in H.
  rewrite forallb_forall in H. specialize (H m Hm).
  rewrite forallb_forall in H. specialize (H (s, fs) Hs). cbn [fst snd] in H.
  rewrite forallb_forall in H. specialize (H f Hf).
  apply orb_prop in H. exact H.
Qed.

Theorem routines_invoke_own_role_proof : forall m s fs f,
  In m (u_methods uses_gen) -> In (s, fs) (md_invoked m) -> In f fs ->
  unresolved f = true \/ allowed_on_slot uses_gen s f = true.
Proof. apply invoked_ok_sound. vm_compute. reflexivity. Qed.

Lemma witness_invoked : exists m, In m (u_methods uses_gen) /\ md_invoked m <> [].
Proof.
  assert (H : existsb (fun m => match md_invoked m with [] => false | _ => true end) (u_methods uses_gen) = true)
    by (vm_compute; reflexivity).
  apply existsb_exists in H. destruct H as [m [Hm H]].
  exists m. split; [exact Hm|]. intro E. rewrite E in H. discriminate.
Qed.

(* ------------------------------------------------------------------ regression: the seeded "upper triangle" edit *)
Theorem upper_triangle_refuted_proof : forall n F m,
  let c := upper_triangle_class n F m in
  exists mb, In mb (ac_members c) /\ exists a b : Z, run_member c mb [a; b] <> XEntry F a b.
Proof.
  intros n F m. cbn zeta. eexists. split; [left; reflexivity|].
  exists 1%Z, 0%Z. cbn. intro H. inversion H.
Qed.

Lemma upper_triangle_rejected :
  member_ok (upper_triangle_class "precomputed_kernel_callback" "kernel_matrix" "kernel") FPreKernel
            {| am_name := "kernel"; am_arity := 2; am_out := false; am_body := upper_triangle_body "kernel_matrix" |}
  = false.
Proof. vm_compute. reflexivity. Qed.

(* ... while a conditional that does not change the answer is accepted (the decider is semantic on the three
   regions, not a syntactic comparison): (a == b) ? M(a, a) : M(a, b) *)
Lemma harmless_conditional_accepted :
  let body := ACond CEq 0 1 (AEntry "kernel_matrix" (APar 0) (APar 0)) (AEntry "kernel_matrix" (APar 0) (APar 1)) in
  let mb := {| am_name := "kernel"; am_arity := 2; am_out := false; am_body := body |} in
  member_ok {| ac_name := "precomputed_kernel_callback"; ac_field := "kernel_matrix"; ac_members := [mb] |}
            FPreKernel mb = true.
Proof. vm_compute. reflexivity. Qed.
