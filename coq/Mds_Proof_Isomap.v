(* ====================================================================== *)
(*  Mds_Proof_Isomap.v — C05, last clause: Isomap with k = N-1 is MDS.     *)
(*                                                                         *)
(*  Graph side (integers, definitions of C04's Dijkstra_Spec.v: `edge`,    *)
(*  `pathn`, `path`, `is_sp`, `metric_w`; only the DEFINITIONS are used,   *)
(*  the proofs below are self-contained): in the complete neighbourhood    *)
(*  graph (every vertex lists every other vertex: k = N-1) of a metric     *)
(*  table, the shortest-path weight i -> j IS the direct distance w i j.   *)
(*  Matrix side (any field): if the geodesic matrix equals the distance    *)
(*  table, the matrix Isomap hands to the solver (square, (S+S^T)/2,       *)
(*  centerMatrix, * -0.5) is the matrix MDS hands to the solver.           *)
(* ====================================================================== *)
Require Import Field Ring Arith Lia List Bool ZArith.
From TK Require Import Mat_Sums Mat_Core Mds_Model Mds_Spec Mds_Proof Dijkstra_Spec.
Import ListNotations.

(* ---------------- graph side ---------------- *)
Section CompleteGraph.
  Variable nbrs : list (list nat).
  Variable w : nat -> nat -> Z.
  Variable N : nat.
  Local Open Scope Z_scope.

  (* every neighbour list stays inside 0..N-1 and lists every OTHER vertex *)
  Definition complete_graph : Prop :=
    (forall u v, edge nbrs u v -> (u < N)%nat /\ (v < N)%nat) /\
    (forall u v, (u < N)%nat -> (v < N)%nat -> u <> v -> edge nbrs u v).

  Hypothesis Hc : complete_graph.
  Hypothesis Hm : metric_w w N.

  Lemma pathn_in_range k v W n : (k < N)%nat -> pathn nbrs w k v W n -> (v < N)%nat.
  Proof.
    intros Hk H. induction H as [|u v W n _ _ He]; [assumption|].
    destruct Hc as [Hr _]. apply (Hr u v He).
  Qed.

  (* no walk beats the direct distance (triangle inequality, induction on the walk) *)
  Lemma walk_ge_direct k v W n : (k < N)%nat -> pathn nbrs w k v W n -> w k v <= W.
  Proof.
    intros Hk H. induction H as [|u v W n Hp IH He].
    - destruct Hm as [H0 _]. rewrite H0 by assumption. lia.
    - destruct Hm as [_ [_ Htri]].
      assert (Hu : (u < N)%nat) by (eapply pathn_in_range; eassumption).
      assert (Hv : (v < N)%nat) by (destruct Hc as [Hr _]; apply (Hr u v He)).
      specialize (Htri k u v Hk Hu Hv). lia.
  Qed.

  Theorem complete_metric_sp i j :
    (i < N)%nat -> (j < N)%nat -> is_sp nbrs w i j (Some (w i j)).
  Proof.
    intros Hi Hj. cbn [is_sp]. split.
    - destruct (Nat.eq_dec i j) as [->|Hne].
      + exists 0%nat. destruct Hm as [H0 _]. rewrite H0 by assumption. constructor.
      + exists 1%nat. replace (w i j) with (0 + w i j) by lia.
        econstructor; [constructor|]. destruct Hc as [_ Hall]. apply Hall; assumption.
    - intros W [n Hp]. eapply walk_ge_direct; eassumption.
  Qed.

  (* whatever value a correct geodesic computation returns, it is the direct distance *)
  Corollary complete_metric_sp_unique i j o :
    (i < N)%nat -> (j < N)%nat -> is_sp nbrs w i j o -> o = Some (w i j).
  Proof.
    intros Hi Hj Ho. destruct (complete_metric_sp i j Hi Hj) as [Hp Hmin].
    destruct o as [d|].
    - destruct Ho as [Hpd Hmind]. f_equal.
      pose proof (Hmin d Hpd). pose proof (Hmind _ Hp). lia.
    - exfalso. exact (Ho _ Hp).
  Qed.
End CompleteGraph.

(* ---------------- matrix side ---------------- *)
Section IsomapMatrix.
  Context {F : Type} {Fo : FieldOps F} {Ff : IsField F}.
  Add Field MdsIsomapField : (@Fth F Fo Ff).
  Local Open Scope F_scope.

  Lemma isomap_matrix_exec_ok n L :
    isomap_matrix_exec n L = mtab n n (isomap_matrix n (mof L)).
  Proof.
    unfold isomap_matrix_exec. rewrite center_exec_ok. apply mtab_ext. intros i j Hi Hj.
    rewrite mof_mtab by assumption. unfold isomap_matrix. f_equal.
    apply center_matrix_meq; try assumption. apply mof_mtab_meq.
  Qed.

  (* geodesics equal to a symmetric distance table => Isomap's matrix is MDS's matrix *)
  Theorem isomap_matrix_of_direct n (G dist : mat F) :
    two <> 0 ->
    msym n dist ->
    meq n n G dist ->
    meq n n (isomap_matrix n G) (mds_matrix n dist).
  Proof.
    intros H2 Hsym HG i j Hi Hj. unfold isomap_matrix, mds_matrix. f_equal.
    apply center_matrix_meq; try assumption.
    intros a b Ha Hb. unfold sym_avg, geo_sq, dist_sq_matrix.
    rewrite (HG a b Ha Hb), (HG b a Hb Ha), (Hsym b a Hb Ha).
    destruct (Nat.leb a b) eqn:E.
    - unfold two in *. field. assumption.
    - rewrite (Hsym a b Ha Hb). unfold two in *. field. assumption.
  Qed.

  (* the C05 clause.  `inj` embeds the integer weights into the field (qz at Qc). *)
  Theorem isomap_k_full (inj : Z -> F) nbrs (w : nat -> nat -> Z) N (G : mat F) :
    two <> 0 ->
    complete_graph nbrs N ->
    metric_w w N ->
    (forall i j, i < N -> j < N -> w i j = w j i) ->
    (forall i j, i < N -> j < N ->
       exists o, is_sp nbrs w i j o /\
                 match o with Some g => G i j = inj g | None => False end) ->
    meq N N (isomap_matrix N G) (mds_matrix N (fun i j => inj (w i j))).
  Proof.
    intros H2 Hc Hm Hws HG.
    apply isomap_matrix_of_direct; [assumption| |].
    - intros i j Hi Hj. cbv beta. rewrite (Hws i j Hi Hj). reflexivity.
    - intros i j Hi Hj. destruct (HG i j Hi Hj) as [o [Hsp Ho]].
      rewrite (complete_metric_sp_unique nbrs w N Hc Hm i j o Hi Hj Hsp) in Ho. exact Ho.
  Qed.
End IsomapMatrix.

(* non-vacuity witness for isomap_k_full: points 0, 1, 3 on a line, k = N-1 = 2 *)
Definition ex3_nbrs : list (list nat) := [[1; 2]; [0; 2]; [0; 1]].
Definition ex3_w (i j : nat) : Z :=
  Z.abs (nth i [0; 1; 3]%Z 0%Z - nth j [0; 1; 3]%Z 0%Z).
Lemma ex3_ok :
  complete_graph ex3_nbrs 3 /\ metric_w ex3_w 3 /\
  (forall i j, i < 3 -> j < 3 -> ex3_w i j = ex3_w j i).
Proof.
  split; [split|split].
  - intros u v [row [Hr Hin]].
    destruct u as [|[|[|u]]]; cbn in Hr.
    1-3: inversion Hr; subst row; cbn in Hin; intuition lia.
    destruct u; cbn in Hr; discriminate.
  - intros u v Hu Hv Hne.
    destruct u as [|[|[|u]]]; try lia; destruct v as [|[|[|v]]]; try lia;
      (eexists; split; [reflexivity|cbn; tauto]).
  - split; [|split].
    + intros u Hu. destruct u as [|[|[|u]]]; try lia; reflexivity.
    + intros u v _ _. unfold ex3_w. lia.
    + intros u v x Hu Hv Hx.
      destruct u as [|[|[|u]]]; try lia; destruct v as [|[|[|v]]]; try lia;
        destruct x as [|[|[|x]]]; try lia; vm_compute; discriminate.
  - intros i j Hi Hj. unfold ex3_w. lia.
Qed.
