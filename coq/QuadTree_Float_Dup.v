(* QuadTree_Float_Dup.v — the DUPLICATE TEST of tsne::QuadTree::insert() in binary64
   (include/tapkee/external/barnes_hut_sne/quadtree.hpp):

       bool duplicate = true;
       for (int d = 0; d < QT_NO_DIMS; d++)
           if (point[d] != data[index[n] * QT_NO_DIMS + d]) { duplicate = false; break; }

   `!=` on doubles is the IEEE comparison (PrimFloat.eqb negated): +0.0 and -0.0 are EQUAL, NaN differs from itself.
   fdup is that test for QT_NO_DIMS = 2.  fdup_bits is the test a byte-wise comparison of the two coordinates
   (memcmp) would make on non-NaN data: equal values AND equal sign bits (for finite non-NaN doubles the encoding is
   determined by the value, except for zero, which has two).  No proofs in this file. *)
From Coq Require Import Floats List Bool.
From TK Require Import QuadTree_Float_Model.
Import ListNotations.
Local Open Scope float_scope.

Definition fdup (p q : fpt) : bool := (fst p =? fst q) && (snd p =? snd q).

(* same value and same sign bit (get_sign distinguishes -0.0 from +0.0) *)
Definition fbits_same (a b : float) : bool := (a =? b) && Bool.eqb (get_sign a) (get_sign b).
Definition fdup_bits (p q : fpt) : bool := fbits_same (fst p) (fst q) && fbits_same (snd p) (snd q).

(* ---- interface with the check: for the occupied leaves of a real dump, given as the data index each stores, how
   many of the inserted indices (a list with repetitions, in insertion order) are duplicates of the stored point by
   the test above: that is what count[0] of the leaf must be *)
Definition fpt0 : fpt := (0, 0).
Definition fcase_dupcounts (pts : list fpt) (ins : list nat) (stored : list nat) : list nat :=
  map (fun j => length (filter (fun i => fdup (nth i pts fpt0) (nth j pts fpt0)) ins)) stored.
(* the number of -0.0 coordinates among the points (the check compares with what it sent and what the harness saw) *)
Definition fneg_zero (a : float) : bool := (a =? 0) && get_sign a.
Definition fcase_negzeros (pts : list fpt) : nat :=
  length (filter fneg_zero (flat_map (fun p => [fst p; snd p]) pts)).
