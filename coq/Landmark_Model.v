(* ====================================================================== *)
(*  Landmark_Model.v — executable model of tapkee's landmark code (C11)    *)
(*  mirrors, step by step,                                                 *)
(*    routines/landmarks.hpp                 select_landmarks_random,      *)
(*                                           triangulate                   *)
(*    routines/multidimensional_scaling.hpp  compute_distance_matrix       *)
(*                                           (both overloads)              *)
(*    utils/matrix.hpp                       centerMatrix (Mat_Core)       *)
(*    methods/landmark_multidimensional_scaling.hpp  embed()               *)
(*    methods/multidimensional_scaling.hpp           embed()               *)
(*    methods/landmark_isomap.hpp            embed(), Dense branch         *)
(*    methods/isomap.hpp                     embed()                       *)
(*    routines/eigendecomposition.hpp        dense, `largest` branch:      *)
(*                                           rightCols(d) / tail(d)        *)
(*  Algebra regime (DESIGN 1.1): abstract field operations (FieldOps),     *)
(*  instantiated and run at Qc.  ORACLES, i.e. inputs of the model whose   *)
(*  contracts are hypotheses of the theorems and are validated at run time *)
(*  by checks/c11.py:                                                      *)
(*    - the answer of tapkee::random_shuffle (a permutation of 0..N-1),    *)
(*    - the landmark count static_cast<IndexType>(size * ratio) (double    *)
(*      rounding: modelled bit-exactly in Landmark_Float.v, PrimFloat),    *)
(*    - the distance callback's values (table `dist`),                     *)
(*    - the dense eigen-solver's answer (all eigenvectors W, ascending     *)
(*      eigenvalues w) and the sqrt values,                                *)
(*    - the landmark geodesics G (Dijkstra: property C04).                 *)
(*  Out-of-range accesses yield LOOB, never a default.  `triangulate`      *)
(*  returns its WRITE TRACE (row index, row) in program order so that      *)
(*  "every row is written exactly once" is a statement about the model.    *)
(*  NO proofs in this file.                                                *)
(* ====================================================================== *)
Require Import Arith List Bool.
Require String.
From TK Require Import Mat_Sums Mat_Core.
Import ListNotations.
Import String.StringSyntax.
Local Open Scope string_scope.

Inductive lres (A : Type) : Type :=
| LOk (a : A)
| LOOB (what : String.string) (index size : nat).
Arguments LOk {A} a.
Arguments LOOB {A} what index size.

(* ---------------------------------------------------------------------- *)
(* select_landmarks_random(begin, end, ratio):
     landmarks = 0, 1, ..., N-1;  tapkee::random_shuffle(landmarks)   [oracle: `shuffled`]
     landmarks.erase(landmarks.begin() + static_cast<IndexType>(landmarks.size()*ratio), landmarks.end())
   `count` is the value of the cast (Landmark_Float.n_landmarks_fl).  erase with
   begin()+count past end() is undefined: LOOB. *)
Definition select_landmarks (shuffled : list nat) (count : nat) : lres (list nat) :=
  if Nat.leb count (length shuffled) then LOk (firstn count shuffled)
  else LOOB "landmarks.erase(begin()+count, end())" count (length shuffled).

Definition lmk (lm : list nat) (i : nat) : nat := nth i lm 0%nat.

(* vector<bool>::operator[] = value; only used in range (checked by the caller) *)
Definition set_nth {A : Type} (i : nat) (x : A) (l : list A) : list A :=
  firstn i l ++ x :: skipn (S i) l.

Section LandmarkModel.
  Context {F : Type} {Fo : FieldOps F}.
  Local Open Scope F_scope.

  (* the literal -0.5 *)
  Definition lm_neg_half : F := - (1 / two).

  (* ---------------- distance matrices ---------------- *)
  (* compute_distance_matrix(begin, end, landmarks, callback):
       for i < L, for j in i..L-1: d = callback.distance(begin[lm[i]], begin[lm[j]]); d *= d;
                                   M(i,j) = d; M(j,i) = d
     the callback is only asked with the landmark of the smaller POSITION first *)
  Definition landmark_dist_sq (lm : list nat) (dist : mat F) : mat F :=
    fun i j =>
      if Nat.leb i j then dist (lmk lm i) (lmk lm j) * dist (lmk lm i) (lmk lm j)
      else dist (lmk lm j) (lmk lm i) * dist (lmk lm j) (lmk lm i).

  (* compute_distance_matrix(begin, end, callback) — the non-landmark overload *)
  Definition full_dist_sq (dist : mat F) : mat F :=
    fun i j => if Nat.leb i j then dist i j * dist i j else dist j i * dist j i.

  (* landmark_distances_squared = distance_matrix.colwise().mean()   (BEFORE centring) *)
  Definition landmark_mu (L : nat) (D2 : mat F) : vec F := colmean L D2.

  (* centerMatrix(distance_matrix); distance_matrix.array() *= -0.5;  — handed to the solver *)
  Definition lmds_matrix (lm : list nat) (dist : mat F) : mat F :=
    fun i j => center_matrix (length lm) (landmark_dist_sq lm dist) i j * lm_neg_half.

  Definition mds_matrix_full (n : nat) (dist : mat F) : mat F :=
    fun i j => center_matrix n (full_dist_sq dist) i j * lm_neg_half.

  (* ---------------- eigendecomposition_impl_dense, `largest` branch ----------------
       solver.eigenvectors().rightCols(target_dimension), solver.eigenvalues().tail(target_dimension)
     on the n x n answer (W, w).  Eigen: rightCols(d) needs d <= cols. *)
  Definition select_largest (n d : nat) (W : mat F) (w : vec F) : lres (mat F * vec F) :=
    if Nat.leb d n then
      LOk ((fun r c => W r (n - d + c)%nat), (fun c => w (n - d + c)%nat))
    else LOOB "solver.eigenvectors().rightCols(target_dimension)" d n.

  (* for i < target_dimension: first.col(i) *= sqrt(second(i));   s c = the sqrt value *)
  Definition scale_by (V : mat F) (s : vec F) : mat F := fun r c => V r c * s c.

  (* EigendecompositionResult with its run-time shape *)
  Record eig_result : Type := {
    er_rows : nat; er_cols : nat; er_first : mat F;
    er_size : nat; er_second : vec F }.

  (* ---------------- triangulate ----------------
     phase 1:  for index_iter < n_landmarks:
                 to_process[landmarks[index_iter]] = false;
                 embedding.row(landmarks[index_iter]) = landmarks_embedding.first.row(index_iter);
     returns the final to_process and the writes (row, value) in program order *)
  Fixpoint tri_copy (N d : nat) (E : eig_result) (lm : list nat) (k : nat) (tp : list bool)
    : lres (list bool * list (nat * vec F)) :=
    match lm with
    | [] => LOk (tp, [])
    | l :: rest =>
        if negb (Nat.ltb l N) then LOOB "to_process[landmarks[index_iter]]" l N
        else if negb (Nat.ltb k (er_rows E)) then
          LOOB "landmarks_embedding.first.row(index_iter)" k (er_rows E)
        else if negb (Nat.eqb (er_cols E) d) then
          LOOB "embedding.row(..) = first.row(..): column counts differ" (er_cols E) d
        else
          match tri_copy N d E rest (S k) (set_nth l false tp) with
          | LOk (tp', ws) => LOk (tp', (l, mrow (er_first E) k) :: ws)
          | LOOB a b c => LOOB a b c
          end
    end.

  (* phase 2 (since 7bdf733, finding F42):
       null_eigenvalue = second.cwiseAbs().maxCoeff() * n_landmarks * epsilon();
       for i < target_dimension:
         if (second(i) > null_eigenvalue) first.col(i).array() /= second(i); else first.col(i).setZero();
     `keep i` is the outcome of that binary64 comparison: an INPUT of the model (the check recomputes
     it bit-exactly from the implementation's own eigenvalues).  The code BEFORE 7bdf733,
         for i < target_dimension: first.col(i).array() /= second(i);
     is the instance keep = fun _ => true. *)
  Definition tri_divide (d : nat) (keep : nat -> bool) (E : eig_result) : mat F :=
    fun r c => if Nat.ltb c d then (if keep c then er_first E r c / er_second E c else 0)
               else er_first E r c.
  Definition keep_all : nat -> bool := fun _ => true.

  (* phase 3, one row:
       for i < n_landmarks: d = distance(begin[index_iter], begin[landmarks[i]]); dtl(i) = d*d;
       dtl -= landmark_distances_squared;
       embedding.row(index_iter) = -0.5 * first.transpose() * dtl *)
  Definition tri_delta (lm : list nat) (dist : mat F) (mu : vec F) (x : nat) : vec F :=
    fun t => dist x (lmk lm t) * dist x (lmk lm t) - mu t.

  Definition tri_row (L : nat) (Fd : mat F) (delta : vec F) : vec F :=
    fun c => sumn L (fun t => lm_neg_half * Fd t c * delta t).

  Fixpoint tri_rest (xs : list nat) (tp : list bool) (row : nat -> vec F) : list (nat * vec F) :=
    match xs with
    | [] => []
    | x :: r =>
        if nth x tp false then (x, row x) :: tri_rest r tp row else tri_rest r tp row
    end.

  Definition triangulate (N d : nat) (keep : nat -> bool) (lm : list nat) (dist : mat F)
             (mu_size : nat) (mu : vec F) (E : eig_result) : lres (list (nat * vec F)) :=
    let L := length lm in
    match tri_copy N d E lm 0 (repeat true N) with
    | LOOB a b c => LOOB a b c
    | LOk (tp, w1) =>
        if negb (Nat.leb d (er_cols E)) then
          LOOB "landmarks_embedding.first.col(i)" (er_cols E) (er_cols E)
        else if negb (Nat.leb d (er_size E)) then
          LOOB "landmarks_embedding.second(i)" (er_size E) (er_size E)
        else if existsb (fun b => b) tp && negb (Nat.eqb mu_size L && Nat.eqb (er_rows E) L) then
          LOOB "dtl -= landmark_distances_squared / first.transpose() * dtl: sizes differ" mu_size L
        else
          let Fd := tri_divide d keep E in
          LOk (w1 ++ tri_rest (seq 0 N) tp (fun x => tri_row L Fd (tri_delta lm dist mu x)))
    end.

  (* the embedding matrix that results from a write trace: row x holds its LAST write;
     None = the row was never written (uninitialised memory in the C++) *)
  Fixpoint last_write (ws : list (nat * vec F)) (x : nat) : option (vec F) :=
    match ws with
    | [] => None
    | (y, v) :: r =>
        match last_write r x with
        | Some v' => Some v'
        | None => if Nat.eqb x y then Some v else None
        end
    end.

  Definition emb_table (N d : nat) (ws : list (nat * vec F)) : list (option (list F)) :=
    map (fun x => option_map (vtab d) (last_write ws x)) (seq 0 N).

  (* ---------------- LandmarkMultidimensionalScalingImplementation::embed ----------------
     lm: the landmarks (select_landmarks' answer); (W, w): the dense solver's answer for
     lmds_matrix lm dist; s: the values sqrt(max(lam, 0)) of the d selected eigenvalues (the clamp
     is part of the sqrt oracle's contract since 7bdf733); keep: see tri_divide *)
  Definition lmds_embed (N d : nat) (keep : nat -> bool) (lm : list nat) (dist : mat F)
             (W : mat F) (w : vec F) (s : vec F) : lres (list (nat * vec F)) :=
    let L := length lm in
    match find (fun l => negb (Nat.ltb l N)) lm with
    | Some l => LOOB "begin[landmarks[i]]" l N
    | None =>
        let mu := landmark_mu L (landmark_dist_sq lm dist) in
        match select_largest L d W w with
        | LOOB a b c => LOOB a b c
        | LOk (V, lam) =>
            triangulate N d keep lm dist L mu
              {| er_rows := L; er_cols := d; er_first := scale_by V s;
                 er_size := d; er_second := lam |}
        end
    end.

  (* whole method, selection included *)
  Definition lmds (N d : nat) (keep : nat -> bool) (shuffled : list nat) (count : nat) (dist : mat F)
             (W : mat F) (w : vec F) (s : vec F) : lres (list (nat * vec F)) :=
    match select_landmarks shuffled count with
    | LOOB a b c => LOOB a b c
    | LOk lm => lmds_embed N d keep lm dist W w s
    end.

  (* MultidimensionalScalingImplementation::embed; (W, w) the answer for mds_matrix_full n dist *)
  Definition mds_embed (n d : nat) (W : mat F) (w : vec F) (s : vec F) : lres (mat F) :=
    match select_largest n d W w with
    | LOOB a b c => LOOB a b c
    | LOk (V, _) => LOk (scale_by V s)
    end.

  (* ---------------- LandmarkIsomapImplementation::embed, Dense branch ----------------
     G: L x N landmark geodesics (compute_shortest_distances_matrix with landmarks)
       distance_matrix = G.array().square();
       col_means = colwise().mean(); row_means = rowwise().mean(); grand_mean = mean();
       array() += grand_mean; colwise() -= row_means; rowwise() -= col_means^T; array() *= -0.5 *)
  Definition lisomap_matrix (L N : nat) (G : mat F) : mat F :=
    let D2 : mat F := fun i j => G i j * G i j in
    fun i j => (D2 i j + grandmean L N D2 - rowmean N D2 i - colmean L D2 j) * lm_neg_half.

  (* distance_matrix * distance_matrix.transpose()  — handed to the solver *)
  Definition lisomap_sym (N : nat) (B : mat F) : mat F :=
    fun i j => sumn N (fun t => B i t * B j t).

  (* embedding = distance_matrix.transpose() * first;  col(i) /= sqrt(sqrt(second(i)));
     q c = the value sqrt(sqrt(lam c)) *)
  Definition lisomap_embed (N L d : nat) (G : mat F) (W : mat F) (w : vec F) (q : vec F)
    : lres (mat F) :=
    match select_largest L d W w with
    | LOOB a b c => LOOB a b c
    | LOk (U, _) =>
        let B := lisomap_matrix L N G in
        LOk (fun j c => sumn L (fun k => B k j * U k c) / q c)
    end.

  (* IsomapImplementation::embed: square, (S + S^T).eval() / 2.0 (fix F23), centerMatrix, *= -0.5
     (G is N x N here) *)
  Definition isomap_matrix (N : nat) (G : mat F) : mat F :=
    fun i j => center_matrix N (sym_avg (fun a b => G a b * G a b)) i j * lm_neg_half.

  (* ---------------- list versions (these are what is extracted and run) ----------------
     every stage is tabulated once, as the C++ materialises it *)
  Definition center_stage (n : nat) (M : list (list F)) : list (list F) :=
    let A := mof M in
    let cm := vtab n (colmean n A) in
    let g := grandmean n n A in
    mtab n n (fun i j => A i j + g - vof cm j - vof cm i).

  (* (D2, mu, B) of the landmark-MDS front end *)
  Definition lmds_stages_exec (lm : list nat) (Ldist : list (list F))
    : list (list F) * list F * list (list F) :=
    let L := length lm in
    let D2 := mtab L L (landmark_dist_sq lm (mof Ldist)) in
    let mu := vtab L (landmark_mu L (mof D2)) in
    let C := center_stage L D2 in
    (D2, mu, mtab L L (fun i j => mof C i j * lm_neg_half)).

  (* triangulate on tables; V: L x d selected eigenvectors BEFORE scaling *)
  Definition lmds_tri_exec (N d : nat) (keep : nat -> bool) (lm : list nat) (Ldist : list (list F))
             (V : list (list F)) (lam s : list F) : lres (list (option (list F))) :=
    let L := length lm in
    let dist := mof Ldist in
    let D2 := mtab L L (landmark_dist_sq lm dist) in
    let mu := vtab L (landmark_mu L (mof D2)) in
    let YL := mtab L d (scale_by (mof V) (vof s)) in
    let E := {| er_rows := L; er_cols := d; er_first := mof YL;
                er_size := length lam; er_second := vof lam |} in
    match find (fun l => negb (Nat.ltb l N)) lm with
    | Some l => LOOB "begin[landmarks[i]]" l N
    | None =>
        match tri_copy N d E lm 0 (repeat true N) with
        | LOOB a b c => LOOB a b c
        | LOk (tp, w1) =>
            if negb (Nat.leb d (er_cols E)) then
              LOOB "landmarks_embedding.first.col(i)" (er_cols E) (er_cols E)
            else if negb (Nat.leb d (er_size E)) then
              LOOB "landmarks_embedding.second(i)" (er_size E) (er_size E)
            else
              let Fd := mtab L d (tri_divide d keep E) in
              let row := fun x =>
                let delta := vtab L (tri_delta lm dist (vof mu) x) in
                vof (vtab d (tri_row L (mof Fd) (vof delta))) in
              LOk (emb_table N d (w1 ++ tri_rest (seq 0 N) tp row))
        end
    end.

  Definition lisomap_matrix_exec (L N : nat) (LG : list (list F)) : list (list F) :=
    let D2 := mtab L N (fun i j => mof LG i j * mof LG i j) in
    let A := mof D2 in
    let cm := vtab N (colmean L A) in
    let rm := vtab L (rowmean N A) in
    let g := grandmean L N A in
    mtab L N (fun i j => (A i j + g - vof rm i - vof cm j) * lm_neg_half).

  (* U: L x d selected eigenvectors of B B^T *)
  Definition lisomap_embed_exec (N L d : nat) (LG : list (list F)) (U : list (list F))
             (q : list F) : list (list F) :=
    let B := lisomap_matrix_exec L N LG in
    mtab N d (fun j c => sumn L (fun k => mof B k j * mof U k c) / vof q c).

End LandmarkModel.
