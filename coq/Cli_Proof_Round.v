(* ====================================================================== *)
(*  Cli_Proof_Round.v — rows <-> lines under both transposition flags:     *)
(*  the output file of a run (written with or without --transpose-output)  *)
(*  read back with the matching --transpose-input flag hands the library   *)
(*  exactly the embedded samples, sample i = row i of the embedding.       *)
(* ====================================================================== *)
From Coq Require Import String Ascii List Arith Bool Lia.
From TK Require Import Cli_Model Cli_Spec Cli_Proof_Files Cli_Proof_Transpose.
Import ListNotations.

Section Round.
  Variable V : Type.
  Variable parse : string -> option V.
  Variable print : V -> string.
  Hypothesis parse_print : forall v, parse (print v) = Some v.

  Theorem output_reread : forall d c (E : list (list V)),
    Ascii.eqb d nl = false -> 0 < c -> rect V c E -> E <> [] ->
    (forall v, clean d (print v) = true) ->
    forall (transposed : bool) i r, nth_error E i = Some r ->
    exists file,
      read_data_fixed V parse d (cli_output V print d transposed E) = RMat file /\
      (* main.cpp transposes the file unless --transpose-input is given; here it is given iff the
         output was written with --transpose-output *)
      sample V i (if negb transposed then transpose V file else file) = r.
  Proof.
    intros d c E Hd Hc Hrect Hne Hclean transposed i r Hi.
    unfold cli_output. destruct transposed; cbn [negb].
    - destruct (transpose_rect V c E Hrect Hne) as [Hlen HrectT].
      assert (Hn : 0 < length E) by (destruct E; [congruence|cbn; lia]).
      exists (transpose V E). split.
      + apply (write_read V parse print parse_print d (length E) (transpose V E) Hd Hn HrectT Hclean).
      + apply (line_is_sample V c E i r Hrect Hi).
    - exists E. split.
      + apply (write_read V parse print parse_print d c E Hd Hc Hrect Hclean).
      + apply (line_is_sample V c E i r Hrect Hi).
  Qed.
End Round.
