(* Validate_Proof_Bodies.v — property C14, wave 2: the bodies that translate/t_val.py reads from
   include/tapkee/predicates.hpp and include/stichwort/parameter.hpp (coq/gen/Validate.v:
   gen_predicates, gen_pred_uses, gen_container) against the hand-written walker.

   F. predicates: instantiating a body at the arguments of a use gives the walker's `pred`, and the
      walker's pred_holds IS the body applied to the value (instantiate_sound); the semantics of the
      four GENERATED bodies; every check of the generated tables is the instantiation of the
      generated body its use names (gen_uses_match, finite) and therefore means l <= x < u etc.
   G. the container: interpretation of the statement language; the documented bodies compute the
      walker's ps_add / pm_merge / duplicate test / type test / lookup, and the comma expression of
      every arity is ps_build; the generated bodies are the documented ones (finite). *)

From Coq Require Import ZArith QArith Qround List Bool Arith Lia.
Import ListNotations.
From TK Require Import Validate_Model Validate_Spec Validate_Proof Validate.
Local Open Scope nat_scope.

(* ================================================================== F. predicate bodies *)
Lemma operand_bexpr_sound : forall n ty args o b,
  operand_bexpr ty args o = Some b ->
  coerce ty (eval_bexpr n b) = operand_Q ty (map (bound n ty) args) o.
Proof.
  intros n ty args o b H. destruct o as [i|z|q|]; cbn in H.
  - cbn. revert i H. induction args as [|a t IH]; intros [|i] H; cbn in *; try discriminate.
    + now inversion H.
    + now apply IH.
  - inversion H; subst. cbn. now destruct ty.
  - destruct ty; try discriminate. now inversion H.
  - inversion H; subst. now destruct ty.
Qed.

Lemma lower_cmp : forall n ty op b x, is_lower op = true ->
  lo_holds n ty (Some (strict_of op, b)) x = cmp_holds op x (coerce ty (eval_bexpr n b)).
Proof. intros n ty [] b x H; try discriminate; reflexivity. Qed.

Lemma upper_cmp : forall n ty op b x, is_lower op = false ->
  hi_holds n ty (Some (strict_of op, b)) x = cmp_holds op x (coerce ty (eval_bexpr n b)).
Proof. intros n ty [] b x H; try discriminate; reflexivity. Qed.

(* the walker's pred_holds on an instantiated predicate object is the body applied to the value *)
Lemma instantiate_sound : forall n ty args x conj acc p,
  instantiate ty args conj acc = Some p ->
  pred_holds n ty p x =
  pred_holds n ty acc x && body_holds ty (map (bound n ty) args) conj x.
Proof.
  intros n ty args x. induction conj as [|[op o] rest IH]; intros acc p H.
  - cbn in H. inversion H; subst. unfold body_holds; cbn. now rewrite andb_true_r.
  - cbn [instantiate] in H. destruct (operand_bexpr ty args o) as [b|] eqn:Eb; [|discriminate].
    pose proof (operand_bexpr_sound n ty args o b Eb) as Ob.
    unfold body_holds; cbn [forallb fst snd]. fold (body_holds ty (map (bound n ty) args) rest x).
    destruct (is_lower op) eqn:El.
    + destruct (p_lo acc) eqn:Lo; [discriminate|].
      rewrite (IH _ _ H). unfold pred_holds at 1 2; cbn [p_lo p_hi].
      rewrite lower_cmp by auto. rewrite Lo. cbn [lo_holds]. rewrite Ob.
      destruct (cmp_holds op x _), (hi_holds n ty (p_hi acc) x), (body_holds _ _ rest x); reflexivity.
    + destruct (p_hi acc) eqn:Hi; [discriminate|].
      rewrite (IH _ _ H). unfold pred_holds at 1 2; cbn [p_lo p_hi].
      rewrite upper_cmp by auto. rewrite Hi. cbn [hi_holds]. rewrite Ob.
      destruct (cmp_holds op x _), (lo_holds n ty (p_lo acc) x), (body_holds _ _ rest x); reflexivity.
Qed.

Lemma check_of_use_sound : forall ps u c,
  check_of_use ps u = Some c ->
  exists pb, find_pbody ps (pu_pred u) = Some pb /\ length (pu_args u) = pb_nargs pb /\
             c_kw c = pu_kw u /\ c_ty c = pu_ty u /\
             forall n x, pred_holds n (c_ty c) (c_pred c) x =
                         body_holds (pu_ty u) (map (bound n (pu_ty u)) (pu_args u)) (pb_conj pb) x.
Proof.
  intros ps u c H. unfold check_of_use in H.
  destruct (find_pbody ps (pu_pred u)) as [pb|] eqn:F; [|discriminate].
  destruct (Nat.eqb (length (pu_args u)) (pb_nargs pb)) eqn:L; [|discriminate].
  destruct (instantiate (pu_ty u) (pu_args u) (pb_conj pb) no_pred) as [p|] eqn:I; [|discriminate].
  inversion H; subst c; cbn. exists pb. repeat split; auto.
  - now apply Nat.eqb_eq.
  - intros n x. now rewrite (instantiate_sound n _ _ x _ _ _ I).
Qed.

(* ---- the four GENERATED bodies (gen/Validate.v), over all of Q *)
Lemma gen_positivity_body : forall ty x,
  body_holds ty [] (pb_conj gen_pred_Positivity) x = true <-> (0 < x)%Q.
Proof. intros. unfold body_holds; cbn. rewrite andb_true_r. apply Qltb_lt. Qed.

Lemma gen_non_negativity_body : forall ty x,
  body_holds ty [] (pb_conj gen_pred_NonNegativity) x = true <-> (0 <= x)%Q.
Proof. intros. unfold body_holds; cbn. rewrite andb_true_r. apply Qle_bool_iff. Qed.

Lemma gen_in_range_body : forall ty l u x,
  body_holds ty [l; u] (pb_conj gen_pred_InRange) x = true <-> (l <= x /\ x < u)%Q.
Proof.
  intros. unfold body_holds; cbn. rewrite andb_true_r, andb_true_iff, Qle_bool_iff, Qltb_lt. tauto.
Qed.

Lemma gen_in_closed_range_body : forall ty l u x,
  body_holds ty [l; u] (pb_conj gen_pred_InClosedRange) x = true <-> (l <= x /\ x <= u)%Q.
Proof.
  intros. unfold body_holds; cbn. rewrite andb_true_r, andb_true_iff, !Qle_bool_iff. tauto.
Qed.

(* ---- every check of the generated tables is its use instantiated at the generated body (finite) *)
Lemma gen_uses_match :
  map (check_of_use gen_predicates) gen_pred_uses = map Some (checks_of gen_tables).
Proof. vm_compute. reflexivity. Qed.

Lemma map_some_combine : forall (A B : Type) (f : A -> option B) l1 l2 a b,
  map f l1 = map Some l2 -> In (a, b) (combine l1 l2) -> f a = Some b.
Proof.
  intros A B f. induction l1 as [|a1 t1 IH]; intros [|b1 t2] a b M I; cbn in *; try contradiction;
    try discriminate.
  inversion M. destruct I as [E|I].
  - inversion E; subst. assumption.
  - eapply IH; eauto.
Qed.

Lemma gen_uses_cover : length gen_pred_uses = length (checks_of gen_tables).
Proof.
  pose proof (f_equal (@length _) gen_uses_match) as H. now rewrite !map_length in H.
Qed.

Lemma gen_checks_are_bodies : forall u c,
  In (u, c) (combine gen_pred_uses (checks_of gen_tables)) ->
  exists pb, find_pbody gen_predicates (pu_pred u) = Some pb /\ length (pu_args u) = pb_nargs pb /\
             c_kw c = pu_kw u /\ c_ty c = pu_ty u /\
             forall n x, pred_holds n (c_ty c) (c_pred c) x =
                         body_holds (pu_ty u) (map (bound n (pu_ty u)) (pu_args u)) (pb_conj pb) x.
Proof.
  intros u c I. apply check_of_use_sound.
  exact (map_some_combine _ _ _ _ _ _ _ gen_uses_match I).
Qed.

(* ... and therefore means what the statement says *)
Lemma gen_checks_meaning : forall u c,
  In (u, c) (combine gen_pred_uses (checks_of gen_tables)) ->
  forall n x, pred_holds n (c_ty c) (c_pred c) x = true <-> use_meaning n u x.
Proof.
  intros u c I n x. destruct (gen_checks_are_bodies u c I) as [pb [F [L [_ [_ S]]]]].
  rewrite S. unfold use_meaning. destruct u as [p k ty args]; cbn [pu_pred pu_args pu_ty] in *.
  destruct p as [|[|[|[|p]]]]; cbn in F; try discriminate; inversion F; subst pb; cbn in L.
  - destruct args; [|discriminate]. apply gen_positivity_body.
  - destruct args; [|discriminate]. apply gen_non_negativity_body.
  - destruct args as [|l [|r [|? ?]]]; try discriminate. apply gen_in_range_body.
  - destruct args as [|l [|r [|? ?]]]; try discriminate. apply gen_in_closed_range_body.
Qed.

(* ================================================================== G. the container *)
Lemma doc_add : forall s p, run_add doc_container s p = CNormal (ps_add s p).
Proof.
  intros s [k v]. unfold run_add, ps_add; cbn.
  destruct (pm_mem k (ps_map s)); reflexivity.
Qed.

Lemma doc_check : forall s,
  run_check doc_container s =
  match ps_dups s with [] => CNormal s | _ :: _ => CThrown SwMultiple end.
Proof. intros s. unfold run_check; cbn. destruct (ps_dups s); reflexivity. Qed.

Lemma doc_index : forall s k,
  run_index doc_container s k =
  match pm_lookup k (ps_map s) with Some v => CReturned s (Some v) | None => CThrown SwMissed end.
Proof.
  intros s k. unfold run_index; cbn. unfold pm_mem. destruct (pm_lookup k (ps_map s)); reflexivity.
Qed.

Lemma merge_loop : forall f,
  (forall s0 kv, f s0 kv =
     CNormal {| ps_map := if pm_mem (fst kv) (ps_map s0) then ps_map s0
                          else pm_set (fst kv) (snd kv) (ps_map s0);
                ps_dups := ps_dups s0 |}) ->
  forall d s, foreach_loop f d s = CNormal {| ps_map := pm_merge (ps_map s) d; ps_dups := ps_dups s |}.
Proof.
  intros f Hf. unfold pm_merge. induction d as [|kv d IH]; intros s.
  - cbn. now destruct s.
  - cbn [foreach_loop fold_left]. rewrite Hf. rewrite IH. reflexivity.
Qed.

Lemma doc_merge : forall s d,
  run_merge doc_container s d = CNormal {| ps_map := pm_merge (ps_map s) d; ps_dups := ps_dups s |}.
Proof.
  intros s d. unfold run_merge.
  cbn [ct_merge doc_container run_cstmt map_of env_set ce_argmap]. apply merge_loop.
  intros s0 [k v]. cbn. destruct (pm_mem k (ps_map s0)); cbn; [now destruct s0 | reflexivity].
Qed.

Lemma check_types_loop : forall d f,
  (forall s0 kv, f s0 kv = if wrong_type_vs d kv then CThrown SwWrongType else CNormal s0) ->
  forall l s, foreach_loop f l s = if existsb (wrong_type_vs d) l then CThrown SwWrongType else CNormal s.
Proof.
  intros d f Hf. induction l as [|kv l IH]; intros s.
  - reflexivity.
  - cbn [foreach_loop existsb]. rewrite Hf. destruct (wrong_type_vs d kv); cbn [orb]; auto.
Qed.

Lemma doc_check_types : forall s d,
  run_check_types doc_container s d =
  if existsb (wrong_type_vs d) (ps_map s) then CThrown SwWrongType else CNormal s.
Proof.
  intros s d. unfold run_check_types.
  cbn [ct_check_types doc_container run_cstmt map_of]. apply check_types_loop.
  intros s0 [k v]. unfold wrong_type_vs; cbn. unfold pm_mem.
  destruct (pm_lookup k d) as [dv|]; cbn; [|reflexivity].
  destruct (vtype_eqb (type_of v) (type_of dv)); reflexivity.
Qed.

Lemma doc_to_set : forall a, to_set_of doc_container a = Some (ps_add ps_empty a).
Proof. intros a. unfold to_set_of; cbn [ct_to_set doc_container run_calls]. now rewrite doc_add. Qed.

Lemma doc_comma_param : forall a b,
  comma_param_of doc_container a b = Some (ps_add (ps_add ps_empty a) b).
Proof.
  intros a b. unfold comma_param_of; cbn [ct_comma_param doc_container fst snd run_calls].
  now rewrite !doc_add.
Qed.

Lemma doc_comma_set : forall s p, comma_set_of doc_container s p = Some (ps_add s p).
Proof.
  intros s p. unfold comma_set_of; cbn [ct_comma_set doc_container run_calls]. now rewrite doc_add.
Qed.

Lemma doc_comma_fold : forall rest s,
  fold_left (fun acc p => match acc with Some s0 => comma_set_of doc_container s0 p | None => None end)
            rest (Some s) = Some (fold_left ps_add rest s).
Proof.
  induction rest as [|p rest IH]; intros s; cbn [fold_left]; auto.
  rewrite doc_comma_set. apply IH.
Qed.

(* (a), (a, b), (a, b, c), ...: every arity *)
Lemma doc_comma_expression : forall kws, comma_expression doc_container kws = Some (ps_build kws).
Proof.
  intros [|a [|b rest]]; unfold comma_expression, ps_build.
  - reflexivity.
  - apply doc_to_set.
  - rewrite doc_comma_param. rewrite doc_comma_fold. reflexivity.
Qed.

(* ---- the generated bodies are the documented ones (finite) *)
Lemma gen_container_doc : gen_container = doc_container.
Proof. reflexivity. Qed.

Lemma gen_add : forall s p, run_add gen_container s p = CNormal (ps_add s p).
Proof. rewrite gen_container_doc. exact doc_add. Qed.

Lemma gen_check : forall s,
  run_check gen_container s = match ps_dups s with [] => CNormal s | _ :: _ => CThrown SwMultiple end.
Proof. rewrite gen_container_doc. exact doc_check. Qed.

Lemma gen_check_types : forall s d,
  run_check_types gen_container s d =
  if existsb (wrong_type_vs d) (ps_map s) then CThrown SwWrongType else CNormal s.
Proof. rewrite gen_container_doc. exact doc_check_types. Qed.

Lemma gen_merge : forall s d,
  run_merge gen_container s d = CNormal {| ps_map := pm_merge (ps_map s) d; ps_dups := ps_dups s |}.
Proof. rewrite gen_container_doc. exact doc_merge. Qed.

Lemma gen_index : forall s k,
  run_index gen_container s k =
  match pm_lookup k (ps_map s) with Some v => CReturned s (Some v) | None => CThrown SwMissed end.
Proof. rewrite gen_container_doc. exact doc_index. Qed.

Lemma gen_comma_expression : forall kws, comma_expression gen_container kws = Some (ps_build kws).
Proof. rewrite gen_container_doc. exact doc_comma_expression. Qed.

(* merge never overwrites, wherever the name sits in either map (from Validate_Proof.pm_merge_lookup) *)
Lemma gen_merge_never_overwrites : forall s d s' k v,
  run_merge gen_container s d = CNormal s' -> pm_lookup k (ps_map s) = Some v ->
  pm_lookup k (ps_map s') = Some v.
Proof.
  intros s d s' k v R L. rewrite gen_merge in R. inversion R; subst; cbn. now apply merge_keeps.
Qed.

(* check() finds a duplicate wherever the two occurrences are in the comma expression *)
Lemma gen_duplicates_found : forall kws s,
  comma_expression gen_container kws = Some s ->
  (run_check gen_container s = CThrown SwMultiple <-> nodupb (map fst kws) = false).
Proof.
  intros kws s H. rewrite gen_comma_expression in H. inversion H; subst s. rewrite gen_check.
  destruct (nodupb (map fst kws)) eqn:N.
  - rewrite build_nodup by auto. cbn. split; discriminate.
  - pose proof (build_dup kws N) as D. destruct (ps_dups (ps_build kws)); [congruence|].
    split; auto.
Qed.

Lemma predicate_object_body : forall n ty args conj p x,
  instantiate ty args conj no_pred = Some p ->
  pred_holds n ty p x = body_holds ty (map (bound n ty) args) conj x.
Proof. intros n ty args conj p x H. now rewrite (instantiate_sound n ty args x conj no_pred p H). Qed.
