(* Par_Example.v — property C15: a concrete instance showing that the hypotheses of the C15 theorems
   are satisfiable (non-vacuity), and one showing what goes wrong without them. *)
From Coq Require Import ZArith List String Bool Lia Arith.
Import ListNotations.
From TK Require Import Par_Model Par_Spec Par_Proof Par_Region_Model Par_Region_Proof.
Local Open Scope string_scope.

(* the descriptor of the symmetric distance-matrix fill *)
Definition ex_accs : list access :=
  [ mkAcc "dm" true false AElem (XIt 0) (XIn (BIt 0) BTop);
    mkAcc "dm" true false AElem (XIn (BIt 0) BTop) (XIt 0);
    mkAcc "triplets" true true AAppend XAny XAny ].

Definition dm (i j : nat) : key := ("dm", (Z.of_nat i, Z.of_nat j)).
Definition tmp : key := ("tmp", (0%Z, 0%Z)).

(* iteration i: tmp = 5 (private scratch); dm(i,i) = tmp + i; critical { append [(i,i,1)] } *)
Definition ex_body (i : nat) : prog key Z (list triplet) :=
  Wr (Pr tmp) 5%Z
    (Rd (Pr tmp) (fun v =>
       Wr (Sh (dm i i)) (v + Z.of_nat i)%Z
         (Crit [(Z.of_nat i, Z.of_nat i, 1%Z)] Ret))).

Definition ex_asg (t : nat) : list nat := match t with 0 => [0] | 1 => [1] | _ => [] end.
Definition ex_m0 : key -> Z := fun _ => 0%Z.
Definition ex_p0 : nat -> key -> Z := fun _ _ => 77%Z.
(* thread 1 and thread 0 alternate *)
Definition ex_sched : list nat := [1; 0; 0; 1; 1; 0; 0; 1; 1; 0].

Lemma ex_check : check_shared ex_accs = true.
Proof. vm_compute. reflexivity. Qed.

Lemma ex_within : forall i, i < 2 -> within (Ad ex_accs i) (Wd ex_accs i) (ex_body i).
Proof.
  intros i Hi. cbn. intros w. split; [|exact I].
  exists (mkAcc "dm" true false AElem (XIt 0) (XIn (BIt 0) BTop)).
  cbn. split; [left; reflexivity|]. repeat split; auto; cbn; lia.
Qed.

Lemma ex_reinit : forall i, i < 2 -> reinit (fun _ => False) (ex_body i).
Proof. intros i Hi. cbn. split; [left; reflexivity|]. intros v. exact I. Qed.

Lemma ex_valid : valid_asg 2 ex_asg.
Proof.
  repeat split.
  - intros [|[|t]]; cbn; repeat constructor; intros [].
  - intros [|[|t]] [|[|u]] i; cbn; intros; intuition; subst; try discriminate; try lia.
  - intros [|[|t]] i; cbn; intros; intuition; lia.
  - intros i Hi. destruct i as [|[|i]]; [exists 0|exists 1|lia]; cbn; auto.
Qed.

Definition ex_final :=
  run_sched key_eqb ex_sched (init_queues ex_body ex_asg, mkState ex_m0 ex_p0 []).

Lemma ex_done : done (fst ex_final).
Proof. intros [|[|t]]; reflexivity. Qed.

Lemma ex_result :
  sh (snd ex_final) (dm 0 0) = 5%Z /\ sh (snd ex_final) (dm 1 1) = 6%Z /\
  from_triplets (apply_log (clog (snd ex_final))) 1 1 = 1%Z.
Proof. repeat split; vm_compute; reflexivity. Qed.

(* all hypotheses of region_bernstein at once *)
Theorem ex_nonvacuous :
  check_shared ex_accs = true /\
  (forall i, i < 2 -> within (Ad ex_accs i) (Wd ex_accs i) (ex_body i)) /\
  (forall i, i < 2 -> reinit (fun _ => False) (ex_body i)) /\
  valid_asg 2 ex_asg /\
  exists qs st, run_sched key_eqb ex_sched (init_queues ex_body ex_asg, mkState ex_m0 ex_p0 []) = (qs, st) /\
                done qs /\ sh st (dm 0 0) = 5%Z /\ sh st (dm 1 1) = 6%Z.
Proof.
  split; [exact ex_check|]. split; [exact ex_within|]. split; [exact ex_reinit|].
  split; [exact ex_valid|].
  exists (fst ex_final), (snd ex_final). split; [unfold ex_final; apply surjective_pairing|].
  split; [exact ex_done|]. split; apply ex_result.
Qed.

(* without private re-initialisation the result depends on which thread ran what before: a body that
   reads its scratch before writing it *)
Definition stale_body (i : nat) : prog key Z (list triplet) :=
  Rd (Pr tmp) (fun v => Wr (Sh (dm i i)) v (Wr (Pr tmp) (Z.of_nat i + 1)%Z Ret)).

Theorem stale_private_refuted :
  let one := run_sched key_eqb [0; 0; 0; 0; 0; 0; 0; 0]
               (init_queues stale_body (fun t => match t with 0 => [0; 1] | _ => [] end),
                mkState ex_m0 ex_p0 []) in
  let two := run_sched key_eqb [0; 0; 0; 0; 1; 1; 1; 1]
               (init_queues stale_body ex_asg, mkState ex_m0 ex_p0 []) in
  done (fst one) /\ done (fst two) /\
  sh (snd one) (dm 1 1) = 1%Z /\ sh (snd two) (dm 1 1) = 77%Z.
Proof.
  repeat split; try (vm_compute; reflexivity); intros [|[|t]]; reflexivity.
Qed.

(* without disjoint footprints there is a race: both iterations write dm(0,0) *)
Definition racy_body (i : nat) : prog key Z (list triplet) := Wr (Sh (dm 0 0)) (Z.of_nat i) Ret.

Theorem overlapping_writes_race : race (init_queues racy_body ex_asg).
Proof.
  exists 0, 1, 0, (racy_body 0), [], 1, (racy_body 1), [], (dm 0 0), true, true.
  repeat split; auto.
Qed.

Theorem ex_from_zero :
  let bad := [ mkAcc "dm" true false AElem (XIt 0) (XIn BTop BTop);
               mkAcc "dm" true false AElem (XIn BTop BTop) (XIt 0) ] in
  check_shared bad = false /\
  find_conflict (mkRegion "bad" bad []) = Some ("dm"%string, (0, 1, (1, 0)))%Z.
Proof. split; vm_compute; reflexivity. Qed.

(* the symmetric fill for N = 2 on two threads, interleaved *)
From TK Require Import Par_Fill_Model.
Definition fx (i j : nat) : Z := Z.of_nat (10 * i + j).
Definition sym_final :=
  run_sched key_eqb [0; 1; 0; 1; 0; 1; 0; 0]
    (init_queues (sym_body Z (list triplet) "dm" fx 2) ex_asg, mkState ex_m0 ex_p0 []).

Theorem ex_sym_fill :
  valid_asg 2 ex_asg /\ done (fst sym_final) /\
  sh (snd sym_final) (mkey "dm" 1 0) = 1%Z /\ sh (snd sym_final) (mkey "dm" 1 1) = 11%Z.
Proof.
  split; [exact ex_valid|]. split; [intros [|[|t]]; reflexivity|].
  split; vm_compute; reflexivity.
Qed.

(* ---------------------------------------------------------------------- preserved private state
   a body that uses a thread-private object like tapkee's heap: it READS it first (expects it empty = 0),
   mutates it, and resets it before the iteration ends *)
From TK Require Par_Proof_Restore.
Definition hkey : key := ("heap", (0%Z, 0%Z)).
Definition heap_body (i : nat) : prog key Z (list triplet) :=
  Rd (Pr hkey) (fun v =>
    Wr (Pr hkey) (v + 7)%Z
      (Rd (Pr hkey) (fun w =>
         Wr (Sh (dm i i)) (w + Z.of_nat i)%Z
           (Wr (Pr hkey) 0%Z Ret)))).

Definition heapP (x : key) : Prop := x = hkey.
Definition heap_canon : key -> Z := fun _ => 0%Z.

Lemma heap_body_within : forall i, i < 2 -> within (Ad ex_accs i) (Wd ex_accs i) (heap_body i).
Proof.
  intros i Hi. cbn. intros v w. split; [|exact I].
  exists (mkAcc "dm" true false AElem (XIt 0) (XIn (BIt 0) BTop)).
  cbn. split; [left; reflexivity|]. repeat split; auto; cbn; lia.
Qed.

Lemma heap_body_reinit : forall i, i < 2 -> reinit heapP (heap_body i).
Proof.
  intros i Hi. cbn. split; [reflexivity|]. intros v. split; [left; reflexivity|]. intros w. exact I.
Qed.

Lemma heap_body_restores : forall i t (st : state key Z (list triplet)), i < 2 ->
  (forall x, heapP x -> pr st t x = heap_canon x) ->
  forall x, heapP x -> pr (run key_eqb t i (heap_body i) st) t x = heap_canon x.
Proof.
  intros i t st Hi Hc x ->. cbn. unfold updp. rewrite !Nat.eqb_refl. unfold upd.
  rewrite (proj2 (key_eqb_spec hkey hkey) eq_refl). reflexivity.
Qed.

(* the generalised theorem applies: every schedule gives dm(i,i) = 7 + i *)
Theorem ex_heap_restore : forall asg p0 sch qs st,
  valid_asg 2 asg -> (forall t x, heapP x -> p0 t x = heap_canon x) ->
  run_sched key_eqb sch (init_queues heap_body asg, mkState ex_m0 p0 []) = (qs, st) ->
  ~ race qs /\ (done qs -> sh st (dm 0 0) = 7%Z /\ sh st (dm 1 1) = 8%Z).
Proof.
  intros asg p0 sch qs st Hasg Hp0 Hrun.
  destruct (Par_Proof_Restore.bernstein_restore key key_eqb key_eqb_spec Z (list triplet) 2 heap_body
              (Ad ex_accs) (Wd ex_accs) (region_fp_disjoint ex_accs ex_check 2) heap_body_within
              heapP heap_canon heap_body_reinit heap_body_restores ex_m0 (fun _ _ => 0%Z) (fun _ _ => eq_refl)
              asg p0 sch qs st Hasg Hp0 Hrun) as [Hnr Hfin].
  split; [exact Hnr|]. intros Hd. destruct (Hfin Hd) as (Hown & _). split.
  - rewrite (Hown 0 (dm 0 0)); [vm_compute; reflexivity|lia|].
    exists (mkAcc "dm" true false AElem (XIt 0) (XIn (BIt 0) BTop)).
    cbn. split; [left; reflexivity|]. repeat split; auto; cbn; lia.
  - rewrite (Hown 1 (dm 1 1)); [vm_compute; reflexivity|lia|].
    exists (mkAcc "dm" true false AElem (XIt 0) (XIn (BIt 0) BTop)).
    cbn. split; [left; reflexivity|]. repeat split; auto; cbn; lia.
Qed.
