(* Spe_Proof_Closed.v — refutation of the OLD index bookkeeping (regression theorem), the
   "finite for tol > 0" facts over the ordered field Q, the lambda schedule, and concrete
   instances used by the non-vacuity Examples of Properties_C19.v *)
Require Import List Arith Lia Bool ZArith QArith Qround Qcanon Permutation Lqa.
From TK Require Import Mat_Sums Mat_Core Mat_Qc Spe_Model Spe_Spec Spe_Proof_Lists Spe_Proof_Index
     Spe_Proof_Coord.
Import ListNotations.
Local Open Scope nat_scope.

(* ---------------- witness data ---------------- *)
(* six samples on a ring, three neighbours each (the library's minimum k) *)
Definition w_nbrs : list (list nat) :=
  [[1; 2; 5]; [2; 3; 0]; [3; 4; 1]; [4; 5; 2]; [5; 0; 3]; [0; 1; 4]].
Definition w_id : list nat := [0; 1; 2; 3; 4; 5].
Definition w_rot : list nat := [3; 4; 5; 0; 1; 2].
Definition w_its : list iter_in :=
  [ {| it_from := w_id; it_us := [0%Q; 0%Q; 0%Q] |};
    {| it_from := w_rot; it_us := [(1 # 2)%Q; (1 # 3)%Q; (9 # 10)%Q] |};
    {| it_from := w_id; it_us := [0%Q; (2 # 3)%Q; (1 # 2)%Q] |} ].

Lemma w_nbrs_ok : nbrs_ok 6 3 w_nbrs.
Proof. split; [reflexivity|]. repeat constructor. Qed.

Lemma w_us_ok us :
  forallb (fun u => (0 <=? Qnum u)%Z && (Qnum u <? Z.pos (Qden u))%Z) us = true ->
  3 <= length us -> us_ok 3 us.
Proof.
  intros H Hl. split; [exact Hl|]. apply Forall_forall. intros u Hu.
  rewrite forallb_forall in H. specialize (H u Hu). apply andb_true_iff in H. destruct H as [H0 H1].
  apply Z.leb_le in H0. apply Z.ltb_lt in H1. destruct u as [p q]. cbn [Qnum Qden] in *.
  unfold Qle, Qlt. cbn [Qnum Qden]. lia.
Qed.

Lemma w_its_ok : Forall (fun i => is_perm 6 (it_from i) /\ us_ok (Nat.min 3 (6 / 2)) (it_us i)) w_its.
Proof.
  assert (H : forall fr us, is_perm_b 6 fr = true ->
              forallb (fun u => (0 <=? Qnum u)%Z && (Qnum u <? Z.pos (Qden u))%Z) us = true ->
              3 <= length us -> is_perm 6 fr /\ us_ok (Nat.min 3 (6 / 2)) us).
  { intros fr us H1 H2 H3. split; [apply is_perm_b_ok; exact H1|apply w_us_ok; assumption]. }
  unfold w_its.
  apply Forall_cons; [apply H; [reflexivity|reflexivity|cbn; lia]|].
  apply Forall_cons; [apply H; [reflexivity|reflexivity|cbn; lia]|].
  apply Forall_cons; [apply H; [reflexivity|reflexivity|cbn; lia]|].
  apply Forall_nil.
Qed.

(* ---------------- OLD code: local strategy destroys its permutation ---------------- *)
(* `local_indices_refuted`: with valid neighbours, valid shuffle answers and draws in [0,1) the OLD
   code (shuffle applied to the overwritten `indices`) runs without leaving its buffers, yet in the
   second iteration the array it shuffles is no longer a permutation of 0..N-1 *)
Theorem local_indices_refuted_proof :
  exists nbrs nupd N its outs,
    nbrs_ok N (length (nth 0 nbrs [])) nbrs /\
    Forall (fun i => is_perm N (it_from i) /\ us_ok (Nat.min nupd (N / 2)) (it_us i)) its /\
    spe_indices true false nbrs nupd N its = Ok outs /\
    Exists (fun o => ~ is_perm N (o_perm o)) outs.
Proof.
  exists w_nbrs, 3, 6, w_its.
  destruct (spe_indices true false w_nbrs 3 6 w_its) as [outs| | |] eqn:E;
    try (vm_compute in E; discriminate).
  exists outs. split; [exact w_nbrs_ok|]. split; [exact w_its_ok|]. split; [reflexivity|].
  vm_compute in E. inversion E; subst outs. clear E.
  apply Exists_cons_tl. apply Exists_cons_hd. cbn [o_perm].
  intro H. apply is_perm_b_ok in H. vm_compute in H. discriminate.
Qed.

(* the same streams through the CURRENT code: every iteration satisfies the local specification *)
Example local_current_on_witness :
  exists outs, spe_indices false false w_nbrs 3 6 w_its = Ok outs /\
               Forall2 (local_out_ok 6 3 3 w_nbrs) w_its outs.
Proof.
  apply (local_indices_spec_proof w_nbrs 3 6 w_its); cbn; try lia.
  - exact w_nbrs_ok.
  - exact w_its_ok.
Qed.

(* ---------------- finiteness: the only division of an iteration is by d + tol ---------------- *)
Local Open Scope Q_scope.

(* `pair_update_finite`: a norm is never negative, so with tol > 0 the divisor is positive *)
Theorem pair_denominator_pos_proof (dn tol : Q) : 0 <= dn -> 0 < tol -> 0 < dn + tol.
Proof. intros. lra. Qed.

(* and for 0 <= lambda <= 1, r >= 0 the multiplier of the pair distance is never negative
   (a pair is never reflected through its midpoint) *)
Theorem pair_factor_nonneg_proof (lam tol r dn : Q) :
  0 <= dn -> 0 < tol -> 0 <= r -> 0 <= lam -> lam <= 1 ->
  0 <= 1 + lam * (r - dn - tol) / (dn + tol).
Proof.
  intros Hd Ht Hr Hl0 Hl1.
  assert (Hp : 0 < dn + tol) by lra.
  assert (E : 1 + lam * (r - dn - tol) / (dn + tol) == (1 - lam) + lam * r / (dn + tol)).
  { field. lra. }
  rewrite E.
  assert (0 <= lam * r / (dn + tol)).
  { apply Qle_shift_div_l; [exact Hp|]. rewrite Qmult_0_l. apply Qmult_le_0_compat; assumption. }
  lra.
Qed.

(* lambda schedule: lambda_{t+1} = lambda_t (1 - 1/T) stays in [0, 1] for T >= 1 *)
Theorem lambda_schedule_proof (T : positive) (lam : Q) :
  0 <= lam -> lam <= 1 ->
  0 <= lam - lam / inject_Z (Z.pos T) /\ lam - lam / inject_Z (Z.pos T) <= lam.
Proof.
  intros H0 H1.
  assert (HT : 1 <= inject_Z (Z.pos T)) by (change 1 with (inject_Z 1); rewrite <- Zle_Qle; lia).
  assert (Hq : 0 <= lam / inject_Z (Z.pos T)).
  { apply Qle_shift_div_l; [lra|]. rewrite Qmult_0_l. exact H0. }
  assert (Hq' : lam / inject_Z (Z.pos T) <= lam).
  { apply Qle_shift_div_r; [lra|]. nra. }
  split; lra.
Qed.
Local Close Scope Q_scope.

(* ---------------- Qc instances for the Examples ---------------- *)
Definition ex_Y : @pts Qc := fun i => fun t =>
  match i, t with
  | 0, 0 => qz 0 | 0, _ => qz 0
  | 1, 0 => qz 3 | 1, _ => qz 4
  | _, _ => qz 1
  end.

Lemma ex_Y_norm : (qz 5 * qz 5)%F = sqdist 2 (ex_Y 0) (ex_Y 1).
Proof. apply Qc_is_canon. vm_compute. reflexivity. Qed.

(* concrete disequalities in Qc by computation on the numerators *)
Lemma Qc_neq_by_num (x y : Qc) : Qnum (this x) <> Qnum (this y) -> x <> y.
Proof. intros H E. apply H. rewrite E. reflexivity. Qed.
