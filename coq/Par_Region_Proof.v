(* Par_Region_Proof.v — property C15: soundness of the descriptor checker of Par_Region_Model, the
   bridge to the generic theorem of Par_Proof, the footprint lemmas of the ten tapkee regions (for ALL
   sizes), the HLLE column lemma and the permutation invariance of triplet assembly. *)
From Coq Require Import ZArith List String Bool Lia Permutation Arith.
Import ListNotations.
From TK Require Import Par_Model Par_Spec Par_Proof Par_Region_Model.
Local Open Scope Z_scope.

(* ------------------------------------------------------------------ boolean / Prop semantics agree *)
Lemma ix_semb_iff : forall x i v, ix_semb x i v = true <-> ix_sem x i v.
Proof.
  intros [c|lo hi|] i v; cbn.
  - rewrite Z.eqb_eq. reflexivity.
  - rewrite andb_true_iff. destruct lo, hi; cbn; rewrite ?Z.leb_le, ?Z.ltb_lt; intuition.
  - intuition.
Qed.

Lemma acc_semb_iff : forall a i v1 v2, acc_semb a i v1 v2 = true <-> acc_sem a i v1 v2.
Proof.
  intros. unfold acc_semb, acc_sem. rewrite andb_true_iff, !ix_semb_iff. reflexivity.
Qed.

(* ------------------------------------------------------------------ separation is sound *)
Lemma cons_sound : forall x y e g l i i' v,
  cons x y = (e, g, l) -> ix_sem x i v -> ix_sem y i' v ->
  (e = true -> i = i') /\ (g = true -> i >= i') /\ (l = true -> i <= i').
Proof.
  intros x y e g l i i' v Hc Hx Hy.
  destruct x as [c|lo hi|], y as [c'|lo' hi'|]; cbn in Hc; injection Hc as <- <- <-; cbn in Hx, Hy;
    try (repeat split; discriminate).
  - repeat split; intros H; [apply Z.eqb_eq in H|apply Z.leb_le in H|apply Z.leb_le in H]; lia.
  - destruct Hy as [Hlo Hhi]. repeat split; try discriminate.
    + destruct lo' as [c'|]; [|discriminate]. intros H. apply Z.leb_le in H. cbn in Hlo. lia.
    + destruct hi' as [c'|]; [|discriminate]. intros H. apply Z.leb_le in H. cbn in Hhi. lia.
  - destruct Hx as [Hlo Hhi]. repeat split; try discriminate.
    + destruct hi as [c|]; [|discriminate]. intros H. apply Z.leb_le in H. cbn in Hhi. lia.
    + destruct lo as [c|]; [|discriminate]. intros H. apply Z.leb_le in H. cbn in Hlo. lia.
Qed.

Theorem separated_sound : forall a b, separated a b = true ->
  forall i i' v1 v2, i <> i' -> acc_sem a i v1 v2 -> acc_sem b i' v1 v2 -> False.
Proof.
  intros a b Hs i i' v1 v2 Hne [Ha1 Ha2] [Hb1 Hb2]. unfold separated in Hs.
  destruct (cons (a_i a) (a_i b)) as [[e1 g1] l1] eqn:E1.
  destruct (cons (a_j a) (a_j b)) as [[e2 g2] l2] eqn:E2.
  destruct (cons_sound _ _ _ _ _ i i' v1 E1 Ha1 Hb1) as (He1 & Hg1 & Hl1).
  destruct (cons_sound _ _ _ _ _ i i' v2 E2 Ha2 Hb2) as (He2 & Hg2 & Hl2).
  destruct e1; [apply Hne; auto|]. destruct e2; [apply Hne; auto|]. cbn in Hs.
  apply andb_true_iff in Hs. destruct Hs as [Hg Hl].
  assert (i >= i') by (destruct g1; [auto|destruct g2; [auto|discriminate]]).
  assert (i <= i') by (destruct l1; [auto|destruct l2; [auto|discriminate]]).
  lia.
Qed.

(* ------------------------------------------------------------------ the checker is sound *)
Theorem check_shared_sound : forall accs, check_shared accs = true ->
  forall a b, In a accs -> In b accs ->
    a_kind a = AElem -> a_write a = true -> a_var a = a_var b -> a_crit b = false ->
    forall i i' v1 v2, i <> i' -> acc_sem a i v1 v2 -> acc_sem b i' v1 v2 -> False.
Proof.
  intros accs Hc a b Ha Hb Hk Hw Hv Hcb i i' v1 v2 Hne Hsa Hsb.
  unfold check_shared in Hc. rewrite forallb_forall in Hc. specialize (Hc a Ha).
  unfold access_ok in Hc. rewrite Hk, Hw in Hc. apply andb_true_iff in Hc. destruct Hc as [_ Hc].
  rewrite forallb_forall in Hc. specialize (Hc b Hb).
  assert (Hsv : same_var a b = true) by (unfold same_var; apply String.eqb_eq; exact Hv).
  rewrite Hsv, Hcb in Hc. cbn in Hc.
  exact (separated_sound a b Hc i i' v1 v2 Hne Hsa Hsb).
Qed.

(* what else an accepted descriptor guarantees: nothing opaque; a critical section only appends; a
   container appended to is touched nowhere outside critical sections; no private state is stale *)
Theorem check_shared_crit : forall accs, check_shared accs = true ->
  forall a, In a accs ->
    a_kind a <> AOpaque /\
    (a_crit a = true -> a_kind a = AAppend) /\
    (a_kind a = AAppend -> a_crit a = true /\
       forall b, In b accs -> a_var b = a_var a -> a_crit b = true).
Proof.
  intros accs Hc a Ha. unfold check_shared in Hc. rewrite forallb_forall in Hc.
  specialize (Hc a Ha). unfold access_ok in Hc.
  destruct (a_kind a) eqn:Hk; try discriminate.
  - apply andb_true_iff in Hc. destruct Hc as [Hcr _]. apply negb_true_iff in Hcr.
    repeat split; try discriminate. intros H. congruence.
  - apply andb_true_iff in Hc. destruct Hc as [Hcr Hall]. repeat split; try discriminate; auto.
    intros b Hb Hv. rewrite forallb_forall in Hall. specialize (Hall b Hb).
    assert (Hsv : same_var a b = true) by (unfold same_var; apply String.eqb_eq; auto).
    rewrite Hsv in Hall. exact Hall.
Qed.

(* wave 4: an accepted descriptor contains no write through an iterator / pointer that escaped from the place where it
   was obtained (AEscape): the "claim under the lock, fill in place outside it" pattern is never accepted *)
Theorem check_shared_no_escape : forall accs, check_shared accs = true ->
  forall a, In a accs -> a_kind a <> AEscape.
Proof.
  intros accs Hc a Ha. unfold check_shared in Hc. rewrite forallb_forall in Hc.
  specialize (Hc a Ha). unfold access_ok in Hc. intros E. rewrite E in Hc. discriminate.
Qed.

Theorem check_region_private : forall r, check_region r = true ->
  forall p, In p (r_private r) -> p_class p <> PStale.
Proof.
  intros r Hc p Hp. unfold check_region in Hc. apply andb_true_iff in Hc. destruct Hc as [_ Hc].
  unfold check_private in Hc. rewrite forallb_forall in Hc. specialize (Hc p Hp).
  unfold pvar_ok in Hc. intros E. rewrite E in Hc. discriminate.
Qed.

(* ... and its class is the one the Coq classifier computes from the listed events *)
Theorem check_region_classified : forall r, check_region r = true ->
  forall p, In p (r_private r) -> p_class p = classify (p_events p).
Proof.
  intros r Hc p Hp. unfold check_region in Hc. apply andb_true_iff in Hc. destruct Hc as [_ Hc].
  unfold check_private in Hc. rewrite forallb_forall in Hc. specialize (Hc p Hp).
  unfold pvar_ok in Hc. apply andb_true_iff in Hc. destruct Hc as [_ Hc].
  destruct (p_class p), (classify (p_events p)); try discriminate; reflexivity.
Qed.

(* a reported witness is a genuine conflict of the descriptor *)
Theorem find_pair_sound : forall n a b v i i' v1 v2,
  find_pair n a b = Some (v, (i, i', (v1, v2))) ->
  i <> i' /\ acc_sem a i v1 v2 /\ acc_sem b i' v1 v2.
Proof.
  intros n a b v i i' v1 v2 H. unfold find_pair in H.
  match type of H with context [find ?f ?l] => destruct (find f l) as [[[j j'] [w1 w2]]|] eqn:E end;
    [|discriminate].
  injection H as _ <- <- <- <-. apply find_some in E. destruct E as [_ E].
  unfold conflict_at in E. rewrite !andb_true_iff, negb_true_iff, Z.eqb_neq, !acc_semb_iff in E.
  tauto.
Qed.

(* ------------------------------------------------------------------ bridge to the generic theorem *)
Lemma key_eqb_spec : forall x y, key_eqb x y = true <-> x = y.
Proof.
  intros [s [a b]] [s' [a' b']]. unfold key_eqb. cbn.
  rewrite !andb_true_iff, String.eqb_eq, !Z.eqb_eq. split.
  - intros [[-> ->] ->]. reflexivity.
  - intros H. injection H as -> -> ->. auto.
Qed.

(* the shared keys iteration i may touch / write outside critical sections, read off the descriptor *)
Definition touches (w : bool) (accs : list access) (i : nat) (x : key) : Prop :=
  exists a, In a accs /\ a_kind a = AElem /\ (w = true -> a_write a = true) /\ a_crit a = false /\
            a_var a = fst x /\ acc_sem a (Z.of_nat i) (fst (snd x)) (snd (snd x)).
Definition Ad := touches false.
Definition Wd := touches true.

Theorem region_fp_disjoint : forall accs, check_shared accs = true ->
  forall n, fp_disjoint n (Ad accs) (Wd accs).
Proof.
  intros accs Hc n i j x _ _ Hij (a & Ha & Hka & Hwa & Hca & Hva & Hsa) Hor.
  assert (Hb : exists b, In b accs /\ a_crit b = false /\ a_var b = fst x /\
                         acc_sem b (Z.of_nat j) (fst (snd x)) (snd (snd x))).
  { destruct Hor as [(b & Hb & _ & _ & Hcb & Hvb & Hsb)|(b & Hb & _ & _ & Hcb & Hvb & Hsb)];
      exists b; auto. }
  destruct Hb as (b & Hb & Hcb & Hvb & Hsb).
  apply (check_shared_sound accs Hc a b Ha Hb Hka (Hwa eq_refl) (eq_trans Hva (eq_sym Hvb)) Hcb
           (Z.of_nat i) (Z.of_nat j) (fst (snd x)) (snd (snd x))); auto. lia.
Qed.

Definition akind_eqb (k k' : akind) : bool :=
  match k, k' with AElem, AElem | AAppend, AAppend | AOpaque, AOpaque | AEscape, AEscape => true | _, _ => false end.

Lemma Wd_dec : forall accs i x, Wd accs i x \/ ~ Wd accs i x.
Proof.
  intros accs i x. unfold Wd, touches.
  induction accs as [|a accs IH].
  - right. intros (a & [] & _).
  - destruct IH as [(b & Hb & H)|IH]; [left; exists b; split; [right; exact Hb|exact H]|].
    destruct (akind_eqb (a_kind a) AElem && a_write a && negb (a_crit a) &&
              String.eqb (a_var a) (fst x) &&
              acc_semb a (Z.of_nat i) (fst (snd x)) (snd (snd x))) eqn:E.
    + left. exists a. rewrite !andb_true_iff, negb_true_iff, String.eqb_eq, acc_semb_iff in E.
      destruct E as [[[[Hk Hw] Hcr] Hv] Hs]. split; [left; reflexivity|].
      destruct (a_kind a); try discriminate. auto 10.
    + right. intros (b & [<-|Hb] & Hk & Hw & Hcr & Hv & Hs); [|apply IH; exists b; auto 10].
      rewrite Hk, (Hw eq_refl), Hcr in E. cbn in E.
      assert (String.eqb (a_var a) (fst x) = true) as E1 by (apply String.eqb_eq; exact Hv).
      assert (acc_semb a (Z.of_nat i) (fst (snd x)) (snd (snd x)) = true) as E2
        by (apply acc_semb_iff; exact Hs).
      rewrite E1, E2 in E. discriminate.
Qed.

(* THE region theorem: whatever the iteration bodies compute, if their shared accesses outside
   critical sections stay inside what the (accepted) descriptor lists and they re-initialise their
   private scratch, then no reachable configuration of any schedule of any assignment has a data race,
   and every complete run ends with the shared memory, and the per-iteration critical-section log, of
   the single-threaded run. *)
Theorem region_bernstein : forall (V C : Type) (accs : list access) (n : nat)
    (body : nat -> prog key V C) (m0 : key -> V),
  check_shared accs = true ->
  (forall i, (i < n)%nat -> within (Ad accs i) (Wd accs i) (body i)) ->
  (forall i, (i < n)%nat -> reinit (fun _ => False) (body i)) ->
  forall asg p0 p0' sch qs st,
    valid_asg n asg ->
    run_sched key_eqb sch (init_queues body asg, mkState m0 p0 []) = (qs, st) ->
    ~ race qs /\
    (done qs ->
       let sq := seq_run key_eqb body (seq 0 n) (mkState m0 p0' []) in
       (forall x, sh st x = sh sq x) /\ (forall i, proj i (clog st) = proj i (clog sq))).
Proof.
  intros V C accs n body m0 Hc Hw Hr asg p0 p0' sch qs st Hasg Hrun.
  pose proof (region_fp_disjoint accs Hc n) as Hd.
  split.
  - exact (proj1 (bernstein key key_eqb key_eqb_spec V C n body (Ad accs) (Wd accs) Hd Hw Hr m0 p0
                    asg p0 sch qs st Hasg Hrun)).
  - intros Hdone.
    exact (bernstein_sequential key key_eqb key_eqb_spec V C n body (Ad accs) (Wd accs) Hd Hw Hr m0 p0
             (Wd_dec accs) asg p0 p0' sch qs st Hasg Hrun Hdone).
Qed.

(* ------------------------------------------------------------------ triplets: permutation invariance *)
Lemma from_triplets_cons : forall r' c' v l r c,
  from_triplets ((r', c', v) :: l) r c =
  if (r' =? r) && (c' =? c) then v + from_triplets l r c else from_triplets l r c.
Proof. reflexivity. Qed.

Lemma from_triplets_app : forall a b r c,
  from_triplets (a ++ b) r c = from_triplets a r c + from_triplets b r c.
Proof.
  induction a as [|[[r' c'] v] a IH]; intros b r c; [reflexivity|].
  rewrite <- app_comm_cons, !from_triplets_cons, IH.
  destruct ((r' =? r) && (c' =? c)); lia.
Qed.

Theorem triplets_perm : forall l l', Permutation l l' ->
  forall r c, from_triplets l r c = from_triplets l' r c.
Proof.
  induction 1 as [|[[r' c'] v] l l' _ IH|[[r1 c1] v1] [[r2 c2] v2] l|l l' l'' _ IH1 _ IH2];
    intros r c.
  - reflexivity.
  - rewrite !from_triplets_cons, IH. reflexivity.
  - rewrite !from_triplets_cons.
    destruct ((r1 =? r) && (c1 =? c)), ((r2 =? r) && (c2 =? c)); lia.
  - rewrite IH1. apply IH2.
Qed.

Lemma from_triplets_concat_perm : forall (bl bl' : list (list triplet)), Permutation bl bl' ->
  forall r c, from_triplets (List.concat bl) r c = from_triplets (List.concat bl') r c.
Proof.
  induction 1 as [|b l l' _ IH|b1 b2 l|l l' l'' _ IH1 _ IH2]; intros r c; cbn [List.concat].
  - reflexivity.
  - rewrite !from_triplets_app, IH. reflexivity.
  - rewrite !from_triplets_app. lia.
  - rewrite IH1. apply IH2.
Qed.

(* the order in which the critical sections ran does not matter for the assembled matrix *)
Theorem critical_order_irrelevant : forall (lg lg' : list (nat * list triplet)),
  (forall i, proj i lg = proj i lg') ->
  forall r c, from_triplets (apply_log lg) r c = from_triplets (apply_log lg') r c.
Proof.
  intros lg lg' H r c. unfold apply_log. apply from_triplets_concat_perm.
  apply Permutation_map. rewrite <- !Permutation_rev. apply proj_perm. exact H.
Qed.

(* ------------------------------------------------------------------ HLLE columns *)
Lemma seq_map_shift : forall (f : nat -> Z) a len,
  map f (seq a len) = map (fun k => f (a + k)%nat) (seq 0 len).
Proof.
  intros f a len. revert a. induction len as [|len IH]; intros a; cbn; [reflexivity|].
  rewrite Nat.add_0_r. f_equal. rewrite (IH (S a)), <- seq_shift, map_map.
  apply map_ext. intros k. f_equal. lia.
Qed.

Lemma hlle_cols_expected : forall d r j ct,
  j + Z.of_nat r = d ->
  hlle_cols hlle_step_expected hlle_col_expected d r j ct =
  map (fun c => ct + Z.of_nat c + 1 + d) (seq 0 (tri r)).
Proof.
  intros d r. induction r as [|r IH]; intros j ct Hj; [reflexivity|].
  cbn [hlle_cols tri]. rewrite IH by lia.
  rewrite seq_app, map_app. apply (f_equal2 (@app Z)).
  - apply map_ext. intros p. cbn. reflexivity.
  - rewrite (seq_map_shift (fun c => ct + Z.of_nat c + 1 + d) (0 + S r) (tri r)).
    apply map_ext. intros k. cbn [heval hlle_step_expected]. lia.
Qed.

(* for EVERY target dimension the quadratic columns 1+d .. d+d(d+1)/2 of Yi are each written once,
   in order, and nothing else is — so Gram-Schmidt never reads a column left over from the previous
   neighbourhood handled by the same thread, and never writes outside Yi *)
Theorem hlle_cols_cover : forall d, hlle_cols_ok hlle_step_expected hlle_col_expected d = true.
Proof.
  intros d. unfold hlle_cols_ok, hlle_written.
  rewrite (hlle_cols_expected (Z.of_nat d) d 0 0) by lia.
  match goal with |- (if ?X then _ else _) = _ => destruct X as [_|Hn] end; [reflexivity|].
  exfalso. apply Hn. apply map_ext. intros c. lia.
Qed.

Lemma tri_spec : forall r, (2 * tri r = r * (r + 1))%nat.
Proof. induction r as [|r IH]; cbn [tri]; lia. Qed.

(* the code before the repair of F6 (ct += ct + target_dimension - j): at d = 3 column 9 is never
   written (stale private state is read) and column 12 of 10 is written *)
Theorem hlle_cols_old_refuted :
  hlle_cols_ok hlle_step_old hlle_col_expected 3 = false /\
  ~ In 9 (hlle_written hlle_step_old hlle_col_expected 3) /\
  In 12 (hlle_written hlle_step_old hlle_col_expected 3).
Proof.
  split; [vm_compute; reflexivity|]. split.
  - vm_compute. intuition discriminate.
  - vm_compute. auto 10.
Qed.

(* ------------------------------------------------------------------ the footprints, spelled out
   (what the accepted descriptors mean in plain arithmetic; all sizes) *)

(* symmetric fill (mds x2, diffusion, CLI matrix_from_callback): iteration i writes (i,j) and (j,i)
   for i <= j < N.  Distinct iterations never write the same entry ... *)
Theorem sym_pair_disjoint : forall i i' j j' : Z, i <> i' -> i <= j -> i' <= j' ->
  (i, j) <> (i', j') /\ (i, j) <> (j', i') /\ (j, i) <> (i', j') /\ (j, i) <> (j', i').
Proof. intros. repeat split; intros E; injection E; lia. Qed.

(* ... and every entry (a,b) of the N x N result is written by exactly one iteration, min a b: the
   value of an entry never depends on the schedule, bit for bit *)
Theorem sym_pair_cover : forall N a b : Z, 0 <= a < N -> 0 <= b < N ->
  exists i, 0 <= i < N /\
    (exists j, i <= j < N /\ ((a, b) = (i, j) \/ (a, b) = (j, i))) /\
    forall i', 0 <= i' < N -> (exists j', i' <= j' < N /\ ((a, b) = (i', j') \/ (a, b) = (j', i'))) -> i' = i.
Proof.
  intros N a b Ha Hb. exists (Z.min a b). split; [lia|]. split.
  - exists (Z.max a b). split; [lia|]. destruct (Z.le_ge_cases a b).
    + left. rewrite Z.min_l, Z.max_r by lia. reflexivity.
    + right. rewrite Z.min_r, Z.max_l by lia. reflexivity.
  - intros i' Hi' (j' & Hj' & [E|E]); injection E; lia.
Qed.

(* the j = 0 variant of the inner loop (a realistic slip) is NOT race free: iterations 0 and 1 both
   write entry (0,1) *)
Theorem sym_pair_from_zero_refuted :
  exists i i' j j' : Z, i <> i' /\ 0 <= j /\ 0 <= j' /\ (i, j) = (j', i').
Proof. exists 0, 1, 1, 0. repeat split; lia. Qed.

(* row-owned results (isomap x2: shortest_distances(k, _); triangulate: embedding.row(index_iter)) *)
Theorem row_disjoint : forall i i' j j' : Z, i <> i' -> (i, j) <> (i', j').
Proof. intros i i' j j' H E. injection E. lia. Qed.

(* the symmetric (i,j),(j,i) fill of the k x k private gram_matrix (KLTSA, HLLE) overwrites every entry:
   nothing of the previous neighbourhood survives *)
Theorem gram_fill_cover : forall k a b : Z, 0 <= a < k -> 0 <= b < k ->
  exists i j, 0 <= i < k /\ i <= j < k /\ ((a, b) = (i, j) \/ (a, b) = (j, i)).
Proof.
  intros k a b Ha Hb. destruct (Z.le_ge_cases a b).
  - exists a, b. repeat split; try lia. left. reflexivity.
  - exists b, a. repeat split; try lia. right. reflexivity.
Qed.

(* ------------------------------------------------------------------ HLLE expressions up to linear algebra *)
Lemma hlin_sound : forall e l, hlin e = Some l -> forall ct d j p, heval e ct d j p = lin_eval l ct d j p.
Proof.
  induction e as [v|z|a IHa b IHb|a IHa b IHb|a IHa b IHb]; intros l H ct d j p; cbn [hlin] in H.
  - destruct v; injection H as <-; cbn [heval]; unfold lin_eval; lia.
  - injection H as <-. cbn [heval]. unfold lin_eval. lia.
  - destruct (hlin a) as [[[[[a1 a2] a3] a4] a5]|]; [|discriminate].
    destruct (hlin b) as [[[[[b1 b2] b3] b4] b5]|]; [|discriminate].
    injection H as <-. cbn [heval]. rewrite (IHa _ eq_refl), (IHb _ eq_refl). unfold lin_eval. lia.
  - destruct (hlin a) as [[[[[a1 a2] a3] a4] a5]|]; [|discriminate].
    destruct (hlin b) as [[[[[b1 b2] b3] b4] b5]|]; [|discriminate].
    injection H as <-. cbn [heval]. rewrite (IHa _ eq_refl), (IHb _ eq_refl). unfold lin_eval. lia.
  - destruct (hlin a) as [[[[[a1 a2] a3] a4] a5]|]; [|discriminate].
    destruct (hlin b) as [[[[[b1 b2] b3] b4] b5]|]; [|discriminate].
    cbn [heval]. rewrite (IHa _ eq_refl), (IHb _ eq_refl). unfold lin_eval.
    destruct ((a1 =? 0) && (a2 =? 0) && (a3 =? 0) && (a4 =? 0))%bool eqn:Ea.
    + injection H as <-. rewrite !Bool.andb_true_iff, !Z.eqb_eq in Ea. destruct Ea as [[[-> ->] ->] ->]. lia.
    + destruct ((b1 =? 0) && (b2 =? 0) && (b3 =? 0) && (b4 =? 0))%bool eqn:Eb; [|discriminate].
      injection H as <-. rewrite !Bool.andb_true_iff, !Z.eqb_eq in Eb. destruct Eb as [[[-> ->] ->] ->]. lia.
Qed.

Lemma hlle_cols_ext : forall step col step' col',
  (forall ct d j p, heval step ct d j p = heval step' ct d j p) ->
  (forall ct d j p, heval col ct d j p = heval col' ct d j p) ->
  forall d r j ct, hlle_cols step col d r j ct = hlle_cols step' col' d r j ct.
Proof.
  intros step col step' col' Hs Hc d r. induction r as [|r IH]; intros j ct; [reflexivity|].
  cbn [hlle_cols]. rewrite Hs, IH. f_equal. apply map_ext. intros p. apply Hc.
Qed.

Theorem hlle_cols_cover_lin : forall step col,
  hlin step = hlin hlle_step_expected -> hlin col = hlin hlle_col_expected ->
  forall d, hlle_cols_ok step col d = true.
Proof.
  intros step col Hs Hc d. rewrite <- (hlle_cols_cover d). unfold hlle_cols_ok, hlle_written.
  rewrite (hlle_cols_ext step col hlle_step_expected hlle_col_expected); [reflexivity| |].
  - intros. rewrite (hlin_sound step _ Hs). symmetry. apply (hlin_sound hlle_step_expected). reflexivity.
  - intros. rewrite (hlin_sound col _ Hc). symmetry. apply (hlin_sound hlle_col_expected). reflexivity.
Qed.

Lemma hlle_written_lin : forall step col,
  hlin step = hlin hlle_step_expected -> hlin col = hlin hlle_col_expected ->
  forall d, hlle_written step col d = hlle_written hlle_step_expected hlle_col_expected d.
Proof.
  intros step col Hs Hc d. unfold hlle_written. apply hlle_cols_ext.
  - intros. rewrite (hlin_sound step _ Hs). symmetry. apply (hlin_sound hlle_step_expected). reflexivity.
  - intros. rewrite (hlin_sound col _ Hc). symmetry. apply (hlin_sound hlle_col_expected). reflexivity.
Qed.
