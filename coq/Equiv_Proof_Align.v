(* ====================================================================== *)
(*  Equiv_Proof_Align.v — C12: the global alignment matrices of the        *)
(*  locally linear family (linear_weight_matrix: KLLE, NPE;                *)
(*  tangent_weight_matrix: KLTSA, LLTSA) under a permutation of the        *)
(*  samples, and their row / column sums (what makes X M X^T translation   *)
(*  invariant: Equiv_Proof_Rigid.pencil_lhs_translate).                    *)
(*  The local solves / local eigenvectors are oracles: `w` and `Gx` are    *)
(*  arbitrary functions of (sample, position); the hypothesis is only      *)
(*  that the permuted problem is handed the same local values              *)
(*  (a consequence of the invariance of the local Grams, lle_gram_perm,    *)
(*  local_centered_gram_perm, when the local solver is a function).        *)
(* ====================================================================== *)
Require Import Field Ring Arith Lia List Bool.
From TK Require Import Mat_Sums Mat_Core Equiv_Model Equiv_Spec Equiv_Proof_Perm.
Import ListNotations.

Section Align.
  Context {F : Type} {Fo : FieldOps F} {Ff : IsField F}.
  Add Field EquivAlignField : (@Fth F Fo Ff).
  Local Open Scope F_scope.

  Lemma nbr_in_range n nb x a : rows_in_range n nb -> x < n -> nbr nb x a < n.
  Proof.
    intros Hr Hx. unfold nbr. destruct (nth_in_or_default a (nb x) x) as [Hin|He].
    - eapply Hr; eauto.
    - rewrite He. exact Hx.
  Qed.

  (* the a-th neighbour of new sample x' is p (a-th neighbour of old sample q x') *)
  Lemma nbr_pnbrs n p q nb x' a :
    is_bij n p q -> x' < n -> nbr (pnbrs p q nb) x' a = p (nbr nb (q x') a).
  Proof.
    intros (_ & _ & _ & Hpq) Hx. unfold nbr, pnbrs.
    rewrite <- (Hpq x' Hx) at 2. apply map_nth.
  Qed.

  Lemma delta_self_new_old n p q x' i :
    is_bij n p q -> x' < n -> i < n -> delta (F:=F) x' i = delta (q x') (q i).
  Proof.
    intros Hb Hx Hi. pose proof Hb as (_ & Hq & _ & Hpq).
    rewrite <- (Hpq x' Hx) at 1. eapply delta_bij; eauto.
  Qed.

  (* ------------------------------------------------------------------ *)
  (* permutation equivariance                                             *)
  (* ------------------------------------------------------------------ *)
  Theorem klle_M_perm n k p q nb (w w' : nat -> nat -> F) shift :
    is_bij n p q -> rows_in_range n nb ->
    (forall y a, y < n -> w' (p y) a = w y a) ->
    meq n n (klle_M n k (pnbrs p q nb) w' shift) (pact q (klle_M n k nb w shift)).
  Proof.
    intros Hb Hr Hw i j Hi Hj. pose proof Hb as (Hp & Hq & Hqp & Hpq).
    unfold pact, klle_M.
    rewrite <- (sumn_perm n p q (fun x =>
      delta x (q i) * delta x (q j) * (1 + shift)
      + sumn k (fun a => (delta (nbr nb x a) (q i) * delta x (q j)
                          + delta x (q i) * delta (nbr nb x a) (q j)) * - (w x a))
      + sumn k (fun a => sumn k (fun b =>
          delta (nbr nb x a) (q i) * delta (nbr nb x b) (q j) * (w x a * w x b)))) Hb).
    apply sumn_ext. intros x' Hx.
    assert (Hwx : forall a, w' x' a = w (q x') a).
    { intros a. rewrite <- (Hpq x' Hx) at 1. apply Hw. apply Hq. exact Hx. }
    assert (Hn : forall a t, t < n -> delta (F:=F) (nbr (pnbrs p q nb) x' a) t = delta (nbr nb (q x') a) (q t)).
    { intros a t Ht. rewrite (nbr_pnbrs n p q nb x' a Hb Hx).
      eapply delta_bij; eauto. apply nbr_in_range; [exact Hr|apply Hq; exact Hx]. }
    rewrite (delta_self_new_old n p q x' i Hb Hx Hi), (delta_self_new_old n p q x' j Hb Hx Hj).
    f_equal; [f_equal|].
    - apply sumn_ext. intros a _. rewrite (Hn a i Hi), (Hn a j Hj), Hwx. reflexivity.
    - apply sumn_ext. intros a _. apply sumn_ext. intros b _.
      rewrite (Hn a i Hi), (Hn b j Hj), !Hwx. reflexivity.
  Qed.

  Theorem kltsa_M_perm n k p q nb (Gx Gx' : nat -> mat F) shift :
    is_bij n p q -> rows_in_range n nb ->
    (forall y a b, y < n -> Gx' (p y) a b = Gx y a b) ->
    meq n n (kltsa_M n k (pnbrs p q nb) Gx' shift) (pact q (kltsa_M n k nb Gx shift)).
  Proof.
    intros Hb Hr Hg i j Hi Hj. pose proof Hb as (Hp & Hq & Hqp & Hpq).
    unfold pact, kltsa_M.
    rewrite <- (sumn_perm n p q (fun x =>
      delta x (q i) * delta x (q j) * shift
      + sumn k (fun a => delta (nbr nb x a) (q i) * delta (nbr nb x a) (q j) * 1)
      + sumn k (fun a => sumn k (fun b =>
          delta (nbr nb x a) (q i) * delta (nbr nb x b) (q j) * - (Gx x a b)))) Hb).
    apply sumn_ext. intros x' Hx.
    assert (Hgx : forall a b, Gx' x' a b = Gx (q x') a b).
    { intros a b. rewrite <- (Hpq x' Hx) at 1. apply Hg. apply Hq. exact Hx. }
    assert (Hn : forall a t, t < n -> delta (F:=F) (nbr (pnbrs p q nb) x' a) t = delta (nbr nb (q x') a) (q t)).
    { intros a t Ht. rewrite (nbr_pnbrs n p q nb x' a Hb Hx).
      eapply delta_bij; eauto. apply nbr_in_range; [exact Hr|apply Hq; exact Hx]. }
    rewrite (delta_self_new_old n p q x' i Hb Hx Hi), (delta_self_new_old n p q x' j Hb Hx Hj).
    f_equal; [f_equal|].
    - apply sumn_ext. intros a _. rewrite (Hn a i Hi), (Hn a j Hj). reflexivity.
    - apply sumn_ext. intros a _. apply sumn_ext. intros b _.
      rewrite (Hn a i Hi), (Hn b j Hj), Hgx. reflexivity.
  Qed.

  Theorem hlle_M_perm n k p q nb (Hx Hx' : nat -> mat F) :
    is_bij n p q -> rows_in_range n nb ->
    (forall y a b, y < n -> Hx' (p y) a b = Hx y a b) ->
    meq n n (hlle_M n k (pnbrs p q nb) Hx') (pact q (hlle_M n k nb Hx)).
  Proof.
    intros Hb Hr Hg i j Hi Hj. pose proof Hb as (Hp & Hq & Hqp & Hpq).
    unfold pact, hlle_M.
    rewrite <- (sumn_perm n p q (fun x => sumn k (fun a => sumn k (fun b =>
          delta (nbr nb x a) (q i) * delta (nbr nb x b) (q j) * Hx x a b))) Hb).
    apply sumn_ext. intros x' Hxn.
    assert (Hgx : forall a b, Hx' x' a b = Hx (q x') a b).
    { intros a b. rewrite <- (Hpq x' Hxn) at 1. apply Hg. apply Hq. exact Hxn. }
    assert (Hn : forall a t, t < n -> delta (F:=F) (nbr (pnbrs p q nb) x' a) t = delta (nbr nb (q x') a) (q t)).
    { intros a t Ht. rewrite (nbr_pnbrs n p q nb x' a Hb Hxn).
      eapply delta_bij; eauto. apply nbr_in_range; [exact Hr|apply Hq; exact Hxn]. }
    apply sumn_ext. intros a _. apply sumn_ext. intros b _.
    rewrite (Hn a i Hi), (Hn b j Hj), Hgx. reflexivity.
  Qed.

  (* ------------------------------------------------------------------ *)
  (* row and column sums                                                  *)
  (* ------------------------------------------------------------------ *)
  (* sum over t < n of delta u t * c = c for u < n *)
  Lemma sum_delta_r n u (c : F) : u < n -> sumn n (fun t => delta u t * c) = c.
  Proof. intros Hu. rewrite sumn_delta_l by exact Hu. reflexivity. Qed.

  (* weights sum to one (weights /= weights.sum()): every row and column of the KLLE
     alignment matrix sums to the shift (so to 0 for shift = 0) *)
  Theorem klle_M_row_sums n k nb (w : nat -> nat -> F) shift i :
    rows_in_range n nb -> i < n -> (forall x, x < n -> sumn k (fun a => w x a) = 1) ->
    sumn n (fun j => klle_M n k nb w shift i j) = shift.
  Proof.
    intros Hr Hi Hw. unfold klle_M. rewrite sumn_swap.
    rewrite (sumn_ext n _ (fun x => delta x i * shift)).
    - rewrite (sumn_ext n _ (fun x => delta i x * shift)) by (intros; rewrite delta_sym; reflexivity).
      apply sum_delta_r. exact Hi.
    - intros x Hx. rewrite !sumn_add.
      assert (E1 : sumn n (fun j => delta x i * delta x j * (1 + shift)) = delta x i * (1 + shift)).
      { rewrite (sumn_ext n _ (fun j => delta x j * (delta x i * (1 + shift)))) by (intros; ring).
        apply sum_delta_r. exact Hx. }
      assert (E2 : sumn n (fun j => sumn k (fun a =>
                     (delta (nbr nb x a) i * delta x j + delta x i * delta (nbr nb x a) j) * - (w x a)))
                   = - sumn k (fun a => delta (nbr nb x a) i * w x a) - delta x i).
      { rewrite sumn_swap.
        rewrite (sumn_ext k _ (fun a => - (delta (nbr nb x a) i * w x a) - delta x i * w x a)).
        - rewrite sumn_sub, sumn_opp, (sumn_mul_l k (delta x i) (fun a => w x a)), (Hw x Hx). ring.
        - intros a _.
          rewrite (sumn_ext n _ (fun j => delta x j * (delta (nbr nb x a) i * - (w x a))
                                         + delta (nbr nb x a) j * (delta x i * - (w x a))))
            by (intros; ring).
          rewrite sumn_add, sum_delta_r by exact Hx.
          rewrite sum_delta_r by (apply nbr_in_range; assumption). ring. }
      assert (E3 : sumn n (fun j => sumn k (fun a => sumn k (fun b =>
                     delta (nbr nb x a) i * delta (nbr nb x b) j * (w x a * w x b))))
                   = sumn k (fun a => delta (nbr nb x a) i * w x a)).
      { rewrite sumn_swap. apply sumn_ext. intros a _. rewrite sumn_swap.
        rewrite (sumn_ext k _ (fun b => delta (nbr nb x a) i * w x a * w x b)).
        - rewrite (sumn_mul_l k (delta (nbr nb x a) i * w x a) (fun b => w x b)), (Hw x Hx). ring.
        - intros b _.
          rewrite (sumn_ext n _ (fun j => delta (nbr nb x b) j * (delta (nbr nb x a) i * (w x a * w x b))))
            by (intros; ring).
          rewrite sum_delta_r by (apply nbr_in_range; assumption). ring. }
      rewrite E1, E2, E3. ring.
  Qed.

  (* the matrix is symmetric by construction, so the column sums are the same *)
  Lemma klle_M_sym n k nb (w : nat -> nat -> F) shift i j :
    klle_M n k nb w shift i j = klle_M n k nb w shift j i.
  Proof.
    unfold klle_M. apply sumn_ext. intros x _. f_equal; [f_equal|].
    - ring.
    - apply sumn_ext. intros a _. ring.
    - rewrite sumn_swap. apply sumn_ext. intros a _. apply sumn_ext. intros b _. ring.
  Qed.

  Theorem klle_M_zero_sums n k nb (w : nat -> nat -> F) :
    rows_in_range n nb -> (forall x, x < n -> sumn k (fun a => w x a) = 1) ->
    zero_row_col_sums n (klle_M n k nb w 0).
  Proof.
    intros Hr Hw. split.
    - intros r Hrr. apply klle_M_row_sums; assumption.
    - intros c Hc. rewrite (sumn_ext n _ (fun r => klle_M n k nb w 0 c r)) by (intros; apply klle_M_sym).
      apply klle_M_row_sums; assumption.
  Qed.

  (* the local projector contains the constant vector (first column of G is 1/sqrt k and the
     other columns are orthogonal to it): G G^T 1 = 1, i.e. every row of Gx sums to 1 *)
  Theorem kltsa_M_row_sums n k nb (Gx : nat -> mat F) shift i :
    rows_in_range n nb -> i < n -> (forall x a, x < n -> a < k -> sumn k (fun b => Gx x a b) = 1) ->
    sumn n (fun j => kltsa_M n k nb Gx shift i j) = shift.
  Proof.
    intros Hr Hi Hg. unfold kltsa_M. rewrite sumn_swap.
    rewrite (sumn_ext n _ (fun x => delta x i * shift)).
    - rewrite (sumn_ext n _ (fun x => delta i x * shift)) by (intros; rewrite delta_sym; reflexivity).
      apply sum_delta_r. exact Hi.
    - intros x Hx. rewrite !sumn_add.
      assert (E1 : sumn n (fun j => delta x i * delta x j * shift) = delta x i * shift).
      { rewrite (sumn_ext n _ (fun j => delta x j * (delta x i * shift))) by (intros; ring).
        apply sum_delta_r. exact Hx. }
      assert (E2 : sumn n (fun j => sumn k (fun a => delta (nbr nb x a) i * delta (nbr nb x a) j * 1))
                   = sumn k (fun a => delta (nbr nb x a) i)).
      { rewrite sumn_swap. apply sumn_ext. intros a _.
        rewrite (sumn_ext n _ (fun j => delta (nbr nb x a) j * (delta (nbr nb x a) i))) by (intros; ring).
        apply sum_delta_r. apply nbr_in_range; assumption. }
      assert (E3 : sumn n (fun j => sumn k (fun a => sumn k (fun b =>
                     delta (nbr nb x a) i * delta (nbr nb x b) j * - (Gx x a b))))
                   = - sumn k (fun a => delta (nbr nb x a) i)).
      { rewrite sumn_swap. rewrite <- sumn_opp. apply sumn_ext. intros a Ha. rewrite sumn_swap.
        rewrite (sumn_ext k _ (fun b => - (delta (nbr nb x a) i) * Gx x a b)).
        - rewrite (sumn_mul_l k (- delta (nbr nb x a) i) (fun b => Gx x a b)), (Hg x a Hx Ha). ring.
        - intros b _.
          rewrite (sumn_ext n _ (fun j => delta (nbr nb x b) j * (delta (nbr nb x a) i * - (Gx x a b))))
            by (intros; ring).
          rewrite sum_delta_r by (apply nbr_in_range; assumption). ring. }
      rewrite E1, E2, E3. ring.
  Qed.

End Align.
