(* Conn_Model_Rec.v — executable model of a REJECTED variant of connected.hpp, kept as a
   regression model (seeded change C01_1_r2): the explicit-stack search rewritten as plain
   recursion,

     void visit_reachable(int current, adjacency, visited, nvisited) {
         visited[current] = true; ++nvisited;
         for (neighbor : adjacency[current])
             if (!visited[neighbor]) visit_reachable(neighbor, adjacency, visited, nvisited);
     }
     bool all_reachable_from_first(N, adjacency) { visited(N,false); nvisited = 0;
         visit_reachable(0, ...); return nvisited == N; }

   The decisions are those of the shipped search; what changes is WHERE the pending work
   lives: in nested activations of visit_reachable (call stack) instead of a std::stack on
   the heap.  `depth` counts the activations alive when the function is entered (the
   outermost call has depth 1), `hw` is the high-water mark of that count = the call-stack
   depth the run needs.  No proofs in this file. *)
From Coq Require Import List Arith Bool.
From TK Require Import Conn_Model.
Import ListNotations.

(* result: visited, nvisited, high-water mark of the number of nested activations *)
Fixpoint visit_rec (adj : graph) (fuel : nat) (current : nat)
         (visited : list bool) (nvisited : nat) (depth : nat) (hw : nat)
  : cres (list bool * nat * nat) :=
  match fuel with
  | 0 => CFuel
  | S fuel' =>
    match nth_error visited current with
    | None => COOB site_visited current (length visited)
    | Some _ =>
      let visited1 := set_nth visited current true in
      let nvisited1 := S nvisited in
      let hw1 := Nat.max hw depth in
      match nth_error adj current with
      | None => COOB site_rows current (length adj)
      | Some row =>
        (fix loop (cands : list nat) (vis : list bool) (nv : nat) (h : nat)
           : cres (list bool * nat * nat) :=
           match cands with
           | [] => COk (vis, nv, h)
           | c :: cs =>
             match nth_error vis c with
             | None => COOB site_visited c (length vis)
             | Some true => loop cs vis nv h
             | Some false =>
               match visit_rec adj fuel' c vis nv (S depth) h with
               | COk (vis', nv', h') => loop cs vis' nv' h'
               | COOB s i z => COOB s i z
               | CFuel => CFuel
               end
             end
           end) row visited1 nvisited1 hw1
      end
    end
  end.

(* decision and call-stack depth needed; fuel N + 1: every activation marks a new sample *)
Definition all_reachable_from_first_rec (N : nat) (adj : graph) : cres (bool * nat) :=
  match visit_rec adj (N + 1) 0 (repeat false N) 0 1 0 with
  | COk (_, nv, h) => COk (nv =? N, h)
  | COOB s i z => COOB s i z
  | CFuel => CFuel
  end.

(* the path 0 -> 1 -> ... -> N-1 (last sample points back to N-2): N lists of one entry *)
Definition path1 (N : nat) : graph :=
  map (fun i => [if S i <? N then S i else i - 1]) (seq 0 N).
