(* Dijkstra_Proof_Fib.v — the Fibonacci-heap flavour (frontier flags choose between
   insert and decrease_key) computes shortest-path weights PROVIDED the frontier flag
   that is set before the loop belongs to the source (fidx = src): true of the first
   overload, false of the shipped landmark overload (defect F4). *)
From Coq Require Import List ZArith Bool Arith Lia.
From TK Require Import Dijkstra_Model Dijkstra_Spec Dijkstra_Proof_Base Dijkstra_Proof_Core.
Import ListNotations.
Local Open Scope Z_scope.

(* ---------- the abstract indexed heap ---------- *)
Lemma fh_stored_true : forall i h, fh_stored i h = true <-> exists d, In (i, d) h.
Proof.
  intros i h. unfold fh_stored. rewrite existsb_exists. split.
  - intros ([y d] & Hin & He). cbn in He. apply Nat.eqb_eq in He. subst y. exists d; assumption.
  - intros (d & Hin). exists (i, d). split; [assumption|]. cbn. apply Nat.eqb_refl.
Qed.

Lemma fh_remove_in : forall u h y e, In (y, e) (fh_remove u h) <-> In (y, e) h /\ y <> u.
Proof.
  intros u h y e. unfold fh_remove. rewrite filter_In. cbn [fst].
  rewrite negb_true_iff, Nat.eqb_neq. tauto.
Qed.

Lemma fh_decrease_other : forall v nd h y e, y <> v ->
    (In (y, e) (fh_decrease v nd h) <-> In (y, e) h).
Proof.
  intros v nd h y e Hne. unfold fh_decrease. rewrite in_map_iff. split.
  - intros ([y' e'] & Heq & Hin). cbn [fst snd] in Heq.
    destruct (Nat.eqb y' v) eqn:E.
    + apply Nat.eqb_eq in E. subst y'. destruct (Z.ltb e' nd); inversion Heq; congruence.
    + inversion Heq; subst. assumption.
  - intros Hin. exists (y, e). split; [|assumption]. cbn [fst snd].
    apply Nat.eqb_neq in Hne. rewrite Hne. reflexivity.
Qed.

Lemma fh_decrease_self : forall v nd h e,
    In (v, e) (fh_decrease v nd h) <->
    exists d0, In (v, d0) h /\ e = (if Z.ltb d0 nd then d0 else nd).
Proof.
  intros v nd h e. unfold fh_decrease. rewrite in_map_iff. split.
  - intros ([y' e'] & Heq & Hin). cbn [fst snd] in Heq.
    destruct (Nat.eqb y' v) eqn:E.
    + apply Nat.eqb_eq in E. subst y'. exists e'. split; [assumption|].
      destruct (Z.ltb e' nd); inversion Heq; reflexivity.
    + inversion Heq; subst. rewrite Nat.eqb_refl in E. discriminate.
  - intros (d0 & Hin & ->). exists (v, d0). split; [|assumption]. cbn [fst snd].
    rewrite Nat.eqb_refl. destruct (Z.ltb d0 nd); reflexivity.
Qed.

Section Fib.
  Variable nbrs : list (list nat).
  Variable w : nat -> nat -> Z.
  Variable pick : list entry -> option entry.
  Variables N K : nat.
  Variable k : nat.
  Hypothesis Hwf : wf_graph nbrs N K.
  Hypothesis Hnn : nonneg_w nbrs w.
  Hypothesis Hpick : pick_ok pick.
  Hypothesis Hk : (k < N)%nat.

  Notation inv_core := (inv_core nbrs w N k).

  (* the heap holds exactly the frontier, keyed by the tentative distances *)
  Definition heap_fib (st : dstate) : Prop :=
    length (d_f st) = N /\
    (forall v d, In (v, d) (d_heap st) -> D st v = Some d /\ Sd st v = false /\ Fd st v = true) /\
    (forall v, Fd st v = true -> exists d, In (v, d) (d_heap st)).

  Definition inv_fib (st : dstate) : Prop := inv_core (fun _ _ => False) st /\ heap_fib st.

  Definition midf (u : nat) (du : Z) (ws : list nat) (st : dstate) : Prop :=
    inv_core (fun x v => x = u /\ In v ws) st /\ heap_fib st /\
    Sd st u = true /\ D st u = Some du /\
    (forall x dx, Sd st x = true -> D st x = Some dx -> dx <= du).

  Lemma midf_skip : forall u du v ws st,
      midf u du (v :: ws) st ->
      (exists dv, D st v = Some dv /\ dv <= du + w u v) ->
      midf u du ws st.
  Proof.
    intros u du v ws st (HI & HH & Hsu & Hdu & Hmax) (dv & Hdv & Hle).
    split; [|split; [exact HH | split; [exact Hsu | split; [exact Hdu | exact Hmax]]]].
    destruct HI as [H1 H2 H3 H4 H5 H6 H7 H8]. constructor; auto.
    intros x v' dx Hsx He Hdx.
    destruct (H5 x v' dx Hsx He Hdx) as [[-> [<-|Hin]]|Hr].
    - right. exists dv. split; [assumption|]. rewrite Hdu in Hdx. inversion Hdx; subst. assumption.
    - left. split; [reflexivity|assumption].
    - right. assumption.
  Qed.

  (* relaxing u -> v with any new flag array / heap that stores v at the new key and
     leaves the other indices alone *)
  Lemma midf_relax_gen : forall u du v ws st f2 h2,
      midf u du (v :: ws) st -> edge nbrs u v -> Sd st v = false ->
      lt_inf (du + w u v) (D st v) = true ->
      length f2 = N -> nth v f2 false = true ->
      (forall y, y <> v -> nth y f2 false = Fd st y) ->
      In (v, du + w u v) h2 ->
      (forall y e, In (y, e) h2 -> (y = v /\ e = du + w u v) \/ (y <> v /\ In (y, e) (d_heap st))) ->
      (forall y e, y <> v -> In (y, e) (d_heap st) -> In (y, e) h2) ->
      midf u du ws (mkD (upd (d_dist st) v (Some (du + w u v))) (d_s st) f2 h2).
  Proof.
    intros u du v ws st f2 h2 (HI & HH & Hsu & Hdu & Hmax) He Hsv Hlt Hf2len Hf2v Hf2o Ha Hb Hc.
    set (nd := du + w u v) in *.
    set (st2 := mkD (upd (d_dist st) v (Some nd)) (d_s st) f2 h2).
    pose proof (Hnn u v He) as Hw.
    destruct (edge_lt nbrs N K Hwf u v He) as [HuN HvN].
    destruct HI as [H1 H2 H3 H4 H5 H6 H7 H8].
    destruct HH as (HF1 & HF2 & HF3).
    assert (Huv : v <> u) by (intros ->; congruence).
    assert (HDv : D st2 v = Some nd).
    { unfold D; cbn [st2 d_dist]. apply nth_upd_eq. lia. }
    assert (HDo : forall y, v <> y -> D st2 y = D st y).
    { intros y Hy. unfold D; cbn [st2 d_dist]. apply nth_upd_neq. assumption. }
    assert (HS : forall y, Sd st2 y = Sd st y) by reflexivity.
    assert (Hlt' : forall d, D st v = Some d -> nd < d).
    { intros d Hd. rewrite Hd in Hlt. cbn in Hlt. apply Z.ltb_lt. assumption. }
    assert (Hdu0 : 0 <= du).
    { destruct (H4 u du Hdu) as (n & HP & _). eapply pathn_nonneg; eauto. }
    assert (Hvk : v <> k).
    { intros ->. specialize (Hlt' 0 H3). unfold nd in Hlt'. lia. }
    split; [|split; [|split; [|split]]].
    - constructor.
      + cbn [st2 d_dist]. rewrite upd_length. assumption.
      + assumption.
      + rewrite HDo by assumption. assumption.
      + intros y d Hd. destruct (Nat.eq_dec v y) as [<-|Hne].
        * rewrite HDv in Hd. inversion Hd; subst d.
          destruct (H4 u du Hdu) as (n & HP & Hn).
          exists (S n). split; [constructor; assumption|].
          rewrite HS, Hsv. cbn [st2 d_s]. rewrite Hsu in Hn. cbn [b2n] in *. lia.
        * rewrite HDo in Hd by assumption. apply H4. assumption.
      + intros x v' dx Hsx He' Hdx.
        assert (Hxv : v <> x) by (intros <-; rewrite HS in Hsx; congruence).
        rewrite HDo in Hdx by assumption.
        destruct (Nat.eq_dec v v') as [<-|Hne].
        * right. exists nd. split; [assumption|].
          destruct (H5 x v dx Hsx He' Hdx) as [[-> _]|(dv & Hdv & Hle)].
          -- rewrite Hdu in Hdx. inversion Hdx; subst dx. unfold nd. lia.
          -- specialize (Hlt' dv Hdv). lia.
        * rewrite HDo by assumption.
          destruct (H5 x v' dx Hsx He' Hdx) as [[-> [Heq|Hin]]|Hr].
          -- contradiction.
          -- left. split; [reflexivity|assumption].
          -- right. assumption.
      + intros x Hsx. assert (Hxv : v <> x) by (intros <-; rewrite HS in Hsx; congruence).
        rewrite HDo by assumption. apply H6. assumption.
      + intros y d HyN Hsy Hd. cbn [st2 d_heap]. destruct (Nat.eq_dec v y) as [<-|Hne].
        * rewrite HDv in Hd. inversion Hd; subst d. exact Ha.
        * rewrite HDo in Hd by assumption. apply Hc; [congruence|]. apply H7; assumption.
      + intros x dx y d Hsx Hdx Hin.
        assert (Hxv : v <> x) by (intros <-; rewrite HS in Hsx; congruence).
        rewrite HDo in Hdx by assumption. cbn [st2 d_heap] in Hin.
        destruct (Hb y d Hin) as [[-> ->]|[Hyv Hin']].
        * specialize (Hmax x dx Hsx Hdx). lia.
        * eapply H8; eauto.
    - split; [exact Hf2len|]. split.
      + intros y d Hin. cbn [st2 d_heap] in Hin. unfold Fd; cbn [st2 d_f].
        destruct (Hb y d Hin) as [[-> ->]|[Hyv Hin']].
        * split; [exact HDv|]. split; [rewrite HS; exact Hsv | exact Hf2v].
        * destruct (HF2 y d Hin') as (Y1 & Y2 & Y3).
          split; [rewrite HDo by congruence; exact Y1|]. split; [rewrite HS; exact Y2|].
          rewrite Hf2o by assumption. exact Y3.
      + intros y Hy. unfold Fd in Hy; cbn [st2 d_f] in Hy. cbn [st2 d_heap].
        destruct (Nat.eq_dec y v) as [->|Hne].
        * exists nd. exact Ha.
        * rewrite Hf2o in Hy by assumption. destruct (HF3 y Hy) as (d & Hin).
          exists d. apply Hc; assumption.
    - assumption.
    - rewrite HDo by assumption. assumption.
    - intros x dx Hsx Hdx.
      assert (Hxv : v <> x) by (intros <-; rewrite HS in Hsx; congruence).
      rewrite HDo in Hdx by assumption. eapply Hmax; eauto.
  Qed.

  Lemma relax_fib_mid : forall u du ws st,
      (forall v, In v ws -> edge nbrs u v) -> midf u du ws st ->
      exists st', relax_fib w u ws st = DOk st' /\ midf u du [] st' /\ d_s st' = d_s st.
  Proof.
    intros u du ws; induction ws as [|v ws IH]; intros st Hed Hmid.
    - exists st. split; [reflexivity | split; [exact Hmid | reflexivity]].
    - assert (He : edge nbrs u v) by (apply Hed; left; reflexivity).
      assert (Hed' : forall v', In v' ws -> edge nbrs u v') by (intros; apply Hed; right; assumption).
      destruct (edge_lt nbrs N K Hwf u v He) as [HuN HvN].
      pose proof Hmid as (HI & HH & Hsu & Hdu & Hmax).
      pose proof (ic_len_d _ _ _ _ _ _ HI) as HLd. pose proof (ic_len_s _ _ _ _ _ _ HI) as HLs.
      pose proof HH as (HLf & HF2 & HF3).
      assert (Es : nth_error (d_s st) v = Some (Sd st v))
        by (apply nth_error_nth_some; lia).
      assert (Edu : nth_error (d_dist st) u = Some (Some du)).
      { rewrite <- Hdu. apply nth_error_nth_some. lia. }
      assert (Edv : nth_error (d_dist st) v = Some (D st v))
        by (apply nth_error_nth_some; lia).
      assert (Ef : nth_error (d_f st) v = Some (Fd st v))
        by (apply nth_error_nth_some; lia).
      cbn [relax_fib]. rewrite Es. destruct (Sd st v) eqn:Esv.
      + destruct (ic_fin _ _ _ _ _ _ HI v Esv) as (dv & Hdv).
        assert (Hm' : midf u du ws st).
        { eapply midf_skip; eauto. exists dv. split; [assumption|].
          specialize (Hmax v dv Esv Hdv). specialize (Hnn u v He). lia. }
        destruct (IH st Hed' Hm') as (st' & R & M & S1). exists st'. auto.
      + rewrite Edu, Edv, Ef. destruct (lt_inf (du + w u v) (D st v)) eqn:Elt.
        * destruct (Fd st v) eqn:Efv.
          -- (* decrease_key *)
             destruct (HF3 v Efv) as (d0 & Hin0).
             destruct (HF2 v d0 Hin0) as (Hd0 & _ & _).
             assert (Hnd : du + w u v < d0).
             { rewrite Hd0 in Elt. cbn in Elt. apply Z.ltb_lt. assumption. }
             assert (Hm' : midf u du ws
                             (mkD (upd (d_dist st) v (Some (du + w u v))) (d_s st) (d_f st)
                                  (fh_decrease v (du + w u v) (d_heap st)))).
             { apply midf_relax_gen;
                 [exact Hmid | exact He | exact Esv | exact Elt | exact HLf | exact Efv | | | | ].
               - intros y _. reflexivity.
               - apply fh_decrease_self. exists d0. split; [assumption|].
                 destruct (Z.ltb d0 (du + w u v)) eqn:E; [apply Z.ltb_lt in E; lia | reflexivity].
               - intros y e Hin. destruct (Nat.eq_dec y v) as [->|Hne].
                 + left. split; [reflexivity|]. apply fh_decrease_self in Hin.
                   destruct Hin as (d1 & Hin1 & ->). destruct (HF2 v d1 Hin1) as (Hd1 & _ & _).
                   rewrite Hd0 in Hd1. inversion Hd1; subst d1.
                   destruct (Z.ltb d0 (du + w u v)) eqn:E; [apply Z.ltb_lt in E; lia | reflexivity].
                 + right. split; [assumption|]. apply fh_decrease_other in Hin; assumption.
               - intros y e Hne Hin. apply fh_decrease_other; assumption. }
             destruct (IH _ Hed' Hm') as (st' & R & M & S1). exists st'. auto.
          -- (* insert *)
             assert (Hns : fh_stored v (d_heap st) = false).
             { destruct (fh_stored v (d_heap st)) eqn:E; [|reflexivity].
               apply fh_stored_true in E. destruct E as (d0 & Hin0).
               destruct (HF2 v d0 Hin0) as (_ & _ & Hf). congruence. }
             assert (Hm' : midf u du ws
                             (mkD (upd (d_dist st) v (Some (du + w u v))) (d_s st)
                                  (upd (d_f st) v true)
                                  (fh_insert v (du + w u v) (d_heap st)))).
             { unfold fh_insert. rewrite Hns.
               apply midf_relax_gen; [exact Hmid | exact He | exact Esv | exact Elt | | | | | | ].
               - rewrite upd_length. assumption.
               - apply nth_upd_eq. lia.
               - intros y Hy. unfold Fd. apply nth_upd_neq. congruence.
               - left; reflexivity.
               - intros y e [Heq|Hin].
                 + inversion Heq; subst. left; auto.
                 + right. split; [|assumption]. intros ->.
                   assert (fh_stored v (d_heap st) = true) by (apply fh_stored_true; eauto).
                   congruence.
               - intros y e _ Hin. right; assumption. }
             destruct (IH _ Hed' Hm') as (st' & R & M & S1). exists st'. auto.
        * assert (Hm' : midf u du ws st).
          { eapply midf_skip; eauto. destruct (D st v) as [dv|]; cbn in Elt; [|discriminate].
            exists dv. split; [reflexivity|]. apply Z.ltb_ge in Elt. assumption. }
          destruct (IH st Hed' Hm') as (st' & R & M & S1). exists st'. auto.
  Qed.

  Definition measure_fib (st : dstate) : nat := (N - count_true (d_s st))%nat.

  Lemma step_fib_ok : forall st, inv_fib st ->
      match step_fib nbrs w pick K st with
      | None => True
      | Some r => exists st', r = DOk st' /\ inv_fib st' /\ (measure_fib st' < measure_fib st)%nat
      end.
  Proof.
    intros st [HI HH]. unfold step_fib.
    destruct (d_heap st) as [|e0 h0] eqn:Eh; [exact I|].
    assert (Hnonempty : d_heap st <> []) by (rewrite Eh; discriminate).
    rewrite <- Eh.
    destruct (Hpick (d_heap st) Hnonempty) as (u & d & Ep & Hin & Hmin). rewrite Ep.
    pose proof (ic_len_d _ _ _ _ _ _ HI) as HLd. pose proof (ic_len_s _ _ _ _ _ _ HI) as HLs.
    destruct HH as (HLf & HF2 & HF3).
    destruct (HF2 u d Hin) as (Hdu & Esu & Efu).
    assert (HuN : (u < N)%nat) by (eapply D_lt; eauto).
    assert (Es : nth_error (d_s st) u = Some (Sd st u)) by (apply nth_error_nth_some; lia).
    rewrite Es.
    destruct (nbr_row_ok nbrs N K Hwf u HuN) as (row & Erow & Enr).
    unfold expand. rewrite Enr.
    assert (Hrow_edge : forall v, In v row -> edge nbrs u v).
    { intros v Hv. exists row. auto. }
    set (heap' := fh_remove u (d_heap st)).
    set (st1 := mkD (d_dist st) (upd (d_s st) u true) (upd (d_f st) u false) heap').
    assert (Hcount : count_true (d_s st1) = S (count_true (d_s st))).
    { cbn [st1 d_s]. apply count_true_upd_false_true; [lia | exact Esu]. }
    assert (HSu : Sd st1 u = true).
    { unfold Sd; cbn [st1 d_s]. apply nth_upd_eq. lia. }
    assert (HSo : forall y, u <> y -> Sd st1 y = Sd st y).
    { intros y Hy. unfold Sd; cbn [st1 d_s]. apply nth_upd_neq. assumption. }
    assert (HFu : Fd st1 u = false).
    { unfold Fd; cbn [st1 d_f]. apply nth_upd_eq. lia. }
    assert (HFo : forall y, u <> y -> Fd st1 y = Fd st y).
    { intros y Hy. unfold Fd; cbn [st1 d_f]. apply nth_upd_neq. assumption. }
    assert (HDs : forall y, D st1 y = D st y) by reflexivity.
    assert (Hmid : midf u d row st1).
    { destruct HI as [H1 H2 H3 H4 H5 H6 H7 H8].
      split; [|split; [|split; [|split]]].
      - constructor.
        + assumption.
        + cbn [st1 d_s]. rewrite upd_length. assumption.
        + assumption.
        + intros v dv Hdv. rewrite HDs in Hdv. destruct (H4 v dv Hdv) as (n & HP & Hn).
          exists n. split; [assumption|]. rewrite Hcount.
          destruct (Nat.eq_dec u v) as [<-|Hne].
          * rewrite HSu. rewrite Esu in Hn. cbn [b2n] in *. lia.
          * rewrite HSo by assumption. lia.
        + intros x v dx Hsx He Hdx. destruct (Nat.eq_dec u x) as [<-|Hne].
          * left. split; [reflexivity|]. destruct He as (row' & Er' & Hv').
            rewrite Erow in Er'. inversion Er'; subst row'. assumption.
          * rewrite HSo in Hsx by assumption. rewrite HDs in *.
            destruct (H5 x v dx Hsx He Hdx) as [[]|Hr]. right. exact Hr.
        + intros x Hsx. destruct (Nat.eq_dec u x) as [<-|Hne].
          * exists d. assumption.
          * rewrite HSo in Hsx by assumption. apply H6. assumption.
        + intros v dv HvN Hsv Hdv. destruct (Nat.eq_dec u v) as [<-|Hne]; [congruence|].
          rewrite HSo in Hsv by assumption. rewrite HDs in Hdv. cbn [st1 d_heap].
          apply fh_remove_in. split; [apply H7; assumption | congruence].
        + intros x dx y e Hsx Hdx Hy. rewrite HDs in Hdx. cbn [st1 d_heap] in Hy.
          apply fh_remove_in in Hy. destruct Hy as [Hy _].
          destruct (Nat.eq_dec u x) as [<-|Hne].
          * rewrite Hdu in Hdx. inversion Hdx; subst dx. eapply Hmin; eauto.
          * rewrite HSo in Hsx by assumption. eapply H8; eauto.
      - split; [cbn [st1 d_f]; rewrite upd_length; assumption|]. split.
        + intros v e Hv. cbn [st1 d_heap] in Hv. apply fh_remove_in in Hv. destruct Hv as [Hv Hne].
          destruct (HF2 v e Hv) as (Y1 & Y2 & Y3).
          split; [exact Y1|]. split; [rewrite HSo by congruence; exact Y2|].
          rewrite HFo by congruence. exact Y3.
        + intros v Hv. destruct (Nat.eq_dec u v) as [<-|Hne]; [congruence|].
          rewrite HFo in Hv by assumption. destruct (HF3 v Hv) as (e & He).
          exists e. cbn [st1 d_heap]. apply fh_remove_in. split; [assumption|congruence].
      - assumption.
      - assumption.
      - intros x dx Hsx Hdx. rewrite HDs in Hdx. destruct (Nat.eq_dec u x) as [<-|Hne].
        + rewrite Hdu in Hdx. inversion Hdx; lia.
        + rewrite HSo in Hsx by assumption. eapply H8; eauto. }
    destruct (relax_fib_mid u d row st1 Hrow_edge Hmid) as (st' & R & M & S1).
    fold heap'. fold st1. rewrite R. exists st'. split; [reflexivity|].
    destruct M as (HI' & HH' & _). split.
    - split; [|assumption].
      eapply inv_core_weaken; [|exact HI']. intros x v [_ []].
    - unfold measure_fib. rewrite S1, Hcount.
      pose proof (count_true_lt_of_false (d_s st) u ltac:(lia) Esu) as Hc.
      rewrite HLs in Hc. lia.
  Qed.

  (* the initial state, with the frontier flag of the SOURCE set *)
  Lemma init_fib : inv_fib (mkD (upd (repeat None N) k (Some 0)) (repeat false N)
                                (upd (repeat false N) k true) [(k, 0)]).
  Proof.
    split.
    - apply init_core; assumption.
    - split; [cbn [d_f]; rewrite upd_length; apply repeat_length|]. split.
      + intros v d [Heq|[]]. inversion Heq; subst v d. split; [|split].
        * unfold D; cbn [d_dist]. apply nth_upd_eq. rewrite repeat_length. assumption.
        * unfold Sd; cbn [d_s]. apply nth_repeat_any.
        * unfold Fd; cbn [d_f]. apply nth_upd_eq. rewrite repeat_length. assumption.
      + intros v Hv. unfold Fd in Hv; cbn [d_f] in Hv. destruct (Nat.eq_dec k v) as [<-|Hne].
        * exists 0. left; reflexivity.
        * rewrite nth_upd_neq in Hv by assumption. rewrite nth_repeat_any in Hv. discriminate.
  Qed.

  Theorem row_fib_is_sp :
      exists row, row_fib nbrs w pick N K k k = DOk row /\ length row = N /\
                  forall v, (v < N)%nat ->
                    is_sp nbrs w k v (nth v row None) /\
                    (forall d, nth v row None = Some d ->
                               exists n, pathn nbrs w k v d n /\ (n <= N)%nat).
  Proof.
    unfold row_fib, row_of, init_state.
    apply Nat.ltb_lt in Hk as Hk'. rewrite Hk'.
    set (st0 := mkD (upd (repeat None N) k (Some 0)) (repeat false N)
                    (upd (repeat false N) k true) [(k, 0)]).
    destruct (loop_rule inv_fib measure_fib (step_fib nbrs w pick K) step_fib_ok
                        (fuel_of N K) st0 init_fib) as (st' & EL & [HI HH] & Hend).
    { unfold measure_fib, fuel_of; cbn [st0 d_s]. lia. }
    rewrite EL. exists (d_dist st'). split; [reflexivity|]. split.
    - apply (ic_len_d _ _ _ _ _ _ HI).
    - assert (Hh : d_heap st' = []).
      { unfold step_fib in Hend. destruct (d_heap st'); [reflexivity|discriminate]. }
      intros v Hv. apply (final_core nbrs w N K k Hwf Hnn Hk st' HI Hh v Hv).
  Qed.
End Fib.
