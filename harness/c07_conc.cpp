// c07_conc.cpp — second harness for C07 (wave 4): is the returned projection function a FUNCTION of its argument when
// copies of it are applied from several application threads at once?  Includes only <tapkee/projection.hpp> (a few
// seconds to compile), so that it can be built a second time under ThreadSanitizer.
// One case per stdin line:
//   CONC D d T reps nq <P D*d> <m D> <Q nq*D>
//        ProjectingFunction pf(new MatrixProjectionImplementation(P, m)); sequential answers ref[j] = pf(q_j); then T
//        std::threads, each with its OWN copy of the ProjectingFunction (even threads: copy construction, odd threads:
//        copy ASSIGNMENT into an existing empty object), started together, apply their copy to every query `reps` times
//        in a thread-specific order and compare every answer BITWISE with the sequential one.
//        -> "C k", R calls <n>, R wrong <n>, and for the first wrong answer R first <thread> <query> <column> <got> <want>
//           (hex floats), R seqcheck <n> (sequential answers re-computed after the threads finished that differ), "END k"
// Numbers are decimal or hex-float on input, hex-float on output.  No OpenMP in this translation unit (libgomp is not
// instrumented by ThreadSanitizer); the OpenMP `parallel for` variant lives in harness/c07.cpp (command EMBC).
#define EIGEN_DONT_PARALLELIZE 1
#include <tapkee/projection.hpp>

#include <atomic>
#include <cstdio>
#include <cstdlib>
#include <cstring>
#include <iostream>
#include <mutex>
#include <sstream>
#include <string>
#include <thread>
#include <vector>

using namespace tapkee;

static bool read_num(std::istringstream& is, double& v)
{
    std::string tok;
    if (!(is >> tok)) return false;
    char* end = nullptr;
    v = std::strtod(tok.c_str(), &end);
    return end && *end == 0;
}

static bool read_matrix(std::istringstream& is, int n, int m, DenseMatrix& M)
{
    M.resize(n, m);
    for (int i = 0; i < n; i++)
        for (int j = 0; j < m; j++)
            if (!read_num(is, M(i, j))) return false;
    return true;
}

static bool same_bits(double a, double b)
{
    return std::memcmp(&a, &b, sizeof(double)) == 0;
}

int main()
{
    std::string line;
    int k = 0;
    while (std::getline(std::cin, line))
    {
        if (line.empty()) continue;
        std::istringstream is(line);
        std::string cmd;
        is >> cmd;
        std::printf("C %d\n", k);
        int D, d, T, reps, nq;
        DenseMatrix P, mr, Q;
        if (cmd != "CONC" || !(is >> D >> d >> T >> reps >> nq) || D < 0 || d < 0 || D > 100000 || d > 4096 || T < 1 || T > 64 ||
            reps < 1 || reps > 100000 || nq < 1 || nq > 100000 || !read_matrix(is, D, d, P) || !read_matrix(is, D, 1, mr) ||
            !read_matrix(is, nq, D, Q))
        {
            std::printf("X %d bad-input\nEND %d\n", k, k);
            std::fflush(stdout);
            k++;
            continue;
        }
        try
        {
            DenseVector m = mr.col(0);
            ProjectingFunction pf(new MatrixProjectionImplementation(P, m));
            std::vector<DenseVector> queries(nq), ref(nq);
            for (int j = 0; j < nq; j++)
            {
                queries[j] = Q.row(j).transpose();
                ref[j] = pf(queries[j]);
            }
            std::atomic<long> wrong(0), calls(0);
            std::atomic<int> ready(0);
            std::atomic<bool> go(false);
            std::mutex first_lock;
            bool have_first = false;
            int f_t = 0, f_q = 0, f_c = 0;
            double f_got = 0, f_want = 0;
            std::vector<std::thread> workers;
            for (int t = 0; t < T; t++)
            {
                workers.emplace_back([&, t]() {
                    ProjectingFunction constructed(pf); // copy construction
                    ProjectingFunction assigned;        // copy assignment into an existing (empty) object
                    assigned = pf;
                    ProjectingFunction& mine = (t % 2 == 0) ? constructed : assigned;
                    ready++;
                    while (!go.load()) std::this_thread::yield();
                    for (int r = 0; r < reps; r++)
                    {
                        for (int j = 0; j < nq; j++)
                        {
                            const int q = (int)(((long)j * (2 * t + 1) + 7L * t + r) % nq);
                            DenseVector y = mine(queries[q]);
                            calls++;
                            bool bad = (y.size() != ref[q].size());
                            int col = 0;
                            for (int c = 0; !bad && c < (int)y.size(); c++)
                                if (!same_bits(y[c], ref[q][c]))
                                {
                                    bad = true;
                                    col = c;
                                }
                            if (bad)
                            {
                                wrong++;
                                std::lock_guard<std::mutex> g(first_lock);
                                if (!have_first)
                                {
                                    have_first = true;
                                    f_t = t;
                                    f_q = q;
                                    f_c = col;
                                    f_got = y.size() > col ? y[col] : 0.0;
                                    f_want = ref[q].size() > col ? ref[q][col] : 0.0;
                                }
                            }
                        }
                    }
                });
            }
            while (ready.load() < T) std::this_thread::yield();
            go.store(true);
            for (auto& w : workers) w.join();
            long seq_bad = 0;
            for (int j = 0; j < nq; j++)
            {
                DenseVector y = pf(queries[j]);
                if (y.size() != ref[j].size())
                {
                    seq_bad++;
                    continue;
                }
                for (int c = 0; c < (int)y.size(); c++)
                    if (!same_bits(y[c], ref[j][c]))
                    {
                        seq_bad++;
                        break;
                    }
            }
            std::printf("R calls %ld\nR wrong %ld\nR seqcheck %ld\n", calls.load(), wrong.load(), seq_bad);
            if (have_first) std::printf("R first %d %d %d %a %a\n", f_t, f_q, f_c, f_got, f_want);
        }
        catch (const std::exception& e)
        {
            std::printf("X %d exception %s\n", k, e.what());
        }
        std::printf("END %d\n", k);
        std::fflush(stdout);
        k++;
    }
    return 0;
}
