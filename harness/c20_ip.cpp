// harness/c20_ip.cpp — property C20, oracle contract for the option-value parsers of cxxopts.
//
// The Coq model of the command line takes the numeric readings of option values from
//   * Cli_IntParse_Model.int_parse  (model of cxxopts::values::integer_parser<int>), and
//   * the double reading supplied by checks/c20.py (`stringstream >> double; if (!in) throw`).
// This program runs the REAL parsers of the cxxopts header the tool is compiled against on the same
// tokens, so that both are compared with the implementation on every run (thousands of tokens:
// the generators' vocabularies, boundary values around INT_MIN / INT_MAX / 2^32, random strings).
//
// stdin : one token per line, hex encoded ('-' = the empty string)
// stdout: one line per token:  <int or '-'> <double as C99 hex float or '-'>
#include <cxxopts.hpp>

#include <cstdio>
#include <iostream>
#include <string>

static std::string unhex(const std::string& h)
{
    std::string s;
    if (h == "-")
        return s;
    for (size_t i = 0; i + 1 < h.size(); i += 2)
        s.push_back(static_cast<char>(std::stoi(h.substr(i, 2), nullptr, 16)));
    return s;
}

int main()
{
    std::string line;
    while (std::getline(std::cin, line))
    {
        const std::string tok = unhex(line);
        int iv = 0;
        double dv = 0;
        bool iok = true, dok = true;
        try
        {
            cxxopts::values::parse_value(tok, iv);
        }
        catch (const std::exception&)
        {
            iok = false;
        }
        try
        {
            cxxopts::values::parse_value(tok, dv);
        }
        catch (const std::exception&)
        {
            dok = false;
        }
        if (iok)
            std::printf("%d ", iv);
        else
            std::printf("- ");
        if (dok)
            std::printf("%a\n", dv);
        else
            std::printf("-\n");
    }
    return 0;
}
