// c14.cpp — property C14: drives the real tapkee::embed with COUNTING callbacks on requests read
// from stdin and reports which exception (if any) leaves embed(), what was called before, and the
// parameter values the library echoes at debug level after merge(defaults).
//
// One request per line:
//   R <N> <mask> <stopf> <nkw> { <kwid> <T> <value> }*
//     N      number of samples (end - begin)
//     mask   bit0 real kernel callback, bit1 real distance callback, bit2 real features callback
//            (a missing callback is tapkee's dummy_*_callback: all 8 instantiations are compiled)
//     stopf  bit0: also stop at the first features vector() call (feature-only methods; keeps the
//            algorithm itself from running);  bit1 (wave 3): the call is made from INSIDE an application's own
//            `#pragma omp parallel num_threads(3)` region, by every thread at once, each with its own try/catch; the
//            outcome must be what the plain serial call gives (reported: the common outcome, or
//            other:threads-disagree:<a>/<b>/<c>; the counters fd cn pg and the echo are those of thread 0);
//            bit2: the same with nested parallelism switched on
//            bits 3-6 (wave 4): the C++ ROUTE the set takes from the comma expression to tapkee::embed
//              0 the set is passed as it is (copy-initialised from the expression, then by value)
//              1 copy construction            ParametersSet q(ps);
//              2 copy assignment, fresh set   ParametersSet q; q = ps;
//              3 copy assignment into a set that held another (valid, duplicate-free) expression before
//              4 copy assignment into a set that held an expression with a keyword given twice before
//              5 copy assignment, then self-assignment   q = ps; q = q;
//              6 kwargs[ps]
//              7 the chain interface   with(ps).withKernel(k).withDistance(d).withFeatures(f).embedRange(b, e)
//              8 the receiver of a user's merge()   ParametersSet q(ps); q.merge(ps); q.merge(ParametersSet());
//              9 std::move construction, then std::move assignment into a set that held a duplicate before
//             10 a std::vector<ParametersSet> slot that is overwritten by erase() of the element before it
//            whatever the route, the outcome must be the one documented for the comma expression
//     kwid   keyword numbering of translate/t_val.py (0..21); >= 100: a name tapkee does not know
//     T val  I <int> | S <hexfloat> | B 0/1 | M <method id> | N <neighbors id> | E <eigen id> |
//            C <strategy id> | P 0/1 (progress fn NULL / real) | X 0/1/2 (cancel NULL / returns false /
//            returns true) | O <tag> (a value of some other C++ type: 0 std::string, 1 float, 2 long,
//            3 unsigned, 4 char, 5 const char*, 6 short, 7 long double)
//   The value is given the keyword's own `kw = value` when its type is the keyword's declared type
//   (exactly what user code writes) and stichwort's public Parameter::create(name, value) otherwise.
//   The set is built with the comma operators, left to right.
//
// A sequence of requests in ONE process (wave 4: state that survives a call), one per line:
//   S <R line> / <R line> / ... / <R line>
//     the requests are made one after the other in the same child; the earlier ones run to their end (an exception or
//     the embedding; no callback ends the child, no parallel-region mode), only the LAST one is observed and reported,
//     with counters and echo reset before it: it must come out as it does in a fresh process.
//
// Structural probe of the container (wave 2), one per line:
//   P <na> { <kwid> <T> <value> }*na <nd> { <kwid> <T> <value> }*nd
//     drives stichwort::ParametersSet DIRECTLY (no tapkee::embed): A = the comma expression of the first
//     list written out literally for its arity ((ParametersSet)a, (a, b), (a, b, c), ... up to five, longer ones
//     chained), D = a second set (the `defaults` of this probe).  Reported as  key=[value];...  after the bar:
//       dup     1 iff A.check() throws multiple_parameter_error
//       ct      ok | wrong_type : A.checkTypes(D)
//       m:<name> <T>:<repr>   every entry of A (visit), T = the C++ type found by hasSameTypeAs against one
//                             reference parameter per type, repr = method id for M, Parameter::repr() otherwise
//       g:<name> <T>:<repr>   every entry of A after A.merge(D)
//       l:<kwid> found | missed   A[name] for every keyword of either list and for one name nobody set
//       rt<r>   <d><s>  (wave 4) A after route r (see R lines; all but the chain interface): d = check() throws,
//                       s = the map equals A's
//
// Direct probe of a predicate object of predicates.hpp (wave 2), one per line:
//   V <pred> <T> <nargs> { <arg> }* <value>     pred 0 Positivity 1 NonNegativity 2 InRange 3 InClosedRange,
//     T = I (IndexType, decimal) | S (ScalarType, hex float);  reports  r=[0|1] : P<T>(args)(value)
//
// Every request runs in a forked child (exceptions cannot leave OpenMP regions, and a mutated
// library may crash or hang): the first kernel()/distance() call ends the child with outcome
// stop:kernel / stop:distance — "validation accepted, evaluation starts".  Output, one line per request:
//   C <idx> <outcome> k=<n> d=<n> fv=<n> fd=<n> cn=<n> pg=<n> | name=[repr];name=[repr];...
//   outcome: no_data wrong_parameter wrong_parameter_type multiple_parameter missed_parameter
//            unsupported_method cancelled eigendecomposition_error not_enough_memory
//            stop:kernel stop:distance stop:features returned other:<what> crash:<signal|status> timeout
#include <cmath>
#include <cstdio>
#include <cstdlib>
#include <cstring>
#include <iostream>
#include <sstream>
#include <string>
#include <type_traits>
#include <vector>
#include <signal.h>
#include <omp.h>
#include <sys/wait.h>
#include <unistd.h>

#include <tapkee/tapkee.hpp>
#include <tapkee/callbacks/dummy_callbacks.hpp>

using namespace tapkee;
using stichwort::Parameter;
using stichwort::ParametersSet;

// ------------------------------------------------------------------ observation state (child)
static int g_out_fd = 1;
static int g_idx = 0;
static int g_stopf = 0;
static long n_kernel = 0, n_distance = 0, n_fvec = 0, n_fdim = 0, n_cancel = 0, n_progress = 0;
static std::string g_echo;
static int g_omp_mode = 0;
static int g_route = 0;
static bool g_final = true;     // false while an EARLIER request of a sequence runs (S lines): nothing ends the child
// in the parallel-region mode only the calls made by thread 0 of the application's region are counted / echoed
static inline bool observed_thread() { return !g_omp_mode || omp_get_ancestor_thread_num(1) == 0; }

static void emit_and_exit(const std::string& outcome)
{
    std::ostringstream os;
    std::string o = outcome;
    for (auto& ch : o)
        if (ch == '\n' || ch == ' ' || ch == '|') ch = '_';
    os << "C " << g_idx << " " << o << " k=" << n_kernel << " d=" << n_distance << " fv=" << n_fvec
       << " fd=" << n_fdim << " cn=" << n_cancel << " pg=" << n_progress << " | " << g_echo << "\n";
    std::string s = os.str();
    size_t off = 0;
    while (off < s.size())
    {
        ssize_t w = write(g_out_fd, s.data() + off, s.size() - off);
        if (w <= 0) break;
        off += (size_t)w;
    }
    _exit(0);
}

// ------------------------------------------------------------------ counting callbacks
static const int FEATURE_DIM = 24;   // larger than every N used, so target_dimension < N is also < D

struct counting_kernel
{
    ScalarType kernel(const int& a, const int& b) const
    {
#pragma omp critical(c14_obs)
        {
            n_kernel++;
            if (g_final) emit_and_exit("stop:kernel");
        }
        return a == b ? 1.0 : 0.0;
    }
};
struct counting_distance
{
    ScalarType distance(const int& a, const int& b) const
    {
#pragma omp critical(c14_obs)
        {
            n_distance++;
            if (g_final) emit_and_exit("stop:distance");
        }
        return a == b ? 0.0 : 1.0;
    }
};
struct counting_features
{
    IndexType dimension() const
    {
        if (observed_thread()) n_fdim++;
        return FEATURE_DIM;
    }
    void vector(const int& a, DenseVector& v) const
    {
#pragma omp critical(c14_obs)
        {
            n_fvec++;
            if (g_stopf && g_final) emit_and_exit("stop:features");
        }
        // well separated, full-rank, dyadic data
        for (int j = 0; j < FEATURE_DIM; j++)
            v(j) = (j == a % FEATURE_DIM ? 4.0 : 0.0) + 0.125 * ((a * 7 + j * 3) % 11) + 0.25 * a;
    }
};
typedef dummy_kernel_callback<int> no_kernel;
typedef dummy_distance_callback<int> no_distance;
typedef dummy_features_callback<int> no_features;

static bool cancel_false() { if (observed_thread()) n_cancel++; return false; }
static bool cancel_true() { if (observed_thread()) n_cancel++; return true; }
static void progress_fn(double) { if (observed_thread()) n_progress++; }

// ------------------------------------------------------------------ logger capturing the debug echo
struct capture_logger : public LoggerImplementation
{
    virtual void message_info(const std::string&) {}
    virtual void message_warning(const std::string&) {}
    virtual void message_error(const std::string&) {}
    virtual void message_benchmark(const std::string&) {}
    virtual void message_debug(const std::string& msg)
    {
        static const std::string pre = "Parameter ";
        if (!observed_thread()) return;
        if (msg.compare(0, pre.size(), pre) == 0)
        {
            size_t eq = msg.find(" = [");
            if (eq != std::string::npos && msg.size() >= 1 && msg[msg.size() - 1] == ']')
            {
                std::string e = msg.substr(pre.size(), eq - pre.size()) + "=" + msg.substr(eq + 3);
                for (auto& ch : e)
                    if (ch == ';' || ch == '\n' || ch == '|') ch = '_';
                g_echo += e + ";";
            }
        }
    }
};

// ------------------------------------------------------------------ keywords and values
template <class F> static bool with_keyword(int id, F f)
{
    switch (id)
    {
    case 0: f(computation_strategy); return true;
    case 1: f(method); return true;
    case 2: f(eigen_method); return true;
    case 3: f(neighbors_method); return true;
    case 4: f(num_neighbors); return true;
    case 5: f(target_dimension); return true;
    case 6: f(diffusion_map_timesteps); return true;
    case 7: f(gaussian_kernel_width); return true;
    case 8: f(max_iteration); return true;
    case 9: f(spe_global_strategy); return true;
    case 10: f(spe_num_updates); return true;
    case 11: f(spe_tolerance); return true;
    case 12: f(landmark_ratio); return true;
    case 13: f(nullspace_shift); return true;
    case 14: f(klle_shift); return true;
    case 15: f(check_connectivity); return true;
    case 16: f(fa_epsilon); return true;
    case 17: f(progress_function); return true;
    case 18: f(cancel_function); return true;
    case 19: f(sne_perplexity); return true;
    case 20: f(sne_theta); return true;
    case 21: f(squishing_rate); return true;
    default: return false;
    }
}

static const DimensionReductionMethod* method_by_id(int id)
{
    static const DimensionReductionMethod* tbl[] = {
        &KernelLocallyLinearEmbedding, &KernelLocalTangentSpaceAlignment, &DiffusionMap, &MultidimensionalScaling,
        &LandmarkMultidimensionalScaling, &Isomap, &LandmarkIsomap, &NeighborhoodPreservingEmbedding,
        &LinearLocalTangentSpaceAlignment, &HessianLocallyLinearEmbedding, &LaplacianEigenmaps,
        &LocalityPreservingProjections, &PrincipalComponentAnalysis, &KernelPrincipalComponentAnalysis,
        &RandomProjection, &StochasticProximityEmbedding, &PassThru, &FactorAnalysis,
        &tDistributedStochasticNeighborEmbedding, &ManifoldSculpting};
    if (id < 0 || id >= 20) return NULL;
    return tbl[id];
}

template <class KW, class V> static Parameter make_parameter(const KW& kw, const V& v)
{
    if constexpr (std::is_same<typename KW::Type, V>::value)
        return kw = v;                                   // what user code writes
    else
        return Parameter::create(kw.name, v);            // stichwort's public factory: any type
}

template <class V> static bool make_for(int kwid, const V& v, Parameter& out)
{
    if (kwid >= 100)
    {
        std::ostringstream nm;
        nm << "c14 unknown keyword " << kwid;
        out = Parameter::create(nm.str(), v);
        return true;
    }
    return with_keyword(kwid, [&](const auto& kw) { out = make_parameter(kw, v); });
}

static bool parse_parameter(std::istringstream& in, Parameter& out)
{
    int kwid;
    std::string ty, val;
    if (!(in >> kwid >> ty >> val)) return false;
    if (ty == "I") return make_for(kwid, (IndexType)atoi(val.c_str()), out);
    if (ty == "S") return make_for(kwid, (ScalarType)strtod(val.c_str(), NULL), out);
    if (ty == "B") return make_for(kwid, (bool)(val == "1"), out);
    if (ty == "M")
    {
        const DimensionReductionMethod* m = method_by_id(atoi(val.c_str()));
        if (!m) return false;
        return make_for(kwid, *m, out);
    }
    if (ty == "N")
    {
        int i = atoi(val.c_str());
        return make_for(kwid, i == 0 ? Brute : (i == 1 ? VpTree : CoverTree), out);
    }
    if (ty == "E")
    {
        int i = atoi(val.c_str());
        return make_for(kwid, i == 1 ? Randomized : Dense, out);      // Arpack is not compiled in
    }
    if (ty == "C") return make_for(kwid, HomogeneousCPUStrategy, out);
    if (ty == "P")
    {
        void (*p)(double) = (val == "1") ? &progress_fn : NULL;
        return make_for(kwid, p, out);
    }
    if (ty == "X")
    {
        bool (*c)() = (val == "2") ? &cancel_true : ((val == "1") ? &cancel_false : NULL);
        return make_for(kwid, c, out);
    }
    if (ty == "O")
    {
        switch (atoi(val.c_str()))
        {
        case 0: return make_for(kwid, std::string("4"), out);
        case 1: return make_for(kwid, (float)4.0f, out);
        case 2: return make_for(kwid, (long)4, out);
        case 3: return make_for(kwid, (unsigned)4u, out);
        case 4: return make_for(kwid, (char)'4', out);
        case 5: return make_for(kwid, (const char*)"4", out);
        case 6: return make_for(kwid, (short)4, out);
        case 7: return make_for(kwid, (long double)4.0L, out);
        default: return false;
        }
    }
    return false;
}

// ------------------------------------------------------------------ the comma expression, literally
static ParametersSet build_comma(const std::vector<Parameter>& ps_list)
{
    const size_t n = ps_list.size();
    if (n == 0) return ParametersSet();
    Parameter a = ps_list[0];
    if (n == 1)
    {
        ParametersSet s = a;                    // Parameter::operator ParametersSet()
        return s;
    }
    Parameter b = ps_list[1];
    if (n == 2) return (a, b);                  // Parameter::operator,
    Parameter c = ps_list[2];
    if (n == 3) return (a, b, c);               // ... then ParametersSet::operator,
    Parameter d = ps_list[3];
    if (n == 4) return (a, b, c, d);
    Parameter e = ps_list[4];
    if (n == 5) return (a, b, c, d, e);
    ParametersSet ps = (a, b, c, d, e);
    for (size_t i = 5; i < n; i++) (void)(ps, ps_list[i]);     // ParametersSet::operator, works in place
    return ps;
}

// ------------------------------------------------------------------ routes from the expression to embed() (wave 4)
// the previous contents of a re-used variable: values that differ from every default, so that anything that survives
// the assignment shows in the echo of the merged set
static ParametersSet used_without_duplicate()
{
    return (num_neighbors = 7, target_dimension = 1, gaussian_kernel_width = 2.5, method = PassThru,
            max_iteration = 17, check_connectivity = false);
}
static ParametersSet used_with_duplicate()
{
    return (target_dimension = 1, num_neighbors = 7, target_dimension = 2);
}

// every route except the chain interface ends in a set handed to `go` by const reference (embed() then takes it by
// value, as always); a route uses ONLY the operations it names, so that a defect of one operation shows on its routes
// and cannot be masked or spread by another.  Returns false for an unknown route.
template <class Go> static bool with_route(int route, const ParametersSet& ps, Go go)
{
    switch (route)
    {
    case 0: go(ps); return true;
    case 1: { ParametersSet q(ps); go(q); return true; }
    case 2: { ParametersSet q; q = ps; go(q); return true; }
    case 3: { ParametersSet q = used_without_duplicate(); q = ps; go(q); return true; }
    case 4: { ParametersSet q = used_with_duplicate(); q = ps; go(q); return true; }
    case 5: { ParametersSet q; q = ps; ParametersSet& same = q; q = same; go(q); return true; }
    case 6: { ParametersSet q = kwargs[ps]; go(q); return true; }
    case 7: go(ps); return true;             // the chain interface: see embed_outcome
    case 8: { ParametersSet q(ps); q.merge(ps); q.merge(ParametersSet()); go(q); return true; }
    case 9:
    {
        ParametersSet t1(ps);
        ParametersSet q(std::move(t1));
        ParametersSet u = used_with_duplicate();
        u = std::move(q);
        go(u);
        return true;
    }
    case 10:
    {
        std::vector<ParametersSet> v;
        v.push_back(used_with_duplicate());
        v.push_back(ps);
        v.push_back(used_without_duplicate());
        v.erase(v.begin());                  // v[0] = v[1]; v[1] = v[2]
        go(v[0]);
        return true;
    }
    default: return false;
    }
}

// ------------------------------------------------------------------ structural probe of the container
typedef void (*progress_fp)(double);
typedef bool (*cancel_fp)();

// the C++ type a parameter holds: the one conversion that does not throw wrong_parameter_type_error
template <class T> static bool converts_to(const Parameter& p)
{
    Parameter q = p;
    try { (void)q.operator T(); return true; }
    catch (const stichwort::wrong_parameter_type_error&) { return false; }
    catch (...) { return false; }
}

// hasSameTypeAs() exists since repair F27: the harness must still build against a tree without it
template <class P> static int same_type(const P& a, const P& b)
{
    if constexpr (requires { a.hasSameTypeAs(b); }) return a.hasSameTypeAs(b) ? 1 : 0;
    else return -1;
}

static std::string type_and_repr(const Parameter& p)
{
    static const Parameter refs[] = {
        Parameter::create("r", (IndexType)0), Parameter::create("r", (ScalarType)0), Parameter::create("r", (bool)false),
        Parameter::create("r", PassThru), Parameter::create("r", Brute), Parameter::create("r", Dense),
        Parameter::create("r", HomogeneousCPUStrategy), Parameter::create("r", (progress_fp)NULL),
        Parameter::create("r", (cancel_fp)NULL), Parameter::create("r", std::string("")),
        Parameter::create("r", (float)0), Parameter::create("r", (long)0), Parameter::create("r", (unsigned)0),
        Parameter::create("r", (char)0), Parameter::create("r", (const char*)""), Parameter::create("r", (short)0),
        Parameter::create("r", (long double)0)};
    static const char* tags[] = {"I", "S", "B", "M", "N", "E", "C", "P", "X", "O0", "O1", "O2", "O3", "O4", "O5", "O6", "O7"};
    const bool conv[] = {
        converts_to<IndexType>(p), converts_to<ScalarType>(p), converts_to<bool>(p), converts_to<DimensionReductionMethod>(p),
        converts_to<NeighborsMethod>(p), converts_to<EigenMethod>(p), converts_to<ComputationStrategy>(p),
        converts_to<progress_fp>(p), converts_to<cancel_fp>(p), converts_to<std::string>(p), converts_to<float>(p),
        converts_to<long>(p), converts_to<unsigned>(p), converts_to<char>(p), converts_to<const char*>(p),
        converts_to<short>(p), converts_to<long double>(p)};
    std::string tag = "?";
    int hits = 0;
    for (size_t i = 0; i < sizeof(refs) / sizeof(refs[0]); i++)
    {
        if (conv[i]) { tag = tags[i]; hits++; }
        // the two notions of type identity (getValue<T> and hasSameTypeAs) must agree
        int same = same_type(p, refs[i]);
        if (same >= 0 && (same == 1) != conv[i]) return std::string("?incoherent-") + tags[i] + ":" + p.repr();
    }
    if (hits != 1) tag = "?";
    if (tag == "M")
    {
        Parameter q = p;
        for (int i = 0; i < 20; i++)
            if (q.is(*method_by_id(i))) return tag + ":" + std::to_string(i);
        return tag + ":?";
    }
    return tag + ":" + p.repr();
}

static std::string name_of_kwid(int kwid)
{
    std::string nm;
    if (kwid >= 100)
    {
        std::ostringstream os;
        os << "c14 unknown keyword " << kwid;
        return os.str();
    }
    with_keyword(kwid, [&](const auto& kw) { nm = kw.name; });
    return nm;
}

template <class T> static T read_num(std::istringstream& in)
{
    std::string w;
    if (!(in >> w)) emit_and_exit("other:bad-request-line");
    if constexpr (std::is_same<T, IndexType>::value) return (IndexType)atoi(w.c_str());
    else return (ScalarType)strtod(w.c_str(), NULL);
}

template <class T> static void predicate_probe(std::istringstream& in, int pred, int nargs)
{
    using namespace tapkee::tapkee_internal;
    T a[2] = {T(), T()};
    for (int i = 0; i < nargs && i < 2; i++) a[i] = read_num<T>(in);
    T v = read_num<T>(in);
    bool r = false;
    if (pred == 0 && nargs == 0) r = Positivity<T>()(v);
    else if (pred == 1 && nargs == 0) r = NonNegativity<T>()(v);
    else if (pred == 2 && nargs == 2) r = InRange<T>(a[0], a[1])(v);
    else if (pred == 3 && nargs == 2) r = InClosedRange<T>(a[0], a[1])(v);
    else emit_and_exit("other:bad-request-line");
    g_echo = std::string("r=[") + (r ? "1" : "0") + "];";
    emit_and_exit("pred");
}

static void predicate_main(std::istringstream& in)
{
    int pred, nargs;
    std::string ty;
    if (!(in >> pred >> ty >> nargs)) emit_and_exit("other:bad-request-line");
    alarm(8);
    if (ty == "I") predicate_probe<IndexType>(in, pred, nargs);
    else predicate_probe<ScalarType>(in, pred, nargs);
}

// checkTypes() exists since repair F27: the harness must still build against a tree without it
template <class S> static std::string call_check_types(S& a, const S& d)
{
    if constexpr (requires { a.checkTypes(d); })
    {
        try { a.checkTypes(d); }
        catch (const stichwort::wrong_parameter_type_error&) { return "wrong_type"; }
        return "ok";
    }
    else
        return "absent";
}

static void probe_main(std::istringstream& in)
{
    std::vector<Parameter> la, ld;
    std::vector<int> ids;
    for (int pass = 0; pass < 2; pass++)
    {
        int n;
        if (!(in >> n) || n < 0 || n > 64) emit_and_exit("other:bad-request-line");
        for (int i = 0; i < n; i++)
        {
            std::streampos at = in.tellg();
            int kwid;
            if (!(in >> kwid)) emit_and_exit("other:bad-request-line");
            in.seekg(at);
            Parameter p;
            if (!parse_parameter(in, p)) emit_and_exit("other:bad-request-line");
            (pass == 0 ? la : ld).push_back(p);
            ids.push_back(kwid);
        }
    }
    ids.push_back(777);
    alarm(8);
    std::ostringstream os;
    try
    {
        ParametersSet A = build_comma(la);
        ParametersSet D;
        for (size_t i = 0; i < ld.size(); i++) D.add(ld[i]);
        bool dup = false;
        try { A.check(); }
        catch (const stichwort::multiple_parameter_error&) { dup = true; }
        os << "dup=[" << (dup ? 1 : 0) << "];";
        std::string ct = call_check_types(A, D);
        os << "ct=[" << ct << "];";
        A.visit([&](const Parameter& p) { os << "m:" << p.name() << "=[" << type_and_repr(p) << "];"; });
        for (size_t i = 0; i < ids.size(); i++)
        {
            std::string r = "found";
            try { Parameter p = A[name_of_kwid(ids[i])]; if (p.name() != name_of_kwid(ids[i])) r = "other"; }
            catch (const stichwort::missed_parameter_error&) { r = "missed"; }
            os << "l:" << ids[i] << "=[" << r << "];";
        }
        ParametersSet G = A;
        G.merge(D);
        G.visit([&](const Parameter& p) { os << "g:" << p.name() << "=[" << type_and_repr(p) << "];"; });
        // the copy must not have touched A, and merging must not have touched the duplicate list
        bool dup2 = false;
        try { G.check(); }
        catch (const stichwort::multiple_parameter_error&) { dup2 = true; }
        os << "dupg=[" << (dup2 ? 1 : 0) << "];";
        // wave 4: the set after every route (copy construction, the assignments, kwargs[], merge receiver, moves,
        // a vector slot): rt<r>=[<check() throws><map equal to A's>]
        std::ostringstream ref;
        {
            ParametersSet A2(A);
            A2.visit([&](const Parameter& p) { ref << p.name() << "=" << type_and_repr(p) << ";"; });
        }
        for (int route = 1; route <= 10; route++)
        {
            if (route == 7) continue;
            with_route(route, A, [&](const ParametersSet& r) {
                ParametersSet q(r);          // check() and visit() are not const
                bool d = false;
                try { q.check(); }
                catch (const stichwort::multiple_parameter_error&) { d = true; }
                std::ostringstream m;
                q.visit([&](const Parameter& p) { m << p.name() << "=" << type_and_repr(p) << ";"; });
                os << "rt" << route << "=[" << (d ? 1 : 0) << (m.str() == ref.str() ? 1 : 0) << "];";
            });
        }
    }
    catch (const std::exception& ex)
    {
        emit_and_exit(std::string("other:") + typeid(ex).name());
    }
    g_echo = os.str();
    for (auto& ch : g_echo)
        if (ch == '\n' || ch == '|') ch = '_';
    emit_and_exit("probe");
}

// ------------------------------------------------------------------ one request (in the child)
template <class K, class D, class F> static std::string embed_outcome(const std::vector<int>& idx, const ParametersSet& ps)
{
    std::string outcome;
    try
    {
        if (g_route == 7)
        {
            K k; D d; F f;
            TapkeeOutput out = tapkee::with(ps).withKernel(k).withDistance(d).withFeatures(f).embedRange(idx.begin(), idx.end());
            outcome = "returned";
        }
        else
        {
            TapkeeOutput out = embed(idx.begin(), idx.end(), K(), D(), F(), ps);
            outcome = "returned";
        }
    }
    catch (const no_data_error&) { outcome = "no_data"; }
    catch (const wrong_parameter_error&) { outcome = "wrong_parameter"; }
    catch (const wrong_parameter_type_error&) { outcome = "wrong_parameter_type"; }
    catch (const multiple_parameter_error&) { outcome = "multiple_parameter"; }
    catch (const missed_parameter_error&) { outcome = "missed_parameter"; }
    catch (const unsupported_method_error&) { outcome = "unsupported_method"; }
    catch (const cancelled_exception&) { outcome = "cancelled"; }
    catch (const eigendecomposition_error&) { outcome = "eigendecomposition_error"; }
    catch (const not_enough_memory_error&) { outcome = "not_enough_memory"; }
    catch (const std::exception& ex) { outcome = std::string("other:") + typeid(ex).name(); }
    catch (...) { outcome = "other:unknown"; }
    return outcome;
}

template <class K, class D, class F> static void run_embed(const std::vector<int>& idx, const ParametersSet& ps)
{
    if (!g_final)
    {
        (void)embed_outcome<K, D, F>(idx, ps);      // an earlier request of a sequence: its outcome is not reported
        return;
    }
    if (!g_omp_mode) emit_and_exit(embed_outcome<K, D, F>(idx, ps));
    // the application's own parallel region: every thread calls tapkee::embed, exceptions stay inside their thread
    std::string res[3];
    omp_set_dynamic(0);
    omp_set_max_active_levels((g_omp_mode & 2) ? 4 : 1);
#pragma omp parallel num_threads(3)
    {
        const int t = omp_get_thread_num();
        if (t >= 0 && t < 3) res[t] = embed_outcome<K, D, F>(idx, ps);
    }
    std::string outcome = res[0];
    // a team of fewer than three threads (OMP_THREAD_LIMIT) leaves the other slots empty: they do not vote
    for (int t = 1; t < 3; t++)
        if (!res[t].empty() && res[t] != res[0]) outcome = "other:threads-disagree:" + res[0] + "/" + res[1] + "/" + res[2];
    emit_and_exit(outcome);
}

static void run_request(const std::string& line);

static void child_main(const std::string& line)
{
    std::istringstream in(line);
    std::string tag;
    if (!line.empty() && line[0] == 'S')
    {
        // S <R line> / <R line> / ... : the requests are made one after the other in THIS process; only the last one
        // is reported (and must come out as it does in a fresh process)
        std::vector<std::string> parts;
        size_t at = 2;
        while (at <= line.size())
        {
            size_t sep = line.find(" / ", at);
            if (sep == std::string::npos) { parts.push_back(line.substr(at)); break; }
            parts.push_back(line.substr(at, sep - at));
            at = sep + 3;
        }
        if (parts.empty() || parts.size() > 8) emit_and_exit("other:bad-request-line");
        alarm(8);
        for (size_t i = 0; i + 1 < parts.size(); i++)
        {
            g_final = false;
            run_request(parts[i]);
        }
        g_final = true;
        n_kernel = n_distance = n_fvec = n_fdim = n_cancel = n_progress = 0;
        g_echo.clear();
        run_request(parts.back());
    }
    if (!line.empty() && line[0] == 'P')
    {
        in >> tag;
        probe_main(in);
    }
    if (!line.empty() && line[0] == 'V')
    {
        in >> tag;
        predicate_main(in);
    }
    run_request(line);
}

static void run_request(const std::string& line)
{
    std::istringstream in(line);
    std::string tag;
    int N, mask, stopf, nkw;
    if (!(in >> tag >> N >> mask >> stopf >> nkw) || tag != "R" || N < 0 || N > 4096 || nkw < 0)
        emit_and_exit("other:bad-request-line");
    g_stopf = stopf & 1;
    g_omp_mode = g_final ? (stopf >> 1) & 3 : 0;
    g_route = (stopf >> 3) & 15;
    std::vector<Parameter> ps_list;
    for (int i = 0; i < nkw; i++)
    {
        Parameter p;
        if (!parse_parameter(in, p)) emit_and_exit("other:bad-request-line");
        ps_list.push_back(p);
    }
    // the comma expression (a, b, c, ...): Parameter::operator, then ParametersSet::operator,
    const ParametersSet ps0 = build_comma(ps_list);
    std::vector<int> idx(N);
    for (int i = 0; i < N; i++) idx[i] = i;

    static bool logger_set = false;
    if (!logger_set)
    {
        Logging::instance().set_logger_impl(new capture_logger);
        Logging::instance().enable_debug();
        logger_set = true;
    }
    if (g_final) alarm(8);
    // C14_HALF = 0 / 1 compiles only the instantiations without / with a real features callback
    // (the check builds the two halves in parallel); unset: all eight
    bool known = false;
    try
    {
    known = with_route(g_route, ps0, [&](const ParametersSet& ps) {
    switch (mask & 7)
    {
#if !defined(C14_HALF) || C14_HALF == 0
    case 0: run_embed<no_kernel, no_distance, no_features>(idx, ps); break;
    case 1: run_embed<counting_kernel, no_distance, no_features>(idx, ps); break;
    case 2: run_embed<no_kernel, counting_distance, no_features>(idx, ps); break;
    case 3: run_embed<counting_kernel, counting_distance, no_features>(idx, ps); break;
#endif
#if !defined(C14_HALF) || C14_HALF == 1
    case 4: run_embed<no_kernel, no_distance, counting_features>(idx, ps); break;
    case 5: run_embed<counting_kernel, no_distance, counting_features>(idx, ps); break;
    case 6: run_embed<no_kernel, counting_distance, counting_features>(idx, ps); break;
    case 7: run_embed<counting_kernel, counting_distance, counting_features>(idx, ps); break;
#endif
    default: emit_and_exit("other:not-compiled-in-this-half");
    }
    });
    }
    catch (const std::exception& ex) { emit_and_exit(std::string("other:route-threw:") + typeid(ex).name()); }
    catch (...) { emit_and_exit("other:route-threw"); }
    if (!known) emit_and_exit("other:bad-request-line");
    if (g_final) emit_and_exit("other:fell-through");
}

// ------------------------------------------------------------------ parent: fork per request
int main()
{
    std::string line;
    int idx = 0;
    signal(SIGPIPE, SIG_IGN);
    while (std::getline(std::cin, line))
    {
        if (line.empty() || (line[0] != 'R' && line[0] != 'P' && line[0] != 'V' && line[0] != 'S')) continue;
        int fds[2];
        if (pipe(fds) != 0) { perror("pipe"); return 2; }
        fflush(stdout);
        pid_t pid = fork();
        if (pid < 0) { perror("fork"); return 2; }
        if (pid == 0)
        {
            close(fds[0]);
            g_out_fd = fds[1];
            g_idx = idx;
            // sanitizer reports of the child go to stderr of the parent (kept short by the check)
            child_main(line);
            _exit(0);
        }
        close(fds[1]);
        std::string got;
        char buf[4096];
        ssize_t r;
        while ((r = read(fds[0], buf, sizeof buf)) > 0) got.append(buf, (size_t)r);
        close(fds[0]);
        int status = 0;
        waitpid(pid, &status, 0);
        size_t nl = got.find('\n');
        if (nl != std::string::npos && got.compare(0, 2, "C ") == 0)
        {
            fwrite(got.data(), 1, nl + 1, stdout);
        }
        else
        {
            const char* what = "crash";
            int code = 0;
            if (WIFSIGNALED(status)) { code = WTERMSIG(status); if (code == SIGALRM) what = "timeout"; }
            else if (WIFEXITED(status)) code = 1000 + WEXITSTATUS(status);
            if (strcmp(what, "timeout") == 0) printf("C %d timeout k=0 d=0 fv=0 fd=0 cn=0 pg=0 | \n", idx);
            else printf("C %d crash:%d k=0 d=0 fv=0 fd=0 cn=0 pg=0 | \n", idx, code);
        }
        fflush(stdout);
        idx++;
    }
    return 0;
}
